import CalicoVerif.Proofs.C14
/-!
C14 — BPF conntrack cleanup never removes a live connection.

System: one `Scan` of the user-space scanner over the conntrack map `ct` at (cached) kernel time
`now` builds the clean-up queue; then ARBITRARY traffic happens (`Traffic`: entries may be created,
changed or evicted in any way, but everything created or changed carries a `last_seen` later than
anything the scan could have read); then the kernel cleaner walks the queue in ANY order, each
`process_ccq_entry` being one atomic compare-then-delete step.

Not covered: packets interleaved *inside* the scan's map iteration, and the few instructions between
the lookup and the delete inside `process_ccq_entry` (not closable by a BPF program; trusted base).
-/
namespace CalicoVerif.C14

/-- anything can happen to the map between the scan and the clean-up, except that an entry that is
new or was touched carries a time stamp later than `tReal` (the real time the scan finished reading). -/
def Traffic (tReal : Nat) (ct ct' : AMap Key Entry) : Prop :=
  ∀ k e', ct'.get k = some e' → ct.get k = some e' ∨ tReal < e'.lastSeen

/-- the justification the property asks for when the entry `e` under `x` is removed:
`ct` = map at judgement, `ct'` = map when the cleaner starts. -/
def Removal (gap : Bool) (t : Timeouts) (now : Nat) (ct ct' : AMap Key Entry) (x : Key) (e : Entry) : Prop :=
  (ct.get x = some e ∧                                   -- untouched since the judgement, and …
    ( (e.typ ≠ .fwd ∧ expired t now x.proto e = true)    -- … itself (normal / reverse entry) idle past its timeout when judged
    ∨ (∃ kf f, ct.get kf = some f ∧ f.typ = .fwd ∧ f.revKey = x ∧ expired t now kf.proto e = true)
                                                         -- … a reverse entry judged through its forward entry
    ∨ (e.typ = .fwd ∧ ct.get e.revKey = none)            -- … a forward entry whose reverse entry is gone
    ∨ (gap = true ∧ e.typ = .fwd ∧ ∃ r, ct.get e.revKey = some r ∧ expired t now x.proto r = true ∧
          r.lastSeen = e.lastSeen)))                     -- THE GAP: nothing is known about the reverse entry now
  ∨ (∃ r, ct.get e.revKey = some r ∧ expired t now x.proto r = true ∧ ct'.get e.revKey = some r)
                                                         -- forward entry of a pair whose reverse (tracking) entry
                                                         -- was idle past its timeout and is still untouched

/-- every queue item of a scan is backed by a judgement on the scanned map. -/
theorem scan_queue_sound (t : Timeouts) (now : Nat) (ct : AMap Key Entry) (items : List (Key × Entry))
    (ok : ItemsOK ct items) : ∀ kq ∈ scan t now ct items, QSound t now ct kq := by
  unfold scan
  obtain ⟨done, inv⟩ := scan_loop_inv (t := t) (now := now) items [] ⟨[], []⟩
    ⟨fun _ h => by simp at h, fun _ h => by simp at h⟩ ok (fun _ _ => by simp)
  exact scanEnd_sound inv

/-- **the kernel cleaner's compare-then-delete** (one `process_ccq_entry`). -/
theorem cleaner_compare_then_delete (ct : AMap Key Entry) (k : Key) (q : QVal) (x : Key) (e : Entry)
    (hx : ct.get x = some e) (hd : (cleanEntry ct k q).get x = none) : StepReason ct k q x e :=
  cleanEntry_deleted ct k q x e hx hd

/-- the cleaner never creates or alters an entry. -/
theorem cleaner_only_deletes (queue : AMap Key QVal) (ct : AMap Key Entry) : Sub (clean ct queue) ct :=
  clean_sub queue ct

theorem traffic_of_sub {tReal : Nat} {ct a b : AMap Key Entry} (h : Traffic tReal ct b) (hs : Sub a b) :
    Traffic tReal ct a := fun k e' he => h k e' (hs k e' he)

theorem traffic_trans {tReal : Nat} {ct a b : AMap Key Entry} (h1 : Traffic tReal ct a) (h2 : Traffic tReal a b) :
    Traffic tReal ct b := by
  intro k e' he
  rcases h2 k e' he with h | h
  · exact h1 k e' h
  · exact Or.inr h

/-- **one atomic cleaner step is safe** on any map `cur` that evolved from the scanned map `ct` by
traffic and earlier deletions. -/
theorem clean_step_safe_partial (t : Timeouts) (now tReal : Nat) (ct cur : AMap Key Entry) (kq : Key × QVal)
    (hs : QSound t now ct kq)
    (hold : ∀ k e, ct.get k = some e → e.lastSeen ≤ tReal)
    (hproto : ∀ k e, ct.get k = some e → k.proto ≠ 0)
    (htr : Traffic tReal ct cur)
    (x : Key) (e : Entry) (hg : cur.get x = some e) (hd : (cleanEntry cur kq.1 kq.2).get x = none) :
    Removal true t now ct cur x e := by
  have hr := cleanEntry_deleted cur kq.1 kq.2 x e hg hd
  unfold QSound at hs
  -- an entry of `cur` whose time stamp is one the scan read is an untouched entry of ct
  have untouched : ∀ y ey e0, cur.get y = some ey → ct.get y = some e0 → ey.lastSeen = e0.lastSeen → ct.get y = some ey := by
    intro y ey e0 h1 h2 h3
    rcases htr y ey h1 with h | h
    · exact h
    · have := hold y e0 h2; omega
  rcases hr with ⟨hp0, hxk, hl⟩ | ⟨hp, r1, hr1, hrl, hwhich⟩
  · -- plain item: own time stamp compared
    subst hxk
    by_cases hdk : kq.2.other = dummyKey
    · rw [if_pos hdk] at hs
      obtain ⟨e0, he0, hl0, hj⟩ := hs
      have hu := untouched _ e e0 hg he0 (by omega)
      have hee : e0 = e := by rw [he0] at hu; cases hu; rfl
      subst hee
      refine Or.inl ⟨he0, ?_⟩
      unfold Judged at hj
      cases hty : e0.typ <;> simp only [hty] at hj
      · exact Or.inl ⟨by simp, hj⟩
      · rcases hj with hj | ⟨r, h1, h2, h3⟩
        · exact Or.inr (Or.inr (Or.inl ⟨rfl, hj⟩))
        · exact Or.inr (Or.inr (Or.inr ⟨rfl, rfl, r, h1, h2, h3⟩))
      · exact Or.inl ⟨by simp, hj⟩
    · rw [if_neg hdk] at hs
      obtain ⟨f, r, _, _, _, hr, _, _⟩ := hs
      exact absurd hp0 (hproto _ _ hr)
  · -- pair item: the reverse entry's time stamp compared
    have hdk : kq.2.other ≠ dummyKey := by
      intro h; rw [h] at hp; exact hp rfl
    rw [if_neg hdk] at hs
    obtain ⟨f, r, hf, hft, hfr, hr, hrl0, hre⟩ := hs
    have hu := untouched _ r1 r hr1 hr (by omega)
    have hrr : r1 = r := by rw [hr] at hu; cases hu; rfl
    subst hrr
    rcases hwhich with hxo | ⟨hxk, hrev⟩
    · -- the reverse entry itself
      subst hxo
      rw [hg] at hr1; cases hr1
      exact Or.inl ⟨hr, Or.inr (Or.inl ⟨kq.1, f, hf, hft, hfr, hre⟩)⟩
    · -- the forward entry of the pair
      subst hxk
      refine Or.inr ⟨r1, ?_, hre, ?_⟩
      · rw [hrev]; exact hr
      · rw [hrev]; exact hr1

/-- the maps the cleaner can see: packets may arrive before the pass and between any two of its
(atomic) steps; the steps process queue items in any order, any number of times. -/
inductive CleanRun (tReal : Nat) (ct : AMap Key Entry) (queue : AMap Key QVal) : AMap Key Entry → Prop
  | start : CleanRun tReal ct queue ct
  | traffic {cur cur' : AMap Key Entry} : CleanRun tReal ct queue cur → Traffic tReal cur cur' → CleanRun tReal ct queue cur'
  | step {cur : AMap Key Entry} (kq : Key × QVal) : CleanRun tReal ct queue cur → kq ∈ queue →
      CleanRun tReal ct queue (cleanEntry cur kq.1 kq.2)

theorem CleanRun.traffic_from {tReal : Nat} {ct : AMap Key Entry} {queue : AMap Key QVal} {cur : AMap Key Entry}
    (r : CleanRun tReal ct queue cur) : Traffic tReal ct cur := by
  induction r with
  | start => exact fun _ _ h => Or.inl h
  | traffic _ h ih => exact traffic_trans ih h
  | step kq _ _ ih => exact traffic_of_sub ih (cleanEntry_sub _ _ _)

/-- **Safety under every interleaving of packets with the cleaner's steps** (partial: gap disjunct). -/
theorem interleaved_cleanup_safe_partial (t : Timeouts) (now tReal : Nat) (ct : AMap Key Entry) (queue : AMap Key QVal)
    (hq : ∀ kq ∈ queue, QSound t now ct kq)
    (hold : ∀ k e, ct.get k = some e → e.lastSeen ≤ tReal)
    (hproto : ∀ k e, ct.get k = some e → k.proto ≠ 0)
    {cur : AMap Key Entry} (r : CleanRun tReal ct queue cur) (kq : Key × QVal) (hm : kq ∈ queue)
    (x : Key) (e : Entry) (hg : cur.get x = some e) (hd : (cleanEntry cur kq.1 kq.2).get x = none) :
    Removal true t now ct cur x e :=
  clean_step_safe_partial t now tReal ct cur kq (hq kq hm) hold hproto r.traffic_from x e hg hd

/-- **Safety (partial: with the gap disjunct)**.  For every map, every timeout setting, every traffic
between judgement and clean-up and every queue order: an entry the cleaner removes was judged idle
past its timeout (itself, or its NAT pair through the reverse entry) and has not been touched since —
EXCEPT that a forward entry whose `last_seen` equals its reverse entry's is removed on its own
time stamp alone (`gap`), whatever happened to the reverse entry in between. -/
theorem cleanup_safe_partial (t : Timeouts) (now tReal : Nat) (ct ct' : AMap Key Entry) (queue : AMap Key QVal)
    (hq : ∀ kq ∈ queue, QSound t now ct kq)
    (hold : ∀ k e, ct.get k = some e → e.lastSeen ≤ tReal)
    (hproto : ∀ k e, ct.get k = some e → k.proto ≠ 0)
    (htr : Traffic tReal ct ct')
    (x : Key) (e : Entry) (hx : ct'.get x = some e) (hd : (clean ct' queue).get x = none) :
    Removal true t now ct ct' x e := by
  obtain ⟨kq, hm, ct1, hsub, hg, hr⟩ := clean_deleted' queue ct' x e hx hd
  have h := clean_step_safe_partial t now tReal ct ct1 kq (hq kq hm) hold hproto (traffic_of_sub htr hsub) x e hg hr
  -- `Removal` mentions the current map only positively (an entry is still there): lift it from ct1 to ct'
  rcases h with h | ⟨r, h1, h2, h3⟩
  · exact Or.inl h
  · exact Or.inr ⟨r, h1, h2, hsub _ _ h3⟩

/-- **The one situation excluded by the known finding** (`deleted-fwd-of-live-pair`): the removed entry
is a forward NAT entry, untouched since the scan, whose reverse entry existed at the scan, was idle
past its timeout, and carried EXACTLY the same `last_seen` as the forward entry.  Only then does the
scanner queue the forward entry on its own time stamp, and only then is nothing known about the
reverse entry when the cleaner acts. -/
def GapCase (t : Timeouts) (now : Nat) (ct : AMap Key Entry) (x : Key) (e : Entry) : Prop :=
  ct.get x = some e ∧ e.typ = .fwd ∧
    ∃ r, ct.get e.revKey = some r ∧ expired t now x.proto r = true ∧ r.lastSeen = e.lastSeen

theorem removal_gap_split (t : Timeouts) (now : Nat) (ct ct' : AMap Key Entry) (x : Key) (e : Entry) :
    Removal true t now ct ct' x e ↔ (Removal false t now ct ct' x e ∨ GapCase t now ct x e) := by
  unfold Removal GapCase
  constructor
  · rintro (⟨h0, h | h | h | ⟨_, h⟩⟩ | h)
    · exact Or.inl (Or.inl ⟨h0, Or.inl h⟩)
    · exact Or.inl (Or.inl ⟨h0, Or.inr (Or.inl h)⟩)
    · exact Or.inl (Or.inl ⟨h0, Or.inr (Or.inr (Or.inl h))⟩)
    · exact Or.inr ⟨h0, h⟩
    · exact Or.inl (Or.inr h)
  · rintro ((⟨h0, h | h | h | ⟨hf, _⟩⟩ | h) | ⟨h0, h⟩)
    · exact Or.inl ⟨h0, Or.inl h⟩
    · exact Or.inl ⟨h0, Or.inr (Or.inl h)⟩
    · exact Or.inl ⟨h0, Or.inr (Or.inr (Or.inl h))⟩
    · exact absurd hf (by decide)
    · exact Or.inr h
    · exact Or.inl ⟨h0, Or.inr (Or.inr (Or.inr ⟨rfl, h⟩))⟩

/-- **Safety outside the known finding**: every removal is fully justified (`Removal false`: judged idle
past its timeout — itself or through its reverse entry — and not touched since, the reverse entry of a
forward entry included) unless it is exactly the `GapCase`.  Anything else the cleaner might remove is
a violation of this theorem, i.e. is still reported by the check. -/
theorem cleanup_safe_except_gap (t : Timeouts) (now tReal : Nat) (ct : AMap Key Entry) (queue : AMap Key QVal)
    (hq : ∀ kq ∈ queue, QSound t now ct kq)
    (hold : ∀ k e, ct.get k = some e → e.lastSeen ≤ tReal)
    (hproto : ∀ k e, ct.get k = some e → k.proto ≠ 0)
    {cur : AMap Key Entry} (r : CleanRun tReal ct queue cur) (kq : Key × QVal) (hm : kq ∈ queue)
    (x : Key) (e : Entry) (hg : cur.get x = some e) (hd : (cleanEntry cur kq.1 kq.2).get x = none) :
    Removal false t now ct cur x e ∨ GapCase t now ct x e :=
  (removal_gap_split t now ct cur x e).1
    (interleaved_cleanup_safe_partial t now tReal ct queue hq hold hproto r kq hm x e hg hd)

/-! ### Packets interleaved inside the scan's iteration -/

/-- justification of a removal w.r.t. the map `ct` of the visit that judged it (same shape as `Removal`:
every expiry is under the protocol of the entry's own key or of the forward key that points at it). -/
def RemovalI (gap : Bool) (t : Timeouts) (now : Nat) (ct cur : AMap Key Entry) (x : Key) (e : Entry) : Prop :=
  (ct.get x = some e ∧                                   -- untouched since that visit, and …
    ( (e.typ ≠ .fwd ∧ expired t now x.proto e = true)    -- … itself idle past ITS timeout when judged
    ∨ (∃ kf f, ct.get kf = some f ∧ f.typ = .fwd ∧ f.revKey = x ∧ expired t now kf.proto e = true)
                                                         -- … a reverse entry judged through its forward entry
    ∨ (e.typ = .fwd ∧ ct.get e.revKey = none)            -- … a forward entry whose reverse entry was gone
    ∨ (gap = true ∧ GapCase t now ct x e)))              -- the known finding
  ∨ (∃ r, ct.get e.revKey = some r ∧
        (expired t now x.proto r = true ∨ (r.typ ≠ .fwd ∧ expired t now e.revKey.proto r = true)) ∧
        cur.get e.revKey = some r)                       -- forward entry of a pair whose reverse entry was judged
                                                         -- idle (under the forward key's or its own protocol)
                                                         -- and is still untouched

theorem clean_step_safeI_partial (t : Timeouts) (now tReal : Nat) (ct cur : AMap Key Entry) (kq : Key × QVal)
    (hs : QSoundI t now ct kq)
    (hold : ∀ k e, ct.get k = some e → e.lastSeen ≤ tReal)
    (hproto : ∀ k e, ct.get k = some e → k.proto ≠ 0)
    (htr : Traffic tReal ct cur)
    (x : Key) (e : Entry) (hg : cur.get x = some e) (hd : (cleanEntry cur kq.1 kq.2).get x = none) :
    RemovalI true t now ct cur x e := by
  have hr := cleanEntry_deleted cur kq.1 kq.2 x e hg hd
  unfold QSoundI at hs
  have untouched : ∀ y ey e0, cur.get y = some ey → ct.get y = some e0 → ey.lastSeen = e0.lastSeen → ct.get y = some ey := by
    intro y ey e0 h1 h2 h3
    rcases htr y ey h1 with h | h
    · exact h
    · have := hold y e0 h2; omega
  rcases hr with ⟨hp0, hxk, hl⟩ | ⟨hp, r1, hr1, hrl, hwhich⟩
  · subst hxk
    by_cases hdk : kq.2.other = dummyKey
    · rw [if_pos hdk] at hs
      obtain ⟨e0, he0, hl0, hj⟩ := hs
      have hu := untouched _ e e0 hg he0 (by omega)
      have hee : e0 = e := by rw [he0] at hu; cases hu; rfl
      subst hee
      refine Or.inl ⟨he0, ?_⟩
      have hj' := hj
      unfold Judged at hj
      cases hty : e0.typ <;> simp only [hty] at hj
      · exact Or.inl ⟨by simp, hj⟩
      · rcases hj with hj | ⟨r, h1, h2, h3⟩
        · exact Or.inr (Or.inr (Or.inl ⟨rfl, hj⟩))
        · exact Or.inr (Or.inr (Or.inr ⟨rfl, he0, hty, r, h1, h2, h3⟩))
      · exact Or.inl ⟨by simp, hj⟩
    · rw [if_neg hdk] at hs
      obtain ⟨r, hr, _, _⟩ := hs
      exact absurd hp0 (hproto _ _ hr)
  · have hdk : kq.2.other ≠ dummyKey := by
      intro h; rw [h] at hp; exact hp rfl
    rw [if_neg hdk] at hs
    obtain ⟨r, hr, hrl0, hre⟩ := hs
    have hu := untouched _ r1 r hr1 hr (by omega)
    have hrr : r1 = r := by rw [hr] at hu; cases hu; rfl
    subst hrr
    rcases hwhich with hxo | ⟨hxk, hrev⟩
    · subst hxo
      rw [hg] at hr1; cases hr1
      refine Or.inl ⟨hr, ?_⟩
      rcases hre with ⟨ht, h⟩ | ⟨f, hf, hft, hfr, h⟩
      · exact Or.inl ⟨ht, h⟩
      · exact Or.inr (Or.inl ⟨kq.1, f, hf, hft, hfr, h⟩)
    · subst hxk
      refine Or.inr ⟨r1, by rw [hrev]; exact hr, ?_, by rw [hrev]; exact hr1⟩
      rcases hre with ⟨ht, h⟩ | ⟨f, _, _, _, h⟩
      · exact Or.inr ⟨ht, by rw [hrev]; exact h⟩
      · exact Or.inl h

/-- **Safety with packets interleaved inside the scan's iteration** (partial: the gap of the known
finding).  `cur0` is the map when the cleaner starts; each visit's map is related to it by arbitrary
traffic after that visit. -/
theorem interleaved_scan_safe_partial (t : Timeouts) (now : Nat) (visits : List Visit) (ok : VisitsOK visits)
    (cur0 : AMap Key Entry)
    (hclock : ∀ v ∈ visits, ∃ τ, (∀ k e, v.1.get k = some e → e.lastSeen ≤ τ) ∧ Traffic τ v.1 cur0)
    (hproto : ∀ v ∈ visits, ∀ k e, v.1.get k = some e → k.proto ≠ 0)
    (order : AMap Key QVal) (hord : ∀ kq ∈ order, kq ∈ scanI t now visits)
    (x : Key) (e : Entry) (hx : cur0.get x = some e) (hd : (clean cur0 order).get x = none) :
    ∃ v ∈ visits, RemovalI true t now v.1 cur0 x e := by
  obtain ⟨kq, hm, ct1, hsub, hg, hstep⟩ := clean_deleted' order cur0 x e hx hd
  obtain ⟨v, hv, hs⟩ := scanI_queue_sound t now visits ok kq (hord kq hm)
  obtain ⟨τ, hold, htr⟩ := hclock v hv
  have h := clean_step_safeI_partial t now τ v.1 ct1 kq hs hold (hproto v hv) (traffic_of_sub htr hsub) x e hg hstep
  refine ⟨v, hv, ?_⟩
  rcases h with h | ⟨r, h1, h2, h3⟩
  · exact Or.inl h
  · exact Or.inr ⟨r, h1, h2, hsub _ _ h3⟩

theorem traffic_weaken {τ T : Nat} {a b : AMap Key Entry} (h : τ ≤ T) (ht : Traffic T a b) : Traffic τ a b := by
  intro k e' he
  rcases ht k e' he with h1 | h1
  · exact Or.inl h1
  · exact Or.inr (by omega)

/-- **Safety with BOTH kinds of interleaving** (partial: the gap of the known finding): packets between
the visits of the scan's iteration (each visit at a clock value `τ ≤ T`), then packets before the cleaner
pass and between any two of its atomic steps, in any order (`CleanRun T cur0 …`: every later packet
writes a time stamp later than `T`, the clock when the scan ended). -/
theorem combined_interleaved_safe_partial (t : Timeouts) (now T : Nat) (visits : List Visit) (ok : VisitsOK visits)
    (cur0 : AMap Key Entry)
    (hclock : ∀ v ∈ visits, ∃ τ, τ ≤ T ∧ (∀ k e, v.1.get k = some e → e.lastSeen ≤ τ) ∧ Traffic τ v.1 cur0)
    (hproto : ∀ v ∈ visits, ∀ k e, v.1.get k = some e → k.proto ≠ 0)
    (queue : AMap Key QVal) (hq : ∀ kq ∈ queue, kq ∈ scanI t now visits)
    {cur : AMap Key Entry} (run : CleanRun T cur0 queue cur) (kq : Key × QVal) (hm : kq ∈ queue)
    (x : Key) (e : Entry) (hg : cur.get x = some e) (hd : (cleanEntry cur kq.1 kq.2).get x = none) :
    ∃ v ∈ visits, RemovalI true t now v.1 cur x e := by
  obtain ⟨v, hv, hs⟩ := scanI_queue_sound t now visits ok kq (hq kq hm)
  obtain ⟨τ, hle, hold, htr⟩ := hclock v hv
  have htr' : Traffic τ v.1 cur := traffic_trans htr (traffic_weaken hle run.traffic_from)
  exact ⟨v, hv, clean_step_safeI_partial t now τ v.1 cur kq hs hold (hproto v hv) htr' x e hg hd⟩

/-- the composition for a whole scan. -/
theorem scan_then_clean_safe_partial (t : Timeouts) (now tReal : Nat) (ct ct' : AMap Key Entry)
    (items : List (Key × Entry)) (ok : ItemsOK ct items) (order : AMap Key QVal)
    (hperm : ∀ kq ∈ order, kq ∈ scan t now ct items)
    (hold : ∀ k e, ct.get k = some e → e.lastSeen ≤ tReal)
    (hproto : ∀ k e, ct.get k = some e → k.proto ≠ 0)
    (htr : Traffic tReal ct ct')
    (x : Key) (e : Entry) (hx : ct'.get x = some e) (hd : (clean ct' order).get x = none) :
    Removal true t now ct ct' x e :=
  cleanup_safe_partial t now tReal ct ct' order
    (fun kq h => scan_queue_sound t now ct items ok kq (hperm kq h)) hold hproto htr x e hx hd

/-- "idle longer than the timeout": a judged-expired entry was last seen strictly before the judgement. -/
theorem expired_idle {t : Timeouts} {now p : Nat} {e : Entry} (h : expired t now p e = true) : e.lastSeen < now :=
  expired_lt h

/-- **Liveness (normal entries; partial)**: an entry that is idle past its timeout when scanned and is
not refreshed before the cleaner runs (it may have been evicted) is gone after one scan + one cleaner
pass, whatever else happens to the map and whatever the queue order.
PARTIAL: the scan is ATOMIC (one read of the map, `ItemsOK`), the queue the cleaner walks contains the
whole scan result (`hall`; the mid-scan cleaner runs are not modelled), and no packet refreshes the
entry between judgement and clean-up (`hun`). -/
theorem cleanup_live_normal_partial (t : Timeouts) (now : Nat) (ct : AMap Key Entry) (items : List (Key × Entry))
    (ok : ItemsOK ct items) (k : Key) (e : Entry) (hmem : (k, e) ∈ items) (hn : e.typ = .normal)
    (hexp : expired t now k.proto e = true)
    (ct' : AMap Key Entry) (hun : ∀ e', ct'.get k = some e' → e' = e)
    (order : AMap Key QVal) (hall : ∀ kq ∈ scan t now ct items, kq ∈ order) :
    (clean ct' order).get k = none := by
  have hk := ok.mem _ hmem
  have hkd := ok.keys _ hmem
  obtain ⟨done, inv, hq⟩ := scan_loop_has (t := t) (now := now) hk hn hkd hexp items [] ⟨[], []⟩
    ⟨fun _ h => by simp at h, fun _ h => by simp at h⟩ ok (fun _ _ => by simp) (Or.inr hmem)
  have hs : (k, (⟨dummyKey, e.lastSeen, e.lastSeen⟩ : QVal)) ∈ scan t now ct items := scanEnd_has inv hk hn hq
  exact clean_live order ct' k _ (hall _ hs) rfl (fun e' he' => by rw [hun e' he'])

/-- **Liveness of a NAT pair**: a forward/reverse pair (the only forward entry of that reverse entry)
whose reverse entry is idle past its timeout when scanned, and which sees no packet before the cleaner
runs, loses its reverse (tracking) entry in one scan + one cleaner pass — and its forward entry too
when both carried the same time stamp (two plain queue items); when the time stamps differ the two are
removed together by the pair item unless another queue item removed the reverse entry first.
PARTIAL: atomic scan, queue = whole scan result, no packet on either entry (`hunF`, `hunR`), a single
forward entry per reverse entry (`Pair.uniq`; a shared reverse entry needs a second scan — not proved),
and for DIFFERENT time stamps only "the reverse entry goes" is concluded for the forward entry's fate. -/
theorem cleanup_live_pair_partial (t : Timeouts) (now : Nat) (ct : AMap Key Entry) (items : List (Key × Entry))
    (ok : ItemsOK ct items) (kF kR : Key) (f r : Entry) (pr : Pair t now ct items kF kR f r)
    (hmF : (kF, f) ∈ items) (hmR : (kR, r) ∈ items) (hpR : kR.proto ≠ 0)
    (ct' : AMap Key Entry) (hunF : ∀ e', ct'.get kF = some e' → e' = f) (hunR : ∀ e', ct'.get kR = some e' → e' = r)
    (order : AMap Key QVal) (hall : ∀ kq ∈ scan t now ct items, kq ∈ order) :
    (clean ct' order).get kR = none ∧ (f.lastSeen = r.lastSeen → (clean ct' order).get kF = none) := by
  obtain ⟨done, inv, pi, hdone, _⟩ := pair_loop pr items (fun _ h => h) [] ⟨[], []⟩
    ⟨fun _ h => by simp at h, fun _ h => by simp at h⟩
    ⟨by simp, by simp [AMap.get], fun _ h => by simp at h, fun _ h => by simp at h⟩
    ok (fun _ _ => by simp)
  have dF : kF ∈ done := hdone _ hmF
  have dR : kR ∈ done := hdone _ hmR
  generalize hsc : items.foldl (fun sc kv => scanEntry t now ct sc kv.1 kv.2) ⟨[], []⟩ = sc at inv pi
  have hscan : scan t now ct items = sc.pend.foldl (fun q kp => q.set (endKey kp) (endVal kp)) sc.queue := by
    unfold scan; rw [hsc, scanEnd_eq]
  have hpend := pi.pend
  simp only [dF, dR, if_true] at hpend
  -- facts about pending items whose end-of-scan key is kF or kR
  have noF : ∀ kp ∈ sc.pend, endKey kp = kF → kp.1 = kR ∧ kp.2.other ≠ dummyKey := by
    intro kp hm he
    have hps := inv.p kp hm
    unfold PSound at hps
    unfold endKey at he
    by_cases hd : kp.2.other = dummyKey
    · rw [if_pos hd] at hps
      simp only [hd, ne_eq, not_true_eq_false, if_false] at he
      obtain ⟨_, e0, he0, ht0, _⟩ := hps
      rw [he, pr.hf] at he0; cases he0
      have := pr.tf; rw [ht0] at this; cases this
    · rw [if_neg hd] at hps
      simp only [hd, ne_eq, not_false_eq_true, if_true] at he
      obtain ⟨_, f', r', hf', _, hfr', _⟩ := hps
      rw [he, pr.hf] at hf'; cases hf'
      exact ⟨by rw [← hfr', pr.rk], hd⟩
  by_cases heq : f.lastSeen = r.lastSeen
  · -- equal time stamps: two plain items
    simp only [heq, if_true] at hpend
    have hqF := pi.qeq heq dF
    have stepF : ∀ kp ∈ sc.pend, endKey kp = kF → (endVal kp).other = dummyKey ∧ (endVal kp).ts = f.lastSeen := by
      intro kp hm he
      obtain ⟨h1, h2⟩ := noF kp hm he
      have hg := AMap.get_of_mem_nodup pi.pn (show (kp.1, kp.2) ∈ sc.pend from hm)
      rw [h1, hpend] at hg
      have : kp.2.other = dummyKey := by
        have := congrArg (fun o => o.map QVal.other) hg
        simpa using this.symm
      exact absurd this h2
    have stepR : ∀ kp ∈ sc.pend, endKey kp = kR → (endVal kp).other = dummyKey ∧ (endVal kp).ts = r.lastSeen := by
      intro kp hm he
      have hps := inv.p kp hm
      unfold PSound at hps
      unfold endKey at he
      unfold endVal
      by_cases hd : kp.2.other = dummyKey
      · rw [if_pos hd] at hps
        simp only [hd, ne_eq, not_true_eq_false, if_false] at he ⊢
        obtain ⟨_, e0, he0, _, hl0, _⟩ := hps
        rw [he, pr.hr] at he0; cases he0
        exact ⟨trivial, hl0.symm⟩
      · rw [if_neg hd] at hps
        simp only [hd, ne_eq, not_false_eq_true, if_true] at he
        obtain ⟨_, f', r', hf', hft', _⟩ := hps
        rw [he, pr.hr] at hf'; cases hf'
        have := pr.tr; rw [hft'] at this; cases this
    obtain ⟨vF, hvF, hoF, htF⟩ := endFold_keep (fun v => v.other = dummyKey ∧ v.ts = f.lastSeen) kF sc.pend stepF sc.queue
      ⟨_, hqF, rfl, rfl⟩
    obtain ⟨vR, hvR, hoR, htR⟩ := endFold_create (fun v => v.other = dummyKey ∧ v.ts = r.lastSeen) kR sc.pend stepR sc.queue
      (kR, ⟨dummyKey, r.lastSeen, 0⟩) (AMap.mem_of_get hpend) (by simp [endKey])
    rw [← hscan] at hvF hvR
    refine ⟨clean_live order ct' kR vR (hall _ hvR) (by rw [hoR]; rfl) (fun e' he' => by rw [hunR e' he', htR]),
      fun _ => clean_live order ct' kF vF (hall _ hvF) (by rw [hoF]; rfl) (fun e' he' => by rw [hunF e' he', htF])⟩
  · -- different time stamps: one pair item
    simp only [heq, if_false] at hpend
    have hq := pi.qne heq dF dR
    have stepF : ∀ kp ∈ sc.pend, endKey kp = kF → endVal kp = ⟨kR, f.lastSeen, r.lastSeen⟩ := by
      intro kp hm he
      obtain ⟨h1, _⟩ := noF kp hm he
      have hg := AMap.get_of_mem_nodup pi.pn (show (kp.1, kp.2) ∈ sc.pend from hm)
      rw [h1, hpend] at hg
      cases hg
    obtain ⟨v, hv, hve⟩ := endFold_keep (fun v => v = ⟨kR, f.lastSeen, r.lastSeen⟩) kF sc.pend stepF sc.queue ⟨_, hq, rfl⟩
    subst hve
    rw [← hscan] at hv
    refine ⟨clean_live_pair order ct' kF kR f.lastSeen r.lastSeen (hall _ hv) hpR
      (fun e he => by rw [hunF e he]; exact pr.rk) (fun e he => by rw [hunR e he]), fun h => absurd h heq⟩

/-! ### Liveness, step level (partial)

End-to-end liveness is proved above for normal entries and for NAT pairs; the step-level halves: the scan step queues an expired plain
entry with its time stamp, and the cleaner step removes an entry whose time stamp still matches. -/

theorem scan_step_queues_expired_partial (t : Timeouts) (now : Nat) (ct : AMap Key Entry) (sc : ScanSt) (k : Key) (e : Entry)
    (hn : e.typ = .normal) (hexp : expired t now k.proto e = true) :
    (scanEntry t now ct sc k e).queue.get k = some ⟨dummyKey, e.lastSeen, e.lastSeen⟩ := by
  have h1 : (check t now ct k e).1 = true := by simp [check, hn, hexp]
  rw [scanEntry_normal h1 hn]
  simp [AMap.get_set, check, hn]

theorem cleaner_step_removes_matching_partial (ct : AMap Key Entry) (k : Key) (q : QVal) (e : Entry)
    (hq : q.other.proto = 0) (hk : ct.get k = some e) (hts : e.lastSeen = q.ts) :
    (cleanEntry ct k q).get k = none := by
  unfold cleanEntry
  simp [hq, hk, hts, AMap.get_del_self]

theorem cleaner_step_removes_pair_partial (ct : AMap Key Entry) (k : Key) (q : QVal) (f r : Entry)
    (hq : q.other.proto ≠ 0) (hk : ct.get k = some f) (hf : f.revKey = q.other)
    (hr : ct.get q.other = some r) (hts : r.lastSeen = q.revTs) :
    (cleanEntry ct k q).get k = none ∧ (cleanEntry ct k q).get q.other = none := by
  unfold cleanEntry fwdMismatch
  simp only [hq, hk, hf, hr, hts, if_false, if_true, ne_eq, not_true_eq_false, decide_false, Bool.false_eq_true]
  constructor
  · exact AMap.get_del_self _ _
  · rw [AMap.get_del]
    split
    · rfl
    · exact AMap.get_del_self _ _

/-! ### The full-strength statement (`Removal false …`, no gap) is FALSE of the current code

Witness: a UDP NAT pair whose last packet went client → service, so that the forward and the reverse
entry carry the same `last_seen` (calico_ct_lookup writes the same `now` into both).  Both are idle
past the timeout at the scan.  `handleNATEntries` takes `ts == rev_ts` for "the reverse entry does not
exist" and queues the forward entry alone.  A reply packet then refreshes the reverse entry only.  The
cleaner finds the forward entry's own time stamp unchanged and removes it: the connection is live, its
reverse entry survives, its forward entry is gone.  (Reproduced on the real Scanner + the real
conntrack_cleanup.c by the harness: oracle signature `deleted-fwd-of-live-pair`.) -/

def wT : Timeouts := ⟨20, 3600, 30, 40, 60, 600, 5⟩
def wkF : Key := ⟨17, 1, 1000, 2, 80⟩
def wkR : Key := ⟨17, 1, 1000, 3, 8080⟩
def wF : Entry := { typ := .fwd, lastSeen := 100, rstTs := 0, revKey := wkR, established := false, finsSeen := false,
                    finsSeenDSR := false, rstSeen := false, dsr := false }
def wR : Entry := { wF with typ := .rev, revKey := dummyKey }
def wct : AMap Key Entry := [(wkF, wF), (wkR, wR)]
/-- a reply packet at time 1001 refreshed the reverse entry (scan at 1000). -/
def wct' : AMap Key Entry := [(wkF, wF), (wkR, { wR with lastSeen := 1001 })]

theorem witness_items_ok : ItemsOK wct wct :=
  ⟨by decide, by decide, by decide, by decide⟩

theorem witness_traffic : Traffic 1000 wct wct' := by
  intro k e' h
  by_cases h1 : k = wkF
  · subst h1; left; revert h; simp [wct, wct', AMap.get]
  · by_cases h2 : k = wkR
    · subst h2; right
      have : e' = { wR with lastSeen := 1001 } := by
        revert h; simp only [wct', AMap.get]; rw [if_neg (by decide)]; simp [eq_comm]
      subst this; decide
    · exfalso; revert h; simp [wct', AMap.get, Ne.symm h1, Ne.symm h2]

/-- the model removes the forward entry although the pair carried traffic after the judgement … -/
theorem witness_forward_removed :
    wct'.get wkF = some wF ∧ (clean wct' (scan wT 1000 wct wct)).get wkF = none ∧
    (clean wct' (scan wT 1000 wct wct)).get wkR = some { wR with lastSeen := 1001 } := by decide

/-- … so the full-strength statement fails. -/
theorem cleanup_safe_full_is_false : ¬ Removal false wT 1000 wct wct' wkF wF := by
  intro h
  rcases h with ⟨_, h | h | h | h⟩ | ⟨r, h1, _, h3⟩
  · revert h; decide
  · obtain ⟨kf, f, hf, hft, hfr, _⟩ := h
    have : kf = wkF ∨ kf = wkR := by
      by_cases a : kf = wkF; · exact Or.inl a
      by_cases b : kf = wkR; · exact Or.inr b
      revert hf; simp [wct, AMap.get, Ne.symm a, Ne.symm b]
    rcases this with rfl | rfl
    · have : f = wF := by revert hf; simp [wct, AMap.get, eq_comm]
      subst this; revert hfr; decide
    · have : f = wR := by
        revert hf; simp only [wct, AMap.get]; rw [if_neg (by decide)]; simp [eq_comm]
      subst this; revert hft; decide
  · revert h; decide
  · exact absurd h.1 (by decide)
  · have e1 : r = wR := by
      revert h1; simp only [wct, AMap.get, wF]; rw [if_neg (by decide)]; simp [eq_comm]
    subst e1; revert h3; decide

/-- **the property's language**: the timeouts of the table that apply to an entry, by the protocol of
the key it is judged under and by its TCP state (the Lean twin of the harness's independent
`idleExpired`): RST seen on a leg → `TCPResetSeen`; FINs seen (both legs, or one leg under DSR) →
`TCPFinsSeen`; established or DSR → `TCPEstablished`, and 2 minutes if an RST time stamp is recorded;
otherwise (handshake not finished) → `TCPSynSent`; ICMP, UDP and other protocols → their one timeout. -/
def applicableTimeouts (t : Timeouts) (proto : Nat) (e : Entry) : List Nat :=
  if proto = 6 then
    (if e.rstSeen then [t.tcpResetSeen] else []) ++
    (if (e.dsr && e.finsSeenDSR) || e.finsSeen then [t.tcpFinsSeen] else []) ++
    (if e.established || e.dsr then
      (if e.rstTs ≠ 0 then [120000000000] else []) ++ [t.tcpEstablished]
     else [t.tcpSynSent])
  else if proto = 1 || proto = 58 then [t.icmp]
  else if proto = 17 then [t.udp]
  else [t.generic]

/-- **"judged expired" = "idle longer than a timeout that applies to its protocol and state"**:
the model of `entryDone` says expired exactly when `now - last_seen` exceeds one of the applicable
timeouts. -/
theorem expired_iff_idle_past_applicable (t : Timeouts) (now p : Nat) (e : Entry) :
    expired t now p e = true ↔ ∃ T ∈ applicableTimeouts t p e, e.lastSeen + T < now := by
  unfold expired applicableTimeouts Entry.older
  by_cases h6 : p = 6
  · simp only [h6, if_true]
    cases e.rstSeen <;> cases e.dsr <;> cases e.finsSeenDSR <;> cases e.finsSeen <;> cases e.established <;>
      by_cases hr : e.rstTs = 0 <;> simp [hr] <;> omega
  · simp only [h6, if_false]
    by_cases h1 : (p = 1 || p = 58) = true
    · simp [h1]
    · simp only [h1, if_false, Bool.false_eq_true]
      by_cases h17 : p = 17 <;> simp [h17]

/-- idle longer than a timeout that applies to the entry's protocol (as judged under key protocol `p`) and state. -/
def IdlePast (t : Timeouts) (now p : Nat) (e : Entry) : Prop :=
  ∃ T ∈ applicableTimeouts t p e, e.lastSeen + T < now

/-- **Safety in the property's own words** (outside the known finding): an entry the cleaner removes —
under any interleaving of packets with the cleaner's steps — is either the `GapCase`, or it is
untouched since the scan and was idle longer than a timeout applying to its protocol and state (a
reverse entry possibly judged through its forward entry's key), or it is a forward entry whose reverse
entry was gone, or it is the forward entry of a pair whose reverse entry was idle longer than an
applicable timeout and is still untouched. -/
theorem cleanup_safe_except_gap_idle (t : Timeouts) (now tReal : Nat) (ct : AMap Key Entry) (queue : AMap Key QVal)
    (hq : ∀ kq ∈ queue, QSound t now ct kq)
    (hold : ∀ k e, ct.get k = some e → e.lastSeen ≤ tReal)
    (hproto : ∀ k e, ct.get k = some e → k.proto ≠ 0)
    {cur : AMap Key Entry} (r : CleanRun tReal ct queue cur) (kq : Key × QVal) (hm : kq ∈ queue)
    (x : Key) (e : Entry) (hg : cur.get x = some e) (hd : (cleanEntry cur kq.1 kq.2).get x = none) :
    GapCase t now ct x e ∨
    (ct.get x = some e ∧ e.typ ≠ .fwd ∧ IdlePast t now x.proto e) ∨
    (ct.get x = some e ∧ ∃ kf f, ct.get kf = some f ∧ f.typ = .fwd ∧ f.revKey = x ∧ IdlePast t now kf.proto e) ∨
    (ct.get x = some e ∧ e.typ = .fwd ∧ ct.get e.revKey = none) ∨
    (∃ r, ct.get e.revKey = some r ∧ IdlePast t now x.proto r ∧ cur.get e.revKey = some r) := by
  rcases cleanup_safe_except_gap t now tReal ct queue hq hold hproto r kq hm x e hg hd with h | h
  · unfold Removal at h
    rcases h with ⟨h0, h | h | h | ⟨hf, _⟩⟩ | ⟨r', h1, h2, h3⟩
    · exact Or.inr (Or.inl ⟨h0, h.1, (expired_iff_idle_past_applicable t now x.proto e).1 h.2⟩)
    · obtain ⟨kf, f, a1, a2, a3, a4⟩ := h
      exact Or.inr (Or.inr (Or.inl ⟨h0, kf, f, a1, a2, a3, (expired_iff_idle_past_applicable t now kf.proto e).1 a4⟩))
    · exact Or.inr (Or.inr (Or.inr (Or.inl ⟨h0, h⟩)))
    · exact absurd hf (by decide)
    · exact Or.inr (Or.inr (Or.inr (Or.inr ⟨r', h1, (expired_iff_idle_past_applicable t now x.proto r').1 h2, h3⟩)))
  · exact Or.inl h

/-- the witness of the finding is an instance of the `GapCase` (the exclusion is not wider than the finding). -/
theorem witness_is_gap_case : GapCase wT 1000 wct wkF wF := by
  refine ⟨by decide, by decide, wR, by decide, by decide, by decide⟩

/-! ### Non-vacuity -/

/-- an established TCP entry with a recorded RST: 2 minutes and the established timeout apply. -/
example : applicableTimeouts wT 6 { wF with typ := .normal, established := true, rstTs := 5 } = [120000000000, 3600] := by decide


/-- a scan that queues a plain entry, a NAT pair (pair mode) and leaves a live entry alone. -/
def nvCt : AMap Key Entry :=
  [(⟨6, 1, 1, 2, 80⟩, { wF with typ := .normal, lastSeen := 10, revKey := dummyKey }),
   (⟨17, 1, 1000, 2, 80⟩, { wF with lastSeen := 90 }),
   (wkR, wR),
   (⟨17, 9, 9, 9, 9⟩, { wF with typ := .normal, lastSeen := 990, revKey := dummyKey })]

example : ItemsOK nvCt nvCt := ⟨by decide, by decide, by decide, by decide⟩
example : (scan wT 1000 nvCt nvCt).length = 2 := by decide
example : ((clean nvCt (scan wT 1000 nvCt nvCt)).map (·.1)) = [⟨17, 9, 9, 9, 9⟩] := by decide
/-- with a reply packet in between, the pair (judged in pair mode: time stamps differ) survives entirely. -/
example : ((clean (nvCt.set wkR { wR with lastSeen := 1001 }) (scan wT 1000 nvCt nvCt)).map (·.1)).length = 3 := by decide
example : Traffic 1000 nvCt nvCt := fun _ _ h => Or.inl h
/-- an interleaved run: the reply packet of the witness arrives, then a cleaner step. -/
example : ∃ cur, CleanRun 1000 wct (scan wT 1000 wct wct) cur :=
  ⟨_, (CleanRun.start.traffic witness_traffic).step (wkF, ⟨dummyKey, 100, 100⟩) (by decide)⟩
/-- an interleaved scan: the forward entry is visited on `wct`, then the reply packet arrives, then the
reverse entry is visited on `wct'` (no longer idle): only the forward entry is queued. -/
def nvVisits : List Visit := [(wct, wkF, wF), (wct', wkR, { wR with lastSeen := 1001 })]
example : VisitsOK nvVisits := ⟨by decide, by decide, by decide, by decide⟩
example : scanI wT 1000 nvVisits = [(wkF, ⟨dummyKey, 100, 100⟩)] := by decide

/-- the hypotheses of `cleanup_live_pair_partial` hold for the witness pair. -/
example : Pair wT 1000 wct wct wkF wkR wF wR :=
  ⟨by decide, by decide, by decide, by decide, by decide, by decide, by decide, by decide⟩

/-- the hypotheses of `cleanup_live_normal_partial` hold for the first entry of `nvCt`. -/
example : expired wT 1000 6 { wF with typ := .normal, lastSeen := 10, revKey := dummyKey } = true := by decide

end CalicoVerif.C14
