import CalicoVerif.Proofs.C01Comp
import CalicoVerif.Proofs.C01Seq
import CalicoVerif.Proofs.C01Rs
import CalicoVerif.Proofs.C01Arc
import CalicoVerif.Proofs.C01Prof
import CalicoVerif.Proofs.C01Valid
import CalicoVerif.Proofs.C01Acc
import CalicoVerif.Proofs.C01ProfAct
import CalicoVerif.Proofs.C01Res
import CalicoVerif.Proofs.C01Tab
import CalicoVerif.Proofs.C01Lbl
import CalicoVerif.Proofs.C01PolAct
import CalicoVerif.Proofs.C01Fresh
import CalicoVerif.Proofs.C01ProfTab
import CalicoVerif.Proofs.C01Mem
import CalicoVerif.Proofs.C01Ipsets
import CalicoVerif.Proofs.C01Gen
/-!
C01 — Felix's computed dataplane state depends only on current datastore state.

Model `CalicoVerif.Model.C01`: the policy path of the calc graph as a composition of the node models
(C05 ARC profile path, C07 label index, this property's ARC policy path and RuleScanner, C04 IP-set
member index, C03 PolicyResolver/Sorter, C02 EventSequencer), wired as NewCalculationGraph wires them,
and the specification `fresh : DS → Fresh` written directly (active policies/profiles with their rule
IP-set ids, per-endpoint tier lists, IP-set contents, endpoint data).  Routes/VTEPs and the service /
wireguard / BGP / live-migration / Istio / config nodes are UNMODELLED (see Model/C01 header) — hence
every graph-level theorem here is `_partial`.

What is PROVED (all histories, all flush placements):
* `comp_refines` — the generic composition lemma for delta-emitting nodes;
* `accumulate_eq_declared_partial` (Theorem A, sequencer end, from C02's refinement): whatever the
  upstream nodes do, after a final flush the state accumulated from EVERY emitted message equals the
  state they declared through their calls, provided those calls respect the IP-set protocol;
* `rulescanner_eq_spec` — the RuleScanner node: references and activation events are a function of
  the current rules only;
* `arc_policy_matches_eq_eval_partial` — the ARC policy path inside the composed graph: after ANY
  history, `policyIDToEndpointKeys` holds (policy, local endpoint) exactly when the policy's selector
  evaluates to true on the endpoint's effective labels (C07's `Inv` carried through the whole graph);
* `arc_profile_table_eq_spec_partial` — the ARC profile path inside the composed graph IS the C05 model
  run on the projected history, so C05's `view_eq_spec` holds for the graph: the rule scanner's profile
  table (real rules / deny stand-in / absent) is a function of the current inputs only;
* `ipset_add_remove_valid_partial`, `declared_eq_rulescanner_partial` — for the whole graph and every
  history: OnIPSetAdded/Removed calls respect the protocol; declared policies/profiles = the RuleScanner's
  `active` table; declared IP sets = the sets referenced by it (from `rulescanner_eq_spec` carried
  through the graph);
* `declared_endpoints_eq_resolver_spec_partial` — the RESOLVER END: C03's `resolver_eq_spec` plugged into the
  graph.  The graph's resolver is a `C03.runL` run and the `endpointUpdate` calls are its last-emitted map,
  so after the final flush every endpoint's declared tier list satisfies C03's `IsSpec` w.r.t. the FINAL
  tier datastore and the resolver's policy table / match relation; the resolver never panics;
* `resolver_tables_eq_datastore_partial`, `resolver_matched_eq_datastore_partial` — the resolver's endpoint
  table, policy table and match relation ARE the datastore's (label-index tables = datastore, C07's
  invariant, numbering) for well-formed histories;
* `active_policies_eq_spec_partial`, `active_profiles_eq_spec_partial` — the declared policies / profiles are
  exactly the specification's (a policy iff its selector matches a local endpoint, a profile iff a local
  endpoint lists it; current rules / deny stand-in);
* `fresh_tier_list_isSpec` — the specification's own per-endpoint list satisfies C03's `IsSpec`;
* `member_index_eq_c04_spec_partial`, `declared_ipsets_eq_spec_partial` — the MEMBER INDEX END: C04's invariant
  carried through the graph gives the member half of the IP-set protocol and "declared content = C04
  `memberSpec` of the index's tables"; those tables are the datastore's / the rule scanner's and `memberSpec`
  for them is the specification's `DS.members`; the declared sets are `DS.activeSets`;
* `calc_history_independent_partial` — the END-TO-END statement `accumulate (run h) = fresh (lastState h)`,
  derived from all of the above.  Its hypothesis `RemainingContract` no longer contains ANY obligation of a
  graph node: it consists of well-formedness facts only — `idInj` (the IP-set id hash does not collide on the
  definitions IN PLAY at the end of the history: `InPlay`),
  `keyU` (distinct policy tie-break strings), `sawInSync`, `wellFormed` (consistent numbering; every policy
  selector passes `selector.Validate`, i.e. what the ValidationFilter lets through; network-set prefixes fit
  the address width).  `_partial` = the UNMODELLED nodes (routes/VTEPs, …, see Model/C01 header).  The model
  and `fresh` are tied to the REAL ValidationFilter→CalcGraph→EventSequencer by the correspondence run (after
  every flush, and `accumulate = fresh(lastState)` at every `check` line).

COVERAGE BY MESSAGE KIND (from `NewCalculationGraph` / `EventSequencer.Flush`):
* Lean composition + correspondence run: `IPSetUpdate/IPSetDeltaUpdate/IPSetRemove` (selector and named-port
  sets), `ActivePolicyUpdate/Remove`, `ActiveProfileUpdate/Remove` (rule content = opaque class + IP-set ids),
  `WorkloadEndpointUpdate/Remove`, `HostEndpointUpdate/Remove` with their per-tier ordered policy lists and
  profile ids (other endpoint content = opaque class), `IPAMPoolUpdate/Remove` (DataplanePassthru for IP pools:
  generic pass-through lemma `passthru_node_history_independent_generic`, content = opaque class), their
  ordering/batching, and "invalid = absent";
* REAL graph, harness history-vs-fresh oracle only: `RouteUpdate/Remove`, `VXLANTunnelEndpointUpdate/Remove`
  (L3RouteResolver, VXLANResolver), `HostMetadataUpdate/Remove` (DataplanePassthru's stateful node handling),
  `Encapsulation` (EncapsulationResolver), `ConfigUpdate` (ConfigBatcher), `InSync` — all exercised;
* REAL graph, NOT exercised by the c01 universe: `WireguardEndpoint(V6)Update/Remove`, `GlobalBGPConfigUpdate`,
  `ServiceUpdate/Remove` + service IP sets (ServiceIndex), `ServiceAccount…`/`Namespace…` (ProfileDecoder),
  endpoint computed data (live migration, Istio), per-endpoint BGP peer data, PerformanceHints, LookupsCache.
-/
namespace CalicoVerif.C01
open CalicoVerif C02

variable {σ₁ σ₂ ι μ ο α β γ : Type}

/-- GENERIC COMPOSITION: if node `n₁` emits deltas whose accumulation is `F₁` of its current inputs,
and node `n₂`'s accumulated output is `F₂` of ITS accumulated inputs, then feeding `n₁` into `n₂`
gives a node whose accumulated output is `F₂ ∘ F₁` of the current inputs — for every history. -/
theorem comp_refines {n₁ : Node σ₁ ι μ} {n₂ : Node σ₂ μ ο}
    {accI : β → ι → β} {i0 : β} {accM : γ → μ → γ} {m0 : γ} {accO : α → ο → α} {o0 : α}
    {F₁ : β → γ} {F₂ : γ → α}
    (h₁ : Refines n₁ accI i0 accM m0 F₁) (h₂ : Refines n₂ accM m0 accO o0 F₂) :
    Refines (n₁.comp n₂) accI i0 accO o0 (F₂ ∘ F₁) := by
  intro is
  have hc := (Node.comp_runFrom n₁ n₂ n₁.init n₂.init is).1
  unfold Node.run
  show (((n₁.comp n₂).runFrom (n₁.init, n₂.init) is).2).foldl accO o0 = _
  rw [hc]
  have := h₂ (n₁.run is).2
  unfold Node.run at this
  rw [this]
  have := h₁ is
  unfold Node.run at this
  rw [Function.comp, this]

/-- The dataplane state described by everything Felix has emitted (C02's `DP`). -/
def accumulate (ms : List Msg) : DP := ({} : DP).applyAll ms

/-- the specification as a dataplane state -/
def Fresh.toDP (f : Fresh) : DP :=
  { ipsets := fun id => (f.ipsets.find? (fun p => p.1 = id)).map (fun p m => decide (m ∈ p.2.2))
    pol := fun k => mget f.pols k
    prof := fun k => mget f.profs k
    ep := fun k => (mget f.eps k).map (epDown k)
    gen := fun c k => mget f.gen (c, k) }

/-- The driver's printable, list-based accumulation (`Acc`, printed after every flush and compared with
the real graph) denotes exactly `accumulate`. -/
theorem accumulate_eq_acc (ms : List Msg) : accumulate ms = (({} : Acc).applyAll ms).toDP := by
  rw [Acc.toDP_applyAll, Acc.toDP_empty]; rfl

/-- THEOREM A (sequencer end; proved from C02's `Inv` / `flush_synced`): for EVERY history ending in a
flush — any updates, any flush placement — if the calls the upstream nodes made on the EventSequencer
respect the IP-set protocol, the state accumulated from ALL emitted messages is exactly the state those
calls declared. -/
theorem accumulate_eq_declared_partial (H : IdFn) (s : Bool) (h : List HStep)
    (hv : validAll {} (run H (Graph.new s) (h ++ [.flush])).1.calls) :
    accumulate (run H (Graph.new s) (h ++ [.flush])).2 =
      upAll {} (run H (Graph.new s) (h ++ [.flush])).1.calls :=
  accumulate_eq_declared H s h hv

/-! ### what is proved about the upstream side, for every history -/

/-- PROVED (set half of the protocol, all histories): every `OnIPSetAdded` the graph makes is for an
IP set that is not declared, every `OnIPSetRemoved` for one that is; and no call other than IP-set
add/remove, member add/remove, policy/profile active/inactive and endpoint updates is ever made (so no
route / VTEP / pass-through object is declared by the modelled nodes). -/
theorem ipset_add_remove_valid_partial (H : IdFn) (s : Bool) (h : List HStep) :
    setValidAll {} (run H (Graph.new s) h).1.calls :=
  (rsInv_run h (rsInv_new H s)).setValid

/-- PROVED (all histories): the declared policies and profiles are exactly the RuleScanner's `active`
table (the rules each was last activated with); the declared IP sets are exactly the sets some active
policy/profile references. -/
theorem declared_eq_rulescanner_partial (H : IdFn) (s : Bool) (h : List HStep) :
    let g := (run H (Graph.new s) h).1
    (∀ k, (decl g).pol k = (mget g.active (.pol k)).map (rulesOf H)) ∧
    (∀ p, (decl g).prof p = (mget g.active (.prof p)).map (rulesOf H)) ∧
    (∀ uid, ((decl g).ipsets uid).isSome = true ↔
      ∃ key r, mget g.active key = some r ∧ (mget (currentSets H r) uid).isSome = true) := by
  have hi := rsInv_run h (rsInv_new H s)
  refine ⟨hi.pol, hi.prof, ?_⟩
  intro uid
  rw [hi.dom uid]
  show RuleScanner.uidInUse _ uid = true ↔ _
  rw [uidInUse_iff]
  constructor
  · rintro ⟨k, hk⟩
    obtain ⟨r, h1, h2⟩ := (hi.refs k uid).mp hk
    exact ⟨k, r, h1, h2⟩
  · rintro ⟨k, r, h1, h2⟩
    exact ⟨k, (hi.refs k uid).mpr ⟨r, h1, h2⟩⟩

/-- the ValidationFilter's demand on a policy's selector: `selector.Validate` accepts it (C06 model) -/
def selValid : Upd → Prop
  | .policy _ _ (some pv) => C06.validate pv.sel = .ok ()
  | _ => True

/-- `selector.Validate` accepts exactly what `selector.Parse` accepts (C06 `validate_iff_parse`), so a
selector the ValidationFilter lets through parses -/
theorem selParses_of_valid {u : Upd} (h : selValid u) : selParses u := by
  cases u with
  | policy nid key v =>
    cases v with
    | none => trivial
    | some pv =>
      obtain ⟨t, ht⟩ := (C06.validate_iff_parse pv.sel).mp h
      show (selOf pv.sel).isSome = true
      unfold selOf
      rw [ht]
      rfl
  | _ => trivial

/-- the selector texts the rule scanner parses for one rule (`extractSelectors`, i.e. after
`combineMatchesIfPossible`) -/
def scannedSels (r : RuleIn) : List Str :=
  [(combine r.srcSel r.notSrcSel).1, (combine r.srcSel r.notSrcSel).2,
   (combine r.dstSel r.notDstSel).1, (combine r.dstSel r.notDstSel).2]

/-- every non-empty selector the rule scanner parses for this rule is accepted by the parser.  (The Go code
PANICS otherwise — "Failed to parse selector that should have been validated already" — while the model's
`selList` would silently drop the selector: histories violating this are outside the theorem.  The
ValidationFilter validates each of the four rule selectors with the same struct-tag validator as the policy
selector; that the combined text `(pos) && (!(neg))` of two accepted selectors is accepted is a property of the
parser that is NOT proved here.) -/
def ruleParses (r : RuleIn) : Prop := ∀ raw ∈ scannedSels r, raw = [] ∨ (canonSel raw).isSome = true

def rulesParse (rs : RulesIn) : Prop := ∀ r ∈ rs.inbound ++ rs.outbound, ruleParses r

/-- RULE SELECTORS PARSE: for the rules a policy / profile update carries -/
def rulesOk : Upd → Prop
  | .policy _ _ (some pv) => rulesParse pv.rules
  | .profRules _ (some r) => rulesParse r
  | _ => True

/-- under `ruleParses` the model's silent-drop branch of `selList` is never taken: a non-empty scanned selector
contributes exactly its canonical text, as in the Go code -/
theorem selList_no_silent_drop {r : RuleIn} (h : ruleParses r) {raw : Str} (hm : raw ∈ scannedSels r) (hne : raw ≠ []) :
    ∃ t, canonSel raw = some t ∧ selList raw = [t] := by
  rcases h raw hm with h0 | h0
  · exact absurd h0 hne
  · cases hc : canonSel raw with
    | none => rw [hc] at h0; cases h0
    | some t => exact ⟨t, rfl, by simp [selList, hne, hc]⟩

/-- WELL-FORMED history: consistent numbering, every policy selector passes `selector.Validate`, and
network-set prefixes are no longer than the address width (`netsOk`; every `net.IPNet` satisfies it), and every
selector the rule scanner parses for the rules of a policy / profile update is accepted by the parser (`rulesOk`:
outside it the Go code panics and the model silently drops the selector — see `ruleParses`) -/
def WellFormed (N : Numbering) (h : List HStep) : Prop :=
  ∀ st ∈ h, match st with
    | .upd u => N.updOk u ∧ selValid u ∧ netsOk u ∧ rulesOk u
    | _ => True

theorem WellFormed.netsOk {N : Numbering} {h : List HStep} (hw : WellFormed N h) :
    ∀ st ∈ h, match st with
      | .upd u => C01.netsOk u
      | _ => True := by
  intro st hst
  have := hw st hst
  cases st with
  | upd u => exact this.2.2.1
  | inSync => trivial
  | flush => trivial

theorem WellFormed.histOk {N : Numbering} {h : List HStep} (hw : WellFormed N h) : N.histOk h := by
  intro st hst
  have := hw st hst
  cases st with
  | upd u => exact ⟨this.1, selParses_of_valid this.2.1⟩
  | inSync => trivial
  | flush => trivial

theorem WellFormed.stepOk {N : Numbering} {h : List HStep} (hw : WellFormed N h) : ∀ st ∈ h, N.stepOk st := by
  intro st hst
  have := hw st hst
  cases st with
  | upd u => exact this.1
  | inSync => trivial
  | flush => trivial

/-- The IP-set definitions IN PLAY at the end of a history: those the rule scanner holds in `ipSetsByUID` and
those the specification's active policies / profiles reference (`DS.activeSets`). -/
def InPlay (H : IdFn) (s : Bool) (h : List HStep) (d : IpSetDef) : Prop :=
  (∃ u, mget (run H (Graph.new s) (h ++ [.flush])).1.rs.sets u = some d) ∨
  (∃ u, mget ((lastState h).activeSets H) u = some d)

/-- The hypotheses of the end-to-end theorem.  NOTHING about the graph's behaviour is assumed any more — every
node obligation is discharged (see the theorems of this file); what is left are WELL-FORMEDNESS facts about the
history and the id function.  (The name is kept from the time it listed the open node obligations.) -/
structure RemainingContract (H : IdFn) (s : Bool) (h : List HStep) : Prop where
  /-- the IP-set id function does not collide ON THE DEFINITIONS IN PLAY (`IPSetData.UniqueID()` is a fixed-width
  hash: no real `H` is injective on all definitions, but on a concrete history it is unless two sets in play
  actually collide) -/
  idInj : ∀ d d' : IpSetDef, H d = H d' → InPlay H s h d → InPlay H s h d' → d = d'
  /-- the policy keys in the history have pairwise different `name/namespace/kind` tie-break strings (C03's
  `KeyU`; true of validated Calico names, which contain no '/') -/
  keyU : C03.KeyU (histKeys h)
  /-- the history contains the in-sync signal (before it the resolver emits nothing, so "what a fresh Felix
  has emitted once in sync" is not yet comparable) -/
  sawInSync : HStep.inSync ∈ h
  /-- the history is WELL-FORMED (`WellFormed`): the harness's endpoint / policy numbers are consistent with the
  real keys (number ↦ key injective, locality a function of the number — the host name is part of the key);
  every policy selector passes `selector.Validate`, which is exactly what the ValidationFilter demands of a
  policy it lets through (`validate:"selector"`); network-set prefixes fit the address width; every selector the
  rule scanner parses for a rule is accepted by the parser (`rulesOk` — otherwise the Go code panics) -/
  wellFormed : ∃ N : Numbering, WellFormed N h

/-- RESOLVER TABLES = DATASTORE (all consistently numbered histories, any flush placement): after the
final flush the PolicyResolver's endpoint table is exactly the datastore's LOCAL endpoints and its
`allPolicies` table is exactly `ExtractPolicyMetadata` of the datastore's policies. -/
theorem resolver_tables_eq_datastore_partial (H : IdFn) (s : Bool) (h : List HStep) (N : Numbering)
    (hN : ∀ st ∈ h, N.stepOk st) :
    (∀ e, mget (run H (Graph.new s) (h ++ [.flush])).1.res.endpoints e =
      (mget (lastState h).localEps e).map (fun v => (⟨v.tag, v.profiles⟩ : EpData))) ∧
    (∀ k, mget (run H (Graph.new s) (h ++ [.flush])).1.res.allPolicies k = mget (lastState h).polMetas k) :=
  resolver_tables_eq_datastore H s h N hN

/-- RESOLVER MATCH RELATION = SPECIFICATION (all well-formed histories, any flush placement): after the final
flush `(policy, endpoint)` is in the PolicyResolver's match relation iff the policy's selector (source text,
parsed by the C06 model) is true of the LOCAL endpoint's effective labels in the datastore (own labels, then
the listed profiles' labels in order).  Proof: the label index's tables are the datastore's (`LInv`), C07's
`index_eq_eval` invariant carried through the graph, `policyIDToEndpointKeys` mirrors the index and the resolver
mirrors `policyIDToEndpointKeys` through the numbering (`MInv`). -/
theorem resolver_matched_eq_datastore_partial (H : IdFn) (s : Bool) (h : List HStep) (N : Numbering)
    (hw : WellFormed N h) (p : PolicyKey) (e : EpKey) :
    (p, e) ∈ (run H (Graph.new s) (h ++ [.flush])).1.res.matched ↔ (p, e) ∈ (lastState h).matched :=
  resolver_matched_eq_datastore H s h N hw.histOk p e

/-- ACTIVE POLICIES = SPECIFICATION (all well-formed histories, any flush placement): after the final flush the
RuleScanner's `active` table — hence, by `declared_eq_rulescanner_partial`, the declared dataplane state — holds
policy `k` iff `k`'s selector matches some LOCAL endpoint in the datastore, and then with the policy's CURRENT
rules (and their IP-set ids): exactly `fresh`'s policy table.  Proof: `PolAct` (the table follows
`policyIDToEndpointKeys` and the ARC's `allPolicies`, through every `sendPolicyUpdate`), `LInv`/`MInv` (those are
the datastore's) and `resolver_matched_eq_datastore_partial`. -/
theorem active_policies_eq_spec_partial (H : IdFn) (s : Bool) (h : List HStep) (N : Numbering)
    (hw : WellFormed N h) (k : PolicyKey) :
    (mget (run H (Graph.new s) (h ++ [.flush])).1.active (.pol k)).map (rulesOf H) =
      mget (fresh H s (lastState h)).pols k := by
  rw [active_policies_eq_datastore H s h N hw.histOk k]
  show _ = mget ((lastState h).activePols.map (fun p => (p.1, (⟨p.2.rules.tag, refsOf H p.2.rules⟩ : Rules)))) k
  rw [mget_map_val (fun _ (v : PolVal) => (⟨v.rules.tag, refsOf H v.rules⟩ : Rules))]
  cases mget (lastState h).activePols k <;> rfl

/-- THE SPECIFICATION'S LIST SATISFIES C03's `IsSpec` (no graph involved): for the final datastore state of a
consistently numbered history whose policy keys have pairwise different tie-break strings, the per-endpoint
list `fresh` writes down — `filterTiers matched e sortedTiers`, `sortedTiers` = one record per tier that exists
or is named by an active policy, insertion-sorted with `TierLess`, each with its active policies
insertion-sorted with `PolKVLess` — is sorted, non-empty per tier, carries the tier resources' attributes and
holds exactly the matching policies with their current metadata.  With `C03.isSpec_determines_list` this
identifies it with what the resolver emitted. -/
theorem fresh_tier_list_isSpec (h : List HStep) (N : Numbering) (hN : ∀ st ∈ h, N.stepOk st)
    (hK : C03.KeyU (histKeys h)) (e : EpKey) :
    C03.IsSpec (lastState h).tiers (lastState h).polMetas (lastState h).matched e
      (C03.filterTiers (lastState h).matched e (lastState h).sortedTiers) :=
  fresh_isSpec_of_hist h N hN hK e

/-- MEMBER INDEX END (C04 plugged into the composed graph; all histories whose network-set prefixes fit the
address width, any flush placement): (i) the member half of the IP-set protocol is respected — every
`OnIPSetMemberAdded` is for a declared set and an absent member, every `OnIPSetMemberRemoved` for a present one;
(ii) every declared IP set holds exactly the string images (under the injective `showMember`) of the members
C04's specification `memberSpec` assigns to it for the index's current tables: contributed by an endpoint /
network set whose effective labels match the set's selector and, with overlap suppression, not strictly inside
another contributed CIDR.  Proof: C04's invariant `Inv` carried through every graph function; each callback
of one index operation is for a set the index knows (`C01Idx`), which the graph has declared; strict replay
of the callbacks (C04 `members_once_and_alternate`) gives per-call validity. -/
theorem member_index_eq_c04_spec_partial (H : IdFn) (s : Bool) (h : List HStep)
    (hn : ∀ st ∈ h, match st with
      | .upd u => netsOk u
      | _ => True) :
    memberValidAll {} (run H (Graph.new s) h).1.calls ∧
    ∀ id f, (decl (run H (Graph.new s) h).1).ipsets id = some f → ∀ str,
      f str = true ↔ ∃ m, C04.memberSpec matchSel (run H (Graph.new s) h).1.idx id m ∧ showMember m = str :=
  member_index_in_graph H s h hn

/-- RESOLVER END (C03 plugged into the composed graph; all histories over policy keys `K` with pairwise
different tie-break strings, any flush placement, containing the in-sync signal): after the final flush
 * the PolicyResolver's flush did not hit its `Sorted()` panic, and
 * the declared endpoint state is, for each endpoint in the resolver's table, the update `⟨data, l⟩`
   whose tier list `l` satisfies C03's `IsSpec` for the FINAL tier datastore, the resolver's policy
   table and its match relation (so `l` is determined by those: `C03.isSpec_determines_list`); an
   endpoint not in the resolver's table is absent from the declared state.
Proof: the graph's resolver is a `C03.runL` run on some resolver history and the `endpointUpdate` calls
in the call log are that run's last-emitted map (`RInv`, carried through every graph function), then
`C03.resolver_eq_spec`. -/
theorem declared_endpoints_eq_resolver_spec_partial (H : IdFn) (s : Bool) (h : List HStep) (K : PolicyKey → Prop)
    (hK : C03.KeyU K) (hd : K default) (hin : ∀ st ∈ h, StepIn K st) (hs : HStep.inSync ∈ h) (e : EpKey) :
    ((run H (Graph.new s) h).1.res.flush).isSome = true ∧
    match mget (run H (Graph.new s) (h ++ [.flush])).1.res.endpoints e with
    | none => (decl (run H (Graph.new s) (h ++ [.flush])).1).ep e = none
    | some ep => ∃ l, (decl (run H (Graph.new s) (h ++ [.flush])).1).ep e = some (epDown e ⟨ep, l⟩) ∧
        C03.IsSpec (lastState h).tiers (run H (Graph.new s) (h ++ [.flush])).1.res.allPolicies
          (run H (Graph.new s) (h ++ [.flush])).1.res.matched e l :=
  declared_endpoints_isSpec H s h K hK hd hin hs e

/-- ARC PROFILE PATH inside the composed graph (all histories, all flush placements): the table of
active profiles the rule scanner has been told (`C05.view` of every OnProfileActive/Inactive made so
far) maps a profile to its current rules — or to the deny stand-in if it has none — exactly when some
stored local endpoint lists it, and has no entry otherwise.  Proved by showing that the graph's profile
path is the C05 model run on the history's projection (`arcProf_run`) and applying C05's theorem. -/
theorem arc_profile_table_eq_spec_partial (H : IdFn) (s : Bool) (h : List HStep) (p : String) :
    let a := (run H (Graph.new s) h).1.arcProf
    (C05.referenced a p → C05.alGet p (C05.view a.out) = some (C05.outOf a p)) ∧
    (¬ C05.referenced a p → C05.alGet p (C05.view a.out) = none) := by
  have hrun : (run H (Graph.new s) h).1.arcProf =
      C05.runRaw (C05.Arc.new RulesIn) ((profUpds h).map rawOf) := by
    rw [arcProf_run]
    unfold C05.runRaw
    rw [List.map_map]
    have : (C05.filter ∘ rawOf) = id := by funext u; exact filter_rawOf u
    rw [this, List.map_id]
    rfl
  simp only []
  rw [hrun]
  exact C05.view_eq_spec _ p

/-- PROFILES, graph level (all histories): the RuleScanner's `active` table holds profile `p` exactly when
a stored local endpoint lists it (`C05.referenced`), with the profile's current rules or — if it has
none — the deny stand-in.  (`profActInv_run`: the table follows the profile path's output log;
`arc_profile_table_eq_spec_partial`: that log's view is the C05 specification.)  What is left of
`RemainingContract.activeProfs` is only the identification of the C05 tables with the datastore
(`endpoint_table_after` / `profile_table_after` of Props/C05 along the history). -/
theorem active_profiles_eq_c05_spec_partial (H : IdFn) (s : Bool) (h : List HStep) (p : String) :
    let g := (run H (Graph.new s) h).1
    (C05.referenced g.arcProf p → mget g.active (.prof p) = some (outRules (C05.outOf g.arcProf p))) ∧
    (¬ C05.referenced g.arcProf p → mget g.active (.prof p) = none) := by
  have hi := profActInv_run H h (profActInv_new s)
  have hv := arc_profile_table_eq_spec_partial H s h p
  simp only [] at hv ⊢
  have hp : mget (run H (Graph.new s) h).1.active (.prof p) =
      (C05.alGet p (C05.view (run H (Graph.new s) h).1.arcProf.out)).map outRules := congrFun hi p
  refine ⟨fun hr => ?_, fun hr => ?_⟩
  · rw [hp, hv.1 hr]; rfl
  · rw [hp, hv.2 hr]; rfl

/-- ACTIVE PROFILES = SPECIFICATION (all consistently numbered histories, any flush placement): after the final
flush the RuleScanner's `active` table — hence the declared dataplane state — holds profile `p` iff some LOCAL
endpoint in the datastore lists it, with the profile's current rules or, if it has none, the deny stand-in:
exactly `fresh`'s profile table.  Proof: `active_profiles_eq_c05_spec_partial` (the table is C05's specification
of the ARC's own tables) and `PInv` (those tables are the datastore's). -/
theorem active_profiles_eq_spec_partial (H : IdFn) (s : Bool) (h : List HStep) (N : Numbering)
    (hN : ∀ st ∈ h, N.stepOk st) (p : String) :
    (mget (run H (Graph.new s) (h ++ [.flush])).1.active (.prof p)).map (rulesOf H) =
      mget (fresh H s (lastState h)).profs p := by
  have hc05 := active_profiles_eq_c05_spec_partial H s (h ++ [.flush]) p
  simp only [] at hc05
  have hi := pInv_frame (pInv_run H h (pInv_new N s) hN) (arcProf_flush (run H (Graph.new s) h).1)
  have ht := tabInv_flush (tabInv_run H h (tabInv_new N s) hN)
  rw [← run_snoc_flush] at hi ht
  have hd := dsNodup_lastState h {} ⟨by simp [mkeys], by simp [mkeys]⟩
  have key : mget (run H (Graph.new s) (h ++ [.flush])).1.active (.prof p) = mget (lastState h).activeProfs p :=
    activeProfs_eq_ds hi ht hd hc05
  rw [key]
  show _ = mget ((lastState h).activeProfs.map (fun q => (q.1, (⟨q.2.tag, refsOf H q.2⟩ : Rules)))) p
  rw [mget_map_val (fun _ (v : RulesIn) => (⟨v.tag, refsOf H v⟩ : Rules))]
  cases mget (lastState h).activeProfs p <;> rfl

/-- DECLARED IP SETS = SPECIFICATION (all well-formed histories, id function collision-free on the definitions IN
PLAY — `InPlay`: held by the rule scanner or referenced by the specification at the end —, any flush placement):
after the final flush the declared IP sets are exactly the sets referenced by the specification's active
policies / profiles (`DS.activeSets`), and each holds exactly the string images of `DS.members`: the members
contributed by every endpoint / network set in the datastore whose effective labels (own, then the listed
profiles' in order) match the set's selector — for a named-port set the (address, protocol, port) combinations
of its matching ports — and, with overlap suppression, not strictly inside another contributed CIDR.
Proof: `member_index_eq_c04_spec_partial`; the member index's tables are the datastore's / the rule scanner's
(`XInv`); C04's `memberSpec` for those tables is `DS.members` (`memberSpec_iff`); the rule scanner's in-use sets
are the specification's (`declared_eq_rulescanner_partial` + the two ACTIVE … = SPEC theorems). -/
theorem declared_ipsets_eq_spec_partial (H : IdFn) (s : Bool) (h : List HStep) (N : Numbering)
    (hw : WellFormed N h) (hinj : ∀ d d' : IpSetDef, H d = H d' → InPlay H s h d → InPlay H s h d' → d = d') :
    (decl (run H (Graph.new s) (h ++ [.flush])).1).ipsets = (fresh H s (lastState h)).toDP.ipsets := by
  have hN := hw.stepOk
  have hx := stable_flush (xInv_stable N H s _) (xInv_run h (xInv_new N H s) hN)
  have hn' : ∀ st ∈ h ++ [HStep.flush], match st with
      | .upd u => C01.netsOk u
      | _ => True := by
    intro st hst
    rcases List.mem_append.mp hst with h1 | h1
    · exact hw.netsOk st h1
    · simp only [List.mem_singleton] at h1; subst h1; trivial
  have hc := cInv_run (H := H) (h ++ [.flush]) (cInv_new H s) hn'
  have ht := tabInv_flush (tabInv_run H h (tabInv_new N s) hN)
  have hpi := pInv_frame (pInv_run H h (pInv_new N s) hN) (arcProf_flush (run H (Graph.new s) h).1)
  rw [← run_snoc_flush] at hx ht hpi
  have hd := dsNodup_lastState h {} ⟨by simp [mkeys], by simp [mkeys]⟩
  have hnn := netsets_nodup_lastState h {} (by simp [mkeys])
  have hpk : (mkeys (lastState h).activePols).Nodup :=
    (nodup_keys_filterMap _ (lastState h).pols (polKeys_nodup (tabInv_run H h (tabInv_new N s) hN).polsConf hd.pols)).1
  funext id
  exact ipsets_eq_fresh hx hc.rs hc.ii hd hnn (fun d d' e h1 h2 => hinj d d' e (Or.inl h1) (Or.inr h2))
    (fun k => active_policies_eq_datastore H s h N hw.histOk k) hpk
    (fun p => activeProfs_eq_ds hpi ht hd (active_profiles_eq_c05_spec_partial H s (h ++ [.flush]) p)) id

/-- PASS-THROUGH NODES (generic; all histories): a node that forwards each update of a key as update/remove
declares, after ANY history, per key exactly the last value written (nothing after a delete / if never
written) — a function of the current datastore contents only. -/
theorem passthru_node_history_independent_generic {κ β : Type} [DecidableEq κ] (h : List (κ × Option β)) (k : κ) :
    mget (h.foldl (fun m u => setOrDel u.1 u.2 m) []) k = (lastWrite h k).getD none :=
  passthru_node_history_independent h k

/-- PASS-THROUGH OBJECTS inside the composed graph (all histories, any flush placement; instantiates the generic
lemma per category: IP pools `IPAMPoolUpdate/Remove`, Kubernetes services, service accounts, namespaces, host
metadata — whatever the harness feeds as `passthru`): the declared objects of every category are, per key, the
last value the history wrote; no other node of the graph ever makes such a call. -/
theorem declared_passthru_eq_last_write_partial (H : IdFn) (s : Bool) (h : List HStep) (c : GenCat) (k : String) :
    (decl (run H (Graph.new s) h).1).gen c k = (lastWrite (genWrites h) (c, k)).getD none := by
  have hi := genInv_run H h (genInv_new s)
  rw [hi c k, lastState_gen h {}]
  exact passthru_node_history_independent (genWrites h) (c, k)

/-- END-TO-END (partial: modelled nodes only, and under the named `RemainingContract`): for every
history `h` of datastore updates (duplicates, reverts, spurious deletes, invalid values = deletes) with
flushes anywhere, followed by a final flush, the dataplane state described by everything emitted
equals the state a fresh Felix emits for the final datastore state.  The IP-set add/remove half of the
protocol and "declared policies/profiles = RuleScanner table" are PROVED (above) and used here. -/
theorem calc_history_independent_partial (H : IdFn) (s : Bool) (h : List HStep)
    (hc : RemainingContract H s h) :
    accumulate (run H (Graph.new s) (h ++ [.flush])).2 = (fresh H s (lastState h)).toDP := by
  have hvalid : validAll {} (run H (Graph.new s) (h ++ [.flush])).1.calls := by
    obtain ⟨N, hN⟩ := hc.wellFormed
    refine validAll_of _ _ (ipset_add_remove_valid_partial H s (h ++ [.flush]))
      (member_index_eq_c04_spec_partial H s (h ++ [.flush]) ?_).1
    intro st hst
    rcases List.mem_append.mp hst with h1 | h1
    · exact hN.netsOk st h1
    · simp only [List.mem_singleton] at h1; subst h1; trivial
  rw [accumulate_eq_declared_partial H s h hvalid]
  have hd := declared_eq_rulescanner_partial H s (h ++ [.flush])
  simp only [] at hd
  show decl _ = _
  have hpol : (decl (run H (Graph.new s) (h ++ [.flush])).1).pol = (fresh H s (lastState h)).toDP.pol := by
    obtain ⟨N, hN⟩ := hc.wellFormed
    funext k; rw [hd.1 k, active_policies_eq_spec_partial H s h N hN k]; rfl
  have hprof : (decl (run H (Graph.new s) (h ++ [.flush])).1).prof = (fresh H s (lastState h)).toDP.prof := by
    obtain ⟨N, hN⟩ := hc.wellFormed
    funext p; rw [hd.2.1 p, active_profiles_eq_spec_partial H s h N hN.stepOk p]; rfl
  have ho := others_untouched _ ({} : DP) (ipset_add_remove_valid_partial H s (h ++ [.flush]))
  have hep : (decl (run H (Graph.new s) (h ++ [.flush])).1).ep = (fresh H s (lastState h)).toDP.ep := by
    funext e
    obtain ⟨N, hN⟩ := hc.wellFormed
    have ht := resolver_tables_eq_datastore_partial H s h N hN.stepOk
    exact endpoints_of H s h hc.keyU hc.sawInSync ht.1 ht.2
      (resolver_matched_eq_datastore_partial H s h N hN)
      (fun e _ => fresh_tier_list_isSpec h N hN.stepOk hc.keyU e) e
  have hips : (decl (run H (Graph.new s) (h ++ [.flush])).1).ipsets = (fresh H s (lastState h)).toDP.ipsets := by
    obtain ⟨N, hN⟩ := hc.wellFormed
    exact declared_ipsets_eq_spec_partial H s h N hN hc.idInj
  have hgen : (decl (run H (Graph.new s) (h ++ [.flush])).1).gen = (fresh H s (lastState h)).toDP.gen := by
    funext c k
    have hi := genInv_noGen (genInv_run H h (genInv_new s)) (noGen_flush (run H (Graph.new s) h).1) rfl
    rw [← run_snoc_flush] at hi
    exact hi c k
  exact DP.ext' hips hpol hprof hep ho.1 ho.2 hgen

/-- RULE SCANNER node theorem (all histories of OnPolicyActive/Inactive, OnProfileActive/Inactive):
`key` references exactly the IP sets of its latest rules; the OnIPSetActive / OnIPSetInactive events are a
legal activation sequence ending with exactly the referenced sets in use. -/
theorem rulescanner_node_eq_spec (l : List (RulesId × List (String × IpSetDef)))
    (hcur : ∀ c ∈ l, (C02.mkeys c.2).Nodup) :
    (∀ k u, (k, u) ∈ (rsRun l).1.refs ↔ (C02.mget (lastCur k l) u).isSome = true) ∧
    EvReplay (fun _ => false) (rsRun l).2 (rsRun l).1.inUse ∧
    (∀ u, (rsRun l).1.inUse u = true ↔ ∃ k, (C02.mget (lastCur k l) u).isSome = true) :=
  rulescanner_eq_spec l hcur

/-- ARC POLICY PATH inside the composed graph (all histories, all flush placements): the
ActiveRulesCalculator's `policyIDToEndpointKeys` relates policy number `n` and local endpoint number
`i` exactly when both are known to the label index and the policy's selector evaluates to true on the
endpoint's effective labels (own labels, then the profiles' labels in order).  (`_partial`: the
`PerformanceHints` force-programming dummy match is not modelled.) -/
theorem arc_policy_matches_eq_eval_partial (H : IdFn) (s : Bool) (h : List HStep) (n i : Nat) :
    (n, i) ∈ (run H (Graph.new s) h).1.polEps ↔
      ∃ sel it, C07.lookup n (run H (Graph.new s) h).1.lbl.sels = some sel ∧
        C07.lookup i (run H (Graph.new s) h).1.lbl.items = some it ∧
        sel.eval (C07.effLabels (run H (Graph.new s) h).1.lbl it) = true := by
  have hi := arcInv_run H h (arcInv_new s)
  rw [hi.mirrors (n, i)]
  exact hi.idx.sound (n, i)

/-! ### non-vacuity: a concrete history (policy selecting a local endpoint through an inherited
profile label, an IP set with members, reverts and a spurious delete, flushes in between) for which
the contract's conclusion holds by computation on the model -/

def exH : IdFn := fun d => String.ofList d.sel ++ "/" ++ toString d.proto ++ "/" ++ d.port

def exPol : PolVal :=
  { pmeta := { tier := "default", order := some 10, doNotTrack := false, preDNAT := false, applyOnForward := false, types := [] }
    sel := "a == 'x'".toList
    rules := ⟨"t1", [{ proto := none, srcSel := "has(b)".toList, notSrcSel := [], dstSel := [], notDstSel := [],
                        srcNamed := [], srcNumeric := false, dstNamed := [], dstNumeric := false,
                        notSrcNamed := [], notSrcNumeric := false, notDstNamed := [], notDstNumeric := false }], []⟩ }

def exEp (labels : C04.Labels) : EpVal :=
  { tag := "e", labels := labels, profiles := ["p0"], nets := [⟨false, 167772161, 32⟩], ports := [] }

def exHist : List HStep :=
  [.upd (.tier "default" (some (some 100, "Deny"))),
   .upd (.policy 0 ⟨"pol0", "", "gnp"⟩ (some exPol)),
   .upd (.endpoint 0 (.wep "w0") true (some (exEp [("b", "1")]))),
   .flush,
   .upd (.profLabels "p0" (some [("a", "x")])),       -- now the policy matches through the profile
   .inSync, .flush,
   .upd (.profLabels "p0" none), .upd (.profLabels "p0" (some [("a", "x")])),   -- revert
   .upd (.netset "n" none),                             -- spurious delete
   .upd (.passthru .pool "10.0.0.0-16" (some "poolA")), .upd (.passthru .pool "10.0.1.0-24" (some "poolB")),
   .upd (.passthru .pool "10.0.1.0-24" none)]           -- IP pools through the pass-through node; one deleted again

/-- the model runs the example without a panic and emits 7 messages … -/
example : (run exH (Graph.new true) (exHist ++ [.flush])).1.panicked = false := by decide
example : (run exH (Graph.new true) (exHist ++ [.flush])).2.length = 8 := by decide
example : (fresh exH true (lastState exHist)).gen = [((.pool, "10.0.0.0-16"), "poolA")] := by decide
/-- … in the final datastore the policy matches the local endpoint through the inherited label,
profile `p0` is referenced but has no rules (deny stand-in), one IP set is needed -/
example : (lastState exHist).matched = [(⟨"pol0", "", "gnp"⟩, .wep "w0")] := by decide
example : (lastState exHist).activeProfs = [("p0", dummyDropRules)] := by decide
example : ((lastState exHist).activeSets exH).map (·.1) = ["has(b)/0/"] := by decide
example : ((lastState exHist).members true ⟨"has(b)".toList, 0, ""⟩).map showMember = ["c4/167772161/32"] := by decide


/-! ### non-vacuity of the hypotheses: `RemainingContract` holds for the example history with a collision-free
id function, so the end-to-end theorem applies to it -/

/-- a collision-free id function: length-prefixed encoding of (selector, protocol, port) -/
def encDef (d : IpSetDef) : List Char :=
  showNatL d.sel.length ++ ':' :: (d.sel ++ (showNatL d.proto ++ ':' :: d.port.toList))
def injH : IdFn := fun d => String.ofList (encDef d)

theorem colon_not_mem_showNatL (n : Nat) : ':' ∉ showNatL n := by
  unfold showNatL
  intro h
  obtain ⟨d, hd, he⟩ := List.mem_map.mp h
  have hlt := digitsLE_lt _ _ d (List.mem_reverse.mp hd)
  have key : ∀ a : Fin 10, Char.ofNat (48 + a.val) ≠ ':' := by decide
  exact key ⟨d, hlt⟩ he

theorem injH_inj : ∀ d d' : IpSetDef, injH d = injH d' → d = d' := by
  intro d d' h
  have h1 : encDef d = encDef d' := String.ofList_inj.mp h
  unfold encDef at h1
  obtain ⟨e1, e2⟩ := append_sep_inj (colon_not_mem_showNatL _) (colon_not_mem_showNatL _) h1
  have hlen : d.sel.length = d'.sel.length := showNatL_inj e1
  obtain ⟨e3, e4⟩ := List.append_inj e2 hlen
  obtain ⟨e5, e6⟩ := append_sep_inj (colon_not_mem_showNatL _) (colon_not_mem_showNatL _) e4
  obtain ⟨s1, p1, q1⟩ := d
  obtain ⟨s2, p2, q2⟩ := d'
  simp only [] at e3 e5 e6
  rw [e3, showNatL_inj e5, String.toList_inj.1 e6]

/-- the numbering of the example: endpoint `n` is `w<n>` on the local host, policy `n` is `pol<n>` -/
def exNumbering : Numbering where
  ek n := .wep (String.ofList ('w' :: showNatL n))
  lc _ := true
  pk n := ⟨String.ofList ('p' :: 'o' :: 'l' :: showNatL n), "", "gnp"⟩
  ekInj a b h := by
    simp only [EpKey.wep.injEq, String.ofList_inj, List.cons.injEq, true_and] at h
    exact showNatL_inj h
  pkInj a b h := by
    simp only [PolicyKey.mk.injEq, String.ofList_inj, List.cons.injEq, true_and, and_true] at h
    exact showNatL_inj h

theorem exHist_contract : RemainingContract injH true exHist := by
  refine ⟨fun d d' e _ _ => injH_inj d d' e, ⟨?_⟩, by simp [exHist], ⟨exNumbering, ?_⟩⟩
  · -- the two policy keys in play: the zero key and `pol0`
    have hk : ∀ k, histKeys exHist k → k = default ∨ k = ⟨"pol0", "", "gnp"⟩ := by
      intro k hk
      rcases hk with h | ⟨nid, v, h⟩
      · exact Or.inl h
      · simp [exHist] at h
        exact Or.inr h.2.1
    intro a b ha hb hab
    rcases hk a ha with rfl | rfl <;> rcases hk b hb with rfl | rfl
    · rfl
    · exact absurd hab (by decide)
    · exact absurd hab (by decide)
    · rfl
  · intro st hst
    simp only [exHist, List.mem_cons, List.not_mem_nil, or_false] at hst
    rcases hst with rfl | rfl | rfl | rfl | rfl | rfl | rfl | rfl | rfl | rfl | rfl | rfl | rfl
    · exact ⟨trivial, trivial, trivial, trivial⟩
    · refine ⟨?_, ?_, trivial, ?_⟩
      · show (⟨"pol0", "", "gnp"⟩ : PolicyKey) = exNumbering.pk 0
        decide
      · show C06.validate exPol.sel = .ok ()
        rfl
      · show rulesParse exPol.rules
        intro r hr
        simp only [exPol, List.append_nil, List.mem_singleton] at hr
        subst hr
        intro raw hraw
        simp only [scannedSels, combine, List.mem_cons, List.not_mem_nil, or_false] at hraw
        rcases hraw with rfl | rfl | rfl | rfl
        · exact Or.inr rfl
        · exact Or.inl rfl
        · exact Or.inl rfl
        · exact Or.inl rfl
    · refine ⟨⟨?_, rfl⟩, trivial, trivial, trivial⟩
      show EpKey.wep "w0" = exNumbering.ek 0
      decide
    · trivial
    · exact ⟨trivial, trivial, trivial, trivial⟩
    · trivial
    · trivial
    · exact ⟨trivial, trivial, trivial, trivial⟩
    · exact ⟨trivial, trivial, trivial, trivial⟩
    · exact ⟨trivial, trivial, trivial, trivial⟩
    · exact ⟨trivial, trivial, trivial, trivial⟩
    · exact ⟨trivial, trivial, trivial, trivial⟩
    · exact ⟨trivial, trivial, trivial, trivial⟩

/-- hence, with NO further assumption: everything the model emits for the example history accumulates to what a
fresh Felix emits for its final datastore state -/
theorem exHist_history_independent :
    accumulate (run injH (Graph.new true) (exHist ++ [.flush])).2 = (fresh injH true (lastState exHist)).toDP :=
  calc_history_independent_partial injH true exHist exHist_contract

end CalicoVerif.C01
