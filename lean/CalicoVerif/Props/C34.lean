import CalicoVerif.Model.C34
import CalicoVerif.Gen.C34
/-!
C34 — Tiered policy authorization is correct and race-free.
-/
namespace CalicoVerif.C34

theorem runSchedule_cons (ans : Nat → Answer) (g : Nat) (s : List Nat) (v : Vars) :
    runSchedule ans (g :: s) v = runSchedule ans s (runG ans g v) := rfl

theorem getTier_final (ans : Nat → Answer) : ∀ (s : List Nat) (v : Vars),
    (runSchedule ans s v).getTier = if 0 ∈ s then (ans 0).d else v.getTier := by
  intro s
  induction s with
  | nil => intro v; simp [runSchedule]
  | cons g s ih =>
    intro v
    rw [runSchedule_cons, ih]
    by_cases h0 : 0 ∈ s
    · simp [h0]
    · match g with
      | 0 => simp [h0, runG]
      | 1 => simp [h0, runG]
      | 2 => simp [h0, runG]
      | n + 3 => simp [h0, runG]

theorem policy_final (ans : Nat → Answer) : ∀ (s : List Nat) (v : Vars),
    (runSchedule ans s v).policy = if 1 ∈ s then (ans 1).d else v.policy := by
  intro s
  induction s with
  | nil => intro v; simp [runSchedule]
  | cons g s ih =>
    intro v
    rw [runSchedule_cons, ih]
    by_cases h0 : 1 ∈ s
    · simp [h0]
    · match g with
      | 0 => simp [h0, runG]
      | 1 => simp [h0, runG]
      | 2 => simp [h0, runG]
      | n + 3 => simp [h0, runG]

theorem wildcard_final (ans : Nat → Answer) : ∀ (s : List Nat) (v : Vars),
    (runSchedule ans s v).wildcard = if 2 ∈ s then (ans 2).d else v.wildcard := by
  intro s
  induction s with
  | nil => intro v; simp [runSchedule]
  | cons g s ih =>
    intro v
    rw [runSchedule_cons, ih]
    by_cases h0 : 2 ∈ s
    · simp [h0]
    · match g with
      | 0 => simp [h0, runG]
      | 1 => simp [h0, runG]
      | 2 => simp [h0, runG]
      | n + 3 => simp [h0, runG]

/-- **Decision theorem.**  With an authorizer and readable attributes, for ALL answers
(decision × error, 3 × 2 per check) of the three checks and for EVERY interleaving of the three
stores (any schedule in which each goroutine runs, in any order), the request is allowed exactly
when the user may GET the tier and may perform the operation on the policy's name or on the
tier's wildcard; errors returned by the authorizer do not change the outcome. -/
theorem authz_iff (ans : Nat → Answer) (sched : List Nat)
    (h0 : 0 ∈ sched) (h1 : 1 ∈ sched) (h2 : 2 ∈ sched) :
    authorizeTierOp true true ans sched = .allow ↔
      ((ans 0).d = .allow ∧ ((ans 1).d = .allow ∨ (ans 2).d = .allow)) := by
  unfold authorizeTierOp allowed
  simp only [Bool.not_true, Bool.false_eq_true, if_false, getTier_final, policy_final,
    wildcard_final, h0, h1, h2, if_true]
  cases (ans 0).d <;> cases (ans 1).d <;> cases (ans 2).d <;> simp

/-- The outcome (including which Forbidden message) is the same for every schedule. -/
theorem schedule_independent (ans : Nat → Answer) (s1 s2 : List Nat)
    (h : ∀ g, g < 3 → (g ∈ s1 ∧ g ∈ s2)) (a b : Bool) :
    authorizeTierOp a b ans s1 = authorizeTierOp a b ans s2 := by
  have h0 := h 0 (by omega); have h1 := h 1 (by omega); have h2 := h 2 (by omega)
  unfold authorizeTierOp allowed
  simp only [getTier_final, policy_final, wildcard_final, h0.1, h0.2, h1.1, h1.2, h2.1, h2.2, if_true]

/-- Fail closed: anything but `allow` from the tier GET forbids, with the "cannot get tier" message. -/
theorem no_tier_get_forbids (ans : Nat → Answer) (sched : List Nat) (h0 : 0 ∈ sched)
    (h : (ans 0).d ≠ .allow) : authorizeTierOp true true ans sched = .forbiddenNoGet := by
  unfold authorizeTierOp allowed
  simp only [Bool.not_true, Bool.false_eq_true, if_false, getTier_final, h0, if_true]
  cases hd : (ans 0).d <;> simp_all

example : authorizeTierOp true true (fun g => if g = 1 then ⟨.deny, true⟩ else ⟨.allow, false⟩) [2, 0, 1] = .allow := by decide
example : authorizeTierOp true true (fun g => if g = 0 then ⟨.noOpinion, false⟩ else ⟨.allow, false⟩) [0, 1, 2] = .forbiddenNoGet := by decide

/-- In the sequentially consistent model the SHARED `err` ends up holding whichever goroutine
stored last — the observable shadow of the data race on it. -/
theorem shared_err_is_schedule_dependent :
    ∃ ans s1 s2, (runSchedule ans s1 {}).err ≠ (runSchedule ans s2 {}).err ∧ s1.Perm s2 :=
  ⟨fun g => ⟨.allow, g == 0⟩, [0, 1, 2], [1, 2, 0], by decide, by decide⟩

/-! ## data races (regenerated access structure) -/

/-- **Race freedom, as far as it holds.**  In the access structure regenerated from the current
source, every data race (two unsynchronised accesses to one captured variable, one a write) is on
the variable named `err`, and `err` is not read after `wg.Wait()` nor is it one of the decision
variables — so no race can reach the returned result.  (The full statement `raceFree = true`
additionally needs `err` to be goroutine-local; `conflicts` lists what is left.) -/
theorem race_free_partial :
    (∀ c ∈ conflicts Gen.program, c.var = Gen.errVar) ∧
    Gen.errVar ∉ Gen.program.afterJoinReads ∧ Gen.errVar ∉ Gen.decisionVars := by decide

/-- Each decision variable is written by exactly one goroutine, and the three are distinct. -/
theorem decisions_single_writer :
    Gen.decisionVars.Nodup ∧
    ∀ v ∈ Gen.decisionVars, ((Gen.program.goroutines.filter (fun g => g.writes.contains v)).length = 1) := by
  decide

/-- The checker itself: a program is race free iff `conflicts` is empty; an example of each kind. -/
theorem raceFree_iff (P : Program) : raceFree P = true ↔ conflicts P = [] := by
  unfold raceFree; simp [List.isEmpty_iff]

example : raceFree ⟨[⟨[1], [3]⟩, ⟨[2], [3]⟩], [⟨[], []⟩, ⟨[], []⟩], [1, 2]⟩ = true := by decide
example : conflicts ⟨[⟨[1, 9], [3]⟩, ⟨[2, 9], [3]⟩], [⟨[], []⟩, ⟨[], []⟩], [1, 2]⟩ = [⟨9, 0, 1⟩] := by decide

end CalicoVerif.C34
