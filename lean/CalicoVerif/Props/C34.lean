import CalicoVerif.Proofs.C34Sem
import CalicoVerif.Gen.C34
/-!
C34 — Tiered policy authorization is correct and race-free.
-/
namespace CalicoVerif.C34

theorem runSchedule_cons (ans : Nat → Answer) (g : Nat) (s : List Nat) (v : Vars) :
    runSchedule ans (g :: s) v = runSchedule ans s (runG ans g v) := rfl

theorem getTier_final (ans : Nat → Answer) : ∀ (s : List Nat) (v : Vars),
    (runSchedule ans s v).getTier = if 0 ∈ s then (ans 0).d else v.getTier := by
  intro s
  induction s with
  | nil => intro v; simp [runSchedule]
  | cons g s ih =>
    intro v
    rw [runSchedule_cons, ih]
    by_cases h0 : 0 ∈ s
    · simp [h0]
    · match g with
      | 0 => simp [h0, runG]
      | 1 => simp [h0, runG]
      | 2 => simp [h0, runG]
      | n + 3 => simp [h0, runG]

theorem policy_final (ans : Nat → Answer) : ∀ (s : List Nat) (v : Vars),
    (runSchedule ans s v).policy = if 1 ∈ s then (ans 1).d else v.policy := by
  intro s
  induction s with
  | nil => intro v; simp [runSchedule]
  | cons g s ih =>
    intro v
    rw [runSchedule_cons, ih]
    by_cases h0 : 1 ∈ s
    · simp [h0]
    · match g with
      | 0 => simp [h0, runG]
      | 1 => simp [h0, runG]
      | 2 => simp [h0, runG]
      | n + 3 => simp [h0, runG]

theorem wildcard_final (ans : Nat → Answer) : ∀ (s : List Nat) (v : Vars),
    (runSchedule ans s v).wildcard = if 2 ∈ s then (ans 2).d else v.wildcard := by
  intro s
  induction s with
  | nil => intro v; simp [runSchedule]
  | cons g s ih =>
    intro v
    rw [runSchedule_cons, ih]
    by_cases h0 : 2 ∈ s
    · simp [h0]
    · match g with
      | 0 => simp [h0, runG]
      | 1 => simp [h0, runG]
      | 2 => simp [h0, runG]
      | n + 3 => simp [h0, runG]

/-- The model's hand-written decision `allowed` IS the condition of the final `if` regenerated from
the source (all 27 decision triples). -/
theorem allowed_eq_generated (v : Vars) : allowed v = Gen.allowedCond v := by
  obtain ⟨a, b, c⟩ := v
  cases a <;> cases b <;> cases c <;> decide

/-- **Decision theorem.**  With an authorizer and readable attributes, for ALL answers
(decision × error, 3 × 2 per check) of the three checks and for EVERY interleaving of the three
stores (any schedule in which each goroutine runs, in any order), the request is allowed exactly
when the user may GET the tier and may perform the operation on the policy's name or on the
tier's wildcard; errors returned by the authorizer do not change the outcome. -/
theorem authz_iff (ans : Nat → Answer) (sched : List Nat)
    (h0 : 0 ∈ sched) (h1 : 1 ∈ sched) (h2 : 2 ∈ sched) :
    authorizeTierOp true true ans sched = .allow ↔
      ((ans 0).d = .allow ∧ ((ans 1).d = .allow ∨ (ans 2).d = .allow)) := by
  unfold authorizeTierOp allowed
  simp only [Bool.not_true, Bool.false_eq_true, if_false, getTier_final, policy_final,
    wildcard_final, h0, h1, h2, if_true]
  cases (ans 0).d <;> cases (ans 1).d <;> cases (ans 2).d <;> simp

/-- The outcome (including which Forbidden message) is the same for every schedule. -/
theorem schedule_independent (ans : Nat → Answer) (s1 s2 : List Nat)
    (h : ∀ g, g < 3 → (g ∈ s1 ∧ g ∈ s2)) (a b : Bool) :
    authorizeTierOp a b ans s1 = authorizeTierOp a b ans s2 := by
  have h0 := h 0 (by omega); have h1 := h 1 (by omega); have h2 := h 2 (by omega)
  unfold authorizeTierOp allowed
  simp only [getTier_final, policy_final, wildcard_final, h0.1, h0.2, h1.1, h1.2, h2.1, h2.2, if_true]

/-- Fail closed: anything but `allow` from the tier GET forbids, with the "cannot get tier" message. -/
theorem no_tier_get_forbids (ans : Nat → Answer) (sched : List Nat) (h0 : 0 ∈ sched)
    (h : (ans 0).d ≠ .allow) : authorizeTierOp true true ans sched = .forbiddenNoGet := by
  unfold authorizeTierOp allowed
  simp only [Bool.not_true, Bool.false_eq_true, if_false, getTier_final, h0, if_true]
  cases hd : (ans 0).d <;> simp_all

example : authorizeTierOp true true (fun g => if g = 1 then ⟨.deny, true⟩ else ⟨.allow, false⟩) [2, 0, 1] = .allow := by decide
example : authorizeTierOp true true (fun g => if g = 0 then ⟨.noOpinion, false⟩ else ⟨.allow, false⟩) [0, 1, 2] = .forbiddenNoGet := by decide

/-! ## data races (regenerated access structure) -/

/-- **Race freedom.**  The access structure regenerated from the current source has no data race:
no captured variable is written by one goroutine and touched by another, nor written/read by the
main goroutine while a goroutine that touches it is already running. -/
theorem race_free : raceFree Gen.program = true := by decide

/-- Each decision variable is written by exactly one goroutine, and the three are distinct. -/
theorem decisions_single_writer :
    Gen.decisionVars.Nodup ∧
    ∀ v ∈ Gen.decisionVars, ((Gen.program.goroutines.filter (fun g => g.writes.contains v)).length = 1) := by
  decide

/-- The checker: a program is race free iff `conflicts` is empty. -/
theorem raceFree_iff (P : Program) : raceFree P = true ↔ conflicts P = [] := by
  unfold raceFree; simp [List.isEmpty_iff]

/-- Regression witness about the OLD shape of the function (before repo commit 4b22d3f every
goroutine assigned the captured outer `err`, variable 1): the checker reports exactly that. -/
def oldProgram : Program :=
  { goroutines := [⟨[2, 1], [3, 4, 5, 1, 6, 7]⟩, ⟨[8, 1], [3, 4, 5, 1, 9, 10, 7]⟩, ⟨[11, 1], [3, 4, 5, 1, 9, 6, 10, 7]⟩],
    mainBetween := [⟨[8, 11, 9, 10], [4, 10]⟩, ⟨[], []⟩, ⟨[], []⟩],
    afterJoinReads := [4, 2, 8, 11, 12, 13, 6] }

theorem old_shape_is_racy :
    raceFree oldProgram = false ∧ ∀ c ∈ conflicts oldProgram, c.var = 1 := by decide

example : raceFree ⟨[⟨[1], [3]⟩, ⟨[2], [3]⟩], [⟨[], []⟩, ⟨[], []⟩], [1, 2]⟩ = true := by decide
example : conflicts ⟨[⟨[1, 9], [3]⟩, ⟨[2, 9], [3]⟩], [⟨[], []⟩, ⟨[], []⟩], [1, 2]⟩ = [⟨9, 0, 1⟩] := by decide
/-- main writes a variable while an already started goroutine reads it -/
example : conflicts ⟨[⟨[1], [3]⟩, ⟨[2], []⟩], [⟨[3], []⟩, ⟨[], []⟩], []⟩ = [⟨3, 100, 0⟩] := by decide

/-! ## no conflicts ⇒ schedule-deterministic, for ARBITRARY access programs -/

/-- The goroutines `progs` (lists of atomic steps `target := f(deps)`) stay within the access sets of `P`. -/
def Refines (progs : List (List Step)) (P : Program) : Prop :=
  ∀ (g : Nat) (p : List Step), progs[g]? = some p → ∃ acc : Accesses, P.goroutines[g]? = some acc ∧
    ∀ s ∈ p, s.target ∈ acc.writes ∧ ∀ d ∈ s.deps, d ∈ acc.reads

theorem mem_getD {progs : List (List Step)} {g : Nat} {s : Step} (h : s ∈ progs.getD g []) :
    ∃ p, progs[g]? = some p ∧ s ∈ p := by
  rw [List.getD_eq_getElem?_getD] at h
  cases hp : progs[g]? with
  | none => rw [hp] at h; simp at h
  | some p => rw [hp] at h; exact ⟨p, rfl, by simpa using h⟩

theorem indep_of_lt {P : Program} (hc : conflicts P = []) {progs : List (List Step)} (href : Refines progs P)
    {i j : Nat} {p q : List Step} (hi : progs[i]? = some p) (hj : progs[j]? = some q) (hij : i < j)
    {a b : Step} (ha : a ∈ p) (hb : b ∈ q) : Indep a b := by
  obtain ⟨ai, hai, ra⟩ := href i p hi
  obtain ⟨aj, haj, rb⟩ := href j q hj
  obtain ⟨n1, n2⟩ := racyVars_nil (conflicts_nil_goroutines hc hai haj hij)
  obtain ⟨aw, ar⟩ := ra a ha
  obtain ⟨bw, br⟩ := rb b hb
  refine ⟨?_, ?_, ?_⟩
  · intro e; exact (n1 _ aw).1 (e ▸ bw)
  · intro e; exact (n1 _ aw).2 (br _ e)
  · intro e; exact n2 _ bw (ar _ e)

/-- **Semantic race-freedom theorem.**  For EVERY fork-join access program `P` the checker
accepts, every family of goroutines that stays within `P`'s access sets, and every initial store:
any two interleavings (arbitrary schedules preserving each goroutine's program order) end in the
same store.  So `conflicts P = []` really means "the join sees one result whatever the schedule". -/
theorem race_free_deterministic {P : Program} (hrf : raceFree P = true)
    {progs : List (List Step)} (href : Refines progs P) {tr1 tr2 : List Event}
    (h1 : IsInterleaving progs tr1) (h2 : IsInterleaving progs tr2) (σ : Store) :
    run tr1 σ = run tr2 σ := by
  have hc := (raceFree_iff P).1 hrf
  apply run_eq_of_proj_eq
  · intro a ha b hb hab
    obtain ⟨p, hp, hap⟩ := mem_getD (h1 a.1 ▸ proj_mem ha)
    obtain ⟨q, hq, hbq⟩ := mem_getD (h1 b.1 ▸ proj_mem hb)
    by_cases hlt : a.1 < b.1
    · exact indep_of_lt hc href hp hq hlt hap hbq
    · have hgt : b.1 < a.1 := by omega
      obtain ⟨x, y, z⟩ := indep_of_lt hc href hq hp hgt hbq hap
      exact ⟨fun e => x e.symm, z, y⟩
  · intro g; rw [h1 g, h2 g]

/-- Instance for the function under check: whatever the three goroutines of
AuthorizeTierOperation compute from the variables the translator saw them read, into the
variables it saw them write, the state at `wg.Wait()` does not depend on the schedule. -/
theorem authorizer_goroutines_deterministic {progs : List (List Step)} (href : Refines progs Gen.program)
    {tr1 tr2 : List Event} (h1 : IsInterleaving progs tr1) (h2 : IsInterleaving progs tr2) (σ : Store) :
    run tr1 σ = run tr2 σ :=
  race_free_deterministic race_free href h1 h2 σ

/-- Not vacuous: two one-step goroutines writing variables 1 and 2 from variable 3 refine a race
free program, and both orders are interleavings. -/
example : let s1 : Step := ⟨1, [3], fun l => l.sum⟩; let s2 : Step := ⟨2, [3], fun l => l.sum + 1⟩
    IsInterleaving [[s1], [s2]] [(0, s1), (1, s2)] ∧ IsInterleaving [[s1], [s2]] [(1, s2), (0, s1)] := by
  intro s1 s2
  constructor <;> intro g <;> (match g with | 0 => rfl | 1 => rfl | n + 2 => rfl)

/-- The hypothesis matters: with a conflict the two orders differ. -/
example : let s1 : Step := ⟨1, [], fun _ => 7⟩; let s2 : Step := ⟨1, [], fun _ => 9⟩
    run [(0, s1), (1, s2)] (fun _ => 0) 1 ≠ run [(1, s2), (0, s1)] (fun _ => 0) 1 := by decide

end CalicoVerif.C34
