import CalicoVerif.Proofs.C06Roundtrip
import CalicoVerif.Proofs.C06Wf
import CalicoVerif.Proofs.C06Validate
import CalicoVerif.Proofs.C06Fuel
/-!
C06 — Selectors keep their meaning through canonical formatting.

Property theorems only; helper lemmas live in `CalicoVerif.Proofs.C06*`, the
model in `CalicoVerif.Model.C06{Tokenizer,Ast,Parser}`.

Statement of the property: for every selector expression `s` the parser accepts
(`parse s = ok t`), the canonical text `t.text` parses back to a selector that
(a) matches the same label sets, (b) has the same canonical text, (c) has the
same identity hash; and (d) `Validate` accepts exactly what `Parse` accepts.
All four are proved at full strength for the current code.

History: before /repo commit aa96e01 ("fix: keep nested negations distinct in a
selector's canonical text") (b) and (c) were FALSE: `!(!has(a))` parsed to
`Not(Not(Has a))`, was printed as `!!has(a)`, and that text re-parses to `has(a)`
(the parser folds a run of `!`).  The then-model had the witness
  parse "!(!has(a))" = ok (not (not (has a))),  text = "!!has(a)",
  parse "!!has(a)" = ok (has a),  text "has(a)" ≠ "!!has(a)".
The printer now parenthesises a directly nested negation; the harness oracle
still reports signature `nested-not` should the old behaviour ever come back
(`corpus/C06/nested-not.ops` replays the witness on every run).
-/
namespace CalicoVerif.C06

/-! ### structure of what the parser returns -/

/-- Everything `Parse` returns is well-formed: labels are non-empty identifiers of
at most 512 bytes, string values lack one of the two quote characters, set
literals are strictly ascending (sorted, de-duplicated), `&&`/`||` nodes have at
least two operands. -/
theorem parse_wf {s : Str} {t : Node} (h : parse s = .ok t) : WF t := CalicoVerif.C06.parse_wf_aux h

/-- FULL: `parse ∘ print = id` on every well-formed tree. -/
theorem parse_print_roundtrip {t : Node} (h : WF t) : parse t.text = .ok t :=
  parse_text t h

/-- FULL: re-parsing the canonical text of an accepted selector returns the very
same tree. -/
theorem reparse_exact {s : Str} {t : Node} (h : parse s = .ok t) : parse t.text = .ok t :=
  parse_text t (parse_wf h)

/-! ### (a) same meaning, (b) same text, (c) same id — full strength -/

/-- FULL: the canonical text of every accepted selector parses back to a selector
that matches exactly the same label maps. -/
theorem reparse_same_eval {s : Str} {t : Node} (h : parse s = .ok t) :
    ∃ t', parse t.text = .ok t' ∧ ∀ labels : Labels, t'.eval labels = t.eval labels :=
  ⟨t, reparse_exact h, fun _ => rfl⟩

/-- FULL: … to a selector with the same canonical text. -/
theorem reparse_same_text {s : Str} {t : Node} (h : parse s = .ok t) :
    ∃ t', parse t.text = .ok t' ∧ t'.text = t.text :=
  ⟨t, reparse_exact h, rfl⟩

/-- FULL: … and the same identity hash, for every hash function. -/
theorem reparse_same_id (H : Str → Str) {s : Str} {t : Node} (h : parse s = .ok t) :
    ∃ t', parse t.text = .ok t' ∧ t'.uniqueID H = t.uniqueID H :=
  ⟨t, reparse_exact h, rfl⟩

/-- The former counterexample `!(!has(a))` now round-trips. -/
def nestedNotInput : Str := ['!','(','!','h','a','s','(','a',')',')']
example : parse nestedNotInput = .ok (.not (.not (.has ['a']))) := by rfl
example : (Node.not (.not (.has ['a']))).text = nestedNotInput := by decide
/-- `!!has(a)` is still accepted and folded by the parser (`has(a)`); it is simply
no longer anything the printer emits. -/
example : parse ['!','!','h','a','s','(','a',')'] = .ok (.has ['a']) := by rfl

/-! ### (d) Validate accepts exactly what Parse accepts — full strength -/

/-- FULL: `Validate` fails with exactly the error `Parse` fails with. -/
theorem validate_error_iff_parse_error (s : Str) (e : Err) :
    validate s = .error e ↔ parse s = .error e := by
  rw [validate_eq_parse]
  cases parse s with
  | error e' => simp
  | ok t => simp

/-- FULL: `Validate` accepts an expression iff `Parse` accepts it. -/
theorem validate_iff_parse (s : Str) : validate s = .ok () ↔ ∃ t, parse s = .ok t := by
  rw [validate_eq_parse]
  cases parse s with
  | error e => simp
  | ok t => simp

/-! ### consequences and model hygiene -/

/-- The canonical text determines the tree: two well-formed trees (in particular two
parser-built selectors) with the same canonical text are the same tree.  (This is
what makes `Selector.Equal`, which compares hashes of the text, an equality test
on selectors.) -/
theorem text_injective {t1 t2 : Node} (h1 : WF t1) (h2 : WF t2) (h : t1.text = t2.text) : t1 = t2 := by
  have e1 := parse_text t1 h1
  have e2 := parse_text t2 h2
  rw [h, e2] at e1
  injection e1 with e1
  exact e1.symm

/-- The model's `fuel` is a pure totalisation device: `Tokenize`, `Parse` and
`Validate` never return the model-only error `Err.fuel`. -/
theorem tokenize_ne_fuel (s : Str) : tokenize s ≠ .error .fuel := tokenize_ne_fuel_aux s
theorem parse_ne_fuel (s : Str) : parse s ≠ .error .fuel := parse_ne_fuel_aux s
theorem validate_ne_fuel (s : Str) : validate s ≠ .error .fuel := validate_ne_fuel_aux s

/-! ### non-vacuity -/

/-- `(a == "x" && !has(b)) || c in {"p", "q"}` … -/
def sampleTree : Node :=
  .or [.and [.eq ['a'] ['x'], .not (.has ['b'])], .inSet ['c'] [['p'], ['q']]]

example : WF sampleTree := by
  simp [sampleTree, WF, WFList, ValidLabel, QuoteSafe, StrictSorted, maxLabelLength, strLt]
  decide
example : parse sampleTree.text = .ok sampleTree := by rfl
/-- an accepted input whose tree differs from the input text's shape (sorting,
de-duplication, quote normalisation, `notin`). -/
example : parse ['a',' ','n','o','t','i','n','{','\'','q','\'',',','"','p','"',',','\'','q','\'','}'] =
    .ok (.notInSet ['a'] [['p'], ['q']]) := by rfl
example : validate ['a',' ','=','='] = .error .expectedString := by rfl
example : parse ['a',' ','=','='] = .error .expectedString := by rfl

/-! ### corollaries: canonical text is valid, canonicalisation is idempotent -/

/-- The canonical text of every accepted expression is itself accepted by `Validate`
(so a canonical selector stored back into the datastore never fails validation). -/
theorem validate_accepts_canonical {s : Str} {t : Node} (h : parse s = .ok t) :
    validate t.text = .ok () :=
  (validate_iff_parse t.text).2 ⟨t, reparse_exact h⟩

/-- Canonicalisation is idempotent: the canonical text of the re-parsed canonical text is the
canonical text (`Parse(sel.String()).String() == sel.String()` at every depth of repetition). -/
theorem canonical_idempotent {s : Str} {t t' : Node} (h : parse s = .ok t)
    (h' : parse t.text = .ok t') : t'.text = t.text := by
  rw [reparse_exact h] at h'
  cases h'
  rfl

/-- Two accepted expressions with the same canonical text are the same selector (same tree),
hence match exactly the same label sets. -/
theorem same_text_same_selector {s1 s2 : Str} {t1 t2 : Node} (h1 : parse s1 = .ok t1)
    (h2 : parse s2 = .ok t2) (h : t1.text = t2.text) : t1 = t2 :=
  text_injective (parse_wf h1) (parse_wf h2) h
end CalicoVerif.C06
