import CalicoVerif.Proofs.C06Roundtrip
import CalicoVerif.Proofs.C06Wf
import CalicoVerif.Proofs.C06Validate
/-!
C06 — Selectors keep their meaning through canonical formatting.

Property theorems only; helper lemmas live in `CalicoVerif.Proofs.C06*`, the
model in `CalicoVerif.Model.C06{Tokenizer,Ast,Parser}`.

Statement of the property: for every selector expression `s` the parser accepts
(`parse s = ok t`), the canonical text `t.text` parses back to a selector that
(a) matches the same label sets, (b) has the same canonical text, (c) has the
same identity hash; and (d) `Validate` accepts exactly what `Parse` accepts.

(a) and (d) are proved at full strength.  (b) and (c) are FALSE of the current
code (`reparse_same_text_counterexample`, reproduced on the real parser by the
harness oracle, signature `nested-not`); they are proved as `…_partial` under
the extra hypothesis `NoNestedNot t`, and `reparse_exact` says precisely what
the re-parse returns in every case (`collapse t`).
-/
namespace CalicoVerif.C06

/-! ### structure of what the parser returns -/

/-- Everything `Parse` returns is well-formed: labels are non-empty identifiers of
at most 512 bytes, string values lack one of the two quote characters, set
literals are strictly ascending (sorted, de-duplicated), `&&`/`||` nodes have at
least two operands. -/
theorem parse_wf {s : Str} {t : Node} (h : parse s = .ok t) : WF t := CalicoVerif.C06.parse_wf_aux h

/-- The canonical text of any well-formed tree parses, and yields the tree with
stacked negations folded (`!!x ↦ x`). -/
theorem parse_print_collapse {t : Node} (h : WF t) : parse t.text = .ok (collapse t) :=
  parse_text t h

/-- `parse ∘ print = id` on well-formed trees without a directly nested negation.
(`_partial`: the `NoNestedNot` hypothesis cannot be derived from `parse s = ok t`,
see `reparse_same_text_counterexample`.) -/
theorem parse_print_roundtrip_partial {t : Node} (h : WF t) (hn : NoNestedNot t) :
    parse t.text = .ok t := by
  rw [parse_text t h, collapse_eq_self t hn]

/-- What re-parsing the canonical text of an accepted selector returns, exactly. -/
theorem reparse_exact {s : Str} {t : Node} (h : parse s = .ok t) : parse t.text = .ok (collapse t) :=
  parse_text t (parse_wf h)

/-! ### (a) same meaning — full strength -/

/-- FULL: the canonical text of every accepted selector parses back to a selector
that matches exactly the same label maps. -/
theorem reparse_same_eval {s : Str} {t : Node} (h : parse s = .ok t) :
    ∃ t', parse t.text = .ok t' ∧ ∀ labels : Labels, t'.eval labels = t.eval labels :=
  ⟨collapse t, reparse_exact h, fun labels => eval_collapse labels t⟩

/-! ### (b), (c) same text / same id — false in general, proved without nested negation -/

/-- The selector text `!(!has(a))`. -/
def nestedNotInput : Str := ['!','(','!','h','a','s','(','a',')',')']

/-- WITNESS that "same canonical text" is false of the current code:
`!(!has(a))` is accepted, its canonical text is `!!has(a)`, and that text parses
to `has(a)`, whose canonical text is `has(a)`. -/
theorem reparse_same_text_counterexample :
    ∃ s t t', parse s = .ok t ∧ parse t.text = .ok t' ∧ t'.text ≠ t.text :=
  ⟨nestedNotInput, .not (.not (.has ['a'])), .has ['a'], by rfl, by rfl, by decide⟩

/-- the same witness, spelled out. -/
example : parse nestedNotInput = .ok (.not (.not (.has ['a']))) := by rfl
example : (Node.not (.not (.has ['a']))).text = ['!','!','h','a','s','(','a',')'] := by decide
example : parse ['!','!','h','a','s','(','a',')'] = .ok (.has ['a']) := by rfl
example : ¬ NoNestedNot (.not (.not (.has ['a']))) := by simp [NoNestedNot, Node.isNot]

/-- WITNESS for the identity hash: for any hash that tells the two texts apart
(SHA-224 does: the harness compares the real `UniqueID()`s), the ids differ. -/
theorem reparse_same_id_counterexample (H : Str → Str)
    (hH : H ['s',':','!','!','h','a','s','(','a',')'] ≠ H ['s',':','h','a','s','(','a',')']) :
    ∃ s t t', parse s = .ok t ∧ parse t.text = .ok t' ∧ t'.uniqueID H ≠ t.uniqueID H := by
  refine ⟨nestedNotInput, .not (.not (.has ['a'])), .has ['a'], by rfl, by rfl, ?_⟩
  intro e
  apply hH
  have : (Node.has ['a']).uniqueID H = 's' :: ':' :: H ['s',':','h','a','s','(','a',')'] := rfl
  rw [this] at e
  have h2 : (Node.not (.not (.has ['a']))).uniqueID H = 's' :: ':' :: H ['s',':','!','!','h','a','s','(','a',')'] := rfl
  rw [h2] at e
  simpa using e.symm

/-- PARTIAL (needs `NoNestedNot t`): the canonical text parses back to the same
tree, hence to the same canonical text. -/
theorem reparse_same_text_partial {s : Str} {t : Node} (h : parse s = .ok t) (hn : NoNestedNot t) :
    ∃ t', parse t.text = .ok t' ∧ t'.text = t.text :=
  ⟨t, parse_print_roundtrip_partial (parse_wf h) hn, rfl⟩

/-- PARTIAL (needs `NoNestedNot t`): same identity hash, for every hash function. -/
theorem reparse_same_id_partial (H : Str → Str) {s : Str} {t : Node} (h : parse s = .ok t)
    (hn : NoNestedNot t) : ∃ t', parse t.text = .ok t' ∧ t'.uniqueID H = t.uniqueID H :=
  ⟨t, parse_print_roundtrip_partial (parse_wf h) hn, rfl⟩

/-! ### (d) Validate accepts exactly what Parse accepts — full strength -/

/-- FULL: `Validate` fails with exactly the error `Parse` fails with. -/
theorem validate_error_iff_parse_error (s : Str) (e : Err) :
    validate s = .error e ↔ parse s = .error e := by
  rw [validate_eq_parse]
  cases parse s with
  | error e' => simp
  | ok t => simp

/-- FULL: `Validate` accepts an expression iff `Parse` accepts it. -/
theorem validate_iff_parse (s : Str) : validate s = .ok () ↔ ∃ t, parse s = .ok t := by
  rw [validate_eq_parse]
  cases parse s with
  | error e => simp
  | ok t => simp

/-! ### non-vacuity -/

/-- `(a == "x" && !has(b)) || c in {"p", "q"}` … -/
def sampleTree : Node :=
  .or [.and [.eq ['a'] ['x'], .not (.has ['b'])], .inSet ['c'] [['p'], ['q']]]

example : WF sampleTree := by
  simp [sampleTree, WF, WFList, ValidLabel, QuoteSafe, StrictSorted, maxLabelLength, strLt]
  decide
example : NoNestedNot sampleTree := by
  simp [sampleTree, NoNestedNot, NoNestedNotList, Node.isNot]
example : parse sampleTree.text = .ok sampleTree := by rfl
/-- an accepted input whose tree differs from the input text's shape (sorting,
de-duplication, quote normalisation, `notin`). -/
example : parse ['a',' ','n','o','t','i','n','{','\'','q','\'',',','"','p','"',',','\'','q','\'','}'] =
    .ok (.notInSet ['a'] [['p'], ['q']]) := by rfl
example : validate ['a',' ','=','='] = .error .expectedString := by rfl
example : parse ['a',' ','=','='] = .error .expectedString := by rfl

end CalicoVerif.C06
