import CalicoVerif.Model.C06Parser
/-!
C06 — Selectors keep their meaning through canonical formatting.
Property theorems only (helper lemmas live in `CalicoVerif.Proofs.C06*`).
-/
namespace CalicoVerif.C06

/-- The selector text `!(!has(a))`. -/
def nestedNotInput : Str := ['!','(','!','h','a','s','(','a',')',')']

/-- WITNESS (the full-strength "same canonical text" statement is false of the
current code): `!(!has(a))` is accepted, its canonical text is `!!has(a)`, and
that text parses to `has(a)`, whose canonical text is `has(a)`. -/
theorem reparse_same_text_counterexample :
    ∃ s t t', parse s = .ok t ∧ parse t.text = .ok t' ∧ t'.text ≠ t.text :=
  ⟨nestedNotInput, .not (.not (.has ['a'])), .has ['a'], by rfl, by rfl, by decide⟩

end CalicoVerif.C06
