import CalicoVerif.Model.C12
/-!
C12 — all dataplanes agree on the policy verdict.

* `profiles_agree_partial` — for profiles in which no rule has action
  pass/next-tier, the iptables/nftables profile semantics ("a returning profile
  chain without the accept mark ⇒ next profile") and the BPF / app-policy one
  ("pass in a profile ⇒ deny") coincide, for every packet and environment; hence
  `ipt_bpf_agree_partial`: `iptVerdict = bpfVerdict` for every workload policy
  whose profiles contain no pass rule.
* `checker_profiles_partial`, `checker_rules_partial` — the model of the
  app-policy checker's rule/profile loops computes the reference decision, for
  rules whose only criteria are protocol / not-protocol with a protocol the
  builder knows (L4 subset).
* `profile_pass_disagree` — the full statement is FALSE: witness where the BPF
  reference (and the checker) deny and iptables/nftables allow.
-/
namespace CalicoVerif.C12
open CalicoVerif.C11

/-- No rule of the profiles has a pass/next-tier action. -/
def NoProfilePass (ps : List Policy) : Prop :=
  ∀ pr ∈ ps, ∀ r ∈ pr.rules, actOf r.action ≠ .pass

theorem evalRules_ne_pass (env : Env) (p : Pkt) (leg : Leg) :
    ∀ rs : List Rule, (∀ r ∈ rs, actOf r.action ≠ .pass) → evalRules env p leg rs ≠ .pass := by
  intro rs
  induction rs with
  | nil => intro _; simp [evalRules]
  | cons r rs ih =>
    intro h
    have ih' := ih (fun r' hr' => h r' (List.mem_cons_of_mem _ hr'))
    have hr := h r (List.mem_cons_self)
    simp only [evalRules]
    cases filterRule env.c.v6 r with
    | none => exact ih'
    | some fr =>
      simp only
      by_cases hm : ruleMatch env p leg fr = true
      · simp only [hm, if_true]
        cases ha : actOf r.action <;> simp_all
      · simp only [hm, Bool.false_eq_true, if_false]; exact ih'

/-- Without pass rules in profiles the two profile semantics coincide. -/
theorem profiles_agree_partial (env : Env) (p : Pkt) :
    ∀ ps : List Policy, NoProfilePass ps → evalProfiles true env p ps = evalProfiles false env p ps := by
  intro ps
  induction ps with
  | nil => intro _; rfl
  | cons pr ps ih =>
    intro h
    have ih' := ih (fun pr' hp' => h pr' (List.mem_cons_of_mem _ hp'))
    have hne := evalRules_ne_pass env p .dest pr.rules (h pr (List.mem_cons_self))
    simp only [evalProfiles]
    cases he : evalRules env p .dest pr.rules <;> simp_all

theorem iptProfileRules_noPass (env : Env) (p : Pkt) (b : Bool) :
    ∀ rs : List Rule, (∀ r ∈ rs, actOf r.action ≠ .pass ∧ actOf r.action ≠ .invalid) →
      iptProfileRules env p b rs = (match evalRules env p .dest rs with
        | .allow => .accept | .deny => .drop | _ => .ret b) := by
  intro rs
  induction rs with
  | nil => intro _; rfl
  | cons r rs ih =>
    intro h
    have ih' := ih (fun r' hr' => h r' (List.mem_cons_of_mem _ hr'))
    obtain ⟨h1, h2⟩ := h r (List.mem_cons_self)
    simp only [iptProfileRules, evalRules]
    cases filterRule env.c.v6 r with
    | none => exact ih'
    | some fr =>
      simp only
      cases ha : actOf r.action <;> simp_all <;>
        (by_cases hm : ruleMatch env p .dest fr = true <;> simp [hm])

/-- Profiles without pass (and without invalid) actions. -/
def ProfilesPlain (ps : List Policy) : Prop :=
  ∀ pr ∈ ps, ∀ r ∈ pr.rules, actOf r.action ≠ .pass ∧ actOf r.action ≠ .invalid

theorem iptProfiles_noPass (env : Env) (p : Pkt) :
    ∀ (ps : List Policy) (b : Bool), ProfilesPlain ps →
      iptProfiles env p b ps = (match evalProfiles true env p ps with | .allow => .allow | _ => .deny) := by
  intro ps
  induction ps with
  | nil => intro _ _; rfl
  | cons pr ps ih =>
    intro b h
    have h1 := iptProfileRules_noPass env p b pr.rules (h pr (List.mem_cons_self))
    have hne := evalRules_ne_pass env p .dest pr.rules (fun r hr => (h pr (List.mem_cons_self) r hr).1)
    have ih' := ih b (fun pr' hp' => h pr' (List.mem_cons_of_mem _ hp'))
    simp only [iptProfiles, evalProfiles, h1]
    cases he : evalRules env p .dest pr.rules <;> simp_all

theorem iptTiers_fst (env : Env) (p : Pkt) :
    ∀ ts : List Tier, (match (iptTiers env p ts).1 with | .allow => Dec.allow | .deny => .deny | _ => .noMatch) =
      (match evalTiers env p .dest ts with | .allow => Dec.allow | .deny => .deny | _ => .noMatch) := by
  intro ts
  induction ts with
  | nil => rfl
  | cons t ts ih =>
    simp only [iptTiers, evalTiers]
    cases evalPolicies env p .dest t.policies with
    | allow => rfl
    | deny => rfl
    | pass =>
      simp only
      cases ts with
      | nil => rfl
      | cons t2 ts2 => simpa using ih
    | noMatch =>
      simp only
      cases t.endAction <;> first | rfl | exact ih

/-- **iptables/nftables = BPF** for every workload policy whose profiles contain no
pass/next-tier rule: any tiers, any packets, any IP-set environment. -/
theorem ipt_bpf_agree_partial (env : Env) (r : Rules) (p : Pkt) (h : ProfilesPlain r.profiles) :
    iptVerdict env r p = bpfVerdict env r p := by
  unfold iptVerdict bpfVerdict workloadVerdict
  have ht := iptTiers_fst env p r.tiers
  simp only [Bool.false_eq_true, if_false]
  cases hi : iptTiers env p r.tiers with
  | mk d stale =>
    rw [hi] at ht
    simp only at ht
    have hp := iptProfiles_noPass env p r.profiles stale h
    cases d <;> cases he : evalTiers env p .dest r.tiers
    all_goals first
      | (exfalso; rw [he] at ht; simp at ht; done)
      | (simp only [hp]; try rfl)
    all_goals (cases evalProfiles true env p r.profiles <;> rfl)

-- non-vacuity
example : ProfilesPlain [⟨[{ action := "allow" }, { action := "deny" }, { action := "log" }]⟩] := by
  intro pr hp r hr
  simp at hp; subst hp
  simp at hr
  rcases hr with rfl | rfl | rfl <;> decide

/-- The full statement is false (1): profile 1 = [pass], profile 2 = [allow], no
tiers.  BPF (`writeProfile`: pass ⇒ deny label) and the app-policy checker
(`case DENY, PASS`) deny; iptables/nftables (profile chain returns with the pass
mark, endpoint chain only tests the accept mark) go on to profile 2 and allow. -/
theorem profile_pass_disagree :
    let r : Rules := { profiles := [⟨[{ action := "pass" }]⟩, ⟨[{ action := "allow" }]⟩] }
    let env : Env := { c := {} }
    let p : Pkt := { src := [0], preDst := [0], postDst := [0], sport := 0, icmpW := 0, preDport := 0,
                     postDport := 0, proto := 6, flags := 0 }
    bpfVerdict env r p = .deny ∧ iptVerdict env r p = .allow ∧ checkTiers 6 r.profiles r.tiers = some false := by
  decide

/-- The full statement is false (2), the other way round: a tier left through a
pass rule leaves the pass mark set; the profile [pass-if-tcp, allow] then
returns at its `pass mark set ⇒ return` check for a UDP packet too, so
iptables/nftables drop what BPF and the checker allow. -/
theorem stale_pass_mark_disagree :
    let r : Rules := { tiers := [{ endAction := .deny, endRuleID := 0, policies := [⟨[{ action := "pass" }]⟩] }],
                       profiles := [⟨[{ action := "pass", protocol := some (.num 6) }, { action := "allow" }]⟩] }
    let env : Env := { c := {} }
    let p : Pkt := { src := [0], preDst := [0], postDst := [0], sport := 0, icmpW := 0, preDport := 0,
                     postDport := 0, proto := 17, flags := 0 }
    bpfVerdict env r p = .allow ∧ iptVerdict env r p = .deny ∧ checkTiers 17 r.profiles r.tiers = some true := by
  decide

/-- A rule whose only criteria are protocol / not-protocol. -/
def ProtoOnly (r : Rule) : Prop :=
  r = { action := r.action, matchID := r.matchID, protocol := r.protocol, notProtocol := r.notProtocol }

/-- The checker's `LOG ⇒ continue`, first other action decides — same as the reference,
given that its match function agrees with the reference match on these rules. -/
theorem checker_rules_partial (env : Env) (p : Pkt) (n : Int)
    (hmatch : ∀ r fr, filterRule env.c.v6 r = some fr → ruleMatch env p .dest fr = matchL4Protocol r n) :
    ∀ rs : List Rule, (∀ r ∈ rs, (filterRule env.c.v6 r).isSome ∧ actOf r.action ≠ .invalid) →
      checkRules n rs = some (match evalRules env p .dest rs with
        | .allow => .allow | .deny => .deny | .pass => .pass | .noMatch => .noMatch) := by
  intro rs
  induction rs with
  | nil => intro _; rfl
  | cons r rs ih =>
    intro h
    have ih' := ih (fun r' hr' => h r' (List.mem_cons_of_mem _ hr'))
    obtain ⟨hf, ha⟩ := h r (List.mem_cons_self)
    cases hfr : filterRule env.c.v6 r with
    | none => simp [hfr] at hf
    | some fr =>
      have hm := hmatch r fr hfr
      simp only [checkRules, evalRules, hfr, hm]
      by_cases hx : matchL4Protocol r n = true
      · simp only [hx, if_true]
        unfold actOf at ha ⊢
        unfold actionFromString
        simp only at ha ⊢
        generalize asciiLower r.action = s at *
        by_cases h1 : s = "allow" <;> by_cases h2 : s = "deny" <;> by_cases h3 : s = "log" <;>
          by_cases h4 : s = "pass" <;> by_cases h5 : s = "next-tier" <;> simp_all
      · simp only [hx, Bool.false_eq_true, if_false]; exact ih'

/-- The checker's profile loop = reference profiles with `pass ⇒ deny`. -/
theorem checker_profiles_partial (env : Env) (p : Pkt) (n : Int)
    (hmatch : ∀ r fr, filterRule env.c.v6 r = some fr → ruleMatch env p .dest fr = matchL4Protocol r n) :
    ∀ ps : List Policy, (∀ pr ∈ ps, ∀ r ∈ pr.rules, (filterRule env.c.v6 r).isSome ∧ actOf r.action ≠ .invalid) →
      checkProfiles n ps = some (evalProfiles true env p ps == .allow) := by
  intro ps
  induction ps with
  | nil => intro _; rfl
  | cons pr ps ih =>
    intro h
    have ih' := ih (fun pr' hp' => h pr' (List.mem_cons_of_mem _ hp'))
    have h1 := checker_rules_partial env p n hmatch pr.rules (h pr (List.mem_cons_self))
    simp only [checkProfiles, evalProfiles, h1]
    cases evalRules env p .dest pr.rules <;> simp [ih']

end CalicoVerif.C12
