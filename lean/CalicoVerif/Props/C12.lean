import CalicoVerif.Proofs.C12Bridge
import CalicoVerif.Proofs.C12Nets
import CalicoVerif.Proofs.C12BridgeFull
import CalicoVerif.Proofs.C12BridgeNets
import CalicoVerif.Proofs.C09
import CalicoVerif.Props.C11
/-!
C12 — all dataplanes agree on the policy verdict.

Three implementations decide a workload endpoint's policy: the iptables/nftables renderer (chains,
evaluated by the netfilter model of C08/C09), the BPF policy program (C11: instructions, interpreted)
and the app-policy checker (Go loops `checkTiers`/`checkRules`, modelled in `Model/C12.lean`).  The
statements below say that they reach ONE verdict; each is proved by tying every side to ONE reference
semantics.  Names ending in `_partial` are restricted; what each one does NOT cover is listed with it.

## Main statements

* `dataplanes_agree_nets_partial` — THREE-WAY, literal CIDRs: rendered endpoint chain (a10's
  `C09.endpoint_chain_verdict_core`), interpreted BPF program (`C11.polprog_verdict_partial`) and
  checker model (`checkTiersN`) yield the same verdict `v`, for rules carrying protocol / not-protocol
  and IPv4 source / not-source / destination / not-destination CIDR lists (`RuleFullN U` ∧ `NetsL4`).
  `U` is the list of CIDRs the policy mentions; `EnvRelN N U` asks the kernel-side environment to
  describe the same packet and, for the CIDRs of `U` only, the same containment.  The iptables layout
  (tiers → policy groups, inlined or with their own chain → policies, staged ones skipped) is tied to
  the shared tiers by `hT`/`hP`: a10's `C09.policyTiers` (each tier's enforced policies in evaluation
  order, ANY grouping) yields the outcome lists of the shared tiers' policies; `hn1`/`hn2` are the chain
  name distinctness hypotheses of `C09.endpoint_chain_verdict_names`.
  NOT covered: IPv6 flows and IPv6 CIDRs in a rule (`RuleFullN.v4`; for mixed-family lists the
  statement is FALSE: `checker_ignores_ip_family`); explicit `ipVersion`; pass rules in profiles
  (FALSE: `profile_pass_disagree`); tiers without an enforced policy (`staged_only_tier_skipped`
  covers the checker side alone); a BPF build that is split or uses trampolines (`NoSplit`, `hshort`,
  one program); packets of an established connection / endpoints with failsafes (hypotheses `h1`…`h6`
  of the C09 theorem); criteria the checker evaluates through its own stores (selectors, named ports,
  service accounts, HTTP) — those are outside the checker MODEL, see `checks/C12.json` level_note.
* `dataplanes_agree_partial` — the same three-way statement on the protocol-only fragment
  (`TiersCommon`: protocol / not-protocol, numbers or names), kept because its hypotheses are the
  simplest to read.  NOT covered: every other criterion (→ the statement above), and the same list.
* `ipt_bpf_agree_full_partial` — TWO-WAY, ALL criteria: rendered chains and BPF program agree for rules
  with protocol, IPv4 CIDR lists, numeric and named ports, IP sets, (ip,port) sets, ICMP type/code and
  all negations (`RuleFullN U`).  NOT covered: the checker (its model has protocol and CIDR criteria
  only); IPv6; pass rules in profiles; split/trampolined BPF builds; as above.
* `references_agree_full_partial` — the lemma under the two statements above, of independent
  interest: `C09.endpointVerdict` over `Model/Policy.ruleMatches` of the translated rules
  (`trRuleFN`) equals the C11 reference workload verdict, under `EnvRelN`.  It is a statement about
  two hand-written reference functions; the tie to rendered chains / instructions is made by the
  C09 and C11 theorems composed in the statements above.  NOT covered: IPv6, profile pass rules.

## Per-side statements

* `checker_tiers_ref`, `checker_tiers_nets_ref` — the checker model (without / with CIDRs) computes the
  C11 reference verdict (`checker_rules_ref`, `checker_profiles_ref`, `checker_match_nets_ref` are the
  per-loop / per-rule steps).  The model itself is tied to the Go code by the correspondence run only.
* `checker_bpf_agree_nets_partial` — checker model and BPF program agree on the CIDR fragment (the
  two-way part of `dataplanes_agree_nets_partial`, without the `RuleFullN`/`EnvRelN` hypotheses).
  Profile pass rules ARE allowed here (BPF and checker treat them alike).  NOT covered: the iptables
  side; IPv6 flows / IPv6 CIDRs / explicit ipVersion; split or trampolined BPF builds.
* `ref_semantics_agree_partial`, `profiles_agree_partial` — the mark-bit model of the profile part of
  the iptables endpoint chain (`iptVerdict`) and the C11 reference coincide when no profile has a pass
  rule.  Two hand-written references only (`iptVerdict` is tied to the real renderer by the
  correspondence run, not by proof); NOT covered: profiles with pass rules (FALSE, next item).
* `staged_only_tier_skipped` — a tier whose policies are all staged is skipped by the checker model
  like by the dataplanes (the case `TiersCommon`/`TiersOkG` exclude).

## The full statement is FALSE of the code: witnesses

* `profile_pass_disagree`, `stale_pass_mark_disagree` — a profile rule with action pass: iptables
  leaves the pass mark set and falls to the next profile, BPF/checker end the evaluation
  (KNOWN-FINDING sig `profile-pass`).
* `checker_ignores_ip_family` — the checker neither reads `ipVersion` nor drops rules whose negated
  CIDR list holds only other-family CIDRs (KNOWN-FINDING sig `checker-ip-family`).

Every hypothesis bundle has a satisfiability example next to its theorem (`exL4a/b`, `exNets`, `exFull`,
`exU`, `exNames`/`exEnv9`/`exPkt9`/`exP`, `exTiersN`), ALL ~30 hypotheses of the main theorem are
instantiated TOGETHER on one policy / packet / environment / chain set / program (`joint_instance`,
`joint_instance_verdict`, end of the file), and the conclusion
of the unified reference is evaluated on `exTiersN` (ALLOW for 10.1.2.3 → 192.168.0.1, DENY into 10/8).
-/
namespace CalicoVerif.C12
open CalicoVerif.C11

/-- No rule of the profiles has a pass/next-tier action. -/
def NoProfilePass (ps : List Policy) : Prop :=
  ∀ pr ∈ ps, ∀ r ∈ pr.rules, actOf r.action ≠ .pass

theorem evalRules_ne_pass (env : Env) (p : Pkt) (leg : Leg) :
    ∀ rs : List Rule, (∀ r ∈ rs, actOf r.action ≠ .pass) → evalRules env p leg rs ≠ .pass := by
  intro rs
  induction rs with
  | nil => intro _; simp [evalRules]
  | cons r rs ih =>
    intro h
    have ih' := ih (fun r' hr' => h r' (List.mem_cons_of_mem _ hr'))
    have hr := h r (List.mem_cons_self)
    simp only [evalRules]
    cases filterRule env.c.v6 r with
    | none => exact ih'
    | some fr =>
      simp only
      by_cases hm : ruleMatch env p leg fr = true
      · simp only [hm, if_true]
        cases ha : actOf r.action <;> simp_all
      · simp only [hm, Bool.false_eq_true, if_false]; exact ih'

/-- Without pass rules in profiles the two profile semantics coincide (step of
`ref_semantics_agree_partial`; `_partial`: profiles with a pass rule are NOT covered — false there). -/
theorem profiles_agree_partial (env : Env) (p : Pkt) :
    ∀ ps : List Policy, NoProfilePass ps → evalProfiles true env p ps = evalProfiles false env p ps := by
  intro ps
  induction ps with
  | nil => intro _; rfl
  | cons pr ps ih =>
    intro h
    have ih' := ih (fun pr' hp' => h pr' (List.mem_cons_of_mem _ hp'))
    have hne := evalRules_ne_pass env p .dest pr.rules (h pr (List.mem_cons_self))
    simp only [evalProfiles]
    cases he : evalRules env p .dest pr.rules <;> simp_all

theorem iptProfileRules_noPass (env : Env) (p : Pkt) (b : Bool) :
    ∀ rs : List Rule, (∀ r ∈ rs, actOf r.action ≠ .pass ∧ actOf r.action ≠ .invalid) →
      iptProfileRules env p b rs = (match evalRules env p .dest rs with
        | .allow => .accept | .deny => .drop | _ => .ret b) := by
  intro rs
  induction rs with
  | nil => intro _; rfl
  | cons r rs ih =>
    intro h
    have ih' := ih (fun r' hr' => h r' (List.mem_cons_of_mem _ hr'))
    obtain ⟨h1, h2⟩ := h r (List.mem_cons_self)
    simp only [iptProfileRules, evalRules]
    cases filterRule env.c.v6 r with
    | none => exact ih'
    | some fr =>
      simp only
      cases ha : actOf r.action <;> simp_all <;>
        (by_cases hm : ruleMatch env p .dest fr = true <;> simp [hm])

/-- Profiles without pass (and without invalid) actions. -/
def ProfilesNoPass (ps : List Policy) : Prop :=
  ∀ pr ∈ ps, ∀ r ∈ pr.rules, actOf r.action ≠ .pass ∧ actOf r.action ≠ .invalid

theorem iptProfiles_noPass (env : Env) (p : Pkt) :
    ∀ (ps : List Policy) (b : Bool), ProfilesNoPass ps →
      iptProfiles env p b ps = (match evalProfiles true env p ps with | .allow => .allow | _ => .deny) := by
  intro ps
  induction ps with
  | nil => intro _ _; rfl
  | cons pr ps ih =>
    intro b h
    have h1 := iptProfileRules_noPass env p b pr.rules (h pr (List.mem_cons_self))
    have hne := evalRules_ne_pass env p .dest pr.rules (fun r hr => (h pr (List.mem_cons_self) r hr).1)
    have ih' := ih b (fun pr' hp' => h pr' (List.mem_cons_of_mem _ hp'))
    simp only [iptProfiles, evalProfiles, h1]
    cases he : evalRules env p .dest pr.rules <;> simp_all

theorem iptTiers_fst (env : Env) (p : Pkt) :
    ∀ ts : List Tier, (match (iptTiers env p ts).1 with | .allow => Dec.allow | .deny => .deny | _ => .noMatch) =
      (match evalTiers env p .dest ts with | .allow => Dec.allow | .deny => .deny | _ => .noMatch) := by
  intro ts
  induction ts with
  | nil => rfl
  | cons t ts ih =>
    simp only [iptTiers, evalTiers]
    cases evalPolicies env p .dest t.policies with
    | allow => rfl
    | deny => rfl
    | pass =>
      simp only
      cases ts with
      | nil => rfl
      | cons t2 ts2 => simpa using ih
    | noMatch =>
      simp only
      cases t.endAction <;> first | rfl | exact ih

/-- The two REFERENCE functions `iptVerdict` (mark-bit model of the iptables endpoint chain's
profile part) and `bpfVerdict` (C11 reference) coincide for every workload policy whose profiles
contain no pass/next-tier rule: any tiers, packets, IP-set environments.  `_partial`: NOT covered are
profiles with a pass rule (false: the two witnesses below); and both sides are hand-written references —
the tie to rendered chains / instructions is `dataplanes_agree_partial`. -/
theorem ref_semantics_agree_partial (env : Env) (r : Rules) (p : Pkt) (h : ProfilesNoPass r.profiles) :
    iptVerdict env r p = bpfVerdict env r p := by
  unfold iptVerdict bpfVerdict workloadVerdict
  have ht := iptTiers_fst env p r.tiers
  simp only [Bool.false_eq_true, if_false]
  cases hi : iptTiers env p r.tiers with
  | mk d stale =>
    rw [hi] at ht
    simp only at ht
    have hp := iptProfiles_noPass env p r.profiles stale h
    cases d <;> cases he : evalTiers env p .dest r.tiers
    all_goals first
      | (exfalso; rw [he] at ht; simp at ht; done)
      | (simp only [hp]; try rfl)
    all_goals (cases evalProfiles true env p r.profiles <;> rfl)

-- non-vacuity
example : ProfilesNoPass [⟨[{ action := "allow" }, { action := "deny" }, { action := "log" }]⟩] := by
  intro pr hp r hr
  simp at hp; subst hp
  simp at hr
  rcases hr with rfl | rfl | rfl <;> decide

/-- The full statement is false (1): profile 1 = [pass], profile 2 = [allow], no
tiers.  BPF (`writeProfile`: pass ⇒ deny label) and the app-policy checker
(`case DENY, PASS`) deny; iptables/nftables (profile chain returns with the pass
mark, endpoint chain only tests the accept mark) go on to profile 2 and allow. -/
theorem profile_pass_disagree :
    let r : Rules := { profiles := [⟨[{ action := "pass" }]⟩, ⟨[{ action := "allow" }]⟩] }
    let env : Env := { c := {} }
    let p : Pkt := { src := [0], preDst := [0], postDst := [0], sport := 0, icmpW := 0, preDport := 0,
                     postDport := 0, proto := 6, flags := 0 }
    bpfVerdict env r p = .deny ∧ iptVerdict env r p = .allow ∧ checkTiers 6 r.profiles r.tiers = some false := by
  decide

/-- The full statement is false (2), the other way round: a tier left through a
pass rule leaves the pass mark set; the profile [pass-if-tcp, allow] then
returns at its `pass mark set ⇒ return` check for a UDP packet too, so
iptables/nftables drop what BPF and the checker allow. -/
theorem stale_pass_mark_disagree :
    let r : Rules := { tiers := [{ endAction := .deny, endRuleID := 0, policies := [⟨[{ action := "pass" }]⟩] }],
                       profiles := [⟨[{ action := "pass", protocol := some (.num 6) }, { action := "allow" }]⟩] }
    let env : Env := { c := {} }
    let p : Pkt := { src := [0], preDst := [0], postDst := [0], sport := 0, icmpW := 0, preDport := 0,
                     postDport := 0, proto := 17, flags := 0 }
    bpfVerdict env r p = .allow ∧ iptVerdict env r p = .deny ∧ checkTiers 17 r.profiles r.tiers = some true := by
  decide

/-! ### The app-policy checker model computes the reference decisions -/

/-- `checkRules` = reference `evalRules`, for protocol-only rules with API actions and a packet
whose protocol is in 1..255 (the checker rejects protocol 0). -/
theorem checker_rules_ref (env : Env) (p : Pkt) (n : Nat) (hn : 1 ≤ n) (hp : p.proto.toNat = n)
    (rs : List Rule) (h : RulesL4 rs) :
    checkRules (n : Int) rs = some (decToCAct (evalRules env p .dest rs)) :=
  checkRules_ref env p n hn hp rs h

theorem checker_profiles_ref (env : Env) (p : Pkt) (n : Nat) (hn : 1 ≤ n) (hp : p.proto.toNat = n)
    (ps : List Policy) (h : PoliciesL4 ps) :
    checkProfiles (n : Int) ps = some (evalProfiles true env p ps == .allow) :=
  checkProfiles_ref env p n hn hp ps h

/-- `checkTiers` = the reference workload verdict (= `bpfVerdict`). -/
theorem checker_tiers_ref (env : Env) (p : Pkt) (n : Nat) (hn : 1 ≤ n) (hp : p.proto.toNat = n)
    (r : Rules) (ht : TiersL4 r.tiers) (hpr : PoliciesL4 r.profiles) :
    checkTiers (n : Int) r.profiles r.tiers = some (bpfVerdict env r p == .allow) := by
  rw [checkTiers_ref env p n hn hp r.profiles hpr r.tiers ht]
  simp only [bpfVerdict, workloadVerdict, Bool.false_eq_true, if_false]
  cases evalTiers env p .dest r.tiers <;> simp <;> (cases evalProfiles true env p r.profiles <;> rfl)

-- satisfiability of the hypotheses: a tier with a TCP-allow and a deny-all rule, a TCP packet
def exL4a : Rule := { action := "allow", protocol := some (Proto.name "tcp") }
def exL4b : Rule := { action := "deny", notProtocol := some (Proto.num 17) }
example : RulesL4 [exL4a, exL4b] := by
  intro r hr
  simp at hr
  rcases hr with rfl | rfl <;> exact ⟨rfl, by decide⟩
example : TiersL4 [{ endAction := EndAction.deny, endRuleID := 0, policies := [{ rules := [exL4a, exL4b] }] }] := by
  intro t ht
  simp at ht; subst ht
  refine ⟨by simp, ?_⟩
  intro pol hp
  simp at hp; subst hp
  intro r hr
  simp at hr
  rcases hr with rfl | rfl <;> exact ⟨rfl, by decide⟩
/-! ### Staged policies: a tier left without an enforced policy is skipped by all three models -/

/-- The enforced view of a tier whose policies are all staged (or that has none) is the
pass-through tier; every model skips it: reference / BPF, iptables, checker. -/
theorem staged_only_tier_skipped (env : Env) (p : Pkt) (n : Int) (profiles : List Policy) (t : TierS) (ts : List Tier)
    (h : ∀ q ∈ t.policies, q.staged = true) :
    evalTiers env p .dest (enforcedTier t :: ts) = evalTiers env p .dest ts ∧
    iptTiers env p (enforcedTier t :: ts) = iptTiers env p ts ∧
    checkTiers n profiles (enforcedTier t :: ts) = checkTiers n profiles ts := by
  have he : (t.policies.filter (fun q => !q.staged)) = [] := by
    rw [List.filter_eq_nil_iff]
    intro q hq; simp [h q hq]
  have ht : enforcedTier t = { endAction := .pass, endRuleID := 0, policies := [] } := by
    simp [enforcedTier, he]
  rw [ht]
  refine ⟨rfl, rfl, rfl⟩

/-! ### Composition: rendered chains, BPF program and checker, over one reference -/

theorem common_L4 {ps : List Policy} (h : PoliciesCommon ps) : PoliciesL4 ps := by
  intro pol hp r hr
  have hc := h pol hp r hr
  refine ⟨hc.po, ?_⟩
  rcases hc.act with e | e | e | e | e <;> rw [e] <;> decide

/-- `polprog.Rules` of a workload interface without host policy (`SuppressNormalHostPolicy`). -/
def wlRules (tiers : List Tier) (profiles : List Policy) (np : Nat) : Rules :=
  { tiers := tiers, profiles := profiles, noProfileMatchID := np, suppressNormalHostPolicy := true }

/-- A workload interface with no host policy: the program's verdict is the workload verdict. -/
theorem verdict_workload (env : Env) (tiers : List Tier) (profiles : List Policy) (np : Nat) (p : Pkt) :
    verdict env (wlRules tiers profiles np) p =
      bpfVerdict env (wlRules tiers profiles np) p := by
  simp only [wlRules, verdict, bpfVerdict, evalTiers, Bool.false_eq_true, if_false, if_true]
  cases toOrFromHost p <;> rfl

/-! ### The checker with literal CIDR criteria -/

/-- `checkTiers` with `matchSrcNet` / `matchDstNet` computes the reference workload verdict, for rules
with protocol / not-protocol and IPv4 source / not-source / destination / not-destination CIDR lists
(`TiersNetsL4`/`PoliciesNetsL4`: that shape, IPv4 CIDRs, an API action), an IPv4 program and the
flow's addresses sitting in the state in network byte order (`FlowAddrs`). -/
theorem checker_tiers_nets_ref (env : Env) (hv4 : env.c.v6 = false) (p : Pkt) (n : Nat) (hn : 1 ≤ n)
    (hp : p.proto.toNat = n) (src dst : Nat) (hf : FlowAddrs p src dst) (r : Rules)
    (ht : TiersNetsL4 r.tiers) (hpr : PoliciesNetsL4 r.profiles) :
    checkTiersN (n : Int) src dst r.profiles r.tiers = some (bpfVerdict env r p == .allow) := by
  have := checkTiersN_ref env hv4 p n hn hp src dst hf r.profiles hpr r.tiers ht
  rw [this]
  simp only [bpfVerdict, workloadVerdict, Bool.false_eq_true, if_false]
  cases evalTiers env p .dest r.tiers <;> simp <;> (cases evalProfiles true env p r.profiles <;> rfl)

/-- The checker's rule match with CIDRs is the reference match (rules dropped for the IP version do
not match). -/
theorem checker_match_nets_ref (env : Env) (hv4 : env.c.v6 = false) (p : Pkt) (n : Nat) (hn : 1 ≤ n)
    (hp : p.proto.toNat = n) (src dst : Nat) (hf : FlowAddrs p src dst) (r : Rule) (h : NetsL4 r) :
    matchRuleN r (n : Int) src dst =
      (match filterRule env.c.v6 r with
       | none => false
       | some fr => ruleMatch env p .dest fr) :=
  matchRuleN_ref env hv4 p n hn hp src dst hf r h

/-- **app-policy and BPF agree with literal CIDRs**: for a workload interface without host policy,
rules of the protocol + IPv4-CIDR fragment and any flow, the BPF program's instructions, interpreted,
end as verdict `v` demands, and the checker answers OK iff `v` is allow.  (`_partial`: NOT covered are the
iptables side, IPv6 flows / IPv6 CIDRs / explicit `ipVersion` — `NetsL4` —, criteria beyond protocol and
CIDRs, and split or trampolined BPF builds — `NoSplit`, `hshort`, one program.) -/
theorem checker_bpf_agree_nets_partial (tiers : List Tier) (profiles : List Policy) (np : Nat) (env : Env)
    (st : List Byte) (src dst : Nat)
    (hct : TiersNetsL4 tiers) (hcp : PoliciesNetsL4 profiles) (hv4 : env.c.v6 = false)
    (hn : 1 ≤ (pktOfD st).proto.toNat) (hf : FlowAddrs (pktOfD st) src dst)
    (hok : ProgOK env st (wlRules tiers profiles np))
    (hs : env.stateOK = true) (hnosplit : NoSplit env.c (flat (compile env.c (wlRules tiers profiles np))))
    (hshort : (flat (compile env.c (wlRules tiers profiles np))).length < env.c.trampolineStride)
    (prog : List Insn) (hi : instructions env.c (wlRules tiers profiles np) = some (some [prog])) :
    ∃ v : Verdict,
      (∃ o, (execL env prog (Mach.init st)).obs = some o ∧ (expectedObs env false v).agrees o = true) ∧
      checkTiersN ((pktOfD st).proto.toNat : Int) src dst profiles tiers = some (v == .allow) := by
  refine ⟨bpfVerdict env (wlRules tiers profiles np) (pktOfD st), ?_, ?_⟩
  · have := polprog_verdict_partial env st _ hok hs hnosplit hshort prog hi
    rw [verdict_workload] at this
    exact this
  · exact checker_tiers_nets_ref env hv4 (pktOfD st) _ hn rfl src dst hf (wlRules tiers profiles np) hct hcp

-- non-vacuity: "allow tcp to !10.0.0.0/8 from 10.1.0.0/16" is in the fragment
def exNets : Rule :=
  { action := "allow", protocol := some (Proto.name "tcp"), srcNet := [{ v6 := false, addr := 0x0a010000, pfx := 16 }],
    notDstNet := [{ v6 := false, addr := 0x0a000000, pfx := 8 }] }
/-- the CIDR universe of `exNets` (what the kernel-side environment has to describe) -/
def exU : List Net := [{ v6 := false, addr := 0x0a010000, pfx := 16 }, { v6 := false, addr := 0x0a000000, pfx := 8 }]
example : NetsL4 exNets := ⟨rfl, by intro n hn; simp [exNets] at hn; rcases hn with rfl | rfl <;> rfl⟩
-- ... and the checker model decides it per side: source inside 10.1/16, destination inside / outside 10/8
example : matchRuleN exNets 6 0x0a010203 0x0a000002 = false ∧ matchRuleN exNets 6 0x0a010203 0xc0a80001 = true ∧
    matchRuleN exNets 6 0xc0a80001 0xc0a80001 = false := by decide

/-! ### The checker ignores the IP family of a rule (finding) -/

/-- **The full statement is FALSE of the current code**: the dataplanes first restrict every rule to the
IP version they render (`rules.FilterRuleToIPVersion`: a rule with explicit `ipVersion: 6`, or one whose
negated CIDR list holds only IPv6 CIDRs, is DROPPED from the IPv4 dataplane), the app-policy checker
neither reads `Rule.IpVersion` nor drops such rules — so "allow, ipVersion 6" and
"allow, notNets [2001:db8::/32]" allow an IPv4 flow in the checker while iptables/nftables and BPF
skip the rule.  (Positive lists agree: an IPv6 CIDR never contains an IPv4 address.) -/
theorem checker_ignores_ip_family :
    let r6 : Rule := { action := "allow", ipVersion := 6 }
    let rn : Rule := { action := "allow", notSrcNet := [{ v6 := true, addr := 0x20010db8000000000000000000000000, pfx := 32 }] }
    (matchRuleN r6 6 0x0a000001 0x0a000002 = true ∧ filterRule false r6 = none) ∧
    (matchRuleN rn 6 0x0a000001 0x0a000002 = true ∧ filterRule false rn = none) ∧
    -- whole verdicts: one tier, default deny
    checkTiersN 6 0x0a000001 0x0a000002 [] [{ endAction := .deny, endRuleID := 0, policies := [⟨[r6]⟩] }] = some true ∧
    bpfVerdict { c := {} } { tiers := [{ endAction := .deny, endRuleID := 0, policies := [⟨[r6]⟩] }] }
      { src := [0, 0, 0, 0], preDst := [0, 0, 0, 0], postDst := [0, 0, 0, 0], sport := 0, icmpW := 0, preDport := 0,
        postDport := 0, proto := 6, flags := 0 } = .deny := by
  decide

/-- **All dataplanes agree**, protocol-only fragment (`TiersCommon`/`ProfilesCommon`).  `_partial`: NOT covered
are all other criteria (CIDRs: `dataplanes_agree_nets_partial`), IPv6, pass rules in profiles (false:
`profile_pass_disagree`), tiers without enforced policy, split or trampolined BPF builds, packets of an
established connection and endpoints with failsafes / non-normal chain type (`h1`…`h6`). -/
theorem dataplanes_agree_partial
    -- the shared policy state and packet
    (tiers : List Tier) (profiles : List Policy) (np : Nat) (env : Env) (st : List Byte)
    (hct : TiersCommon tiers) (hcp : ProfilesCommon profiles)
    (hn : 1 ≤ (pktOfD st).proto.toNat)
    -- BPF side (hypotheses of `C11.polprog_verdict_partial`)
    (hok : ProgOK env st (wlRules tiers profiles np))
    (hs : env.stateOK = true) (hnosplit : env.c.policyMapStride = 0)
    (hshort : (flat (compile env.c (wlRules tiers profiles np))).length < env.c.trampolineStride)
    (prog : List Insn)
    (hi : instructions env.c (wlRules tiers profiles np) = some (some [prog]))
    -- iptables/nftables side (hypotheses of `C09.endpoint_chain_verdict_core`)
    (cfg : C08.Cfg) (mo : C08.MarksOK cfg) (vb : C09.VBits cfg) (vd : C09.VD cfg) (e : C09.EpCfg) (env9 : Netfilter.Env)
    (pkt9 : Netfilter.Packet) (chains : List Netfilter.Chain) (name : String) (tiers9 : List C09.Tier)
    (profiles9 : List String) (polRules : String → List Policy.Rule) (F : Nat)
    (m : Netfilter.Mark)
    (h1 : e.chainType = .normal) (h2 : e.adminUp = true) (h3 : e.failsafe = "")
    (h4 : pkt9.ctState ≠ "RELATED" ∧ pkt9.ctState ≠ "ESTABLISHED" ∧ pkt9.ctState ≠ "INVALID")
    (h5 : (e.dropVXLAN = true → pkt9.proto ≠ 17) ∧ (e.dropIPIP = true → pkt9.proto ≠ 4))
    (h6 : m &&& cfg.markDrop = 0)
    (h7 : Netfilter.lookupChain chains name = some (C09.endpointChain cfg e name tiers9 profiles9).rules)
    (h8 : ∀ t ∈ tiers9, ∀ g ∈ t.groups, g.inlined = false →
      Netfilter.lookupChain chains g.chain = some (C09.policyGroupChain cfg g).rules)
    (h9 : ∀ t ∈ tiers9, ∀ g ∈ t.groups, ∀ p ∈ g.pols, p.staged = false →
      C09.PolicyChainOK cfg env9 pkt9 chains (polRules p.chain) p.chain)
    (h10 : ∀ p ∈ profiles9, C09.ProfileChainOK cfg env9 pkt9 chains (polRules p) p)
    -- chain names: a group chain name identifies its group and is no inlined policy's / profile's chain name
    (hn1 : ∀ t ∈ tiers9, ∀ g ∈ t.groups, g.inlined = false → ∀ t' ∈ tiers9, ∀ g' ∈ t'.groups, g'.inlined = false →
      g'.chain = g.chain → g' = g)
    (hn2 : ∀ t ∈ tiers9, ∀ g ∈ t.groups, g.inlined = false →
      (∀ t' ∈ tiers9, ∀ g' ∈ t'.groups, g'.inlined = true → ∀ p ∈ g'.nonStaged, p.chain ≠ g.chain) ∧
      (∀ p ∈ profiles9, p ≠ g.chain))
    -- the two sides talk about the same state and packet
    (he : EnvProto env9) (hv : pkt9.v6 = false) (hpr : pkt9.proto = (pktOfD st).proto.toNat)
    (hT : C09.policyTiers env9 pkt9 polRules tiers9 true =
      tiers.map (fun t => (outs9 env9 pkt9 t.policies, t.endAction == .pass)))
    (hP : profiles9.map (fun p => C09.policyOutcome env9 pkt9.v6 pkt9 (polRules p)) = outs9 env9 pkt9 profiles) :
    ∃ v : Verdict,
      -- iptables/nftables: the rendered endpoint chain returns with the accept mark / drops
      C09.VShape cfg (toV9 v) (Netfilter.evalChain env9 chains pkt9 (F + 4) name m) ∧
      -- BPF: the program ends with the tail call / pol_rc of `v`
      (∃ o, (execL env prog (Mach.init st)).obs = some o ∧ (expectedObs env false v).agrees o = true) ∧
      -- app-policy: OK iff `v` is allow
      checkTiers ((pktOfD st).proto.toNat : Int) profiles tiers = some (v == .allow) := by
  refine ⟨bpfVerdict env (wlRules tiers profiles np) (pktOfD st), ?_, ?_, ?_⟩
  · have h09 := C09.endpoint_chain_verdict_names cfg mo vb vd e env9 pkt9 chains name tiers9 profiles9 polRules F m
      h2 (fun hne => absurd h3 hne) h4 h5 h6 h7 h8 h9 h10 hn1 hn2
    simp only [h1] at h09
    rw [hT, hP, endpointVerdict_bridge env9 he pkt9 env (pktOfD st) hv hpr profiles hcp tiers hct] at h09
    have heq : bpfVerdict env (wlRules tiers profiles np) (pktOfD st) =
        (match evalTiers env (pktOfD st) .dest tiers with
          | .allow => Verdict.allow
          | .deny => .deny
          | _ => (match evalProfiles true env (pktOfD st) profiles with | .allow => .allow | _ => .deny)) := by
      simp only [bpfVerdict, workloadVerdict, wlRules, Bool.false_eq_true, if_false]
      cases evalTiers env (pktOfD st) .dest tiers <;> simp <;> (cases evalProfiles true env (pktOfD st) profiles <;> rfl)
    rw [heq]
    exact h09
  · have := polprog_verdict_partial env st _ hok hs (Or.inl hnosplit) hshort prog hi
    rw [verdict_workload] at this
    exact this
  · exact checker_tiers_ref env (pktOfD st) _ hn rfl
      (wlRules tiers profiles np)
      (fun t ht => ⟨(hct t ht).1, common_L4 (hct t ht).2⟩) (common_L4 hcp.1)

/-- **The two reference semantics are unified beyond the protocol-only fragment**: for rules with ANY
criterion (protocol, IPv4 CIDR lists, numeric and named ports, IP sets, (ip,port) sets, ICMP type/code
and all their negations — `RuleFullN`: as the API validates them, CIDRs IPv4), a10's `C09.endpointVerdict` over
`Model/Policy.ruleMatches` of the translated rules equals the C11 reference workload verdict, when
the two environments describe the same packet, the same IP sets and, for the CIDRs `U` the policy mentions,
the same CIDR containment (`EnvRelN`).  `_partial`: NOT covered are IPv6 packets, IPv6 CIDRs and explicit
`ipVersion` in a rule, pass rules in profiles, tiers without an enforced policy. -/
theorem references_agree_full_partial {N : NamesN} {U : List Net} {env9 : Netfilter.Env} {pkt9 : Netfilter.Packet}
    {env : Env} {p : Pkt}
    (he : EnvRelN N U env9 pkt9 env p) (tiers : List Tier) (profiles : List Policy)
    (hct : TiersOkG (RuleFullN U) tiers) (hcp : ProfilesOkG (RuleFullN U) profiles) :
    C09.endpointVerdict (tiers.map (fun t => (outsG env9 pkt9 (trRuleFN N) t.policies, t.endAction == .pass)))
        (outsG env9 pkt9 (trRuleFN N) profiles) =
      toV9 (match evalTiers env p .dest tiers with
        | .allow => Verdict.allow
        | .deny => .deny
        | _ => (match evalProfiles true env p profiles with | .allow => .allow | _ => .deny)) :=
  endpointVerdict_bridgeG (ruleBridge_fullN he) profiles hcp tiers hct

/-- **iptables/nftables and BPF agree, all criteria (CIDRs: IPv4)**: the rendered endpoint chain
(a10's `C09.endpoint_chain_verdict_core`) and the interpreted BPF policy program
(`C11.polprog_verdict_partial`) yield the same verdict, over ONE reference
(`references_agree_full_partial`).  Same hypotheses as `dataplanes_agree_partial`, with `RuleFullN`
rules and `EnvRelN` instead of the protocol-only fragment; the app-policy checker is not part of this
statement (its model covers protocol and CIDR criteria only: `dataplanes_agree_nets_partial`).  `_partial`:
NOT covered are also IPv6, pass rules in profiles, split or trampolined BPF builds, established connections. -/
theorem ipt_bpf_agree_full_partial
    (N : NamesN) (U : List Net) (tiers : List Tier) (profiles : List Policy) (np : Nat) (env : Env) (st : List Byte)
    (hct : TiersOkG (RuleFullN U) tiers) (hcp : ProfilesOkG (RuleFullN U) profiles)
    (hok : ProgOK env st (wlRules tiers profiles np))
    (hs : env.stateOK = true) (hnosplit : NoSplit env.c (flat (compile env.c (wlRules tiers profiles np))))
    (hshort : (flat (compile env.c (wlRules tiers profiles np))).length < env.c.trampolineStride)
    (prog : List Insn)
    (hi : instructions env.c (wlRules tiers profiles np) = some (some [prog]))
    (cfg : C08.Cfg) (mo : C08.MarksOK cfg) (vb : C09.VBits cfg) (vd : C09.VD cfg) (e : C09.EpCfg) (env9 : Netfilter.Env)
    (pkt9 : Netfilter.Packet) (chains : List Netfilter.Chain) (name : String) (tiers9 : List C09.Tier)
    (profiles9 : List String) (polRules : String → List Policy.Rule) (F : Nat)
    (m : Netfilter.Mark)
    (h1 : e.chainType = .normal) (h2 : e.adminUp = true) (h3 : e.failsafe = "")
    (h4 : pkt9.ctState ≠ "RELATED" ∧ pkt9.ctState ≠ "ESTABLISHED" ∧ pkt9.ctState ≠ "INVALID")
    (h5 : (e.dropVXLAN = true → pkt9.proto ≠ 17) ∧ (e.dropIPIP = true → pkt9.proto ≠ 4))
    (h6 : m &&& cfg.markDrop = 0)
    (h7 : Netfilter.lookupChain chains name = some (C09.endpointChain cfg e name tiers9 profiles9).rules)
    (h8 : ∀ t ∈ tiers9, ∀ g ∈ t.groups, g.inlined = false →
      Netfilter.lookupChain chains g.chain = some (C09.policyGroupChain cfg g).rules)
    (h9 : ∀ t ∈ tiers9, ∀ g ∈ t.groups, ∀ p ∈ g.pols, p.staged = false →
      C09.PolicyChainOK cfg env9 pkt9 chains (polRules p.chain) p.chain)
    (h10 : ∀ p ∈ profiles9, C09.ProfileChainOK cfg env9 pkt9 chains (polRules p) p)
    -- chain names: a group chain name identifies its group and is no inlined policy's / profile's chain name
    (hn1 : ∀ t ∈ tiers9, ∀ g ∈ t.groups, g.inlined = false → ∀ t' ∈ tiers9, ∀ g' ∈ t'.groups, g'.inlined = false →
      g'.chain = g.chain → g' = g)
    (hn2 : ∀ t ∈ tiers9, ∀ g ∈ t.groups, g.inlined = false →
      (∀ t' ∈ tiers9, ∀ g' ∈ t'.groups, g'.inlined = true → ∀ p ∈ g'.nonStaged, p.chain ≠ g.chain) ∧
      (∀ p ∈ profiles9, p ≠ g.chain))
    (he : EnvRelN N U env9 pkt9 env (pktOfD st))
    (hT : C09.policyTiers env9 pkt9 polRules tiers9 true =
      tiers.map (fun t => (outsG env9 pkt9 (trRuleFN N) t.policies, t.endAction == .pass)))
    (hP : profiles9.map (fun p => C09.policyOutcome env9 pkt9.v6 pkt9 (polRules p)) =
      outsG env9 pkt9 (trRuleFN N) profiles) :
    ∃ v : Verdict,
      C09.VShape cfg (toV9 v) (Netfilter.evalChain env9 chains pkt9 (F + 4) name m) ∧
      (∃ o, (execL env prog (Mach.init st)).obs = some o ∧ (expectedObs env false v).agrees o = true) := by
  refine ⟨bpfVerdict env (wlRules tiers profiles np) (pktOfD st), ?_, ?_⟩
  · have h09 := C09.endpoint_chain_verdict_names cfg mo vb vd e env9 pkt9 chains name tiers9 profiles9 polRules F m
      h2 (fun hne => absurd h3 hne) h4 h5 h6 h7 h8 h9 h10 hn1 hn2
    simp only [h1] at h09
    rw [hT, hP, references_agree_full_partial he tiers profiles hct hcp] at h09
    have heq : bpfVerdict env (wlRules tiers profiles np) (pktOfD st) =
        (match evalTiers env (pktOfD st) .dest tiers with
          | .allow => Verdict.allow
          | .deny => .deny
          | _ => (match evalProfiles true env (pktOfD st) profiles with | .allow => .allow | _ => .deny)) := by
      simp only [bpfVerdict, workloadVerdict, wlRules, Bool.false_eq_true, if_false]
      cases evalTiers env (pktOfD st) .dest tiers <;> simp <;> (cases evalProfiles true env (pktOfD st) profiles <;> rfl)
    rw [heq]
    exact h09
  · have := polprog_verdict_partial env st _ hok hs hnosplit hshort prog hi
    rw [verdict_workload] at this
    exact this

/-- **All three agree with literal CIDRs**: on rules carrying protocol / not-protocol and IPv4 source /
not-source / destination / not-destination CIDR lists (the intersection of `RuleFullN` and `NetsL4`),
the rendered iptables/nftables endpoint chain, the interpreted BPF program AND the app-policy checker
model yield the same verdict — `dataplanes_agree_partial` extended by the CIDR criteria.  `_partial`: NOT
covered are IPv6 flows, IPv6 CIDRs and explicit `ipVersion` (false: `checker_ignores_ip_family`), pass rules
in profiles (false: `profile_pass_disagree`), the criteria outside the checker model (ports, IP sets, ICMP:
two-way only, `ipt_bpf_agree_full_partial`), tiers without enforced policy, split or trampolined BPF builds,
established connections / failsafes. -/
theorem dataplanes_agree_nets_partial
    (N : NamesN) (U : List Net) (tiers : List Tier) (profiles : List Policy) (np : Nat) (env : Env) (st : List Byte)
    (src dst : Nat)
    (hct : TiersOkG (RuleFullN U) tiers) (hcp : ProfilesOkG (RuleFullN U) profiles)
    (hctN : TiersNetsL4 tiers) (hcpN : PoliciesNetsL4 profiles)
    (hn : 1 ≤ (pktOfD st).proto.toNat) (hf : FlowAddrs (pktOfD st) src dst)
    (hok : ProgOK env st (wlRules tiers profiles np))
    (hs : env.stateOK = true) (hnosplit : NoSplit env.c (flat (compile env.c (wlRules tiers profiles np))))
    (hshort : (flat (compile env.c (wlRules tiers profiles np))).length < env.c.trampolineStride)
    (prog : List Insn)
    (hi : instructions env.c (wlRules tiers profiles np) = some (some [prog]))
    (cfg : C08.Cfg) (mo : C08.MarksOK cfg) (vb : C09.VBits cfg) (vd : C09.VD cfg) (e : C09.EpCfg) (env9 : Netfilter.Env)
    (pkt9 : Netfilter.Packet) (chains : List Netfilter.Chain) (name : String) (tiers9 : List C09.Tier)
    (profiles9 : List String) (polRules : String → List Policy.Rule) (F : Nat)
    (m : Netfilter.Mark)
    (h1 : e.chainType = .normal) (h2 : e.adminUp = true) (h3 : e.failsafe = "")
    (h4 : pkt9.ctState ≠ "RELATED" ∧ pkt9.ctState ≠ "ESTABLISHED" ∧ pkt9.ctState ≠ "INVALID")
    (h5 : (e.dropVXLAN = true → pkt9.proto ≠ 17) ∧ (e.dropIPIP = true → pkt9.proto ≠ 4))
    (h6 : m &&& cfg.markDrop = 0)
    (h7 : Netfilter.lookupChain chains name = some (C09.endpointChain cfg e name tiers9 profiles9).rules)
    (h8 : ∀ t ∈ tiers9, ∀ g ∈ t.groups, g.inlined = false →
      Netfilter.lookupChain chains g.chain = some (C09.policyGroupChain cfg g).rules)
    (h9 : ∀ t ∈ tiers9, ∀ g ∈ t.groups, ∀ p ∈ g.pols, p.staged = false →
      C09.PolicyChainOK cfg env9 pkt9 chains (polRules p.chain) p.chain)
    (h10 : ∀ p ∈ profiles9, C09.ProfileChainOK cfg env9 pkt9 chains (polRules p) p)
    -- chain names: a group chain name identifies its group and is no inlined policy's / profile's chain name
    (hn1 : ∀ t ∈ tiers9, ∀ g ∈ t.groups, g.inlined = false → ∀ t' ∈ tiers9, ∀ g' ∈ t'.groups, g'.inlined = false →
      g'.chain = g.chain → g' = g)
    (hn2 : ∀ t ∈ tiers9, ∀ g ∈ t.groups, g.inlined = false →
      (∀ t' ∈ tiers9, ∀ g' ∈ t'.groups, g'.inlined = true → ∀ p ∈ g'.nonStaged, p.chain ≠ g.chain) ∧
      (∀ p ∈ profiles9, p ≠ g.chain))
    (he : EnvRelN N U env9 pkt9 env (pktOfD st))
    (hT : C09.policyTiers env9 pkt9 polRules tiers9 true =
      tiers.map (fun t => (outsG env9 pkt9 (trRuleFN N) t.policies, t.endAction == .pass)))
    (hP : profiles9.map (fun p => C09.policyOutcome env9 pkt9.v6 pkt9 (polRules p)) =
      outsG env9 pkt9 (trRuleFN N) profiles) :
    ∃ v : Verdict,
      C09.VShape cfg (toV9 v) (Netfilter.evalChain env9 chains pkt9 (F + 4) name m) ∧
      (∃ o, (execL env prog (Mach.init st)).obs = some o ∧ (expectedObs env false v).agrees o = true) ∧
      checkTiersN ((pktOfD st).proto.toNat : Int) src dst profiles tiers = some (v == .allow) := by
  refine ⟨bpfVerdict env (wlRules tiers profiles np) (pktOfD st), ?_, ?_, ?_⟩
  · have h09 := C09.endpoint_chain_verdict_names cfg mo vb vd e env9 pkt9 chains name tiers9 profiles9 polRules F m
      h2 (fun hne => absurd h3 hne) h4 h5 h6 h7 h8 h9 h10 hn1 hn2
    simp only [h1] at h09
    rw [hT, hP, references_agree_full_partial he tiers profiles hct hcp] at h09
    have heq : bpfVerdict env (wlRules tiers profiles np) (pktOfD st) =
        (match evalTiers env (pktOfD st) .dest tiers with
          | .allow => Verdict.allow
          | .deny => .deny
          | _ => (match evalProfiles true env (pktOfD st) profiles with | .allow => .allow | _ => .deny)) := by
      simp only [bpfVerdict, workloadVerdict, wlRules, Bool.false_eq_true, if_false]
      cases evalTiers env (pktOfD st) .dest tiers <;> simp <;> (cases evalProfiles true env (pktOfD st) profiles <;> rfl)
    rw [heq]
    exact h09
  · have := polprog_verdict_partial env st _ hok hs hnosplit hshort prog hi
    rw [verdict_workload] at this
    exact this
  · exact checker_tiers_nets_ref env he.base.v4 (pktOfD st) _ hn rfl src dst hf (wlRules tiers profiles np) hctN hcpN

-- non-vacuity of the extended fragment: "allow tcp from set 7 to ports 80,8000-8080, not to set 9"
def exFull : Rule :=
  { action := "allow", protocol := some (Proto.name "tcp"), srcIpSetIds := [7], notDstIpSetIds := [9],
    dstPorts := [{ first := 80, last := 80 }, { first := 8000, last := 8080 }] }
example : RuleFullN [] exFull := by
  refine ⟨⟨Or.inl rfl, trivial, trivial, ⟨rfl, rfl, rfl, rfl, rfl⟩, ?_, ?_, ?_, ⟨trivial, trivial⟩, by decide⟩,
    by intro n hn; simp [exFull] at hn, by intro n hn; simp [exFull] at hn⟩
  · intro pr h
    simp [exFull, clearNets] at h
    rcases h with rfl | rfl <;> exact ⟨by decide, by decide, by decide⟩
  · intro _; exact ⟨_, 6, rfl, by decide, Or.inl rfl⟩
  · intro h; rcases h with h | h <;> exact absurd rfl h
-- ... and so is the CIDR rule of the checker fragment
theorem exNets_full : RuleFullN exU exNets := by
  refine ⟨⟨Or.inl rfl, trivial, trivial, ⟨rfl, rfl, rfl, rfl, rfl⟩, ?_, ?_, ?_, ⟨trivial, trivial⟩, by decide⟩, ?_, ?_⟩
  · intro pr h; simp [exNets, clearNets] at h
  · intro h; exact absurd rfl h
  · intro h; rcases h with h | h <;> exact absurd rfl h
  · intro n hn; simp [exNets] at hn; rcases hn with rfl | rfl <;> rfl
  · intro n hn; simp [exNets] at hn; rcases hn with rfl | rfl <;> simp [exU]

-- non-vacuity of `EnvRelN`: a kernel-side environment and packet that describe the C11-side packet
-- 10.1.2.3 -> 192.168.0.1 (tcp, 1234 -> 80), no IP sets, and contain exactly the two CIDRs of `exNets`
def exNames : NamesN :=
  { set := fun id => toString id,
    cidr := fun n => if n.v6 then ":" else if n.pfx = 16 then "10.1.0.0/16" else "10.0.0.0/8",
    cidrFam := by
      intro n
      cases hv : n.v6 <;> by_cases h : n.pfx = 16 <;> simp [h, Policy.cidrIsV6] <;> decide }
def exEnv9 : Netfilter.Env :=
  { netContains := fun c a => if c = "10.1.0.0/16" then a / 65536 == 0x0a01 else if c = "10.0.0.0/8" then a / 16777216 == 10 else false,
    protoNum := fun s => protoNumberRef (.name s) }
def exPkt9 : Netfilter.Packet := { proto := 6, src := 0x0a010203, dst := 0xc0a80001, sport := 1234, dport := 80 }
def exP : Pkt :=
  { src := [rev32bv 0x0a010203#32, 0, 0, 0], preDst := [rev32bv 0xc0a80001#32, 0, 0, 0],
    postDst := [rev32bv 0xc0a80001#32, 0, 0, 0], sport := 1234, icmpW := 0, preDport := 80, postDport := 80, proto := 6,
    flags := 0 }
theorem exEnvRel : EnvRelN exNames exU exEnv9 exPkt9 { c := exCfg } exP := by
  refine ⟨⟨rfl, rfl, fun s => rfl, rfl, rfl, rfl, rfl, rfl, fun _ => rfl, fun _ => rfl, fun _ => rfl, fun _ => rfl⟩, ?_, ?_⟩
  · intro n hn _; simp [exU] at hn; rcases hn with rfl | rfl <;> decide
  · intro n hn _; simp [exU] at hn; rcases hn with rfl | rfl <;> decide
example : FlowAddrs exP 0x0a010203 0xc0a80001 := ⟨rfl, rfl⟩

-- non-vacuity of the tier/profile fragments of `dataplanes_agree_nets_partial`, and of its conclusion: on this
-- policy state and packet the unified reference (hence every one of the three sides) says ALLOW, and
-- DENY once the destination lies inside 10.0.0.0/8
def exTiersN : List Tier := [{ endAction := EndAction.deny, endRuleID := 0, policies := [{ rules := [exNets] }] }]
theorem exTiersN_ok : TiersOkG (RuleFullN exU) exTiersN ∧ TiersNetsL4 exTiersN := by
  refine ⟨?_, ?_⟩ <;> intro t ht <;> simp [exTiersN] at ht <;> subst ht <;> refine ⟨by simp, ?_⟩ <;>
    intro pol hp <;> simp at hp <;> subst hp <;> intro r hr <;> simp at hr <;> subst hr
  · exact exNets_full
  · exact ⟨⟨rfl, by intro n hn; simp [exNets] at hn; rcases hn with rfl | rfl <;> rfl⟩, by decide⟩
example :
    C09.endpointVerdict (exTiersN.map (fun t => (outsG exEnv9 exPkt9 (trRuleFN exNames) t.policies, t.endAction == .pass)))
        (outsG exEnv9 exPkt9 (trRuleFN exNames) []) = toV9 .allow ∧
      checkTiersN 6 0x0a010203 0xc0a80001 [] exTiersN = some true ∧
      checkTiersN 6 0x0a010203 0x0a000002 [] exTiersN = some false := by
  refine ⟨?_, by decide, by decide⟩
  rw [references_agree_full_partial exEnvRel exTiersN [] exTiersN_ok.1 ⟨(by intro _ h; cases h), (by intro _ h; cases h)⟩]
  decide

-- non-vacuity of the common fragment
example : TiersCommon [{ endAction := EndAction.deny, endRuleID := 0, policies := [{ rules := [exL4a, exL4b] }] }] := by
  intro t ht
  simp at ht; subst ht
  refine ⟨by simp, ?_⟩
  intro pol hp r hr
  simp at hp; subst hp
  simp at hr
  rcases hr with rfl | rfl
  · exact ⟨rfl, Or.inl rfl, trivial, trivial⟩
  · exact ⟨rfl, Or.inr (Or.inl rfl), trivial, ⟨by decide, by decide⟩⟩
example : ProfilesCommon [{ rules := [exL4a, exL4b] }] ∧ EnvProto exEnv9 := by
  refine ⟨⟨?_, ?_⟩, fun _ => rfl⟩ <;> intro pol hp r hr <;> simp at hp <;> subst hp <;> simp at hr
  · rcases hr with rfl | rfl
    · exact ⟨rfl, Or.inl rfl, trivial, trivial⟩
    · exact ⟨rfl, Or.inr (Or.inl rfl), trivial, ⟨by decide, by decide⟩⟩
  · rcases hr with rfl | rfl <;> decide
-- (the BPF-side hypotheses `ProgOK` / `instructions … = some (some [prog])` are satisfiable: `C11.exRules_progOK`
-- and the examples after it in Props/C11.lean; the C09-side hypotheses are those of a10's theorem, see Props/C09.lean)

/-! ### Joint non-vacuity: ALL hypotheses of `dataplanes_agree_nets_partial` on one instance

One workload endpoint: a tier (end action deny) whose policy group `g` holds the enforced policies
`polA` = [allow tcp from 10.1.0.0/16 to !10.0.0.0/8] (`exNets`), `polB` = [deny tcp] and a staged policy
(so the group has its own chain: NOT inlined), and the profile `prof` = [allow tcp]; the flow
10.1.2.3:1234 → 192.168.0.1:80 tcp as 512 state bytes `jSt` (BPF side), as `exPkt9` (netfilter side)
and as addresses (checker side); the kernel environment `jEnv9` knows the two CIDRs of the policy and the
catch-all CIDRs; the chain set `jChains` holds the rendered endpoint, group, policy and profile chains;
the BPF program is the one `Instructions` builds (`jProg_built`).  `joint_instance` feeds all of it to
the theorem; `joint_instance_verdict` evaluates the three sides independently: all ALLOW. -/

def jSt : List Byte :=
  List.replicate 8 0 ++ [10, 1, 2, 3] ++ List.replicate 28 0 ++ [192, 168, 0, 1] ++ List.replicate 12 0 ++
    [192, 168, 0, 1] ++ List.replicate 36 0 ++ [0xD2, 0x04, 0, 0, 80, 0, 80, 0, 6] ++ List.replicate 407 0
theorem jSt_len : jSt.length = 512 := by decide +kernel
theorem jSt_pkt : pktOfD jSt = exP := by
  unfold pktOfD exP
  congr 1

def jEnv9 : Netfilter.Env :=
  { netContains := fun c a => if c = "0.0.0.0/0" ∨ c = "::/0" then true else exEnv9.netContains c a,
    protoNum := fun s => protoNumberRef (.name s) }
theorem jEnv9_catchAll : C08.EnvCatchAll jEnv9 := fun _ => ⟨rfl, rfl⟩
theorem jEnvRel : EnvRelN exNames exU jEnv9 exPkt9 { c := exCfg } (pktOfD jSt) := by
  rw [jSt_pkt]
  refine ⟨⟨rfl, rfl, fun s => rfl, rfl, rfl, rfl, rfl, rfl, fun _ => rfl, fun _ => rfl, fun _ => rfl, fun _ => rfl⟩, ?_, ?_⟩
  · intro n hn _; simp [exU] at hn; rcases hn with rfl | rfl <;> decide
  · intro n hn _; simp [exU] at hn; rcases hn with rfl | rfl <;> decide

def jDeny : Rule := { action := "deny", protocol := some (Proto.name "tcp") }
def jTiers : List Tier :=
  [{ endAction := EndAction.deny, endRuleID := 1, policies := [{ rules := [exNets] }, { rules := [jDeny] }] }]
def jProfs : List Policy := [{ rules := [exL4a] }]

def jPolRules (c : String) : List Policy.Rule :=
  if c == "polA" then [trRuleFN exNames exNets] else if c == "polB" then [trRuleFN exNames jDeny]
  else if c == "prof" then [trRuleFN exNames exL4a] else []
def jG : C09.Group := { chain := "g", pols := [{ chain := "polA", staged := false }, { chain := "polS", staged := true }, { chain := "polB", staged := false }] }
def jTiers9 : List C09.Tier := [{ name := "t", defaultPass := false, groups := [jG] }]
def jChains : List Netfilter.Chain :=
  [ { name := "ep", rules := (C09.endpointChain {} {} "ep" jTiers9 ["prof"]).rules },
    C09.policyGroupChain {} jG,
    { name := "polA", rules := (C09.protoRulesToRules {} {} false (jPolRules "polA") "c").getD [] },
    { name := "polB", rules := (C09.protoRulesToRules {} {} false (jPolRules "polB") "c").getD [] },
    { name := "prof", rules := (C09.protoRulesToRules {} { owner := 'R' } false (jPolRules "prof") "c").getD [] } ]


def jRules : Rules := wlRules jTiers jProfs 0
def jProg : List Insn := match instructions exCfg jRules with | some (some [p]) => p | _ => []
theorem jProg_built : instructions exCfg jRules = some (some [jProg]) := by decide +kernel

theorem hpos_of (v6 : Bool) (r : Policy.Rule)
    (h : (match C08.filterRuleToIPVersion v6 r with | some rc => decide (C08.numPositive rc ≤ 2) | none => true) = true) :
    ∀ rc, C08.filterRuleToIPVersion v6 r = some rc → C08.numPositive rc ≤ 2 := by
  intro rc hrc; rw [hrc] at h; simpa using h

theorem jExact (r : Policy.Rule)
    (h : (match C08.filterRuleToIPVersion false r with | some rc => decide (C08.numPositive rc ≤ 2) | none => true) = true) :
    C09.RuleExact {} jEnv9 exPkt9 r :=
  C09.ruleExact_of_le2 {} jEnv9 exPkt9 r (by constructor <;> decide) jEnv9_catchAll (Or.inl rfl) (hpos_of false r h)

theorem jExactA : C09.RuleExact {} jEnv9 exPkt9 (trRuleFN exNames exNets) := jExact _ (by decide +kernel)

theorem jDeny_full : RuleFullN exU jDeny ∧ NetsL4 jDeny := by
  refine ⟨⟨⟨Or.inr (Or.inl rfl), trivial, trivial, ⟨rfl, rfl, rfl, rfl, rfl⟩, ?_, ?_, ?_, ⟨trivial, trivial⟩, by decide⟩, ?_, ?_⟩, ⟨rfl, ?_⟩⟩
  · intro pr h; simp [jDeny, clearNets] at h
  · intro h; exact absurd rfl h
  · intro h; rcases h with h | h <;> exact absurd rfl h
  · intro n hn; simp [jDeny] at hn
  · intro n hn; simp [jDeny] at hn
  · intro n hn; simp [jDeny] at hn
theorem exL4a_full : RuleFullN exU exL4a ∧ NetsL4 exL4a := by
  refine ⟨⟨⟨Or.inl rfl, trivial, trivial, ⟨rfl, rfl, rfl, rfl, rfl⟩, ?_, ?_, ?_, ⟨trivial, trivial⟩, by decide⟩, ?_, ?_⟩, ⟨rfl, ?_⟩⟩
  · intro pr h; simp [exL4a, clearNets] at h
  · intro h; exact absurd rfl h
  · intro h; rcases h with h | h <;> exact absurd rfl h
  · intro n hn; simp [exL4a] at hn
  · intro n hn; simp [exL4a] at hn
  · intro n hn; simp [exL4a] at hn
theorem exNets_netsL4 : NetsL4 exNets := ⟨rfl, by intro n hn; simp [exNets] at hn; rcases hn with rfl | rfl <;> rfl⟩

theorem exNets_ok : RuleOK exNets := by
  refine ⟨?_, ?_, ?_, ?_⟩
  · intro pr h; simp [exNets] at h; subst h; exact ⟨6, by decide, by decide, by decide⟩
  · intro pr h; simp [exNets] at h
  · intro id h; simp [Rule.ipSetIDs, exNets] at h
  · intro pr h; simp [exNets] at h
theorem jDeny_ok : RuleOK jDeny := by
  refine ⟨?_, ?_, ?_, ?_⟩
  · intro pr h; simp [jDeny] at h; subst h; exact ⟨6, by decide, by decide, by decide⟩
  · intro pr h; simp [jDeny] at h
  · intro id h; simp [Rule.ipSetIDs, jDeny] at h
  · intro pr h; simp [jDeny] at h
theorem exL4a_ok : RuleOK exL4a := by
  refine ⟨?_, ?_, ?_, ?_⟩
  · intro pr h; simp [exL4a] at h; subst h; exact ⟨6, by decide, by decide, by decide⟩
  · intro pr h; simp [exL4a] at h
  · intro id h; simp [Rule.ipSetIDs, exL4a] at h
  · intro pr h; simp [exL4a] at h

theorem joint_instance :
    ∃ v : Verdict,
      C09.VShape {} (toV9 v) (Netfilter.evalChain jEnv9 jChains exPkt9 4 "ep" 0) ∧
      (∃ o, (execL { c := exCfg } jProg (Mach.init jSt)).obs = some o ∧ (expectedObs { c := exCfg } false v).agrees o = true) ∧
      checkTiersN ((pktOfD jSt).proto.toNat : Int) 0x0a010203 0xc0a80001 jProfs jTiers = some (v == .allow) := by
  have hct : TiersOkG (RuleFullN exU) jTiers := by
    intro t ht; simp only [jTiers, List.mem_singleton] at ht; subst ht
    refine ⟨by simp, ?_⟩
    intro pol hp r hr
    simp only [List.mem_cons, List.not_mem_nil, or_false] at hp
    rcases hp with rfl | rfl <;> simp only [List.mem_singleton] at hr <;> subst hr
    · exact exNets_full
    · exact jDeny_full.1
  have hcp : ProfilesOkG (RuleFullN exU) jProfs := by
    refine ⟨?_, ?_⟩ <;> intro pol hp r hr <;> simp only [jProfs, List.mem_singleton] at hp <;> subst hp <;>
      simp only [List.mem_singleton] at hr <;> subst hr
    · exact exL4a_full.1
    · decide
  have hctN : TiersNetsL4 jTiers := by
    intro t ht; simp only [jTiers, List.mem_singleton] at ht; subst ht
    refine ⟨by simp, ?_⟩
    intro pol hp r hr
    simp only [List.mem_cons, List.not_mem_nil, or_false] at hp
    rcases hp with rfl | rfl <;> simp only [List.mem_singleton] at hr <;> subst hr
    · exact ⟨exNets_netsL4, by decide⟩
    · exact ⟨jDeny_full.2, by decide⟩
  have hcpN : PoliciesNetsL4 jProfs := by
    intro pol hp r hr; simp only [jProfs, List.mem_singleton] at hp; subst hp
    simp only [List.mem_singleton] at hr; subst hr
    exact ⟨exL4a_full.2, by decide⟩
  have hn : 1 ≤ (pktOfD jSt).proto.toNat := by rw [jSt_pkt]; decide
  have hf : FlowAddrs (pktOfD jSt) 0x0a010203 0xc0a80001 := by rw [jSt_pkt]; exact ⟨rfl, rfl⟩
  have hok : ProgOK { c := exCfg } jSt (wlRules jTiers jProfs 0) := by
    refine ⟨⟨jSt_len, by decide⟩, ?_, ?_, ?_, ?_, ?_, ?_⟩
    · intro t ht pol hp rule hr
      simp only [wlRules, jTiers, List.mem_singleton] at ht; subst ht
      simp only [List.mem_cons, List.not_mem_nil, or_false] at hp
      rcases hp with rfl | rfl <;> simp only [List.mem_singleton] at hr <;> subst hr
      · exact ⟨by decide, exNets_ok⟩
      · exact ⟨by decide, jDeny_ok⟩
    · intro t ht; simp [wlRules] at ht
    · intro t ht; simp [wlRules] at ht
    · intro t ht; simp [wlRules] at ht
    · intro pol hp rule hr
      simp only [wlRules, jProfs, List.mem_singleton] at hp; subst hp
      simp only [List.mem_singleton] at hr; subst hr
      exact ⟨by decide, exL4a_ok⟩
    · intro pol hp; simp [wlRules] at hp
  have hshort : (flat (compile exCfg (wlRules jTiers jProfs 0))).length < exCfg.trampolineStride := by decide +kernel
  refine dataplanes_agree_nets_partial exNames exU jTiers jProfs 0 { c := exCfg } jSt 0x0a010203 0xc0a80001
    hct hcp hctN hcpN hn hf hok rfl (Or.inl rfl) hshort jProg jProg_built
    {} (by constructor <;> decide) (by constructor <;> decide) (by constructor <;> decide) {} jEnv9 exPkt9 jChains "ep" jTiers9 ["prof"] jPolRules 0 0
    rfl rfl rfl (by decide) (by decide) (by decide) (by decide +kernel) ?h8 ?h9 ?h10 ?hn1 ?hn2 jEnvRel ?hT ?hP
  case h8 =>
    intro t ht g hg _
    simp only [jTiers9, List.mem_singleton] at ht; subst ht
    simp only [List.mem_singleton] at hg; subst hg
    decide +kernel
  case h9 =>
    intro t ht g hg p hp hs
    simp only [jTiers9, List.mem_singleton] at ht; subst ht
    simp only [List.mem_singleton] at hg; subst hg
    simp only [jG, List.mem_cons, List.not_mem_nil, or_false] at hp
    rcases hp with rfl | rfl | rfl
    · refine ⟨{}, "c", (C09.protoRulesToRules {} {} false (jPolRules "polA") "c").getD [], by decide +kernel, by decide +kernel, ?_, ?_⟩ <;>
        (intro r hr; have : r = trRuleFN exNames exNets := by simpa [jPolRules] using hr
         subst this)
      · exact jExact _ (by decide +kernel)
      · decide +kernel
    · exact absurd hs (by decide)
    · refine ⟨{}, "c", (C09.protoRulesToRules {} {} false (jPolRules "polB") "c").getD [], by decide +kernel, by decide +kernel, ?_, ?_⟩ <;>
        (intro r hr; have : r = trRuleFN exNames jDeny := by simpa [jPolRules] using hr
         subst this)
      · exact jExact _ (by decide +kernel)
      · decide +kernel
  case h10 =>
    intro p hp
    simp only [List.mem_singleton] at hp; subst hp
    refine ⟨{ owner := 'R' }, "c", (C09.protoRulesToRules {} { owner := 'R' } false (jPolRules "prof") "c").getD [], by decide +kernel, by decide +kernel, ?_, ?_⟩ <;>
      (intro r hr; have : r = trRuleFN exNames exL4a := by simpa [jPolRules] using hr
       subst this)
    · exact jExact _ (by decide +kernel)
    · exact ⟨.allow, by decide +kernel, by decide⟩
  case hn1 =>
    intro t ht g hg _ t' ht' g' hg' _ _
    simp only [jTiers9, List.mem_singleton] at ht ht'; subst ht; subst ht'
    simp only [List.mem_singleton] at hg hg'; subst hg; subst hg'; rfl
  case hn2 =>
    intro t ht g hg _
    simp only [jTiers9, List.mem_singleton] at ht; subst ht
    simp only [List.mem_singleton] at hg; subst hg
    constructor
    · intro t' ht' g' hg' hi'
      simp only [jTiers9, List.mem_singleton] at ht'; subst ht'
      simp only [List.mem_singleton] at hg'; subst hg'
      exact absurd hi' (by decide)
    · intro p hp; simp only [List.mem_singleton] at hp; subst hp; decide
  case hT => rfl
  case hP => rfl
theorem joint_instance_verdict :
    bpfVerdict { c := exCfg } (wlRules jTiers jProfs 0) (pktOfD jSt) = .allow ∧
    Netfilter.evalChain jEnv9 jChains exPkt9 4 "ep" 0 = .returned 0x80#32 ∧
    checkTiersN 6 0x0a010203 0xc0a80001 jProfs jTiers = some true := by
  refine ⟨by rw [jSt_pkt]; decide, by decide +kernel, by decide⟩

end CalicoVerif.C12
