import CalicoVerif.Model.C09
/-!
C09 — Endpoint verdicts follow tier, pass, staged and profile semantics.

Proved here for all inputs: the policy-group chain (`PolicyGroupToIptablesChains`, return
stride 5, staged policies skipped) is exactly "run the enforced policies in order until one of
them sets the accept or pass bit or terminates the packet" — for groups of ANY length and any
behaviour of the policy chains.  The endpoint-chain tier loop, end-of-tier drop and profile
section are NOT proved in Lean; they are covered by the text-exact correspondence and by
evaluating the real rendered endpoint / group / policy / profile chains against the reference
verdict `endpointVerdict` (see the harness oracle `endpoint-verdict`).
-/
namespace CalicoVerif.C09
open CalicoVerif.Netfilter CalicoVerif.Policy CalicoVerif.C08

/-- reference behaviour of a policy group: enforced policies in order, stop at the first verdict -/
def seqEval (cfg : Cfg) (call : String → Mark → Result) : List Pol → Mark → Result
  | [], m => .returned m
  | p :: ps, m =>
    if p.staged then seqEval cfg call ps m
    else if m &&& (cfg.markPass ||| cfg.markAccept) ≠ 0 then .returned m
    else match call p.chain m with
      | .returned m' => seqEval cfg call ps m'
      | other => other

theorem seqEval_of_verdict (cfg : Cfg) (call : String → Mark → Result) (ps : List Pol) (m : Mark)
    (h : m &&& (cfg.markPass ||| cfg.markAccept) ≠ 0) : seqEval cfg call ps m = .returned m := by
  induction ps with
  | nil => rfl
  | cons p ps ih =>
    simp only [seqEval]
    split
    · exact ih
    · simp [h]

theorem groupRulesFrom_exact (cfg : Cfg) (env : Env) (call : String → Mark → Result) (pkt : Packet)
    (ps : List Pol) (k : Nat) (m : Mark)
    (h0 : k = 0 → m &&& (cfg.markPass ||| cfg.markAccept) = 0) :
    runRules env call pkt (groupRulesFrom cfg k ps) m = seqEval cfg call ps m := by
  induction ps generalizing k m with
  | nil => simp [groupRulesFrom, runRules, seqEval]
  | cons p ps ih =>
    simp only [groupRulesFrom, seqEval]
    by_cases hs : p.staged = true
    · simp only [hs, if_true]; exact ih k m h0
    · simp only [hs, Bool.false_eq_true, if_false]
      by_cases hm : m &&& (cfg.markPass ||| cfg.markAccept) = 0
      · -- no verdict yet: the return rule (if any) is skipped, the jump is taken
        have hbeq : (m &&& (cfg.markPass ||| cfg.markAccept) == 0) = true := by simp [hm]
        have hjump : runRules env call pkt (groupJump cfg k p.chain :: groupRulesFrom cfg (k + 1) ps) m =
            (match call p.chain m with
              | .returned m' => seqEval cfg call ps m'
              | other => other) := by
          have hmatch : (groupJump cfg k p.chain).matches env pkt m = true := by
            unfold groupJump Rule.matches
            split <;> simp [Clause.matches, xorb, hm]
          have hact : (groupJump cfg k p.chain).action = .jump p.chain := rfl
          rw [runRules, if_pos hmatch, hact]
          simp only [resolveAction]
          cases hc : call p.chain m with
          | returned m' => simp only; exact ih (k + 1) m' (by omega)
          | verdict v mk => rfl
          | missing c => rfl
          | outOfFuel => rfl
        simp only [hm, ne_eq, not_true_eq_false, if_false]
        by_cases hk : k ≠ 0 ∧ k % 5 = 0
        · simp only [hk, and_self, if_true, List.cons_append, List.nil_append, ne_eq, not_false_eq_true]
          rw [runRules]
          have : (returnOnVerdict cfg).matches env pkt m = false := by
            simp [returnOnVerdict, Rule.matches, Clause.matches, xorb, hm]
          rw [if_neg (by simp [this])]
          exact hjump
        · simp only [hk, if_false, List.nil_append, List.cons_append]
          exact hjump
      · -- a verdict bit is already set: nothing more is evaluated
        have hk0 : k ≠ 0 := fun hk => hm (h0 hk)
        have hbeq : (m &&& (cfg.markPass ||| cfg.markAccept) == 0) = false := by simpa using hm
        simp only [hm, ne_eq, not_false_eq_true, if_true]
        by_cases hk : k % 5 = 0
        · simp only [hk0, hk, ne_eq, not_false_eq_true, and_self, if_true, List.cons_append, List.nil_append]
          rw [runRules]
          have : (returnOnVerdict cfg).matches env pkt m = true := by
            simpa [returnOnVerdict, Rule.matches, Clause.matches, xorb] using hm
          rw [if_pos this]
          simp [returnOnVerdict, resolveAction]
        · simp only [hk, and_false, if_false, List.nil_append, List.cons_append]
          rw [runRules]
          have : (groupJump cfg k p.chain).matches env pkt m = false := by
            simpa [groupJump, hk, Rule.matches, Clause.matches, xorb] using hm
          rw [if_neg (by simp [this])]
          rw [ih (k + 1) m (by omega)]
          exact seqEval_of_verdict cfg call ps m hm

/-- **The policy-group chain is exact for groups of any length**: entered with the accept and pass
bits clear (as the endpoint chain guarantees), it runs the enforced policies in order and stops
at the first one that sets a verdict bit or terminates the packet; staged policies never run. -/
theorem policy_group_chain_exact (cfg : Cfg) (env : Env) (call : String → Mark → Result) (pkt : Packet)
    (g : Group) (m : Mark) (h0 : m &&& (cfg.markPass ||| cfg.markAccept) = 0) :
    runRules env call pkt (policyGroupChain cfg g).rules m = seqEval cfg call g.pols m :=
  groupRulesFrom_exact cfg env call pkt g.pols 0 m (fun _ => h0)

/-- staged policies never influence the group's result -/
theorem seqEval_ignores_staged (cfg : Cfg) (call : String → Mark → Result) (ps : List Pol) (m : Mark) :
    seqEval cfg call ps m = seqEval cfg call (ps.filter (!·.staged)) m := by
  induction ps generalizing m with
  | nil => rfl
  | cons p ps ih =>
    by_cases hs : p.staged = true
    · simp [seqEval, hs, ih]
    · have hs' : p.staged = false := by simpa using hs
      simp only [seqEval, hs', Bool.false_eq_true, if_false, List.filter_cons, Bool.not_false, if_true]
      split
      · rfl
      · cases call p.chain m <;> simp [ih]

/-- reference behaviour of the profile section: profiles in order; the first one that returns with
the accept bit set wins, a terminating profile rule terminates, and if none accepts the packet
is denied. -/
def profSeq (cfg : Cfg) (call : String → Mark → Result) : List String → Mark → Result
  | [], m => .verdict (if cfg.reject then .reject else .drop) m
  | p :: ps, m =>
    match call p m with
    | .returned m' => if m' &&& cfg.markAccept == cfg.markAccept then .returned m' else profSeq cfg call ps m'
    | other => other

/-- **The profile section of the endpoint chain is exact for any number of profiles**: anything
no profile accepts is denied (fail closed). -/
theorem profile_section_exact (cfg : Cfg) (e : EpCfg) (env : Env) (call : String → Mark → Result)
    (pkt : Packet) (profiles : List String) (m : Mark) :
    runRules env call pkt (profileRules cfg e profiles) m = profSeq cfg call profiles m := by
  induction profiles generalizing m with
  | nil =>
    cases hf : cfg.flowLogs <;> cases hr : cfg.reject <;>
      simp [profileRules, profSeq, runRules, Rule.matches, resolveAction, applyMark, hf, hr, C08.denyAction]
  | cons p ps ih =>
    have hcons : profileRules cfg e (p :: ps) =
        ({ action := .jump p } : Netfilter.Rule) ::
        { clauses := [.mark false cfg.markAccept cfg.markAccept], action := .ret,
          comments := ["Return if profile accepted"] } :: profileRules cfg e ps := by
      simp [profileRules]
    rw [hcons, runRules]
    simp only [Rule.matches, List.all_nil, if_true, resolveAction, profSeq]
    cases hc : call p m with
    | returned m' =>
      simp only
      rw [runRules]
      by_cases ha : (m' &&& cfg.markAccept == cfg.markAccept) = true
      · simp [Rule.matches, Clause.matches, xorb, ha, resolveAction]
      · have ha' : (m' &&& cfg.markAccept == cfg.markAccept) = false := by simpa using ha
        simp only [Rule.matches, List.all_cons, List.all_nil, Clause.matches, xorb, ha',
          Bool.false_eq_true, if_false, Bool.and_true]
        exact ih m'
    | verdict v mk => rfl
    | missing c => rfl
    | outOfFuel => rfl

/-! ### one tier of the endpoint chain -/

/-- the (jump target, group has enforced policies) pairs of a tier, in rendering order -/
def tierTargets (t : Tier) : List (String × Bool) :=
  t.groups.flatMap fun g => g.jumpTargets.map fun c => (c, g.hasNonStaged)

def targetRules (cfg : Cfg) (e : EpCfg) (th : String × Bool) : List Netfilter.Rule :=
  [({ clauses := [.mark false 0 cfg.markPass], action := .jump th.1 } : Netfilter.Rule)]
  ++ (if th.2 then
        (if e.chainType = .untracked then
          [({ clauses := [.mark false cfg.markAccept cfg.markAccept], action := .notrack } : Netfilter.Rule)] else [])
        ++ [{ clauses := [.mark false cfg.markAccept cfg.markAccept], action := .ret,
              comments := ["Return if policy accepted"] }]
      else [])

theorem groups_flatMap_eq (cfg : Cfg) (e : EpCfg) (t : Tier) :
    t.groups.flatMap (groupEpRules cfg e) = (tierTargets t).flatMap (targetRules cfg e) := by
  unfold tierTargets
  induction t.groups with
  | nil => rfl
  | cons g gs ih =>
    simp only [List.flatMap_cons, List.flatMap_append, ih]
    congr 1
    simp only [groupEpRules, List.flatMap_map, targetRules]

/-- reference behaviour of the policy jumps of a tier: each policy (or group) chain is entered only
while the pass bit is clear; after a group with enforced policies an accept bit returns. -/
def targetsSeq (cfg : Cfg) (call : String → Mark → Result) (cont : Mark → Result) :
    List (String × Bool) → Mark → Result
  | [], m => cont m
  | th :: ts, m =>
    match (if m &&& cfg.markPass == 0 then call th.1 m else .returned m) with
    | .returned m' =>
      if th.2 && (m' &&& cfg.markAccept == cfg.markAccept) then .returned m'
      else targetsSeq cfg call cont ts m'
    | other => other

theorem targets_exact (cfg : Cfg) (e : EpCfg) (env : Env) (call : String → Mark → Result) (pkt : Packet)
    (rest : List Netfilter.Rule) (ts : List (String × Bool)) (m : Mark) :
    runRules env call pkt (ts.flatMap (targetRules cfg e) ++ rest) m =
      targetsSeq cfg call (fun m' => runRules env call pkt rest m') ts m := by
  induction ts generalizing m with
  | nil => simp [targetsSeq]
  | cons th ts ih =>
    obtain ⟨c, hns⟩ := th
    simp only [List.flatMap_cons, targetRules, List.append_assoc, List.cons_append, List.nil_append, targetsSeq]
    rw [runRules]
    simp only [Rule.matches, List.all_cons, List.all_nil, Clause.matches, xorb, Bool.and_true,
      Bool.false_eq_true, if_false, resolveAction]
    -- after the (possibly skipped) jump we are at the return rule(s) with some mark m'
    have hret : ∀ m', runRules env call pkt
        ((if hns = true then
            (if e.chainType = .untracked then
              [({ clauses := [.mark false cfg.markAccept cfg.markAccept], action := .notrack } : Netfilter.Rule)] else [])
            ++ [{ clauses := [.mark false cfg.markAccept cfg.markAccept], action := .ret,
                  comments := ["Return if policy accepted"] }]
          else []) ++ (ts.flatMap (targetRules cfg e) ++ rest)) m' =
        if hns && (m' &&& cfg.markAccept == cfg.markAccept) then .returned m'
        else targetsSeq cfg call (fun m' => runRules env call pkt rest m') ts m' := by
      intro m'
      cases hns
      · simp [ih]
      · by_cases ha : (m' &&& cfg.markAccept == cfg.markAccept) = true
        · by_cases hu : e.chainType = .untracked <;>
            simp [hu, runRules, Rule.matches, Clause.matches, xorb, ha, resolveAction, applyMark]
        · have ha' : (m' &&& cfg.markAccept == cfg.markAccept) = false := by simpa using ha
          by_cases hu : e.chainType = .untracked <;>
            simp [hu, runRules, Rule.matches, Clause.matches, xorb, ha', ih]
    by_cases hp : (m &&& cfg.markPass == 0) = true
    · simp only [hp, if_true]
      cases hc : call c m with
      | returned m' => simp only; exact hret m'
      | verdict v mk => rfl
      | missing c' => rfl
      | outOfFuel => rfl
    · have hp' : (m &&& cfg.markPass == 0) = false := by simpa using hp
      simp only [hp', Bool.false_eq_true, if_false]
      exact hret m

/-- what happens at the end of a tier -/
def endOfTier (cfg : Cfg) (e : EpCfg) (t : Tier) (next : Mark → Result) (m : Mark) : Result :=
  if (e.chainType = .normal ∨ e.chainType = .forward) ∧ t.groups.any (·.hasNonStaged) = true ∧ ¬ t.defaultPass
      ∧ (m &&& cfg.markPass == 0) = true
  then .verdict (if cfg.reject then .reject else .drop) m
  else next m

/-- **One tier of the endpoint chain is exact** (any number of groups and policies, any chain
type, flow logs on or off): the pass bit is cleared, the policy / group chains are entered in
order while no policy has passed, an accept returns, and at the end a tier that holds an enforced
policy and whose default action is not Pass denies the packet unless a policy passed it —
otherwise evaluation continues with the next tier / the profiles (`rest`). A tier without
policies renders nothing. -/
theorem tier_rules_exact (cfg : Cfg) (e : EpCfg) (env : Env) (call : String → Mark → Result) (pkt : Packet)
    (t : Tier) (rest : List Netfilter.Rule) (m : Mark) :
    runRules env call pkt (tierRules cfg e t ++ rest) m =
      if t.groups.isEmpty then runRules env call pkt rest m
      else targetsSeq cfg call (endOfTier cfg e t (fun m' => runRules env call pkt rest m'))
        (tierTargets t) (m &&& ~~~ cfg.markPass) := by
  unfold tierRules
  by_cases hg : t.groups.isEmpty = true
  · simp [hg]
  · have hg' : t.groups.isEmpty = false := by simpa using hg
    simp only [hg', Bool.false_eq_true, if_false, List.append_assoc, List.cons_append, List.nil_append]
    rw [runRules]
    simp only [Rule.matches, List.all_nil, if_true, resolveAction, applyMark]
    rw [groups_flatMap_eq, targets_exact]
    congr 1
    funext m'
    unfold endOfTier
    by_cases hct : e.chainType = .normal ∨ e.chainType = .forward
    · cases hany : t.groups.any (fun g => g.hasNonStaged) <;> cases hdp : t.defaultPass <;>
        cases hf : cfg.flowLogs <;> cases hr : cfg.reject <;>
        by_cases hp : (m' &&& cfg.markPass == 0) = true <;>
        simp [hct, hp, runRules, Rule.matches, Clause.matches, xorb, resolveAction,
          applyMark, C08.denyAction, hr]
    · simp [hct]

/-- reference behaviour of the whole tier loop -/
def tiersSeq (cfg : Cfg) (e : EpCfg) (call : String → Mark → Result) (final : Mark → Result) :
    List Tier → Mark → Result
  | [], m => final m
  | t :: ts, m =>
    if t.groups.isEmpty then tiersSeq cfg e call final ts m
    else targetsSeq cfg call (endOfTier cfg e t (tiersSeq cfg e call final ts)) (tierTargets t)
      (m &&& ~~~ cfg.markPass)

/-- **The tier loop of the endpoint chain is exact for any number of tiers, groups and policies**:
tiers are evaluated in order; within a tier see `tier_rules_exact`; after the last tier the
profile section / end of chain (`rest`) follows. -/
theorem tiers_exact (cfg : Cfg) (e : EpCfg) (env : Env) (call : String → Mark → Result) (pkt : Packet)
    (tiers : List Tier) (rest : List Netfilter.Rule) (m : Mark) :
    runRules env call pkt (tiers.flatMap (tierRules cfg e) ++ rest) m =
      tiersSeq cfg e call (fun m' => runRules env call pkt rest m') tiers m := by
  induction tiers generalizing m with
  | nil => simp [tiersSeq]
  | cons t ts ih =>
    simp only [List.flatMap_cons, List.append_assoc, tiersSeq]
    rw [tier_rules_exact]
    have : (fun m' => runRules env call pkt (ts.flatMap (tierRules cfg e) ++ rest) m') =
        tiersSeq cfg e call (fun m' => runRules env call pkt rest m') ts := by
      funext m'; exact ih m'
    rw [this]
    split
    · exact ih m
    · rfl

/-- non-vacuity: a 7-policy group (two staged) crosses the return stride -/
example : (groupRulesFrom {} 0 ((List.range 7).map fun i => { chain := s!"p{i}", staged := i = 2 ∨ i = 3 })).length = 5 := by
  decide
example : (0 : Mark) &&& (({} : Cfg).markPass ||| ({} : Cfg).markAccept) = 0 := by decide

end CalicoVerif.C09
