import CalicoVerif.Proofs.C09
/-!
C09 — Endpoint verdicts follow tier, pass, staged and profile semantics.

Property theorems (proofs and intermediate lemmas: `CalicoVerif.Proofs.C09`):

* `endpoint_chain_verdict_partial` — END TO END: over a chain set holding the rendered workload endpoint
  chain, the policy-group chains, the policy chains and the profile chains, evaluation of the
  endpoint chain (every chain type: normal, forward, untracked, pre-DNAT) reaches exactly the
  reference verdict at policy level (RETURN with the accept bit = allow, DROP/REJECT = deny), for ANY number of tiers, groups (inline or with their own chain,
  any length, i.e. across the return stride), enforced and staged policies, profiles; flow logs
  on/off; both dataplanes.  C08's per-rule theorem enters as the hypothesis `RuleExact` per rule,
  discharged by `ruleExact_of_le2` for every rule with at most two positive match blocks.
* the pieces, each for all inputs: `policy_group_chain_exact` (stride 5, staged skipped),
  `tier_rules_exact` / `tiers_exact` (tier loop, end-of-tier drop vs default Pass),
  `profile_section_exact`, `policy_chain_shape` / `profile_chain_shape` (a policy / profile chain
  behaves like its first matching rule, incl. stripping of trailing RETURNs).

Explicit limits of the end-to-end statement (hypotheses): admin-up, a failsafe chain (if any) that
lets the packet through, a packet that is not ESTABLISHED/RELATED/INVALID and not hit by the encap drop
rules, entry mark with the drop bit clear, distinct chain names for group chains (`hn1`, `hn2`), and NO `pass` RULE IN A
PROFILE: the profile chains are entered with the pass bit possibly still set by the last tier and
the pass bit is never cleared between profiles, so a profile containing a pass rule is not rendered
exactly (see the report; C12 owns the profile-pass question).
-/
namespace CalicoVerif.C09
open CalicoVerif.Netfilter CalicoVerif.Policy CalicoVerif.C08

/-- **Rendered endpoint chain = reference verdict, every chain type** (`_partial`: the full
statement of the property is false of the code — `profile_pass_stale_false` — and this theorem
carries these hypotheses: admin-up (admin-down: `endpoint_admin_down_drops`), a failsafe chain — if
any — that lets the packet through, a packet outside the conntrack / encap preamble, the drop bit
clear on entry, profiles without pass rules, and every rule satisfying C08's per-rule exactness
`RuleExact`, which `ruleExact_of_le2` provides for every rule with at most two positive blocks).

Over a chain set holding the rendered endpoint chain, the policy-group chains of its non-inlined
groups, the policy chains of its enforced policies and its profile chains, for any number of tiers,
groups (any length), enforced / staged policies and profiles, with the outcomes taken at POLICY
level (`policyTiers`: each tier's enforced policies in evaluation order, `policyOutcome` = first
matching rule):
* normal chains (workload endpoints, host endpoints): RETURN with the accept bit iff
  `endpointVerdict` = allow, DROP/REJECT iff deny — tiers in order, first allow/deny decides, pass
  moves to the next tier, a tier holding an enforced policy that matches nothing denies unless its
  default action is Pass, staged policies never count, then the profiles, else deny;
* forward chains: no tiers ⇒ allowed; otherwise the tier verdict, undecided ⇒ returns to the caller
  with the accept bit clear;
* untracked / pre-DNAT chains: the tier verdict without end-of-tier drop; undecided ⇒ returns with
  the accept bit clear.

Chain names are inputs of the model (the real ones are hashes with distinct prefixes `cali-pi-` /
`cali-gi-` / `cali-pri-` …), so the statement needs name distinctness: `hn1` — a group chain name
identifies its group, `hn2` — a group chain name is neither the name of an inlined policy chain nor
of a profile chain.  (Policy and profile chain names may coincide: `polRules` then gives them the
same rules.)  There is no free "outcome function" any more: it is constructed in the proof
(`outOf`).  All hypotheses are satisfied TOGETHER by `joint_instance` below. -/
theorem endpoint_chain_verdict_partial (cfg : Cfg) (mo : MarksOK cfg) (vb : VBits cfg) (vd : VD cfg) (e : EpCfg)
    (env : Env) (pkt : Packet) (chains : List Chain) (name : String) (tiers : List Tier) (profiles : List String)
    (polRules : String → List Policy.Rule) (F : Nat) (m : Mark)
    (hup : e.adminUp = true)
    (hfs : e.failsafe ≠ "" → ∀ m', evalChain env chains pkt (F + 3) e.failsafe m' = .returned m')
    (hct : pkt.ctState ≠ "RELATED" ∧ pkt.ctState ≠ "ESTABLISHED" ∧ pkt.ctState ≠ "INVALID")
    (henc : (e.dropVXLAN = true → pkt.proto ≠ 17) ∧ (e.dropIPIP = true → pkt.proto ≠ 4))
    (hmD : m &&& cfg.markDrop = 0)
    (hep : lookupChain chains name = some (endpointChain cfg e name tiers profiles).rules)
    (hgrp : ∀ t ∈ tiers, ∀ g ∈ t.groups, g.inlined = false →
      lookupChain chains g.chain = some (policyGroupChain cfg g).rules)
    (hpol : ∀ t ∈ tiers, ∀ g ∈ t.groups, ∀ p ∈ g.pols, p.staged = false →
      PolicyChainOK cfg env pkt chains (polRules p.chain) p.chain)
    (hprof : ∀ p ∈ profiles, ProfileChainOK cfg env pkt chains (polRules p) p)
    (hn1 : ∀ t ∈ tiers, ∀ g ∈ t.groups, g.inlined = false → ∀ t' ∈ tiers, ∀ g' ∈ t'.groups, g'.inlined = false →
      g'.chain = g.chain → g' = g)
    (hn2 : ∀ t ∈ tiers, ∀ g ∈ t.groups, g.inlined = false →
      (∀ t' ∈ tiers, ∀ g' ∈ t'.groups, g'.inlined = true → ∀ p ∈ g'.nonStaged, p.chain ≠ g.chain) ∧
      (∀ p ∈ profiles, p ≠ g.chain)) :
    let r := evalChain env chains pkt (F + 4) name m
    match e.chainType with
    | .normal =>
      VShape cfg (endpointVerdict (policyTiers env pkt polRules tiers true)
        (profiles.map fun p => policyOutcome env pkt.v6 pkt (polRules p))) r
    | .forward =>
      if tiers.isEmpty then ∃ m', r = .returned m' ∧ m' &&& cfg.markAccept = cfg.markAccept
      else TShape cfg (tiersVerdict (policyTiers env pkt polRules tiers true)) (fun m' => .returned m') r
    | _ => TShape cfg (tiersVerdict (policyTiers env pkt polRules tiers false)) (fun m' => .returned m') r :=
  endpoint_chain_verdict_names cfg mo vb vd e env pkt chains name tiers profiles polRules F m hup hfs hct henc hmD
    hep hgrp hpol hprof hn1 hn2

/-- an admin-down endpoint drops (rejects) everything -/
theorem endpoint_admin_down_drops (cfg : Cfg) (e : EpCfg) (env : Env) (call : String → Mark → Result) (pkt : Packet)
    (name : String) (tiers : List Tier) (profiles : List String) (m : Mark) (hdown : e.adminUp = false) :
    runRules env call pkt (endpointChain cfg e name tiers profiles).rules m = .verdict (denyV cfg) m :=
  endpoint_admin_down cfg e env call pkt name tiers profiles m hdown

/-! ### the hypothesis "no pass rule in a profile" is necessary: a finding -/

def wPolRules : List Policy.Rule := [{ action := "pass", protocol := some (.name "udp") }]
def wProfRules : List Policy.Rule :=
  [{ action := "pass", protocol := some (.name "tcp") }, { action := "allow", protocol := some (.name "udp") }]
def wGroup : Group := { chain := "g", pols := [{ chain := "pol", staged := false }] }
def wTiers : List Tier := [{ name := "tier0", defaultPass := false, groups := [wGroup] }]
def wEnv9 : Env := { protoNum := fun s => if s == "udp" then some 17 else if s == "tcp" then some 6 else none }
def wUdp : Packet := { proto := 17 }

def wChains : List Chain :=
  [ { name := "ep", rules := (endpointChain {} {} "ep" wTiers ["prof"]).rules },
    { name := "pol", rules := (protoRulesToRules {} {} false wPolRules "c").getD [] },
    { name := "prof", rules := (protoRulesToRules {} { owner := 'R' } false wProfRules "c").getD [] } ]

/-- The tier passes the UDP packet, the profile's second rule allows it — the reference verdict is
allow — but the rendered chains DROP it: the pass bit (0x100) set by the tier makes the profile
chain return at its first (non-matching) pass rule. -/
theorem profile_pass_stale_false :
    endpointVerdict [([policyOutcome wEnv9 false wUdp wPolRules], false)] [policyOutcome wEnv9 false wUdp wProfRules]
      = .allow ∧
    evalChain wEnv9 wChains wUdp 4 "ep" 0 = .verdict .drop 0x100#32 := by
  constructor
  · decide
  · decide +kernel

/-! ### joint non-vacuity: one concrete layout satisfying ALL hypotheses of
`endpoint_chain_verdict_partial` at once

One tier with an inlined group `g1` (enforced `polA`, staged `polS`) and a group with its own chain
`g2` (enforced `polB`, staged `polS`, enforced `polC`), one profile `prof` without pass rules
(= `wChains` with the profile's pass rule removed, plus a non-inlined group); default marks;
a UDP packet. -/
def jEnv : Env :=
  { protoNum := fun s => if s == "udp" then some 17 else if s == "tcp" then some 6 else none
    netContains := fun c _ => c == "0.0.0.0/0" || c == "::/0" }
def jA : List Policy.Rule := [{ action := "pass", protocol := some (.name "tcp") }]
def jB : List Policy.Rule := [{ action := "deny", protocol := some (.name "tcp") }]
def jC : List Policy.Rule := [{ action := "pass", protocol := some (.name "udp") }]
def jProf : List Policy.Rule := [{ action := "allow", protocol := some (.name "udp") }]
def jPolRules (c : String) : List Policy.Rule :=
  if c == "polA" then jA else if c == "polB" then jB else if c == "polC" then jC else if c == "prof" then jProf else []
def jG1 : Group := { chain := "g1", pols := [{ chain := "polA", staged := false }, { chain := "polS", staged := true }] }
def jG2 : Group := { chain := "g2", pols := [{ chain := "polB", staged := false }, { chain := "polS", staged := true }, { chain := "polC", staged := false }] }
def jTiers : List Tier := [{ name := "tier0", defaultPass := false, groups := [jG1, jG2] }]
def jChains : List Chain :=
  [ { name := "ep", rules := (endpointChain {} {} "ep" jTiers ["prof"]).rules },
    policyGroupChain {} jG2,
    { name := "polA", rules := (protoRulesToRules {} {} false jA "c").getD [] },
    { name := "polB", rules := (protoRulesToRules {} {} false jB "c").getD [] },
    { name := "polC", rules := (protoRulesToRules {} {} false jC "c").getD [] },
    { name := "prof", rules := (protoRulesToRules {} { owner := 'R' } false jProf "c").getD [] } ]

theorem jEnv_catchAll : EnvCatchAll jEnv := fun _ => ⟨rfl, rfl⟩

theorem jPolRules_eq : jPolRules "polA" = jA ∧ jPolRules "polB" = jB ∧ jPolRules "polC" = jC ∧ jPolRules "prof" = jProf := by
  decide +kernel

theorem jRuleExact (a p : String) : RuleExact {} jEnv wUdp { action := a, protocol := some (.name p) } := by
  apply ruleExact_of_le2 {} jEnv wUdp _ (by constructor <;> decide) jEnv_catchAll (Or.inr (by intro t c h; cases h))
  intro rc h
  have : rc = { action := a, protocol := some (.name p) } := by
    simp [filterRuleToIPVersion, filterNets, wUdp] at h; exact h.symm
  subst this; simp [numPositive, splitPortList]

/-- every hypothesis of `endpoint_chain_verdict_partial` holds for the layout above, so its
conclusion does; the reference verdict there is `allow` (`joint_instance_verdict`). -/
theorem joint_instance :
    VShape {} (endpointVerdict (policyTiers jEnv wUdp jPolRules jTiers true)
      (["prof"].map fun p => policyOutcome jEnv wUdp.v6 wUdp (jPolRules p)))
      (evalChain jEnv jChains wUdp 4 "ep" 0) := by
  have h := endpoint_chain_verdict_partial {} (by constructor <;> decide) (by constructor <;> decide) (by constructor <;> decide) {}
    jEnv wUdp jChains "ep" jTiers ["prof"] jPolRules 0 0 rfl (fun h => absurd rfl h) (by decide) (by decide) (by decide)
    (by decide +kernel) ?hgrp ?hpol ?hprof ?hn1 ?hn2
  · exact h
  case hgrp =>
    intro t ht g hg hi
    simp only [jTiers, List.mem_singleton] at ht; subst ht
    simp only [List.mem_cons, List.not_mem_nil, or_false] at hg
    rcases hg with rfl | rfl
    · exact absurd hi (by decide)
    · decide +kernel
  case hpol =>
    intro t ht g hg p hp hs
    simp only [jTiers, List.mem_singleton] at ht; subst ht
    simp only [List.mem_cons, List.not_mem_nil, or_false] at hg
    rcases hg with rfl | rfl <;> simp only [jG1, jG2, List.mem_cons, List.not_mem_nil, or_false] at hp <;>
      rcases hp with rfl | rfl | rfl <;> first | exact absurd hs (by decide) | skip
    · refine ⟨{}, "c", (protoRulesToRules {} {} false jA "c").getD [], by decide +kernel, by decide +kernel, ?_, ?_⟩ <;>
        (simp only [jPolRules_eq.1, jA, List.mem_singleton]; intro r hr; subst hr)
      · exact jRuleExact _ _
      · decide
    · refine ⟨{}, "c", (protoRulesToRules {} {} false jB "c").getD [], by decide +kernel, by decide +kernel, ?_, ?_⟩ <;>
        (simp only [jPolRules_eq.2.1, jB, List.mem_singleton]; intro r hr; subst hr)
      · exact jRuleExact _ _
      · decide
    · refine ⟨{}, "c", (protoRulesToRules {} {} false jC "c").getD [], by decide +kernel, by decide +kernel, ?_, ?_⟩ <;>
        (simp only [jPolRules_eq.2.2.1, jC, List.mem_singleton]; intro r hr; subst hr)
      · exact jRuleExact _ _
      · decide
  case hprof =>
    intro p hp
    simp only [List.mem_singleton] at hp; subst hp
    refine ⟨{ owner := 'R' }, "c", (protoRulesToRules {} { owner := 'R' } false jProf "c").getD [], by decide +kernel, by decide +kernel, ?_, ?_⟩ <;>
      (simp only [jPolRules_eq.2.2.2, jProf, List.mem_singleton]; intro r hr; subst hr)
    · exact jRuleExact _ _
    · exact ⟨.allow, by decide, by decide⟩
  case hn1 =>
    intro t ht g hg hi t' ht' g' hg' hi' _
    simp only [jTiers, List.mem_singleton] at ht ht'; subst ht; subst ht'
    simp only [List.mem_cons, List.not_mem_nil, or_false] at hg hg'
    rcases hg with rfl | rfl <;> rcases hg' with rfl | rfl <;>
      first | rfl | exact absurd hi (by decide) | exact absurd hi' (by decide)
  case hn2 =>
    intro t ht g hg hi
    simp only [jTiers, List.mem_singleton] at ht; subst ht
    simp only [List.mem_cons, List.not_mem_nil, or_false] at hg
    rcases hg with rfl | rfl
    · exact absurd hi (by decide)
    · constructor
      · intro t' ht' g' hg' hi' p hp
        simp only [jTiers, List.mem_singleton] at ht'; subst ht'
        simp only [List.mem_cons, List.not_mem_nil, or_false] at hg'
        rcases hg' with rfl | rfl
        · have : p = { chain := "polA", staged := false } := by
            simpa [jG1, Group.nonStaged] using hp
          subst this; decide
        · exact absurd hi' (by decide)
      · intro p hp
        simp only [List.mem_singleton] at hp; subst hp; decide


/-- … and the instance is not degenerate: `polC` passes the packet to the profile, which allows it;
the rendered chains return with the accept bit (0x80) set. -/
theorem joint_instance_verdict :
    endpointVerdict (policyTiers jEnv wUdp jPolRules jTiers true)
      (["prof"].map fun p => policyOutcome jEnv wUdp.v6 wUdp (jPolRules p)) = .allow ∧
    evalChain jEnv jChains wUdp 4 "ep" 0 = .returned 0x180#32 := by
  constructor <;> decide +kernel

/-! non-vacuity of the single hypotheses -/
example : MarksOK {} := by constructor <;> decide
example : VBits {} := by constructor <;> decide
example : VD {} := by constructor <;> decide

/-- a two-tier layout with a 7-policy group crossing the return stride -/
example : (groupRulesFrom {} 0 ((List.range 7).map fun i => { chain := s!"p{i}", staged := i = 2 ∨ i = 3 })).length = 5 := by
  decide

/-- `RuleExact` is inhabited: every block-free rule satisfies it (here: allow tcp) -/
example (env : Env) (henv : EnvCatchAll env) (pkt : Packet) :
    RuleExact {} env pkt { action := "allow", protocol := some (.name "tcp") } := by
  apply ruleExact_of_le2 {} env pkt _ (by constructor <;> decide) henv (Or.inr (by intro t c h; cases h))
  intro rc h
  cases hv : pkt.v6 <;> rw [hv] at h <;>
    (have : rc = { action := "allow", protocol := some (.name "tcp") } := by
       simp [filterRuleToIPVersion, filterNets] at h; exact h.symm
     subst this; decide)

end CalicoVerif.C09
