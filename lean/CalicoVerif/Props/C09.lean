import CalicoVerif.Model.C09
/-!
C09 — Endpoint verdicts follow tier, pass, staged and profile semantics.

Proved here for all inputs: the policy-group chain (`PolicyGroupToIptablesChains`, return
stride 5, staged policies skipped) is exactly "run the enforced policies in order until one of
them sets the accept or pass bit or terminates the packet" — for groups of ANY length and any
behaviour of the policy chains.  The endpoint-chain tier loop, end-of-tier drop and profile
section are NOT proved in Lean; they are covered by the text-exact correspondence and by
evaluating the real rendered endpoint / group / policy / profile chains against the reference
verdict `endpointVerdict` (see the harness oracle `endpoint-verdict`).
-/
namespace CalicoVerif.C09
open CalicoVerif.Netfilter CalicoVerif.Policy CalicoVerif.C08

/-- reference behaviour of a policy group: enforced policies in order, stop at the first verdict -/
def seqEval (cfg : Cfg) (call : String → Mark → Result) : List Pol → Mark → Result
  | [], m => .returned m
  | p :: ps, m =>
    if p.staged then seqEval cfg call ps m
    else if m &&& (cfg.markPass ||| cfg.markAccept) ≠ 0 then .returned m
    else match call p.chain m with
      | .returned m' => seqEval cfg call ps m'
      | other => other

theorem seqEval_of_verdict (cfg : Cfg) (call : String → Mark → Result) (ps : List Pol) (m : Mark)
    (h : m &&& (cfg.markPass ||| cfg.markAccept) ≠ 0) : seqEval cfg call ps m = .returned m := by
  induction ps with
  | nil => rfl
  | cons p ps ih =>
    simp only [seqEval]
    split
    · exact ih
    · simp [h]

theorem groupRulesFrom_exact (cfg : Cfg) (env : Env) (call : String → Mark → Result) (pkt : Packet)
    (ps : List Pol) (k : Nat) (m : Mark)
    (h0 : k = 0 → m &&& (cfg.markPass ||| cfg.markAccept) = 0) :
    runRules env call pkt (groupRulesFrom cfg k ps) m = seqEval cfg call ps m := by
  induction ps generalizing k m with
  | nil => simp [groupRulesFrom, runRules, seqEval]
  | cons p ps ih =>
    simp only [groupRulesFrom, seqEval]
    by_cases hs : p.staged = true
    · simp only [hs, if_true]; exact ih k m h0
    · simp only [hs, Bool.false_eq_true, if_false]
      by_cases hm : m &&& (cfg.markPass ||| cfg.markAccept) = 0
      · -- no verdict yet: the return rule (if any) is skipped, the jump is taken
        have hbeq : (m &&& (cfg.markPass ||| cfg.markAccept) == 0) = true := by simp [hm]
        have hjump : runRules env call pkt (groupJump cfg k p.chain :: groupRulesFrom cfg (k + 1) ps) m =
            (match call p.chain m with
              | .returned m' => seqEval cfg call ps m'
              | other => other) := by
          have hmatch : (groupJump cfg k p.chain).matches env pkt m = true := by
            unfold groupJump Rule.matches
            split <;> simp [Clause.matches, xorb, hbeq]
          have hact : (groupJump cfg k p.chain).action = .jump p.chain := rfl
          rw [runRules, if_pos hmatch, hact]
          simp only [resolveAction]
          cases hc : call p.chain m with
          | returned m' => simp only; exact ih (k + 1) m' (by omega)
          | verdict v mk => rfl
          | missing c => rfl
          | outOfFuel => rfl
        simp only [hm, ne_eq, not_true_eq_false, if_false]
        by_cases hk : k ≠ 0 ∧ k % 5 = 0
        · simp only [hk, and_self, if_true, List.cons_append, List.nil_append, ne_eq, not_false_eq_true]
          rw [runRules]
          have : (returnOnVerdict cfg).matches env pkt m = false := by
            simp [returnOnVerdict, Rule.matches, Clause.matches, xorb, hbeq]
          rw [if_neg (by simp [this])]
          exact hjump
        · simp only [hk, if_false, List.nil_append, List.cons_append]
          exact hjump
      · -- a verdict bit is already set: nothing more is evaluated
        have hk0 : k ≠ 0 := fun hk => hm (h0 hk)
        have hbeq : (m &&& (cfg.markPass ||| cfg.markAccept) == 0) = false := by simp [hm]
        simp only [hm, ne_eq, not_false_eq_true, if_true]
        by_cases hk : k % 5 = 0
        · simp only [hk0, hk, ne_eq, not_false_eq_true, and_self, if_true, List.cons_append, List.nil_append]
          rw [runRules]
          have : (returnOnVerdict cfg).matches env pkt m = true := by
            simp [returnOnVerdict, Rule.matches, Clause.matches, xorb, hbeq]
          rw [if_pos this]
          simp [returnOnVerdict, resolveAction]
        · simp only [hk, and_false, if_false, List.nil_append, List.cons_append]
          rw [runRules]
          have : (groupJump cfg k p.chain).matches env pkt m = false := by
            simp [groupJump, hk, Rule.matches, Clause.matches, xorb, hbeq]
          rw [if_neg (by simp [this])]
          rw [ih (k + 1) m (by omega)]
          exact seqEval_of_verdict cfg call ps m hm

/-- **The policy-group chain is exact for groups of any length**: entered with the accept and pass
bits clear (as the endpoint chain guarantees), it runs the enforced policies in order and stops
at the first one that sets a verdict bit or terminates the packet; staged policies never run. -/
theorem policy_group_chain_exact (cfg : Cfg) (env : Env) (call : String → Mark → Result) (pkt : Packet)
    (g : Group) (m : Mark) (h0 : m &&& (cfg.markPass ||| cfg.markAccept) = 0) :
    runRules env call pkt (policyGroupChain cfg g).rules m = seqEval cfg call g.pols m :=
  groupRulesFrom_exact cfg env call pkt g.pols 0 m (fun _ => h0)

/-- staged policies never influence the group's result -/
theorem seqEval_ignores_staged (cfg : Cfg) (call : String → Mark → Result) (ps : List Pol) (m : Mark) :
    seqEval cfg call ps m = seqEval cfg call (ps.filter (!·.staged)) m := by
  induction ps generalizing m with
  | nil => rfl
  | cons p ps ih =>
    by_cases hs : p.staged = true
    · simp [seqEval, hs, ih]
    · have hs' : p.staged = false := by simpa using hs
      simp only [seqEval, hs', Bool.false_eq_true, if_false, List.filter_cons, Bool.not_false, if_true]
      split
      · rfl
      · cases call p.chain m <;> simp [ih]

/-- non-vacuity: a 7-policy group (two staged) crosses the return stride -/
example : (groupRulesFrom {} 0 ((List.range 7).map fun i => { chain := s!"p{i}", staged := i = 2 ∨ i = 3 })).length = 5 := by
  decide
example : (0 : Mark) &&& (({} : Cfg).markPass ||| ({} : Cfg).markAccept) = 0 := by decide

end CalicoVerif.C09
