import CalicoVerif.Proofs.C31
/-!
C31 — Per-workload policy sync streams are complete, minimal and ordered.
Property theorems only.  Definitions of the statement: `Proofs/C31Spec.lean`
(`View`/`applyMsg` = the policy-sync client, `Complete`, `monitor`), model:
`Model/C31.lean`; helper lemmas: `Proofs/C31Base`, `C31Chan`, `C31`.

Status.  Proved for ALL histories (no contract needed): `nothing_after_close`
(the "sends nothing to a workload after it leaves" clause, plus: a closed channel
is never closed twice).  Proved for every state satisfying the channel
discipline (which `reachable_chan` shows every reachable state does):
`sync_burst_complete_partial` and `join_snapshot_complete_partial` — whenever the
Processor runs `maybeSyncEndpoint` (endpoint update, join) the client of that
stream afterwards holds EXACTLY the endpoint, the latest versions of exactly the
policies/profiles/IP sets it needs, and (on join) every service account and
namespace and the in-sync flag.  NOT proved in Lean (checked on the real code by
the harness oracle on every generated history instead): that the incremental
handlers (policy/profile/IP-set updates and deltas, service-account/namespace
broadcasts) preserve `Complete` along a whole history, and the
`never references something not yet sent` ordering clause.
-/
namespace CalicoVerif.C31

/-! ### nothing is sent after a channel is closed -/

theorem chanInv_init : ChanInv Proc.init [] :=
  ⟨by simp [Proc.init, AMap.NodupKeys], by simp [Proc.init, chans], by simp [Proc.init, chans], by simp⟩

theorem run_chan {p p' : Proc} {cl : List Nat} {ops : List Op} {evs : List Ev} (h : ChanInv p cl)
    (hr : run p ops = some (p', evs)) : ∃ cl', monitor cl evs = some cl' ∧ ChanInv p' cl' := by
  induction ops generalizing p cl evs with
  | nil => simp only [run, Option.some.injEq, Prod.mk.injEq] at hr; obtain ⟨rfl, rfl⟩ := hr; exact ⟨cl, rfl, h⟩
  | cons op ops ih =>
    simp only [run] at hr
    cases hs : step p op with
    | none => simp only [hs] at hr; cases hr
    | some r =>
      obtain ⟨p1, evs1⟩ := r
      simp only [hs] at hr
      cases hr2 : run p1 ops with
      | none => simp only [hr2] at hr; cases hr
      | some r2 =>
        obtain ⟨p2, evs2⟩ := r2
        simp only [hr2, Option.some.injEq, Prod.mk.injEq] at hr
        obtain ⟨rfl, rfl⟩ := hr
        obtain ⟨cl1, m1, i1⟩ := step_chan h hs
        obtain ⟨cl2, m2, i2⟩ := ih i1 hr2
        exact ⟨cl2, by rw [monitor_append, m1]; exact m2, i2⟩

/-- Every reachable state satisfies the channel discipline: endpoints have
distinct keys, live output channels are pairwise distinct, were handed out by
a join, and none of them has been closed. -/
theorem reachable_chan (ops : List Op) (p : Proc) (evs : List Ev) (h : run Proc.init ops = some (p, evs)) :
    ∃ closed, monitor [] evs = some closed ∧ ChanInv p closed :=
  run_chan chanInv_init h

theorem monitor_spec {cl cl' : List Nat} {evs : List Ev} (h : monitor cl evs = some cl') :
    (∀ e ∈ evs, e.1 ∉ cl) ∧ (∀ c ∈ cl, c ∈ cl') := by
  induction evs generalizing cl with
  | nil => simp only [monitor, Option.some.injEq] at h; subst h; simp
  | cons e evs ih =>
    obtain ⟨c, m⟩ := e
    simp only [monitor, List.contains_iff_mem] at h
    by_cases hc : c ∈ cl
    · simp only [hc, if_true] at h; cases h
    · simp only [hc, if_false] at h
      cases m with
      | some m =>
        obtain ⟨a, b⟩ := ih h
        exact ⟨fun e he => by
          rcases List.mem_cons.1 he with rfl | he
          · exact hc
          · exact a e he, b⟩
      | none =>
        obtain ⟨a, b⟩ := ih h
        exact ⟨fun e he => by
          rcases List.mem_cons.1 he with rfl | he
          · exact hc
          · exact fun h' => a e he (List.mem_cons_of_mem _ h'), fun c' hc' => b c' (List.mem_cons_of_mem _ hc')⟩

/-- **silent after leave.**  For every history of dataplane updates, joins and
leaves on which the Processor does not panic: once a channel has been closed
(matching leave, re-join of the same workload, endpoint removal) NOTHING more
happens on it — no message is sent and it is not closed again (either would be a
Go panic). -/
theorem nothing_after_close (ops : List Op) (p : Proc) (evs : List Ev) (h : run Proc.init ops = some (p, evs))
    (a b : List Ev) (c : Nat) (hsplit : evs = a ++ (c, none) :: b) : ∀ e ∈ b, e.1 ≠ c := by
  obtain ⟨cl, hm, _⟩ := reachable_chan ops p evs h
  rw [hsplit, monitor_append] at hm
  cases h1 : monitor [] a with
  | none => simp [h1] at hm
  | some cl1 =>
    simp only [h1, Option.bind_some, monitor, List.contains_iff_mem] at hm
    by_cases hc : c ∈ cl1
    · simp only [hc, if_true] at hm; cases hm
    · simp only [hc, if_false] at hm
      intro e he heq
      exact (monitor_spec hm).1 e he (by rw [heq]; simp)

/-- A matching leave closes the workload's channel and the Processor forgets it. -/
theorem leave_closes {p p' : Proc} {w uid c : Nat} {ei : EpInfo} {evs : List Ev}
    (hg : p.eps.get w = some ei) (hu : ei.joinUID = uid) (ho : ei.output = some c)
    (h : step p (.leave w uid) = some (p', evs)) :
    evs = [(c, none)] ∧ ∀ ei', p'.eps.get w = some ei' → ei'.output = none := by
  simp only [step, handleLeave, hg] at h
  have : (ei.joinUID != uid) = false := by simp [hu]
  simp only [this, ho, Option.some.injEq, Prod.mk.injEq] at h
  obtain ⟨rfl, rfl⟩ := h
  refine ⟨rfl, fun ei' hg' => ?_⟩
  by_cases hcd : cleanupCond { ei with output := none, joinUID := 0 } = true
  · simp only [hcd, if_true, AMap.get_del_eq] at hg'; cases hg'
  · simp only [hcd, Bool.false_eq_true, if_false] at hg'
    change (p.eps.set w _).get w = some ei' at hg'
    rw [AMap.get_set_eq] at hg'
    cases hg'; rfl

/-! ### completeness of a sync burst (endpoint update, join) -/

/-- **complete + minimal, one `maybeSyncEndpoint` burst** (`_partial`: one
handler, not the whole history).  If the client of endpoint `w`'s stream agrees
with the Processor's synced sets (`Core`: what every handler maintains), then
after `maybeSyncEndpoint` has run for it the client holds EXACTLY: its own
endpoint, the Processor's latest version of exactly the policies and profiles
the endpoint lists, and the latest members of exactly the IP sets those name —
nothing else. -/
theorem sync_burst_complete_partial {p : Proc} {w c : Nat} {ei ei' : EpInfo} {e : Endpoint} {ms : List Msg} {v : View}
    (hcore : Core p ei v) (hex : ∀ x, x ∈ ei.syncedIP → (p.ipsets.get x).isSome)
    (he : ei.ep = some e) (ho : ei.output = some c)
    (hsa : ∀ id, v.sas id = p.sas.get id) (hns : ∀ id, v.nss id = p.nss.get id) (hsy : v.inSync = p.inSync)
    (h : maybeSync p w ei = some (ei', ms)) :
    Complete p w (some e) (applyMsgs v ms) := by
  obtain ⟨c1, x1, ep1, sa1, ns1, sy1, ex1⟩ := maybeSync_core hcore he ho h
  have hep := (maybeSync_output h).2.1
  have := complete_of (w := w) c1 x1 (by rw [ep1, hep, he]; rfl) (by rw [sa1]; exact hsa) (by rw [ns1]; exact hns)
    (by rw [sy1]; exact hsy) (fun x hx => by
      by_cases hxo : x ∈ ei.syncedIP
      · exact hex x hxo
      · exact ex1 x hx hxo)
  rw [hep, he] at this
  exact this

/-- **complete + minimal, join** (`_partial`: the snapshot a join sends, not the
whole history).  In every state satisfying the channel discipline (every
reachable state does: `reachable_chan`) whose service-account and namespace
stores have distinct keys, a join that does not panic gives the workload a FRESH
channel on which — applied in order — the client ends up holding exactly its
endpoint (if the Processor knows it), the latest versions of exactly the
policies, profiles and IP sets it needs, every service account and namespace,
and the in-sync flag; the old channel's events are not on the new channel. -/
theorem join_snapshot_complete_partial {p p' : Proc} {w uid : Nat} {evs : List Ev}
    (hsa : p.sas.NodupKeys) (hns : p.nss.NodupKeys)
    (h : step p (.join w uid) = some (p', evs)) :
    ∃ ei', p'.eps.get w = some ei' ∧ ei'.output = some p.nextCh ∧
      Complete p' w ei'.ep (applyMsgs View.empty (msgsOf evs p.nextCh)) := by
  simp only [step, handleJoin] at h
  cases hm : maybeSync p w { joinOld p w with joinUID := uid, output := some p.nextCh, syncedPol := [], syncedProf := [], syncedIP := [] } with
  | none => simp only [hm] at h; cases h
  | some r =>
    obtain ⟨ei', ms⟩ := r
    simp only [hm, Option.some.injEq, Prod.mk.injEq] at h
    obtain ⟨rfl, rfl⟩ := h
    have hout := maybeSync_output hm
    refine ⟨ei', AMap.get_set_eq _ _ _, hout.1, ?_⟩
    rw [msgsOf_append, msgsOf_closeEv, msgsOf_tag, List.nil_append]
    simp only [applyMsgs_append]
    -- the burst of maybeSync from the empty client
    have hcore0 : Core p { joinOld p w with joinUID := uid, output := some p.nextCh, syncedPol := [], syncedProf := [], syncedIP := [] } View.empty :=
      ⟨fun id => by simp [View.empty], fun id => by simp [View.empty], fun x => by simp [View.empty]⟩
    have hburst : Core p ei' (applyMsgs View.empty ms) ∧ Exact p ei' ∧
        (applyMsgs View.empty ms).ep = ei'.ep.map (fun e => (w, e)) ∧ (applyMsgs View.empty ms).sas = View.empty.sas ∧
        (applyMsgs View.empty ms).nss = View.empty.nss ∧ (applyMsgs View.empty ms).inSync = false ∧
        (∀ x, x ∈ ei'.syncedIP → (p.ipsets.get x).isSome) := by
      cases hep : (joinOld p w).ep with
      | none =>
        have : maybeSync p w { joinOld p w with joinUID := uid, output := some p.nextCh, syncedPol := [], syncedProf := [], syncedIP := [] }
            = some ({ joinOld p w with joinUID := uid, output := some p.nextCh, syncedPol := [], syncedProf := [], syncedIP := [] }, []) := by
          unfold maybeSync; simp only [hep]
        rw [this] at hm
        simp only [Option.some.injEq, Prod.mk.injEq] at hm
        obtain ⟨rfl, rfl⟩ := hm
        refine ⟨hcore0, ⟨fun id => by simp [hep, epPols], fun id => by simp [hep, epProfs], fun x => ?_⟩, by simp [applyMsgs, View.empty, hep],
          rfl, rfl, rfl, fun x hx => by simp at hx⟩
        simp only [List.not_mem_nil, false_iff, hep, neededIP, epProfs, epPols]
        rintro (⟨_, h1, _⟩ | ⟨_, h1, _⟩) <;> simp at h1
      | some e =>
        obtain ⟨c1, x1, ep1, sa1, ns1, sy1, ex1⟩ := maybeSync_core (c := p.nextCh) hcore0 hep rfl hm
        refine ⟨c1, x1, by rw [ep1, hout.2.1]; simp [hep], sa1, ns1, sy1, fun x hx => ex1 x hx (by simp)⟩
    obtain ⟨c1, x1, ep1, sa1, ns1, sy1, ex1⟩ := hburst
    generalize applyMsgs View.empty ms = v1 at *
    obtain ⟨kS, vS⟩ := saUpd_view p.sas hsa v1
    have fS := frame_kind kS v1
    generalize applyMsgs v1 (p.sas.map (fun kv => Msg.saUpd kv.1 kv.2)) = v2 at *
    obtain ⟨kN, vN⟩ := nsUpd_view p.nss hns v2
    have fN := frame_kind kN v2
    generalize applyMsgs v2 (p.nss.map (fun kv => Msg.nsUpd kv.1 kv.2)) = v3 at *
    have kY : ∀ m ∈ (if p.inSync then [Msg.inSync] else []), m.kind = .sync := by
      intro m hm'; by_cases hs : p.inSync = true <;> simp [hs] at hm'; subst hm'; rfl
    have fY := frame_kind kY v3
    have hcore3 : Core p ei' (applyMsgs v3 (if p.inSync then [Msg.inSync] else [])) :=
      ⟨fun id => by rw [fY.2.1 (by decide), fN.2.1 (by decide), fS.2.1 (by decide)]; exact c1.pols id,
       fun id => by rw [fY.2.2.1 (by decide), fN.2.2.1 (by decide), fS.2.2.1 (by decide)]; exact c1.profs id,
       fun x => by rw [fY.2.2.2.1 (by decide), fN.2.2.2.1 (by decide), fS.2.2.2.1 (by decide)]; exact c1.ipsets x⟩
    refine complete_of (p := { p with eps := p.eps.set w ei', nextCh := p.nextCh + 1 }) ⟨hcore3.pols, hcore3.profs, hcore3.ipsets⟩
      ⟨x1.pols, x1.profs, x1.ipsets⟩ ?_ (fun id => ?_) (fun id => ?_) ?_ ex1
    · rw [fY.1 (by decide), fN.1 (by decide), fS.1 (by decide)]; exact ep1
    · show _ = p.sas.get id
      rw [fY.2.2.2.2.1 (by decide), fN.2.2.2.2.1 (by decide), vS id, sa1]
      cases p.sas.get id <;> rfl
    · show _ = p.nss.get id
      rw [fY.2.2.2.2.2.1 (by decide), vN id, fS.2.2.2.2.2.1 (by decide), ns1]
      cases p.nss.get id <;> rfl
    · show _ = p.inSync
      by_cases hs : p.inSync = true
      · simp [hs, applyMsgs, applyMsg]
      · simp only [Bool.not_eq_true] at hs
        rw [hs]
        simp only [Bool.false_eq_true, if_false, applyMsgs, List.foldl_nil]
        rw [fN.2.2.2.2.2.2 (by decide), fS.2.2.2.2.2.2 (by decide), sy1]

/-! ### non-vacuity -/

/-- a policy naming IP set 0 through two different rule fields, an endpoint using it, a join, then a matching leave -/
def demoOps : List Op :=
  [.ipset 0 [1, 2], .pol 1 ⟨[⟨5, [(0, 0), (8, 0)]⟩], []⟩, .ep 0 ⟨1, [⟨0, [1], [1]⟩], []⟩, .sa 1 3, .join 0 1, .leave 0 1]

example : (run Proc.init demoOps).map (·.2) = some
    [(0, some (Msg.ipUpd 0 [1, 2])), (0, some (Msg.polUpd 1 ⟨[⟨5, [(0, 0), (8, 0)]⟩], []⟩)),
      (0, some (Msg.epUpd 0 ⟨1, [⟨0, [1], [1]⟩], []⟩)), (0, some (Msg.saUpd 1 3)), (0, none)] := by
  decide +kernel

/-- `nothing_after_close` is not vacuous: the demo history is panic-free and closes channel 0. -/
example : (run Proc.init demoOps).isSome = true := by decide +kernel

/-- hypotheses of `join_snapshot_complete_partial` hold in a non-trivial reachable state -/
example : (((run Proc.init (demoOps.take 4)).map (·.1)).getD Proc.init).sas = [(1, 3)] := by decide +kernel
example : ((run Proc.init (demoOps.take 4)).bind (fun r => step r.1 (.join 0 1))).isSome = true := by decide +kernel

/-- the model panics exactly where the Go code does: a leave with UID 0 for a known, never-joined endpoint is `close(nil)`. -/
example : run Proc.init [.ep 0 ⟨1, [], []⟩, .leave 0 0] = none := by decide +kernel

end CalicoVerif.C31
