import CalicoVerif.Proofs.C31Total
/-!
C31 — Per-workload policy sync streams are complete, minimal and ordered.
Property theorems only.  Definitions of the statement: `Proofs/C31Spec.lean`
(`View`/`applyMsg` = the policy-sync client, `Complete`, `Closed`, `Pre`/`Valid` = the calculation
graph's contract, `monitor`); model: `Model/C31.lean`; lemmas: `Proofs/C31Base`, `C31Chan`, `C31`,
`C31Lift`, `C31Handlers`, `C31Hist`, `C31Step`, `C31Closed`, `C31ClosedStep`.

All four clauses of the property are proved over WHOLE histories:
* `stream_complete` — complete + minimal: for every contract-respecting history, every joined workload's
  stream applied in order yields exactly its endpoint and the latest versions of exactly what it needs.
* `stream_closed` — ordered: after EVERY prefix of EVERY stream the client is referentially closed (it never
  holds an endpoint naming a policy/profile, or a policy/profile naming an IP set, that is not there).
* `nothing_after_close`, `leave_closes` — nothing is sent to a workload after it leaves (no contract needed).
All three are stated over `Respects` histories (the contract `Pre` holds before every step); `contract_no_panic`
proves that such a history never makes the Processor panic.  Outside `Pre` the real code panics exactly where the
model returns `none` (checked by correspondence).
-/
namespace CalicoVerif.C31

/-! ### nothing is sent after a channel is closed -/

theorem chanInv_init : ChanInv Proc.init [] :=
  ⟨by simp [Proc.init, AMap.NodupKeys], by simp [Proc.init, chans], by simp [Proc.init, chans], by simp⟩

theorem run_chan {p p' : Proc} {cl : List Nat} {ops : List Op} {evs : List Ev} (h : ChanInv p cl)
    (hr : run p ops = some (p', evs)) : ∃ cl', monitor cl evs = some cl' ∧ ChanInv p' cl' := by
  induction ops generalizing p cl evs with
  | nil => simp only [run, Option.some.injEq, Prod.mk.injEq] at hr; obtain ⟨rfl, rfl⟩ := hr; exact ⟨cl, rfl, h⟩
  | cons op ops ih =>
    simp only [run] at hr
    cases hs : step p op with
    | none => simp only [hs] at hr; cases hr
    | some r =>
      obtain ⟨p1, evs1⟩ := r
      simp only [hs] at hr
      cases hr2 : run p1 ops with
      | none => simp only [hr2] at hr; cases hr
      | some r2 =>
        obtain ⟨p2, evs2⟩ := r2
        simp only [hr2, Option.some.injEq, Prod.mk.injEq] at hr
        obtain ⟨rfl, rfl⟩ := hr
        obtain ⟨cl1, m1, i1⟩ := step_chan h hs
        obtain ⟨cl2, m2, i2⟩ := ih i1 hr2
        exact ⟨cl2, by rw [monitor_append, m1]; exact m2, i2⟩

/-- Every reachable state satisfies the channel discipline: endpoints have
distinct keys, live output channels are pairwise distinct, were handed out by
a join, and none of them has been closed. -/
theorem reachable_chan (ops : List Op) (p : Proc) (evs : List Ev) (h : run Proc.init ops = some (p, evs)) :
    ∃ closed, monitor [] evs = some closed ∧ ChanInv p closed :=
  run_chan chanInv_init h

theorem monitor_spec {cl cl' : List Nat} {evs : List Ev} (h : monitor cl evs = some cl') :
    (∀ e ∈ evs, e.1 ∉ cl) ∧ (∀ c ∈ cl, c ∈ cl') := by
  induction evs generalizing cl with
  | nil => simp only [monitor, Option.some.injEq] at h; subst h; simp
  | cons e evs ih =>
    obtain ⟨c, m⟩ := e
    simp only [monitor, List.contains_iff_mem] at h
    by_cases hc : c ∈ cl
    · simp only [hc, if_true] at h; cases h
    · simp only [hc, if_false] at h
      cases m with
      | some m =>
        obtain ⟨a, b⟩ := ih h
        exact ⟨fun e he => by
          rcases List.mem_cons.1 he with rfl | he
          · exact hc
          · exact a e he, b⟩
      | none =>
        obtain ⟨a, b⟩ := ih h
        exact ⟨fun e he => by
          rcases List.mem_cons.1 he with rfl | he
          · exact hc
          · exact fun h' => a e he (List.mem_cons_of_mem _ h'), fun c' hc' => b c' (List.mem_cons_of_mem _ hc')⟩

/-- **silent after leave.**  For every history of dataplane updates, joins and
leaves on which the Processor does not panic: once a channel has been closed
(matching leave, re-join of the same workload, endpoint removal) NOTHING more
happens on it — no message is sent and it is not closed again (either would be a
Go panic). -/
theorem nothing_after_close (ops : List Op) (p : Proc) (evs : List Ev) (h : run Proc.init ops = some (p, evs))
    (a b : List Ev) (c : Nat) (hsplit : evs = a ++ (c, none) :: b) : ∀ e ∈ b, e.1 ≠ c := by
  obtain ⟨cl, hm, _⟩ := reachable_chan ops p evs h
  rw [hsplit, monitor_append] at hm
  cases h1 : monitor [] a with
  | none => simp [h1] at hm
  | some cl1 =>
    simp only [h1, Option.bind_some, monitor, List.contains_iff_mem] at hm
    by_cases hc : c ∈ cl1
    · simp only [hc, if_true] at hm; cases hm
    · simp only [hc, if_false] at hm
      intro e he heq
      exact (monitor_spec hm).1 e he (by rw [heq]; simp)

/-- A matching leave closes the workload's channel and the Processor forgets it. -/
theorem leave_closes {p p' : Proc} {w uid c : Nat} {ei : EpInfo} {evs : List Ev}
    (hg : p.eps.get w = some ei) (hu : ei.joinUID = uid) (ho : ei.output = some c)
    (h : step p (.leave w uid) = some (p', evs)) :
    evs = [(c, none)] ∧ ∀ ei', p'.eps.get w = some ei' → ei'.output = none := by
  simp only [step, handleLeave, hg] at h
  have : (ei.joinUID != uid) = false := by simp [hu]
  simp only [this, ho, Option.some.injEq, Prod.mk.injEq] at h
  obtain ⟨rfl, rfl⟩ := h
  refine ⟨rfl, fun ei' hg' => ?_⟩
  by_cases hcd : cleanupCond { ei with output := none, joinUID := 0 } = true
  · simp only [hcd, if_true, AMap.get_del_eq] at hg'; cases hg'
  · simp only [hcd, Bool.false_eq_true, if_false] at hg'
    change (p.eps.set w _).get w = some ei' at hg'
    rw [AMap.get_set_eq] at hg'
    cases hg'; rfl

/-! ### complete and minimal, over whole histories -/

/-- **stream_complete (+ minimal).**  For EVERY history of dataplane updates, joins and leaves that respects
the calculation graph's contract (`Valid`: `Pre` holds at every step and the Processor does not panic), and
for every workload that is joined at the end: its stream — ALL the messages ever sent on its channel,
applied in order by the client — yields EXACTLY its own endpoint (if the Processor knows it), the latest
versions of exactly the policies and profiles that endpoint lists, the latest members of exactly the IP sets
those name, every service account and namespace in its latest version, and the in-sync flag; nothing else. -/
theorem stream_complete_of_valid (ops : List Op) (p : Proc) (evs : List Ev) (h : Valid Proc.init ops p evs)
    (w c : Nat) (ei : EpInfo) (hg : p.eps.get w = some ei) (ho : ei.output = some c) :
    Complete p w ei.ep (viewOf evs c) := by
  have hi : Inv p evs := by simpa using valid_inv inv_init h
  have hok := hi.streams (w, ei) (AMap.mem_of_get hg) c ho
  exact complete_of hok.core hok.exact hok.ep hok.sas hok.nss hok.inSync
    (fun x hx => needed_isSome hi.good.polRefs hi.good.profRefs ((hok.exact.ipsets x).1 hx))

/-- the contract is kept by the stores along every such history (what `Pre` at each step buys) -/
theorem stores_respect_contract (ops : List Op) (p : Proc) (evs : List Ev) (h : Valid Proc.init ops p evs) : Good p := by
  have hi : Inv p evs := by simpa using valid_inv inv_init h
  exact hi.good

/-- **stream_closed ("never references something not yet sent").**  For every contract-respecting history,
every channel `c` (joined, left or replaced) and every `k`: after the first `k` messages ever sent on `c`, the
client is referentially closed — its endpoint's policies and profiles are present and so is every IP set a
present policy or profile names.  So IP sets arrive before the policies that name them, policies before the
endpoint that lists them, and removals only after nothing present refers to what is removed. -/
theorem stream_closed_of_valid (ops : List Op) (p : Proc) (evs : List Ev) (h : Valid Proc.init ops p evs) (c k : Nat) :
    Closed (applyMsgs View.empty ((msgsOf evs c).take k)) := by
  have hca : ClosedAll evs := by simpa using valid_closedAll inv_init closedAll_nil h
  exact closedAlong_take (hca c) k

/-! ### over every history that respects the calculation graph's contract -/

/-- **contract_no_panic.**  A history that respects the contract (`Respects`: `Pre` holds before every step,
whatever states the earlier steps led to) never makes the Processor panic: the whole history runs. -/
theorem contract_no_panic (ops : List Op) (h : Respects Proc.init ops) :
    ∃ p evs, run Proc.init ops = some (p, evs) ∧ Valid Proc.init ops p evs := by
  obtain ⟨p, evs, hv⟩ := respects_valid inv_init (fun kv hkv => by simp [Proc.init] at hkv) h
  exact ⟨p, evs, valid_run hv, hv⟩

/-- **stream_complete (+ minimal), full statement.**  For every history of dataplane updates, joins and leaves
that respects the calculation graph's contract, the Processor runs it to a state `p` with events `evs`, and every
workload joined at the end holds — after applying ALL messages ever sent on its channel, in order — exactly its
own endpoint, the latest versions of exactly the policies/profiles it lists and of exactly the IP sets those
name, every service account and namespace, and the in-sync flag. -/
theorem stream_complete (ops : List Op) (h : Respects Proc.init ops) :
    ∃ p evs, run Proc.init ops = some (p, evs) ∧
      ∀ w c ei, p.eps.get w = some ei → ei.output = some c → Complete p w ei.ep (viewOf evs c) := by
  obtain ⟨p, evs, hr, hv⟩ := contract_no_panic ops h
  exact ⟨p, evs, hr, fun w c ei hg ho => stream_complete_of_valid ops p evs hv w c ei hg ho⟩

/-- **stream_closed, full statement.**  For every contract-respecting history, every channel and every prefix
of its stream, the client is referentially closed after that prefix. -/
theorem stream_closed (ops : List Op) (h : Respects Proc.init ops) :
    ∃ p evs, run Proc.init ops = some (p, evs) ∧
      ∀ c k, Closed (applyMsgs View.empty ((msgsOf evs c).take k)) := by
  obtain ⟨p, evs, hr, hv⟩ := contract_no_panic ops h
  exact ⟨p, evs, hr, fun c k => stream_closed_of_valid ops p evs hv c k⟩

/-! ### non-vacuity of `Valid` -/

instance (p : Proc) (op : Op) : Decidable (Pre p op) := by
  cases op <;> unfold Pre <;> infer_instance

/-- executable check that a history respects the contract and does not panic -/
def validB : Proc → List Op → Bool
  | _, [] => true
  | p, op :: ops => decide (Pre p op) && (match step p op with
    | some (p', _) => validB p' ops
    | none => false)

theorem valid_of_validB {p : Proc} {ops : List Op} (h : validB p ops = true) : ∃ p' evs, Valid p ops p' evs := by
  induction ops generalizing p with
  | nil => exact ⟨p, [], Valid.nil p⟩
  | cons op ops ih =>
    simp only [validB, Bool.and_eq_true, decide_eq_true_eq] at h
    cases hs : step p op with
    | none => simp [hs] at h
    | some r =>
      obtain ⟨p1, evs1⟩ := r
      simp only [hs] at h
      obtain ⟨p2, evs2, hv⟩ := ih h.2
      exact ⟨p2, evs1 ++ evs2, Valid.cons h.1 hs hv⟩

/-! ### non-vacuity -/

/-- a policy naming IP set 0 through two different rule fields, an endpoint using it, a join, then a matching leave -/
def demoOps : List Op :=
  [.ipset 0 [1, 2], .pol 1 ⟨[⟨5, [(0, 0), (8, 0)]⟩], []⟩, .ep 0 ⟨1, [⟨0, [1], [1]⟩], []⟩, .sa 1 3, .join 0 1, .leave 0 1]

example : (run Proc.init demoOps).map (·.2) = some
    [(0, some (Msg.ipUpd 0 [1, 2])), (0, some (Msg.polUpd 1 ⟨[⟨5, [(0, 0), (8, 0)]⟩], []⟩)),
      (0, some (Msg.epUpd 0 ⟨1, [⟨0, [1], [1]⟩], []⟩)), (0, some (Msg.saUpd 1 3)), (0, none)] := by
  decide +kernel

theorem respects_of_validB {p : Proc} {ops : List Op} (h : validB p ops = true) : Respects p ops := by
  induction ops generalizing p with
  | nil => exact Respects.nil p
  | cons op ops ih =>
    simp only [validB, Bool.and_eq_true, decide_eq_true_eq] at h
    refine Respects.cons h.1 (fun p' evs hs => ?_)
    have h2 := h.2
    simp only [hs] at h2
    exact ih h2

/-- a richer contract-respecting history: join before the endpoint is known, policy and profile updates that
add and drop IP sets, a delta, an endpoint update dropping a policy, service accounts, in-sync, re-join, leave -/
def validOps : List Op :=
  [.join 0 1, .ipset 0 [1, 2], .ipset 1 [3], .pol 1 ⟨[⟨5, [(0, 0)]⟩], []⟩, .prof 2 ⟨[], [⟨1, [(3, 1)]⟩]⟩,
   .ep 0 ⟨1, [⟨0, [1], [1]⟩], [2]⟩, .sa 1 3, .inSync, .pol 1 ⟨[⟨6, [(8, 1)]⟩], []⟩, .ipDelta 1 [4] [3],
   .ipset 0 [7], .ep 0 ⟨2, [], [2]⟩, .polRm 1, .join 0 2, .ns 4 4, .leave 0 2, .ep 0 ⟨3, [], []⟩, .profRm 2, .ipRm 1]

/-- `stream_complete` / `stream_closed` are not vacuous: the histories above are `Valid` -/
example : ∃ p evs, Valid Proc.init validOps p evs := valid_of_validB (by decide +kernel)
example : Respects Proc.init validOps := respects_of_validB (by decide +kernel)
example : ∃ p evs, Valid Proc.init demoOps p evs := valid_of_validB (by decide +kernel)

/-- `nothing_after_close` is not vacuous: the demo history is panic-free and closes channel 0. -/
example : (run Proc.init demoOps).isSome = true := by decide +kernel

/-- a non-trivial reachable state in which a join succeeds -/
example : (((run Proc.init (demoOps.take 4)).map (·.1)).getD Proc.init).sas = [(1, 3)] := by decide +kernel
example : ((run Proc.init (demoOps.take 4)).bind (fun r => step r.1 (.join 0 1))).isSome = true := by decide +kernel

/-- the model panics exactly where the Go code does: a leave with UID 0 for a known, never-joined endpoint is `close(nil)`. -/
example : run Proc.init [.ep 0 ⟨1, [], []⟩, .leave 0 0] = none := by decide +kernel

end CalicoVerif.C31
