import CalicoVerif.Model.C26
/-!
C26 — Datastore watchers converge across watch failures and resyncs.

What is PROVED here (for all inputs): the `watcherSyncer` status aggregation part of the property
("in-sync is reported only after every resource type has completed a full list") and the status
discipline of `finishResync` / `sendResult`.  What is NOT proved in Lean yet and is only checked on the
real code by the harness oracles (`not-converged`, `cache-updates-while-waiting`, `updates-while-waiting`):
`cache_converges` / `vanished_deleted` (the accumulated update stream equals the converted datastore
contents after a successful list and the events that follow) and `quiet_while_waiting` for the whole
cache machine.  The executable model of the whole machine (`runCall`) is tied to the real code by the
correspondence run, so those statements are testable on the model, but they are not theorems.
-/
namespace CalicoVerif.C26

/-- The aggregate is InSync exactly when every cache is InSync. -/
theorem aggregate_insync_iff (l : List Nat) : aggregate l = stInSync ↔ ∀ s ∈ l, s = stInSync := by
  unfold aggregate
  by_cases h : l.all (· == stInSync) = true
  · simp only [h, if_true, true_iff]
    intro s hs
    have := List.all_eq_true.mp h s hs
    simpa using this
  · rw [if_neg h]
    constructor
    · intro e
      by_cases hw : l.all (· == stWait) = true
      · rw [if_pos hw] at e; exact absurd e (by decide)
      · rw [if_neg hw] at e; exact absurd e (by decide)
    · intro hall
      exfalso
      apply h
      apply List.all_eq_true.mpr
      intro s hs
      simp [hall s hs]

/-- The aggregate is WaitForDatastore only when every cache is waiting. -/
theorem aggregate_wait (l : List Nat) (h : aggregate l = stWait) : ∀ s ∈ l, s = stWait := by
  unfold aggregate at h
  split at h
  · simp at h
  · split at h
    · rename_i hw
      intro s hs
      have := List.all_eq_true.mp hw s hs
      simpa using this
    · simp at h

/-- Invariant of `processResult`: the syncer's own status is always the aggregate of the per-cache
statuses it has recorded. -/
theorem processResult_status (ws : WS) (id : Nat) (r : Res) (h : ws.status = aggregate ws.cacheStatuses) :
    (ws.processResult id r).status = aggregate (ws.processResult id r).cacheStatuses := by
  cases r with
  | updates us => exact h
  | convErr => simp only [WS.processResult, WS.flush]; split <;> exact h
  | backendErr => simp only [WS.processResult, WS.flush]; split <;> exact h
  | status s =>
    simp only [WS.processResult]
    split
    · simp only [WS.flush]; split <;> rfl
    · rename_i hne
      simp only [bne_iff_ne, ne_eq, Decidable.not_not] at hne
      exact hne.symm

theorem processBatch_status (ws : WS) (id : Nat) (rs : List Res) (h : ws.status = aggregate ws.cacheStatuses) :
    (ws.processBatch id rs).status = aggregate (ws.processBatch id rs).cacheStatuses := by
  unfold WS.processBatch
  have : ∀ (rs : List Res) (ws : WS), ws.status = aggregate ws.cacheStatuses →
      (rs.foldl (fun ws r => ws.processResult id r) ws).status =
        aggregate (rs.foldl (fun ws r => ws.processResult id r) ws).cacheStatuses := by
    intro rs
    induction rs with
    | nil => intro ws h; exact h
    | cons r rs ih => intro ws h; exact ih _ (processResult_status ws id r h)
  have h2 := this rs ws h
  simp only [WS.flush]
  split <;> exact h2

/-- Run any sequence of (cache id, results) batches from a fresh syncer. -/
def WS.runBatches (ws : WS) (bs : List (Nat × List Res)) : WS := bs.foldl (fun ws b => ws.processBatch b.1 b.2) ws

/-- **In-sync only after every resource type is in sync**: for a syncer with at least one cache and ANY
sequence of result batches from its caches, whenever the syncer's status is InSync every cache's last
reported status is InSync (and a cache reports InSync only from `finishResync`, i.e. after a completed
list — `finishResync_status` below). -/
theorem insync_after_all_listed (n : Nat) (bs : List (Nat × List Res)) :
    let ws := (WS.new (n + 1)).runBatches bs
    ws.status = stInSync → ∀ s ∈ ws.cacheStatuses, s = stInSync := by
  intro ws hs
  have h0 : (WS.new (n + 1)).status = aggregate (WS.new (n + 1)).cacheStatuses := by
    simp [WS.new, aggregate, List.replicate_succ]
  have : ∀ (bs : List (Nat × List Res)) (w : WS), w.status = aggregate w.cacheStatuses →
      (w.runBatches bs).status = aggregate (w.runBatches bs).cacheStatuses := by
    intro bs
    induction bs with
    | nil => intro w h; exact h
    | cons b bs ih => intro w h; exact ih _ (processBatch_status w b.1 b.2 h)
  have hagg := this bs _ h0
  exact (aggregate_insync_iff _).mp (hagg ▸ hs)

/-- Symmetric statement for WaitForDatastore: the syncer is in WaitForDatastore only while every cache is. -/
theorem waiting_only_when_all_wait (n : Nat) (bs : List (Nat × List Res)) :
    let ws := (WS.new (n + 1)).runBatches bs
    ws.status = stWait → ∀ s ∈ ws.cacheStatuses, s = stWait := by
  intro ws hs
  have h0 : (WS.new (n + 1)).status = aggregate (WS.new (n + 1)).cacheStatuses := by
    simp [WS.new, aggregate, List.replicate_succ]
  have : ∀ (bs : List (Nat × List Res)) (w : WS), w.status = aggregate w.cacheStatuses →
      (w.runBatches bs).status = aggregate (w.runBatches bs).cacheStatuses := by
    intro bs
    induction bs with
    | nil => intro w h; exact h
    | cons b bs ih => intro w h; exact ih _ (processBatch_status w b.1 b.2 h)
  have hagg := this bs _ h0
  exact aggregate_wait _ (hagg ▸ hs)

/-- `sendResult` swallows a status equal to the current one and otherwise records it. -/
theorem send_status (wc : WC) (s : Nat) : (wc.send (.status s)).status = s := by
  simp only [WC.send]
  split
  · rename_i h; exact h.symm
  · rfl

theorem send_old (wc : WC) (r : Res) : (wc.send r).old = wc.old := by
  cases r <;> simp only [WC.send]
  split <;> rfl

/-- A cache always leaves `finishResync` in the InSync state with the mark-and-sweep set emptied. -/
theorem finishResync_status (wc : WC) : wc.finishResync.status = stInSync ∧ wc.finishResync.old = none := by
  unfold WC.finishResync
  exact ⟨send_status _ _, by rw [send_old]⟩

/-! ### non-vacuity / regression examples on the executable model -/

/-- Two caches: the syncer goes InSync only when the second cache has finished its list. -/
example :
    ((WS.new 2).runBatches [(0, [.status stResync, .updates [⟨1, 5, utNew⟩], .status stInSync])]).status = stResync ∧
    ((WS.new 2).runBatches [(0, [.status stResync, .status stInSync]), (1, [.status stResync, .status stInSync])]).status
      = stInSync := by decide

/-- Mark-and-sweep on the model: the watch expires, the cache re-lists; key 2 vanished during the
resync and is deleted, key 1's unchanged revision is swallowed, key 3 is new. -/
example :
    let wc0 := runCall (WC.new 0 false) [] [] ([⟨1, 5, false⟩, ⟨2, 6, false⟩], 7) [.errExpired]
    let wc1 := runCall wc0 [] [] ([⟨1, 5, false⟩, ⟨3, 8, false⟩], 9) []
    wc0.rev = 0 ∧
    wc1.out = [.status stResync, .updates [⟨3, 8, utNew⟩], .updates [⟨2, 0, utDeleted⟩], .status stInSync] ∧
    wc1.res = [(3, 8), (1, 5)] ∧ wc1.rev = 9 := by decide

end CalicoVerif.C26
