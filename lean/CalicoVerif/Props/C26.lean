import CalicoVerif.Proofs.C26Ghost
/-!
C26 — Datastore watchers converge across watch failures and resyncs.

The UpdateProcessor is STATEFUL: any `Proc` (a `Process` function of the private state since the last
`OnSyncerStarting` and the KV); the model records that the real code calls `OnSyncerStarting` before EVERY List of a
full resync (`WC.notifyConverter` in `listStep`), and every convergence statement is relative to a FRESH processor
(`convSeq p [] …`).

Model: `Model/C26.lean` — one `watcherCache` as a machine over scripted List outcomes
(ok / not-found / expired / other ± retry-timeout elapsed), Watch-create outcomes (expired / connection
refused ± timeout / not supported / other) and watch events (add/modify, delete, bookmark, expired, error,
unknown), and `watcherSyncer.processResult`.  A *session* is any sequence of `call`s (one
`resyncAndLoopReadingFromWatcher` each, with ANY script) and `stop`s (`sendDeletionsForAllResources`);
`total` is everything the cache ever put on the results channel and `downFrom emptyView total` the view
of a consumer that applied all of it.

Proved for ALL sessions / scripts:
  * `downstream_mirrors_cache`  the consumer's view is at every moment exactly the cache's `resources`;
  * `quiet_while_waiting`       no `updates` result is ever emitted while the last status the cache announced is
                                WaitForDatastore;
  * `list_converges`            a successful List leaves exactly the converted list, whatever preceded;
  * `watch_resume_extends`      a call that resumes the watch without listing extends the consumer's view by the
                                conversion of the processed events (processor state continuing);
  * `session_converges`         composition over whole histories: after ANY session the consumer's view is the last
                                listed snapshot of the last re-listing call followed by all events processed since;
  * `cache_converges`           after a call that had to resync (revision lost), whatever failures were scripted,
                                the consumer holds exactly conversion(one of the successfully listed snapshots
                                followed by the watch events processed) — and `vanished_deleted`;
  * the syncer part: `insync_after_all_listed`, `waiting_only_when_all_wait`, `syncer_quiet_while_waiting`.
-/
namespace CalicoVerif.C26

/-- The aggregate is InSync exactly when every cache is InSync. -/
theorem aggregate_insync_iff (l : List Nat) : aggregate l = stInSync ↔ ∀ s ∈ l, s = stInSync := by
  unfold aggregate
  by_cases h : l.all (· == stInSync) = true
  · simp only [h, if_true, true_iff]
    intro s hs
    have := List.all_eq_true.mp h s hs
    simpa using this
  · rw [if_neg h]
    constructor
    · intro e
      by_cases hw : l.all (· == stWait) = true
      · rw [if_pos hw] at e; exact absurd e (by decide)
      · rw [if_neg hw] at e; exact absurd e (by decide)
    · intro hall
      exfalso
      apply h
      apply List.all_eq_true.mpr
      intro s hs
      simp [hall s hs]

/-- The aggregate is WaitForDatastore only when every cache is waiting. -/
theorem aggregate_wait (l : List Nat) (h : aggregate l = stWait) : ∀ s ∈ l, s = stWait := by
  unfold aggregate at h
  split at h
  · simp at h
  · split at h
    · rename_i hw
      intro s hs
      have := List.all_eq_true.mp hw s hs
      simpa using this
    · simp at h

/-- Invariant of `processResult`: the syncer's own status is always the aggregate of the per-cache
statuses it has recorded. -/
theorem processResult_status (ws : WS) (id : Nat) (r : Res) (h : ws.status = aggregate ws.cacheStatuses) :
    (ws.processResult id r).status = aggregate (ws.processResult id r).cacheStatuses := by
  cases r with
  | updates us => exact h
  | convErr => simp only [WS.processResult, WS.flush]; split <;> exact h
  | backendErr => simp only [WS.processResult, WS.flush]; split <;> exact h
  | status s =>
    simp only [WS.processResult]
    split
    · simp only [WS.flush]; split <;> rfl
    · rename_i hne
      simp only [bne_iff_ne, ne_eq, Decidable.not_not] at hne
      exact hne.symm

theorem processBatch_status (ws : WS) (id : Nat) (rs : List Res) (h : ws.status = aggregate ws.cacheStatuses) :
    (ws.processBatch id rs).status = aggregate (ws.processBatch id rs).cacheStatuses := by
  unfold WS.processBatch
  have : ∀ (rs : List Res) (ws : WS), ws.status = aggregate ws.cacheStatuses →
      (rs.foldl (fun ws r => ws.processResult id r) ws).status =
        aggregate (rs.foldl (fun ws r => ws.processResult id r) ws).cacheStatuses := by
    intro rs
    induction rs with
    | nil => intro ws h; exact h
    | cons r rs ih => intro ws h; exact ih _ (processResult_status ws id r h)
  have h2 := this rs ws h
  simp only [WS.flush]
  split <;> exact h2

/-- Run any sequence of (cache id, results) batches from a fresh syncer. -/
def WS.runBatches (ws : WS) (bs : List (Nat × List Res)) : WS := bs.foldl (fun ws b => ws.processBatch b.1 b.2) ws

/-- **In-sync only after every resource type is in sync**: for a syncer with at least one cache and ANY
sequence of result batches from its caches, whenever the syncer's status is InSync every cache's last
reported status is InSync (and a cache reports InSync only from `finishResync`, i.e. after a completed
list — `finishResync_status` below). -/
theorem insync_after_all_listed (n : Nat) (bs : List (Nat × List Res)) :
    let ws := (WS.new (n + 1)).runBatches bs
    ws.status = stInSync → ∀ s ∈ ws.cacheStatuses, s = stInSync := by
  intro ws hs
  have h0 : (WS.new (n + 1)).status = aggregate (WS.new (n + 1)).cacheStatuses := by
    simp [WS.new, aggregate, List.replicate_succ]
  have : ∀ (bs : List (Nat × List Res)) (w : WS), w.status = aggregate w.cacheStatuses →
      (w.runBatches bs).status = aggregate (w.runBatches bs).cacheStatuses := by
    intro bs
    induction bs with
    | nil => intro w h; exact h
    | cons b bs ih => intro w h; exact ih _ (processBatch_status w b.1 b.2 h)
  have hagg := this bs _ h0
  exact (aggregate_insync_iff _).mp (hagg ▸ hs)

/-- Symmetric statement for WaitForDatastore: the syncer is in WaitForDatastore only while every cache is. -/
theorem waiting_only_when_all_wait (n : Nat) (bs : List (Nat × List Res)) :
    let ws := (WS.new (n + 1)).runBatches bs
    ws.status = stWait → ∀ s ∈ ws.cacheStatuses, s = stWait := by
  intro ws hs
  have h0 : (WS.new (n + 1)).status = aggregate (WS.new (n + 1)).cacheStatuses := by
    simp [WS.new, aggregate, List.replicate_succ]
  have : ∀ (bs : List (Nat × List Res)) (w : WS), w.status = aggregate w.cacheStatuses →
      (w.runBatches bs).status = aggregate (w.runBatches bs).cacheStatuses := by
    intro bs
    induction bs with
    | nil => intro w h; exact h
    | cons b bs ih => intro w h; exact ih _ (processBatch_status w b.1 b.2 h)
  have hagg := this bs _ h0
  exact aggregate_wait _ (hagg ▸ hs)

/-- `sendResult` swallows a status equal to the current one and otherwise records it. -/
theorem send_status (wc : WC) (s : Nat) : (wc.send (.status s)).status = s := send_status' wc s

/-- A cache always leaves `finishResync` in the InSync state with the mark-and-sweep set emptied. -/
theorem finishResync_status (wc : WC) : wc.finishResync.status = stInSync ∧ wc.finishResync.old = none := by
  unfold WC.finishResync
  refine ⟨send_status' _ _, ?_⟩
  rw [send_old']
  unfold WC.sweep
  split
  · split <;> rfl
  · rfl

/-! ### sessions of one cache -/

/-- One step of a cache's life: a call of `resyncAndLoopReadingFromWatcher` with an arbitrary script, or the
shutdown processing. -/
inductive COp where
  | call (lists : List ListOut) (watches : List WatchOut) (fin : List KV × Nat) (evs : List Ev)
  | stop

/-- The List that finally succeeds carries a real revision (otherwise the real loop polls for ever). -/
def COp.WF : COp → Prop
  | .call _ _ fin _ => fin.2 ≠ 0
  | .stop => True

def WC.stepOp (wc : WC) : COp → WC
  | .call l w f e => runCall wc l w f e
  | .stop => ({ wc with out := [], resets := 0 }).sendDeletionsForAll

structure Sess where
  wc : WC
  /-- everything the cache has put on the results channel so far -/
  total : List Res

def Sess.init (proc : Option Proc) (sendDeletes : Bool) : Sess := ⟨WC.new proc sendDeletes, []⟩

def Sess.step (s : Sess) (op : COp) : Sess := ⟨s.wc.stepOp op, s.total ++ (s.wc.stepOp op).out⟩

def Sess.run (s : Sess) (ops : List COp) : Sess := ops.foldl Sess.step s

structure SInv (s : Sess) : Prop where
  idle : s.wc.old = none
  mirror : ∀ k, downFrom emptyView s.total k = lookup s.wc.res k
  track : lastStatus stWait s.total = s.wc.status
  quiet : quietFrom stWait s.total = true
  owed : s.wc.status = stWait → s.wc.rev = 0

theorem SInv.init (m : Option Proc) (sd : Bool) : SInv (Sess.init m sd) :=
  ⟨rfl, fun _ => rfl, rfl, rfl, fun _ => rfl⟩

/-- The per-call invariant at the start of a call (any cache whose `oldResources` is nil). -/
theorem start_good (wc : WC) (hidle : wc.old = none) :
    Good (fun k => lookup wc.res k) wc.status { wc with out := [], resets := 0 } := by
  refine ⟨⟨?_, ?_, rfl, rfl⟩, hidle⟩
  · intro k hk; simp [oldLookup, hidle] at hk
  · intro k
    show lookup wc.res k = view { wc with out := [], resets := 0 } k
    simp only [view, oldLookup, hidle, Option.bind_none]
    cases lookup wc.res k <;> rfl

theorem SInv.start {s : Sess} (h : SInv s) :
    Good (fun k => lookup s.wc.res k) s.wc.status { s.wc with out := [], resets := 0 } := start_good s.wc h.idle

/-- Gluing a call's result onto the session. -/
theorem SInv.glue {s : Sess} (h : SInv s) (w : WC)
    (g : Good (fun k => lookup s.wc.res k) s.wc.status w) (ho : w.status = stWait → w.rev = 0) :
    SInv ⟨w, s.total ++ w.out⟩ := by
  have e : downFrom emptyView s.total = fun k => lookup s.wc.res k := funext h.mirror
  refine ⟨g.idle, ?_, ?_, ?_, ho⟩
  · intro k
    show downFrom emptyView (s.total ++ w.out) k = lookup w.res k
    rw [downFrom_append, e, g.inv.mirror, g.view_eq]
  · show lastStatus stWait (s.total ++ w.out) = w.status
    rw [lastStatus_append, h.track]; exact g.inv.track
  · show quietFrom stWait (s.total ++ w.out) = true
    rw [quietFrom_append, h.quiet, h.track, g.inv.quiet]; rfl

/-- What a call does, for any script, on any cache that is between calls. -/
theorem call_ok_wc (wc : WC) (hidle : wc.old = none) (howed : wc.status = stWait → wc.rev = 0)
    (lists : List ListOut) (watches : List WatchOut) (fin : List KV × Nat) (evs : List Ev) (hfin : fin.2 ≠ 0) :
    ∃ w1, resyncLoop fin (lists.length + watches.length + 2) { wc with out := [], resets := 0 } false lists watches = some w1 ∧
      Good (fun k => lookup wc.res k) wc.status w1 ∧ w1.status ≠ stWait ∧
      runCall wc lists watches fin evs = eventLoop w1 evs := by
  have hsome := resyncLoop_some fin hfin (lists.length + watches.length + 2) { wc with out := [], resets := 0 } false lists watches
    (by omega)
  cases hr : resyncLoop fin (lists.length + watches.length + 2) { wc with out := [], resets := 0 } false lists watches with
  | none => rw [hr] at hsome; cases hsome
  | some w1 =>
    have hok := resyncLoop_ok fin _ _ false lists watches (start_good wc hidle)
      (fun c => Or.inr (howed c)) w1 hr
    refine ⟨w1, rfl, hok.1, hok.2, ?_⟩
    unfold runCall
    simp only [hr, Option.getD_some]

theorem call_ok {s : Sess} (h : SInv s) (lists : List ListOut) (watches : List WatchOut) (fin : List KV × Nat)
    (evs : List Ev) (hfin : fin.2 ≠ 0) :
    ∃ w1, resyncLoop fin (lists.length + watches.length + 2) { s.wc with out := [], resets := 0 } false lists watches = some w1 ∧
      Good (fun k => lookup s.wc.res k) s.wc.status w1 ∧ w1.status ≠ stWait ∧
      runCall s.wc lists watches fin evs = eventLoop w1 evs :=
  call_ok_wc s.wc h.idle h.owed lists watches fin evs hfin

theorem SInv.step {s : Sess} (h : SInv s) (op : COp) (hwf : op.WF) : SInv (s.step op) := by
  cases op with
  | call lists watches fin evs =>
    obtain ⟨w1, _, g1, hs1, hrun⟩ := call_ok h lists watches fin evs hwf
    obtain ⟨g2, st2, _⟩ := eventLoop_ok evs g1 hs1
    have : s.step (.call lists watches fin evs) =
        ⟨eventLoop w1 evs, s.total ++ (eventLoop w1 evs).out⟩ := by
      simp only [Sess.step, WC.stepOp, hrun]
    rw [this]
    exact h.glue _ g2 (fun c => by rw [st2] at c; exact absurd c hs1)
  | stop =>
    obtain ⟨g, _, hrev⟩ := sendDeletionsForAll_ok h.start
    exact h.glue _ g (fun _ => hrev)

theorem SInv.run {s : Sess} (h : SInv s) (ops : List COp) (hwf : ∀ op ∈ ops, op.WF) : SInv (s.run ops) := by
  induction ops generalizing s with
  | nil => exact h
  | cons op ops ih =>
    exact ih (h.step op (hwf op (List.mem_cons_self ..))) (fun o ho => hwf o (List.mem_cons_of_mem _ ho))

/-- **The consumer's view is the cache's view, always**: after any session (any scripts, any failures,
any stops) a consumer that applied every emitted update holds exactly the keys and revisions in the
cache's `resources`. -/
theorem downstream_mirrors_cache (m : Option Proc) (sd : Bool) (ops : List COp) (hwf : ∀ op ∈ ops, op.WF) (k : Nat) :
    downFrom emptyView ((Sess.init m sd).run ops).total k = lookup ((Sess.init m sd).run ops).wc.res k :=
  ((SInv.init m sd).run ops hwf).mirror k

/-- **No update while waiting for the datastore**: in the stream of any session, no `updates` result is
emitted while the last status the cache announced (initially WaitForDatastore) is WaitForDatastore. -/
theorem quiet_while_waiting (m : Option Proc) (sd : Bool) (ops : List COp) (hwf : ∀ op ∈ ops, op.WF) :
    quietFrom stWait ((Sess.init m sd).run ops).total = true :=
  ((SInv.init m sd).run ops hwf).quiet

/-- The cache's `status` field is the status last announced on the stream, and a cache that is (again)
waiting has forgotten its watch revision, i.e. will re-list before watching. -/
theorem status_tracked (m : Option Proc) (sd : Bool) (ops : List COp) (hwf : ∀ op ∈ ops, op.WF) :
    lastStatus stWait ((Sess.init m sd).run ops).total = ((Sess.init m sd).run ops).wc.status ∧
    (((Sess.init m sd).run ops).wc.status = stWait → ((Sess.init m sd).run ops).wc.rev = 0) :=
  ⟨((SInv.init m sd).run ops hwf).track, ((SInv.init m sd).run ops hwf).owed⟩

/-- **A successful List converges, whatever preceded**: for a cache in any reachable state, processing the
listed KVs leaves the cache (hence, by `downstream_mirrors_cache`, the consumer) with exactly the converted
list: entries not in the list are swept, unchanged revisions are kept without an update. -/
theorem list_converges {m0 : View} {st0 : Nat} {wc : WC} (h : Good m0 st0 wc) (kvs : List KV) (k : Nat) :
    downFrom m0 (wc.processList kvs).out k = (convSeq wc.proc wc.pst kvs).foldl applyKV emptyView k ∧
    (wc.processList kvs).status = stInSync := by
  have l := processList_ok h kvs
  exact ⟨by rw [l.good.inv.mirror, l.view], l.status⟩

/-- The ghost run of a call: the resync loop carrying (last successfully listed snapshot, some List completed).
By `resyncLoopG_proj` it is the same run as the model's. -/
def callGhost (wc : WC) (lists : List ListOut) (watches : List WatchOut) (fin : List KV × Nat) :
    Option (WC × Option (List KV) × Bool) :=
  resyncLoopG fin (lists.length + watches.length + 2) { wc with out := [], resets := 0 } false lists watches none false

/-- The LAST snapshot a List successfully returned during the call, before the watch was created
(`none` if the call did not list at all). -/
def lastListed (wc : WC) (lists : List ListOut) (watches : List WatchOut) (fin : List KV × Nat) : Option (List KV) :=
  (callGhost wc lists watches fin).bind (·.2.1)

/-- Did the call complete a List (successfully, or with "backing API not installed")? -/
def callListed (wc : WC) (lists : List ListOut) (watches : List WatchOut) (fin : List KV × Nat) : Bool :=
  ((callGhost wc lists watches fin).map (·.2.2)).getD false

theorem callGhost_eq {wc : WC} {lists : List ListOut} {watches : List WatchOut} {fin : List KV × Nat} {w1 : WC}
    (hr : resyncLoop fin (lists.length + watches.length + 2) { wc with out := [], resets := 0 } false lists watches = some w1) :
    ∃ g b, callGhost wc lists watches fin = some (w1, g, b) := by
  have hp := resyncLoopG_proj fin (lists.length + watches.length + 2) { wc with out := [], resets := 0 } false lists watches none false
  rw [hr] at hp
  unfold callGhost
  cases hc : resyncLoopG fin (lists.length + watches.length + 2) { wc with out := [], resets := 0 } false lists watches none false with
  | none => rw [hc] at hp; cases hp
  | some x =>
    rw [hc] at hp
    simp only [Option.map_some, Option.some.injEq] at hp
    exact ⟨x.2.1, x.2.2, by rw [← hp]⟩

/-- **Convergence across failures, to the LAST listed snapshot**: take any reachable cache whose watch revision is
lost (it must re-list: start of day, expired watch, too many errors, shutdown deletions …) and ANY script of
List / Watch-create failures and watch events.  The call lists at least once, and afterwards the consumer holds
exactly conversion(L followed by the watch events processed before the watch broke), where L is the LAST snapshot
a List returned before the watch was created — not an earlier, stale one. -/
theorem cache_converges (m : Option Proc) (sd : Bool) (ops : List COp) (hwf : ∀ op ∈ ops, op.WF)
    (lists : List ListOut) (watches : List WatchOut) (fin : List KV × Nat) (evs : List Ev) (hfin : fin.2 ≠ 0) :
    let s := (Sess.init m sd).run ops
    s.wc.rev = 0 →
    ∃ L, lastListed s.wc lists watches fin = some L ∧ ∀ k,
      downFrom emptyView (s.step (.call lists watches fin evs)).total k =
        (convSeq s.wc.proc [] (L ++ processed evs)).foldl applyKV emptyView k := by
  intro s hrev
  have h : SInv s := (SInv.init m sd).run ops hwf
  obtain ⟨w1, hr, g1, hs1, hrun⟩ := call_ok h lists watches fin evs hfin
  obtain ⟨g, b, hcg⟩ := callGhost_eq hr
  have hl := resyncLoopG_last fin s.wc.proc (lists.length + watches.length + 2) { s.wc with out := [], resets := 0 } false
    lists watches none false h.start (fun c => Or.inr (h.owed c)) rfl (Or.inr (Or.inr hrev)) (w1, g, b) hcg
  obtain ⟨L, hgL, hv, hm1⟩ := hl
  simp only at hgL hv hm1
  obtain ⟨g2, _, v2⟩ := eventLoop_ok evs g1 hs1
  have h' := h.step (.call lists watches fin evs) hfin
  refine ⟨L, by simp [lastListed, hcg, hgL], fun k => ?_⟩
  rw [h'.mirror]
  have : (s.step (.call lists watches fin evs)).wc = eventLoop w1 evs := by
    simp only [Sess.step, WC.stepOp, hrun]
  rw [this, ← g2.view_eq, v2, hm1, hv.2, convSeq_append, List.foldl_append]
  have : view w1 = (convSeq s.wc.proc [] L).foldl applyKV emptyView := funext hv.1
  rw [this]

/-- **Resources that vanished are deleted**: in the situation of `cache_converges`, a key that neither the last
listed snapshot nor the processed events (after conversion) mention is not held by the consumer afterwards —
whatever it held before. -/
theorem vanished_deleted (m : Option Proc) (sd : Bool) (ops : List COp) (hwf : ∀ op ∈ ops, op.WF)
    (lists : List ListOut) (watches : List WatchOut) (fin : List KV × Nat) (evs : List Ev) (hfin : fin.2 ≠ 0) :
    let s := (Sess.init m sd).run ops
    s.wc.rev = 0 →
    ∃ L, lastListed s.wc lists watches fin = some L ∧ ∀ k,
      (∀ kv ∈ convSeq s.wc.proc [] (L ++ processed evs), kv.key ≠ k) →
      downFrom emptyView (s.step (.call lists watches fin evs)).total k = none := by
  intro s hrev
  obtain ⟨L, hL, hv⟩ := cache_converges m sd ops hwf lists watches fin evs hfin hrev
  refine ⟨L, hL, fun k hk => ?_⟩
  rw [hv k, foldl_applyKV_not_mem _ _ _ hk]
  rfl

/-! ### calls that resume the watch, and convergence over whole histories -/

theorem sendDeletionsForAll_pst (wc : WC) : wc.sendDeletionsForAll.pst = wc.pst ∧ wc.sendDeletionsForAll.proc = wc.proc := by
  unfold WC.sendDeletionsForAll WC.clearAll
  refine ⟨?_, sendDeletionsForAll_mode wc⟩
  show wc.leaveWaitIfAny.sendDels.pst = _
  have h1 : ∀ w : WC, w.sendDels.pst = w.pst := by
    intro w
    unfold WC.sendDels
    generalize sortKeys (keysOf w.res) = ks
    induction ks generalizing w with
    | nil => rfl
    | cons k ks ih => simp only [List.foldl_cons]; rw [ih, send_pst]
  rw [h1]
  unfold WC.leaveWaitIfAny
  split
  · exact send_pst _ _
  · rfl

/-- What one call does to the consumer's view and to the processor, for ANY script (both cases). -/
theorem call_effect {s : Sess} (h : SInv s) (lists : List ListOut) (watches : List WatchOut) (fin : List KV × Nat)
    (evs : List Ev) (hfin : fin.2 ≠ 0) :
    let s' := s.step (.call lists watches fin evs)
    s'.wc.proc = s.wc.proc ∧
    match lastListed s.wc lists watches fin with
    | some L =>
      (∀ k, lookup s'.wc.res k = (convSeq s.wc.proc [] (L ++ processed evs)).foldl applyKV emptyView k) ∧
        s'.wc.pst = convState s.wc.proc [] (L ++ processed evs)
    | none =>
      (∀ k, lookup s'.wc.res k =
          (convSeq s.wc.proc s.wc.pst (processed evs)).foldl applyKV (fun k => lookup s.wc.res k) k) ∧
        s'.wc.pst = convState s.wc.proc s.wc.pst (processed evs) := by
  intro s'
  obtain ⟨w1, hr, g1, hs1, hrun⟩ := call_ok h lists watches fin evs hfin
  obtain ⟨g, b, hcg⟩ := callGhost_eq hr
  have hwc : s'.wc = eventLoop w1 evs := by simp only [s', Sess.step, WC.stepOp, hrun]
  obtain ⟨g2, _, v2⟩ := eventLoop_ok evs g1 hs1
  obtain ⟨p2, m2⟩ := eventLoop_pst evs w1
  have hl := resyncLoopG_last' fin s.wc.proc (lists.length + watches.length + 2)
    { s.wc with out := [], resets := 0 } false lists watches none false h.start (fun c => Or.inr (h.owed c)) rfl
    (fun L hL => by cases hL) (w1, g, b) hcg
  have hlast : lastListed s.wc lists watches fin = g := by simp [lastListed, hcg]
  rw [hlast]
  refine ⟨by rw [hwc, m2]; exact hl.2, ?_⟩
  cases hg : g with
  | some L =>
    simp only
    obtain ⟨hv, hp⟩ := hl.1 L (by simp [hg])
    simp only at hv hp
    refine ⟨fun k => ?_, ?_⟩
    · rw [hwc, ← g2.view_eq, v2, hl.2, hp, convSeq_append, List.foldl_append]
      have : view w1 = (convSeq s.wc.proc [] L).foldl applyKV emptyView := funext hv
      rw [this]
    · rw [hwc, p2, hl.2, hp, convState_append]
  | none =>
    simp only
    have hsame := resyncLoopG_nolist fin { s.wc with out := [], resets := 0 }
      (lists.length + watches.length + 2) { s.wc with out := [], resets := 0 } false lists watches none false
      (fun _ => Or.inl ⟨rfl, rfl, rfl, rfl⟩) (w1, g, b) hcg (by simp [hg])
    obtain ⟨sr, so, sp, spr⟩ := hsame
    simp only at sr so sp spr
    refine ⟨fun k => ?_, ?_⟩
    · rw [hwc, ← g2.view_eq, v2, spr, sp]
      have : view w1 = fun k => lookup s.wc.res k := by
        funext x; rw [g1.view_eq, sr]
      rw [this]
    · rw [hwc, p2, spr, sp]

/-- **A call that resumes the watch extends the view**: take any reachable cache and any call that does NOT
re-list (the watch is re-created from the kept revision — e.g. after a watch error that does not lose the
revision), whatever Watch-create failures are scripted.  The consumer's view afterwards is its view before with the
conversion of the processed watch events applied, the processor continuing from its current state. -/
theorem watch_resume_extends (m : Option Proc) (sd : Bool) (ops : List COp) (hwf : ∀ op ∈ ops, op.WF)
    (lists : List ListOut) (watches : List WatchOut) (fin : List KV × Nat) (evs : List Ev) (hfin : fin.2 ≠ 0) :
    let s := (Sess.init m sd).run ops
    lastListed s.wc lists watches fin = none →
    ∀ k, downFrom emptyView (s.step (.call lists watches fin evs)).total k =
      (convSeq s.wc.proc s.wc.pst (processed evs)).foldl applyKV (downFrom emptyView s.total) k := by
  intro s hnl k
  have h : SInv s := (SInv.init m sd).run ops hwf
  have h' := h.step (.call lists watches fin evs) hfin
  have he := (call_effect h lists watches fin evs hfin).2
  rw [hnl] at he
  simp only at he
  rw [h'.mirror, he.1 k]
  have : (fun k => lookup s.wc.res k) = downFrom emptyView s.total := (funext h.mirror).symm
  rw [this]

/-- The datastore-side account of one op: a call that listed starts afresh from the LAST listed snapshot; a call
that resumed the watch continues from the account so far; a stop empties the view. -/
def specStep (p : Option Proc) (acc : View × PState) (wc : WC) : COp → View × PState
  | .call l w f e =>
    match lastListed wc l w f with
    | some L => ((convSeq p [] (L ++ processed e)).foldl applyKV emptyView, convState p [] (L ++ processed e))
    | none => ((convSeq p acc.2 (processed e)).foldl applyKV acc.1, convState p acc.2 (processed e))
  | .stop => (emptyView, acc.2)

/-- The datastore-side account of a whole session. -/
def sessionSpec (p : Option Proc) : Sess → View × PState → List COp → View × PState
  | _, acc, [] => acc
  | s, acc, op :: ops => sessionSpec p (s.step op) (specStep p acc s.wc op) ops

/-- **Convergence over whole histories**: after ANY session the consumer's view equals the datastore-side account
`sessionSpec`: the last snapshot listed by the last call that re-listed, followed by ALL watch events processed
since (in that call and in every later watch-resuming call), converted by a processor that was fresh at that List. -/
theorem session_converges (p : Option Proc) (sd : Bool) (ops : List COp) (hwf : ∀ op ∈ ops, op.WF) (k : Nat) :
    downFrom emptyView ((Sess.init p sd).run ops).total k =
      (sessionSpec p (Sess.init p sd) (emptyView, []) ops).1 k := by
  have key : ∀ (ops : List COp) (s : Sess) (acc : View × PState), SInv s → (∀ op ∈ ops, op.WF) →
      (∀ k, lookup s.wc.res k = acc.1 k) → s.wc.pst = acc.2 → s.wc.proc = p →
      ∀ k, lookup (s.run ops).wc.res k = (sessionSpec p s acc ops).1 k := by
    intro ops
    induction ops with
    | nil => intro s acc _ _ hv _ _ k; exact hv k
    | cons op ops ih =>
      intro s acc hs hw hv hp hpr k
      have hop := hw op (List.mem_cons_self ..)
      simp only [Sess.run, List.foldl_cons, sessionSpec]
      refine ih (s.step op) (specStep p acc s.wc op) (hs.step op hop)
        (fun o ho => hw o (List.mem_cons_of_mem _ ho)) ?_ ?_ ?_ k
      · intro x
        cases op with
        | stop =>
          obtain ⟨_, hres, _⟩ := sendDeletionsForAll_ok hs.start
          show lookup (WC.sendDeletionsForAll _).res x = _
          rw [hres]; rfl
        | call l w f e =>
          have he := (call_effect hs l w f e hop).2
          simp only [specStep]
          cases hl : lastListed s.wc l w f with
          | some L => rw [hl] at he; simp only at he ⊢; rw [he.1 x, hpr]
          | none =>
            rw [hl] at he; simp only at he ⊢
            rw [he.1 x, hpr, hp]
            have : (fun k => lookup s.wc.res k) = acc.1 := funext hv
            rw [this]
      · cases op with
        | stop =>
          show (WC.sendDeletionsForAll _).pst = _
          rw [(sendDeletionsForAll_pst _).1]; exact hp
        | call l w f e =>
          have he := (call_effect hs l w f e hop).2
          simp only [specStep]
          cases hl : lastListed s.wc l w f with
          | some L => rw [hl] at he; simp only at he ⊢; rw [he.2, hpr]
          | none => rw [hl] at he; simp only at he ⊢; rw [he.2, hpr, hp]
      · cases op with
        | stop =>
          show (WC.sendDeletionsForAll _).proc = _
          rw [(sendDeletionsForAll_pst _).2]; exact hpr
        | call l w f e => rw [(call_effect hs l w f e hop).1]; exact hpr
  have h0 := SInv.init p sd
  rw [((SInv.init p sd).run ops hwf).mirror]
  exact key ops _ _ h0 hwf (fun _ => rfl) rfl rfl k

/-! ### InSync is announced only after a completed List -/

def opListed (wc : WC) : COp → Bool
  | .call l w f _ => callListed wc l w f
  | .stop => false

/-- Some call of the session completed a List (successfully, or "backing API not installed"). -/
def sessionListed : Sess → List COp → Bool
  | _, [] => false
  | s, op :: ops => opListed s.wc op || sessionListed (s.step op) ops

/-- One op emits an InSync only if it completed a List. -/
theorem op_insync_listed {s : Sess} (h : SInv s) (op : COp) (hwf : op.WF)
    (hin : Res.status stInSync ∈ (s.wc.stepOp op).out) : opListed s.wc op = true := by
  cases op with
  | stop =>
    exfalso
    have hn := nn_sendDeletionsForAll ({ s.wc with out := [], resets := 0 } : WC)
    rcases hn _ hin with h1 | h1
    · cases h1
    · exact h1 rfl
  | call lists watches fin evs =>
    obtain ⟨w1, hr, _, _, hrun⟩ := call_ok h lists watches fin evs hwf
    obtain ⟨g, b, hcg⟩ := callGhost_eq hr
    have hin1 : Res.status stInSync ∈ w1.out := by
      have hin' : Res.status stInSync ∈ (eventLoop w1 evs).out := by
        simp only [WC.stepOp, hrun] at hin; exact hin
      rcases nn_eventLoop evs w1 _ hin' with h1 | h1
      · exact h1
      · exact absurd rfl h1
    have hls := resyncLoopG_insync fin (lists.length + watches.length + 2) { s.wc with out := [], resets := 0 } false lists watches
      none false (Or.inr (by simp)) (w1, g, b) hcg
    rcases hls with h1 | h1
    · simp only at h1
      simp [opListed, callListed, hcg, h1]
    · exact absurd hin1 h1

/-- **InSync only after a completed List** (cache level): if a cache's stream, over any session, contains
`status InSync`, then some call of that session completed a List — a successful List or the
"backing API not installed" outcome, which the code deliberately treats as in sync.  In particular the sticky
InSync of the polling / CRD-missing states (`beginFull`) never produces an InSync by itself. -/
theorem insync_only_after_list (m : Option Proc) (sd : Bool) (ops : List COp) (hwf : ∀ op ∈ ops, op.WF) :
    Res.status stInSync ∈ ((Sess.init m sd).run ops).total → sessionListed (Sess.init m sd) ops = true := by
  have key : ∀ (ops : List COp) (s : Sess), SInv s → (∀ op ∈ ops, op.WF) →
      Res.status stInSync ∈ (s.run ops).total → Res.status stInSync ∈ s.total ∨ sessionListed s ops = true := by
    intro ops
    induction ops with
    | nil => intro s _ _ h; exact Or.inl h
    | cons op ops ih =>
      intro s hs hw hin
      have hop := hw op (List.mem_cons_self ..)
      have := ih (s.step op) (hs.step op hop) (fun o ho => hw o (List.mem_cons_of_mem _ ho)) hin
      rcases this with h1 | h1
      · rcases List.mem_append.mp h1 with h2 | h2
        · exact Or.inl h2
        · right
          simp [sessionListed, op_insync_listed hs op hop h2]
      · right
        simp [sessionListed, h1]
  intro hin
  rcases key ops _ (SInv.init m sd) hwf hin with h | h
  · cases h
  · exact h

/-! ### the syncer never delivers updates while it reports WaitForDatastore -/

/-- The status the callbacks were last told. -/
def cbLast : Nat → List Cb → Nat
  | st, [] => st
  | _, .status s :: r => cbLast s r
  | st, .updates _ :: r => cbLast st r
  | st, .syncFailed :: r => cbLast st r

/-- No `OnUpdates` callback while the last `OnStatusUpdated` was WaitForDatastore. -/
def cbQuiet : Nat → List Cb → Bool
  | _, [] => true
  | _, .status s :: r => cbQuiet s r
  | st, .updates _ :: r => st != stWait && cbQuiet st r
  | st, .syncFailed :: r => cbQuiet st r

theorem cbLast_snoc (st : Nat) (l : List Cb) (c : Cb) :
    cbLast st (l ++ [c]) = match c with
      | .status s => s
      | _ => cbLast st l := by
  induction l generalizing st with
  | nil => cases c <;> rfl
  | cons x xs ih => cases x <;> simp [cbLast, ih]

theorem cbQuiet_snoc (st : Nat) (l : List Cb) (c : Cb) :
    cbQuiet st (l ++ [c]) = (cbQuiet st l && match c with
      | .updates _ => cbLast st l != stWait
      | _ => true) := by
  induction l generalizing st with
  | nil => cases c <;> simp [cbQuiet, cbLast]
  | cons x xs ih => cases x <;> simp [cbQuiet, cbLast, ih, Bool.and_assoc]

/-- The callback-side part of the syncer invariant (independent of `cacheStatuses`). -/
structure QInv (ws : WS) : Prop where
  last : cbLast stWait ws.cbs = ws.status
  quiet : cbQuiet stWait ws.cbs = true
  /-- buffered updates are only held while the syncer is not in WaitForDatastore -/
  pend : ws.pending ≠ [] → ws.status ≠ stWait

structure WInv (ws : WS) : Prop where
  agg : ws.status = aggregate ws.cacheStatuses
  q : QInv ws

theorem QInv.flush {ws : WS} (h : QInv ws) : QInv ws.flush := by
  unfold WS.flush
  split
  · exact h
  · rename_i hne
    have hp : ws.pending ≠ [] := by simpa using hne
    refine ⟨?_, ?_, fun c => absurd rfl c⟩
    · show cbLast stWait (ws.cbs ++ [Cb.updates ws.pending]) = ws.status
      rw [cbLast_snoc]; exact h.last
    · show cbQuiet stWait (ws.cbs ++ [Cb.updates ws.pending]) = true
      rw [cbQuiet_snoc, h.quiet, h.last]
      simp [h.pend hp]

theorem flush_fields (ws : WS) : ws.flush.status = ws.status ∧ ws.flush.cacheStatuses = ws.cacheStatuses ∧
    ws.flush.pending = [] := by
  unfold WS.flush
  split
  · rename_i he; exact ⟨rfl, rfl, by simpa using he⟩
  · exact ⟨rfl, rfl, rfl⟩

theorem WInv.flush {ws : WS} (h : WInv ws) : WInv ws.flush := by
  obtain ⟨f1, f2, _⟩ := flush_fields ws
  exact ⟨by rw [f1, f2]; exact h.agg, h.q.flush⟩

/-- One result from cache `i`: fine as long as that cache is not emitting updates while the syncer has it
recorded as waiting. -/
theorem WInv.processResult {ws : WS} (h : WInv ws) (i : Nat) (hi : i < ws.cacheStatuses.length) (r : Res)
    (hq : ∀ us, r = .updates us → ws.cacheStatuses[i] ≠ stWait) :
    WInv (ws.processResult i r) := by
  cases r with
  | updates us =>
    have hne := hq us rfl
    have hst : ws.status ≠ stWait := by
      intro c
      rw [h.agg] at c
      exact hne (aggregate_wait _ c _ (List.getElem_mem hi))
    exact ⟨h.agg, h.q.last, h.q.quiet, fun _ => hst⟩
  | convErr => exact h.flush
  | backendErr =>
    have hf := h.flush
    refine ⟨hf.agg, ?_, ?_, hf.q.pend⟩
    · show cbLast stWait (ws.flush.cbs ++ [Cb.syncFailed]) = ws.flush.status
      rw [cbLast_snoc]; exact hf.q.last
    · show cbQuiet stWait (ws.flush.cbs ++ [Cb.syncFailed]) = true
      rw [cbQuiet_snoc, hf.q.quiet]; rfl
  | status s =>
    simp only [WS.processResult]
    split
    · -- transition: flush first, then announce
      have q0 : QInv ({ ws with cacheStatuses := ws.cacheStatuses.set i s } : WS) :=
        ⟨h.q.last, h.q.quiet, h.q.pend⟩
      have q1 := q0.flush
      obtain ⟨_, f2, f3⟩ := flush_fields ({ ws with cacheStatuses := ws.cacheStatuses.set i s } : WS)
      generalize ({ ws with cacheStatuses := ws.cacheStatuses.set i s } : WS).flush = w1 at q1 f2 f3
      refine ⟨?_, ?_, ?_, ?_⟩
      · show aggregate (ws.cacheStatuses.set i s) = aggregate w1.cacheStatuses
        rw [f2]
      · show cbLast stWait (w1.cbs ++ [Cb.status _]) = _
        rw [cbLast_snoc]
      · show cbQuiet stWait (w1.cbs ++ [Cb.status _]) = true
        rw [cbQuiet_snoc, q1.quiet]; rfl
      · intro c; exact absurd f3 c
    · rename_i hne
      simp only [bne_iff_ne, ne_eq, Decidable.not_not] at hne
      exact ⟨hne.symm, h.q.last, h.q.quiet, h.q.pend⟩

theorem processResult_length (ws : WS) (i : Nat) (r : Res) :
    (ws.processResult i r).cacheStatuses.length = ws.cacheStatuses.length := by
  cases r with
  | updates us => rfl
  | convErr => exact congrArg List.length (flush_fields ws).2.1
  | backendErr => exact congrArg List.length (flush_fields ws).2.1
  | status s =>
    simp only [WS.processResult]
    split
    · show (WS.flush _).cacheStatuses.length = _
      rw [(flush_fields _).2.1]; simp
    · simp

theorem processResult_recorded (ws : WS) (i : Nat) (hi : i < ws.cacheStatuses.length) (r : Res) :
    (ws.processResult i r).cacheStatuses[i]? = some (lastStatus ws.cacheStatuses[i] [r]) := by
  cases r with
  | updates us => simp [WS.processResult, lastStatus, hi]
  | convErr => simp [WS.processResult, (flush_fields ws).2.1, lastStatus, hi]
  | backendErr => simp [WS.processResult, (flush_fields ws).2.1, lastStatus, hi]
  | status s =>
    simp only [WS.processResult, lastStatus]
    split
    · show (WS.flush _).cacheStatuses[i]? = _
      rw [(flush_fields _).2.1]; simp [hi]
    · simp [hi]

/-- A whole batch from cache `i` whose stream is quiet relative to the status the syncer has recorded for
that cache. -/
theorem WInv.processBatch {ws : WS} (h : WInv ws) (i : Nat) (hi : i < ws.cacheStatuses.length) (rs : List Res)
    (hq : quietFrom ws.cacheStatuses[i] rs = true) :
    WInv (ws.processBatch i rs) ∧ (ws.processBatch i rs).cacheStatuses.length = ws.cacheStatuses.length := by
  unfold WS.processBatch
  have key : ∀ (rs : List Res) (ws : WS), WInv ws → (hi : i < ws.cacheStatuses.length) →
      quietFrom ws.cacheStatuses[i] rs = true →
      WInv (rs.foldl (fun ws r => ws.processResult i r) ws) ∧
        (rs.foldl (fun ws r => ws.processResult i r) ws).cacheStatuses.length = ws.cacheStatuses.length := by
    intro rs
    induction rs with
    | nil => intro ws h _ _; exact ⟨h, rfl⟩
    | cons r rs ih =>
      intro ws h hi hq
      simp only [List.foldl_cons]
      have hlen := processResult_length ws i r
      have hi' : i < (ws.processResult i r).cacheStatuses.length := by rw [hlen]; exact hi
      have hrec := processResult_recorded ws i hi r
      have hget : (ws.processResult i r).cacheStatuses[i] = lastStatus ws.cacheStatuses[i] [r] := by
        have := List.getElem?_eq_getElem hi'
        rw [this] at hrec
        exact Option.some.inj hrec
      have step : WInv (ws.processResult i r) := by
        apply h.processResult i hi r
        intro us e
        subst e
        simp only [quietFrom, Bool.and_eq_true, bne_iff_ne, ne_eq] at hq
        exact hq.1
      have hq' : quietFrom (ws.processResult i r).cacheStatuses[i] rs = true := by
        rw [hget]
        cases r with
        | status s => simpa [quietFrom, lastStatus] using hq
        | updates us =>
          simp only [quietFrom, Bool.and_eq_true] at hq
          simpa [lastStatus] using hq.2
        | convErr => simpa [quietFrom, lastStatus] using hq
        | backendErr => simpa [quietFrom, lastStatus] using hq
      obtain ⟨a, b⟩ := ih _ step hi' hq'
      exact ⟨a, by rw [b, hlen]⟩
  obtain ⟨a, b⟩ := key rs ws h hi hq
  refine ⟨a.flush, ?_⟩
  rw [(flush_fields _).2.1, b]

/-- Batches whose streams are quiet relative to what the syncer has recorded for the emitting cache — which is
what `quiet_while_waiting` + `status_tracked` guarantee for every real cache, the syncer recording exactly the
statuses the cache announced. -/
def BatchesQuiet : WS → List (Nat × List Res) → Prop
  | _, [] => True
  | ws, (i, rs) :: bs =>
    (∃ hi : i < ws.cacheStatuses.length, quietFrom ws.cacheStatuses[i] rs = true) ∧
      BatchesQuiet (ws.processBatch i rs) bs

/-- **The syncer never delivers updates while it reports WaitForDatastore**: for any number of caches and any
interleaving of their (quiet) result batches, no `OnUpdates` callback happens while the last
`OnStatusUpdated` was WaitForDatastore. -/
theorem syncer_quiet_while_waiting (n : Nat) (bs : List (Nat × List Res))
    (hq : BatchesQuiet (WS.new (n + 1)) bs) :
    cbQuiet stWait ((WS.new (n + 1)).runBatches bs).cbs = true := by
  have h0 : WInv (WS.new (n + 1)) :=
    ⟨by simp [WS.new, aggregate, List.replicate_succ], rfl, rfl, fun c => absurd rfl c⟩
  have : ∀ (bs : List (Nat × List Res)) (ws : WS), WInv ws → BatchesQuiet ws bs → WInv (ws.runBatches bs) := by
    intro bs
    induction bs with
    | nil => intro ws h _; exact h
    | cons b bs ih =>
      intro ws h hb
      obtain ⟨⟨hi, hq1⟩, hrest⟩ := hb
      exact ih _ (h.processBatch b.1 hi b.2 hq1).1 hrest
  exact (this bs _ h0 hq).q.quiet

/-! ### composition: several real caches feeding one syncer -/

theorem processResult_cs (ws : WS) (i : Nat) (hi : i < ws.cacheStatuses.length) (r : Res) :
    (ws.processResult i r).cacheStatuses = ws.cacheStatuses.set i (lastStatus ws.cacheStatuses[i] [r]) := by
  cases r with
  | updates us => simp [WS.processResult, lastStatus]
  | convErr => simp [WS.processResult, (flush_fields ws).2.1, lastStatus]
  | backendErr => simp [WS.processResult, (flush_fields ws).2.1, lastStatus]
  | status s =>
    simp only [WS.processResult, lastStatus]
    split
    · show (WS.flush _).cacheStatuses = _
      rw [(flush_fields _).2.1]
    · rfl

theorem processBatch_cs (ws : WS) (i : Nat) (hi : i < ws.cacheStatuses.length) (rs : List Res) :
    (ws.processBatch i rs).cacheStatuses = ws.cacheStatuses.set i (lastStatus ws.cacheStatuses[i] rs) := by
  unfold WS.processBatch
  rw [(flush_fields _).2.1]
  induction rs generalizing ws with
  | nil => simp [lastStatus]
  | cons r rs ih =>
    simp only [List.foldl_cons]
    have hcs := processResult_cs ws i hi r
    have hi' : i < (ws.processResult i r).cacheStatuses.length := by rw [hcs]; simpa using hi
    rw [ih _ hi']
    have hget : (ws.processResult i r).cacheStatuses[i] = lastStatus ws.cacheStatuses[i] [r] := by
      simp [hcs]
    rw [hget, hcs, List.set_set]
    congr 1
    cases r <;> simp [lastStatus]

/-- `n` real caches (model `WC`) and the syncer that consumes their result batches. -/
structure Multi where
  caches : List WC
  ws : WS

def Multi.init (n : Nat) (proc : Option Proc) (sd : Bool) : Multi := ⟨List.replicate n (WC.new proc sd), WS.new n⟩

/-- Cache `i` performs one op; everything it emitted is one consolidation batch for the syncer. -/
def Multi.step (m : Multi) (iop : Nat × COp) : Multi :=
  match m.caches[iop.1]? with
  | none => m
  | some wc => ⟨m.caches.set iop.1 (wc.stepOp iop.2), m.ws.processBatch iop.1 (wc.stepOp iop.2).out⟩

def Multi.run (m : Multi) (ops : List (Nat × COp)) : Multi := ops.foldl Multi.step m

structure MInv (m : Multi) : Prop where
  ws : WInv m.ws
  len : m.ws.cacheStatuses.length = m.caches.length
  /-- every cache is between calls, and the syncer has recorded exactly the status the cache last announced -/
  each : ∀ (i : Nat) (wc : WC), m.caches[i]? = some wc →
    wc.old = none ∧ (wc.status = stWait → wc.rev = 0) ∧ m.ws.cacheStatuses[i]? = some wc.status

/-- What one op of a cache guarantees about the batch it emits. -/
theorem op_batch_ok (wc : WC) (hidle : wc.old = none) (howed : wc.status = stWait → wc.rev = 0) (op : COp)
    (hwf : op.WF) :
    (wc.stepOp op).old = none ∧ ((wc.stepOp op).status = stWait → (wc.stepOp op).rev = 0) ∧
      quietFrom wc.status (wc.stepOp op).out = true ∧ lastStatus wc.status (wc.stepOp op).out = (wc.stepOp op).status := by
  cases op with
  | call lists watches fin evs =>
    obtain ⟨w1, _, g1, hs1, hrun⟩ := call_ok_wc wc hidle howed lists watches fin evs hwf
    obtain ⟨g2, st2, _⟩ := eventLoop_ok evs g1 hs1
    simp only [WC.stepOp, hrun]
    exact ⟨g2.idle, fun c => by rw [st2] at c; exact absurd c hs1, g2.inv.quiet, g2.inv.track⟩
  | stop =>
    obtain ⟨g, _, hrev⟩ := sendDeletionsForAll_ok (start_good wc hidle)
    exact ⟨g.idle, fun _ => hrev, g.inv.quiet, g.inv.track⟩

theorem MInv.step {m : Multi} (h : MInv m) (iop : Nat × COp) (hwf : iop.2.WF) : MInv (m.step iop) := by
  unfold Multi.step
  cases hc : m.caches[iop.1]? with
  | none => exact h
  | some wc =>
    simp only
    obtain ⟨hidle, howed, hrec⟩ := h.each iop.1 wc hc
    have hi : iop.1 < m.ws.cacheStatuses.length := by
      rcases Nat.lt_or_ge iop.1 m.ws.cacheStatuses.length with c | c
      · exact c
      · rw [List.getElem?_eq_none c] at hrec; cases hrec
    have hget : m.ws.cacheStatuses[iop.1] = wc.status := by
      rw [List.getElem?_eq_getElem hi] at hrec
      exact Option.some.inj hrec
    obtain ⟨o1, o2, o3, o4⟩ := op_batch_ok wc hidle howed iop.2 hwf
    have hb := h.ws.processBatch iop.1 hi (wc.stepOp iop.2).out (by rw [hget]; exact o3)
    have hcs := processBatch_cs m.ws iop.1 hi (wc.stepOp iop.2).out
    rw [hget, o4] at hcs
    refine ⟨hb.1, by rw [hb.2, h.len]; simp, ?_⟩
    intro j w hj
    by_cases e : j = iop.1
    · subst e
      have hlt : iop.1 < m.caches.length := by rw [← h.len]; exact hi
      simp only [List.getElem?_set_self hlt, Option.some.injEq] at hj
      subst hj
      refine ⟨o1, o2, ?_⟩
      rw [hcs]
      simp [hi]
    · have hne : iop.1 ≠ j := fun x => e x.symm
      rw [List.getElem?_set_ne hne] at hj
      obtain ⟨a, b, c⟩ := h.each j w hj
      refine ⟨a, b, ?_⟩
      rw [hcs, List.getElem?_set_ne hne]
      exact c

theorem MInv.init (n : Nat) (procMode : Option Proc) (sd : Bool) : MInv (Multi.init (n + 1) procMode sd) := by
  refine ⟨⟨by simp [Multi.init, WS.new, aggregate, List.replicate_succ], rfl, rfl, fun c => absurd rfl c⟩, ?_, ?_⟩
  · simp [Multi.init, WS.new]
  · intro i wc hi
    simp only [Multi.init, List.getElem?_replicate] at hi
    split at hi
    · rename_i hlt
      simp only [Option.some.injEq] at hi
      subst hi
      refine ⟨rfl, fun _ => rfl, ?_⟩
      simp [Multi.init, WS.new, List.getElem?_replicate, hlt, WC.new]
    · cases hi

theorem MInv.run {m : Multi} (h : MInv m) (ops : List (Nat × COp)) (hwf : ∀ o ∈ ops, o.2.WF) : MInv (m.run ops) := by
  induction ops generalizing m with
  | nil => exact h
  | cons o ops ih =>
    exact ih (h.step o (hwf o (List.mem_cons_self ..))) (fun x hx => hwf x (List.mem_cons_of_mem _ hx))

/-- **No update is delivered while the syncer waits for the datastore — composed**: any number of real caches,
each running ANY scripts, their batches interleaved in ANY order into the syncer: no `OnUpdates` callback ever
happens while the last `OnStatusUpdated` was WaitForDatastore.  (This discharges the hypothesis of
`syncer_quiet_while_waiting` from `quiet_while_waiting` + `status_tracked`.) -/
theorem syncer_quiet_composed (n : Nat) (procMode : Option Proc) (sd : Bool) (ops : List (Nat × COp)) (hwf : ∀ o ∈ ops, o.2.WF) :
    cbQuiet stWait ((Multi.init (n + 1) procMode sd).run ops).ws.cbs = true :=
  ((MInv.init n procMode sd).run ops hwf).ws.q.quiet

/-- **In-sync only after every resource type — composed**: in the same setting, whenever the syncer's status is
InSync every cache's own status is InSync (and by `insync_only_after_list` each of them got there through a
completed List). -/
theorem syncer_insync_composed (n : Nat) (procMode : Option Proc) (sd : Bool) (ops : List (Nat × COp)) (hwf : ∀ o ∈ ops, o.2.WF) :
    let m := (Multi.init (n + 1) procMode sd).run ops
    m.ws.status = stInSync → ∀ (i : Nat) (wc : WC), m.caches[i]? = some wc → wc.status = stInSync := by
  intro m hs i wc hi
  have h : MInv m := (MInv.init n procMode sd).run ops hwf
  obtain ⟨_, _, hrec⟩ := h.each i wc hi
  have hall := (aggregate_insync_iff _).mp (h.ws.agg ▸ hs)
  have hmem : wc.status ∈ m.ws.cacheStatuses := List.mem_of_getElem? hrec
  exact hall _ hmem

/-! ### non-vacuity / regression examples on the executable model -/

/-- Two caches: the syncer goes InSync only when the second cache has finished its list. -/
example :
    ((WS.new 2).runBatches [(0, [.status stResync, .updates [⟨1, 5, utNew⟩], .status stInSync])]).status = stResync ∧
    ((WS.new 2).runBatches [(0, [.status stResync, .status stInSync]), (1, [.status stResync, .status stInSync])]).status
      = stInSync := by decide

/-- Mark-and-sweep on the model: the watch expires, the cache re-lists; key 2 vanished during the
resync and is deleted, key 1's unchanged revision is swallowed, key 3 is new. -/
example :
    let wc0 := runCall (WC.new none false) [] [] ([⟨1, 5, false⟩, ⟨2, 6, false⟩], 7) [.errExpired]
    let wc1 := runCall wc0 [] [] ([⟨1, 5, false⟩, ⟨3, 8, false⟩], 9) []
    wc0.rev = 0 ∧
    wc1.out = [.status stResync, .updates [⟨3, 8, utNew⟩], .updates [⟨2, 0, utDeleted⟩], .status stInSync] ∧
    wc1.res = [(3, 8), (1, 5)] ∧ wc1.rev = 9 := by decide

/-- A session with failures at every stage: first call lists fine; second call starts with an expired watch
revision (`rev = 0`), a List error past the retry timeout (the cache regresses to WaitForDatastore), an
expired List, two Watch-create failures, then the final List and events ending in a watch error.
Hypotheses of `cache_converges` hold; the stream contains a WaitForDatastore and is quiet. -/
def demoSession : List COp :=
  [ .call [] [] ([⟨1, 5, false⟩, ⟨2, 6, false⟩], 7) [.errExpired] ]

def demoCall : COp :=
  .call [.other true, .expired] [.other, .connRefused false] ([⟨1, 5, false⟩, ⟨3, 8, false⟩], 9)
    [.upsert ⟨4, 10, false⟩, .delete ⟨3, 11, false⟩, .errOther, .upsert ⟨5, 12, false⟩]

example : (∀ op ∈ demoSession, op.WF) ∧ demoCall.WF := by
  refine ⟨?_, by simp [demoCall, COp.WF]⟩
  intro op h
  simp only [demoSession, List.mem_singleton] at h
  subst h
  simp [COp.WF]

example : ((Sess.init none false).run demoSession).wc.rev = 0 ∧
    (((Sess.init none false).run demoSession).step demoCall).total =
      [.status stResync, .updates [⟨1, 5, utNew⟩], .updates [⟨2, 6, utNew⟩], .status stInSync,
       .status stResync, .backendErr, .status stWait, .status stResync,
       .updates [⟨3, 8, utNew⟩], .updates [⟨2, 0, utDeleted⟩], .status stInSync,
       .updates [⟨4, 10, utNew⟩], .updates [⟨3, 0, utDeleted⟩]] := by decide

/-- In that call two Lists fail and the final one succeeds: the ghost names the snapshot the theorem talks about,
and the call did complete a List. -/
example : lastListed ((Sess.init none false).run demoSession).wc [.other true, .expired] [.other, .connRefused false]
      ([⟨1, 5, false⟩, ⟨3, 8, false⟩], 9) = some [⟨1, 5, false⟩, ⟨3, 8, false⟩] ∧
    callListed ((Sess.init none false).run demoSession).wc [.other true, .expired] [.other, .connRefused false]
      ([⟨1, 5, false⟩, ⟨3, 8, false⟩], 9) = true := by decide

/-- A scripted List succeeds, the Watch then fails five times (forcing a re-list): the LAST list wins. -/
example : lastListed (WC.new none false) [.ok [⟨7, 1, false⟩] 2] [.other, .other, .other, .other, .other]
    ([⟨8, 3, false⟩], 4) = some [⟨8, 3, false⟩] := by decide

/-- The REAL-processor scenario (model of the conflict-resolving IPPool processor, `proc2`): List #1 returns two
resources with the same v1 index (k1 primary, k4 swallowed), the Watch is not supported (re-List), List #2 returns
only k4.  `OnSyncerStarting` is called before each List (2 calls), so the processor is fresh for List #2: the v1
key 301 ends with k4's revision — not deleted, not stale. -/
example :
    let wc := runCall (WC.new (some proc2) true) [.ok [⟨1, 1, false⟩, ⟨4, 4, false⟩] 5] [.notSupported] ([⟨4, 4, false⟩], 6) []
    wc.resets = 2 ∧ wc.res = [(301, 4)] ∧
    wc.out = [.status stResync, .updates [⟨301, 1, utNew⟩], .status stInSync, .updates [⟨301, 4, utUpdated⟩]] ∧
    convSeq (some proc2) [] [⟨4, 4, false⟩] = [⟨301, 4, false⟩] := by decide

/-- Everything vanished: a populated List + watch, the watch expires (410), the re-List returns zero items with a
zero revision and the call is observed in its polling steady state: the vanished resources are deleted, the cache
is InSync and polling. -/
example :
    let s := ((Sess.init none false).run
      [.call [] [] ([⟨1, 5, false⟩, ⟨2, 6, false⟩], 7) [.errExpired], .call [.pollStop] [] ([], 9) []])
    s.wc.res = [] ∧ s.wc.status = stInSync ∧ s.wc.listPolling = true ∧ s.wc.rev = 0 ∧
    s.total = [.status stResync, .updates [⟨1, 5, utNew⟩], .updates [⟨2, 6, utNew⟩], .status stInSync,
               .status stResync, .updates [⟨1, 0, utDeleted⟩, ⟨2, 0, utDeleted⟩], .status stInSync] := by decide

/-- A watch-resuming call: after a List, the watch breaks with an ordinary error (revision kept); the next call
re-creates the watch after one failed attempt WITHOUT listing (`lastListed = none`, hypothesis of
`watch_resume_extends`) and processes an add and a delete. -/
example :
    let s := (Sess.init none false).run [.call [] [] ([⟨1, 5, false⟩, ⟨2, 6, false⟩], 7) [.errOther]]
    lastListed s.wc [] [.other] ([], 9) = none ∧
    (s.step (.call [] [.other] ([], 9) [.upsert ⟨3, 8, false⟩, .delete ⟨1, 9, false⟩, .errExpired])).wc.res
      = [(3, 8), (2, 6)] ∧
    (sessionSpec none (Sess.init none false) (emptyView, [])
      [.call [] [] ([⟨1, 5, false⟩, ⟨2, 6, false⟩], 7) [.errOther],
       .call [] [.other] ([], 9) [.upsert ⟨3, 8, false⟩, .delete ⟨1, 9, false⟩, .errExpired]]).1 3 = some 8 := by
  decide

/-- Two caches feeding one syncer: the batches are quiet, the hypothesis of `syncer_quiet_while_waiting` holds. -/
example : BatchesQuiet (WS.new 2)
    [(0, [.status stResync, .updates [⟨1, 5, utNew⟩], .status stInSync]), (1, [.status stResync, .status stInSync])] := by
  refine ⟨⟨by decide, by decide⟩, ⟨by decide, by decide⟩, trivial⟩

end CalicoVerif.C26
