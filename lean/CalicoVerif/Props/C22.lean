import CalicoVerif.Proofs.C19b
import CalicoVerif.Model.C22
/-!
C22 — Each block has at most one confirmed owner.

Same model (`Cas.step`) and same quantification (ALL event sequences =
all interleavings / conflicts / crash points, crashes between the two claim
phases included) as C19.  BlockAffinity objects are compare-and-swap cells whose
state is written by `getPendingAffinity` / `confirmAffinity` /
`releaseBlockAffinity` / `deleteAffinity`; the block's own `Affinity` field is
the ownership record that allocation checks.

What is TRUE of the current code and proved here:
* `one_owner_record_partial` (over ALL runs): a block's recorded affinity never changes
  from one host to another; it only goes host → none (release) or the block is deleted.
* `release_requires_empty_partial`, `pending_not_ownership_partial`: the guards of the
  model's transitions unfolded (delete only of a block without live allocation; an
  affinity-checked allocation only into a block recording the allocating host); their
  content is the correspondence run, which checks every real write against these guards.

What is FALSE of the current code (witness traces below, reproduced on the real
client by the harness, corpus/C22/two-confirmed.ops, no fault injected):
* `affinity_matches_block` and `one_confirmed_owner` as statements about the
  BlockAffinity OBJECTS: a `ReleaseAffinity` and a `ClaimAffinity` of the same host
  racing on one block leave a confirmed affinity for a deleted block; another
  host then claims the block and two hosts hold confirmed affinities for it.
-/
namespace CalicoVerif.C22
open CalicoVerif.Cas CalicoVerif.C19

theorem gc_aff {F : List Nat} {b b' : Blk} (h : gc F b = some b') : b'.aff = b.aff := by
  unfold gc at h
  split at h
  · injection h with h; subst h; rfl
  · cases h

theorem applyBOp_aff {op : BOp} {b : Blk} {r : BRes} (h : applyBOp op b = some r) :
    r.v.aff = b.aff ∨ r.v.aff = none := by
  cases op <;> simp only [applyBOp] at h
  case assign => split at h <;> first | (injection h with h; subst h; exact Or.inl rfl) | cases h
  case assignIP =>
    split at h
    · rename_i v hv; injection h with h; subst h
      unfold assignIP at hv; split at hv
      · injection hv with hv; subst hv; exact Or.inl rfl
      · cases hv
    · cases h
  case release => split at h <;> first | (injection h with h; subst h; exact Or.inl rfl) | cases h
  case relh => split at h <;> first | (injection h with h; subst h; exact Or.inl rfl) | cases h
  case clearAff => injection h with h; subst h; exact Or.inr rfl
  case bump => injection h with h; subst h; exact Or.inl rfl

theorem rmw_aff {g1 g2 : List Nat} {op : BOp} {v : Blk} {res : BRes} (h : rmw g1 op g2 v = some res) :
    res.v.aff = v.aff ∨ res.v.aff = none := by
  unfold rmw at h
  split at h
  · cases h
  · rename_i b1 h1
    split at h
    · cases h
    · rename_i r1 h2
      split at h
      · cases h
      · rename_i b2 h3
        injection h with h; subst h
        have a1 := gc_aff h1
        have a3 := gc_aff h3
        rcases applyBOp_aff h2 with a2 | a2
        · left; simp only; rw [a3, a2, a1]
        · right; simp only; rw [a3, a2]

theorem owner_applyWrite {s s' : St} {c : Call}
    (hcur : c.verb = Verb.create → s.curRev c.key = none)
    (hw : applyWrite s c = some s') (b r r' : Nat) (v v' : Blk)
    (hb : s.blk b = some (r, v)) (hb' : s'.blk b = some (r', v')) : v'.aff = v.aff ∨ v'.aff = none := by
  unfold applyWrite at hw
  split at hw
  · rename_i b0 a0 n0 hk hv _
    injection hw with hw; subst hw
    simp only [upd] at hb'
    split at hb'
    · rename_i e; subst e
      have := hcur hv
      rw [hk] at this
      simp only [St.curRev, Option.map_eq_none_iff] at this
      rw [this] at hb; cases hb
    · rw [hb] at hb'; injection hb' with hb'; injection hb' with _ e; subst e; exact Or.inl rfl
  · rename_i b0 g1 op g2 _ _ _
    split at hw
    · cases hw
    · rename_i rv v0 hb0
      split at hw
      · cases hw
      · rename_i res hr
        split at hw
        · cases hw
        · injection hw with hw; subst hw
          simp only [upd] at hb'
          split at hb'
          · rename_i e; subst e
            rw [hb0] at hb; injection hb with hb; injection hb with _ e; subst e
            injection hb' with hb'; injection hb' with _ e; subst e
            exact rmw_aff hr
          · rw [hb] at hb'; injection hb' with hb'; injection hb' with _ e; subst e; exact Or.inl rfl
  · rename_i b0 g1 op g2 _ _ _
    split at hw
    · cases hw
    · split at hw
      · split at hw
        · split at hw
          · injection hw with hw; subst hw
            simp only [upd] at hb'
            split at hb'
            · cases hb'
            · rw [hb] at hb'; injection hb' with hb'; injection hb' with _ e; subst e; exact Or.inl rfl
          · cases hw
        · cases hw
      · split at hw
        · cases hw
        · split at hw
          · injection hw with hw; subst hw
            simp only [upd] at hb'
            split at hb'
            · cases hb'
            · rw [hb] at hb'; injection hb' with hb'; injection hb' with _ e; subst e; exact Or.inl rfl
          · cases hw
  all_goals first
    | (cases hw; done)
    | (injection hw with hw; subst hw; rw [hb] at hb'; injection hb' with hb'; injection hb' with _ e; subst e; exact Or.inl rfl)
    | (split at hw <;> first
        | (cases hw; done)
        | (injection hw with hw; subst hw; rw [hb] at hb'; injection hb' with hb'; injection hb' with _ e; subst e; exact Or.inl rfl)
        | (split at hw <;> first
            | (cases hw; done)
            | (injection hw with hw; subst hw; rw [hb] at hb'; injection hb' with hb'; injection hb' with _ e; subst e; exact Or.inl rfl))
        | (dsimp only at hw; split at hw <;> first
            | (cases hw; done)
            | (injection hw with hw; subst hw; rw [hb] at hb'; injection hb' with hb'; injection hb' with _ e; subst e; exact Or.inl rfl)))

/-- The ownership record of a block is single valued and never handed from one host
to another: across ANY step of ANY execution a stored block's affinity stays the
same or becomes none (ownership can only be taken by creating an absent block). -/
/- one-step helper of `one_owner_record_partial` -/
theorem owner_record_step (s s' : St) (e : Ev) (h : step s e = some s')
    (b r r' : Nat) (v v' : Blk) (hb : s.blk b = some (r, v)) (hb' : s'.blk b = some (r', v')) :
    v'.aff = v.aff ∨ v'.aff = none := by
  have same : s' = s → v'.aff = v.aff ∨ v'.aff = none := by
    intro e; subst e; rw [hb] at hb'; injection hb' with hb'; injection hb' with _ e; subst e; exact Or.inl rfl
  cases e with
  | tick => simp only [step] at h; injection h with h; exact same h.symm
  | «begin» t =>
    simp only [step] at h; injection h with h; subst h
    rw [hb] at hb'; injection hb' with hb'; injection hb' with _ e; subst e; exact Or.inl rfl
  | endOp t a =>
    simp only [step] at h
    split at h
    · injection h with h; exact same h.symm
    · cases h
  | call c =>
    simp only [step] at h
    split at h
    · rename_i ho
      split at h
      · split at h
        · refine owner_applyWrite ?_ h b r r' v v' hb hb'
          intro hv; rw [hv] at ho; exact casOutcome_create_ok ho
        · cases h
      · injection h with h; exact same h.symm
    · injection h with h; exact same h.symm

/-- (`_partial`: this is the admissibility guard of the model's block-delete transition
unfolded; its content lies in the correspondence run, which checks that every delete the
REAL releaseBlockAffinity issues is an instance of that transition.)
`releaseBlockAffinity`'s delete (no release in the same write) removes a block only
if the stored value it replaces — the compare-and-swap guarantees it is the value
the emptiness check was made on — holds no live allocation. -/
theorem release_requires_empty_partial (s s' : St) (c : Call) (hw : applyWrite s c = some s')
    (b : Nat) (g1 g2 : List Nat) (hk : c.key = Key.blk b) (hv : c.verb = Verb.delete)
    (hp : c.pl = Payload.blkDelete g1 none g2) (r : Nat) (v : Blk) (hb : s.blk b = some (r, v)) :
    ∀ (o h : Nat), v.slots[o]? ≠ some (Slot.live h) := by
  intro o h hl
  unfold applyWrite at hw
  rw [hk, hv, hp] at hw
  simp only [hb] at hw
  split at hw
  · rename_i v1 hg
    split at hw
    · rename_i hc
      simp only [Bool.and_eq_true] at hc
      have hl1 := gc_keeps_live hg hl
      have he := hc.1
      unfold Blk.empty at he
      simp only [List.all_eq_true, beq_iff_eq] at he
      have := he _ (List.mem_of_getElem? hl1)
      cases this
    · cases hw
  · cases hw

/-- (`_partial`: the `ownOk` guard of `Cas.step` unfolded; content = the correspondence run
checks that every affinity-checked allocation of the REAL client passes that guard.)
Pending is not ownership: every allocation made with the affinity check by host `x`
is a compare-and-swap against a stored block value that records `x` as its affinity. -/
theorem pending_not_ownership_partial (s s' : St) (c : Call) (x b : Nat)
    (h : step s (.call c) = some s') (hown : c.own = some x) (hk : c.key = Key.blk b)
    (hw : c.verb.isWrite = true)
    (hok : casOutcome (s.curRev c.key) c.verb c.rev c.fault = Outcome.ok) :
    ∃ r v, s.blk b = some (r, v) ∧ v.aff = some x :=
  own_guard h hown hk hw hok

/-- Block `b` is absent in some state along the run. -/
def absentAlong (b : Nat) : St → List Ev → Prop
  | s, [] => s.blk b = none
  | s, e :: es => s.blk b = none ∨
    match step s e with
    | some s1 => absentAlong b s1 es
    | none => False

/-- Run-level (ALL event lists = all interleavings / conflicts / crash points): as long as a
block is never absent in between, its recorded affinity at the end is what it was at the
start, or none — ownership is never handed from one host to another; a new owner can only
appear by creating the block after it was deleted.  (`_partial`: this is about the
ownership RECORD in the block; the statements about BlockAffinity objects are refuted below.) -/
theorem one_owner_record_partial : ∀ (evs : List Ev) (s s' : St) (b r r' : Nat) (v v' : Blk),
    run s evs = some s' → s.blk b = some (r, v) → s'.blk b = some (r', v') → ¬ absentAlong b s evs →
    v'.aff = v.aff ∨ v'.aff = none
  | [], s, s', b, r, r', v, v', hr, hb, hb', _ => by
    simp only [run] at hr; injection hr with hr; subst hr
    rw [hb] at hb'; injection hb' with hb'; injection hb' with _ e; subst e; exact Or.inl rfl
  | e :: es, s, s', b, r, r', v, v', hr, hb, hb', hna => by
    simp only [run] at hr
    split at hr
    · rename_i s1 h1
      have hna1 : ¬ absentAlong b s1 es := by
        intro hc; apply hna; simp only [absentAlong, h1]; exact Or.inr hc
      cases hb1 : s1.blk b with
      | none =>
        exfalso; apply hna1
        cases es <;> simp only [absentAlong] <;> first | exact hb1 | exact Or.inl hb1
      | some p =>
        obtain ⟨r1, v1⟩ := p
        have st := owner_record_step s s1 e h1 b r r1 v v1 hb hb1
        have ih := one_owner_record_partial es s1 s' b r1 r' v1 v' hr hb1 hb' hna1
        rcases ih with ih | ih
        · rcases st with st | st
          · left; rw [ih, st]
          · right; rw [ih, st]
        · right; exact ih
    · cases hr


/-- Every stored block revision is at most the datastore's revision counter. -/
def RevB (s : St) : Prop := ∀ b r v, s.blk b = some (r, v) → r ≤ s.rev

theorem revB_applyWrite {s s' : St} {c : Call} (hi : RevB s) (hw : applyWrite s c = some s') :
    RevB s' ∧ s.rev ≤ s'.rev := by
  have key : ∀ (x : Option (Nat × Blk)) (b0 : Nat), (∀ r v, x = some (r, v) → r ≤ s.rev + 1) →
      ∀ b r v, upd s.blk b0 x b = some (r, v) → r ≤ s.rev + 1 := by
    intro x b0 hx b r v h
    unfold upd at h
    split at h
    · exact hx r v h
    · have := hi b r v h; omega
  have same : ∀ b r v, s.blk b = some (r, v) → r ≤ s.rev + 1 := fun b r v h => by have := hi b r v h; omega
  unfold applyWrite at hw
  split at hw
  · injection hw with hw; subst hw
    exact ⟨key _ _ (fun r v hx => by injection hx with hx; injection hx with e _; omega), by simp⟩
  · split at hw
    · cases hw
    · split at hw
      · cases hw
      · split at hw
        · cases hw
        · injection hw with hw; subst hw
          exact ⟨key _ _ (fun r v hx => by injection hx with hx; injection hx with e _; omega), by simp⟩
  · split at hw
    · cases hw
    · split at hw
      · split at hw
        · split at hw
          · injection hw with hw; subst hw; exact ⟨key _ _ (fun r v hx => by cases hx), by simp⟩
          · cases hw
        · cases hw
      · split at hw
        · cases hw
        · split at hw
          · injection hw with hw; subst hw; exact ⟨key _ _ (fun r v hx => by cases hx), by simp⟩
          · cases hw
  all_goals first
    | (cases hw; done)
    | (injection hw with hw; subst hw; exact ⟨same, by simp⟩)
    | (split at hw <;> first
        | (cases hw; done)
        | (injection hw with hw; subst hw; exact ⟨same, by simp⟩)
        | (split at hw <;> first
            | (cases hw; done)
            | (injection hw with hw; subst hw; exact ⟨same, by simp⟩))
        | (dsimp only at hw; split at hw <;> first
            | (cases hw; done)
            | (injection hw with hw; subst hw; exact ⟨same, by simp⟩)))

theorem revB_step {s s' : St} {e : Ev} (hi : RevB s) (h : step s e = some s') : RevB s' ∧ s.rev ≤ s'.rev := by
  have triv : RevB s ∧ s.rev ≤ s.rev := ⟨hi, Nat.le_refl _⟩
  cases e with
  | tick => simp only [step] at h; injection h with h; subst h; exact triv
  | «begin» t => simp only [step] at h; injection h with h; subst h; exact triv
  | endOp t a =>
    simp only [step] at h
    split at h
    · injection h with h; subst h; exact triv
    · cases h
  | call c =>
    simp only [step] at h
    split at h
    · split at h
      · split at h
        · exact revB_applyWrite hi h
        · cases h
      · injection h with h; subst h; exact triv
    · injection h with h; subst h; exact triv

theorem revB_run : ∀ (evs : List Ev) (s s' : St), RevB s → run s evs = some s' → RevB s' ∧ s.rev ≤ s'.rev
  | [], s, s', hi, h => by simp only [run] at h; injection h with h; subst h; exact ⟨hi, Nat.le_refl _⟩
  | e :: es, s, s', hi, h => by
    simp only [run] at h
    split at h
    · rename_i s1 h1
      have a := revB_step hi h1
      have b := revB_run es s1 s' a.1 h
      exact ⟨b.1, by omega⟩
    · cases h

/-- The block rewrite of `getBlockFromAffinity` ("writing block to get a new revision") is what
makes a concurrent `releaseBlockAffinity` fail: let a releaser read block `b` at revision `q`
(state `s1`), let ANYTHING happen (`evs2`), let the claimer's rewrite of `b` succeed; then the
releaser's compare-and-delete / compare-and-swap of `b` with its revision `q` cannot succeed,
whatever fault is injected. -/
theorem claim_invalidates_concurrent_release (r0 nb : Nat) (evs1 evs2 : List Ev) (s1 s2 s3 : St)
    (h1 : run (St.init r0 nb) evs1 = some s1) (b q : Nat) (v : Blk) (hread : s1.blk b = some (q, v))
    (h2 : run s1 evs2 = some s2)
    (c : Call) (hk : c.key = Key.blk b) (hv : c.verb = Verb.update) (g1 g2 : List Nat)
    (hp : c.pl = Payload.blkRmw g1 BOp.bump g2)
    (hok : casOutcome (s2.curRev c.key) c.verb c.rev c.fault = Outcome.ok)
    (h3 : step s2 (.call c) = some s3) :
    ∀ (verb : Verb) (f : Fault), verb = Verb.delete ∨ verb = Verb.update →
      casOutcome (s3.curRev (Key.blk b)) verb (some q) f ≠ Outcome.ok := by
  have hb0 : RevB (St.init r0 nb) := by intro b r v h; cases h
  have a1 := revB_run evs1 _ s1 hb0 h1
  have a2 := revB_run evs2 s1 s2 a1.1 h2
  have hq : q ≤ s2.rev := by have := a1.1 b q v hread; omega
  -- the rewrite stores the block at revision s2.rev + 1
  have hnew : ∃ v', s3.blk b = some (s2.rev + 1, v') := by
    simp only [step] at h3
    split at h3
    · split at h3
      · split at h3
        · unfold applyWrite at h3
          rw [hk, hv, hp] at h3
          simp only at h3
          split at h3
          · cases h3
          · split at h3
            · cases h3
            · rename_i res _
              split at h3
              · cases h3
              · injection h3 with h3; subst h3
                exact ⟨res.v, by simp [upd]⟩
        · cases h3
      · rename_i hnw
        rw [hv] at hnw
        simp [Verb.isWrite] at hnw
    · rename_i hne
      exact absurd hok hne
  obtain ⟨v', hb3⟩ := hnew
  intro verb f hverb
  simp only [St.curRev, hb3, Option.map_some]
  have hne : (q != s2.rev + 1) = true := by simp; omega
  rcases hverb with e | e <;> subst e <;> cases f <;> simp [casOutcome, hne]


/-- (`_partial`: the `licStep` guard unfolded; its content is the driver evaluating it on every
real call.)  The claim paths as call sequences (`step22`): in every run, a write of a BlockAffinity to
`confirmed` by thread `t` succeeds only if `t` holds the licence for exactly that (host,
block) — obtained, since its last `pending` write, by its own block create, its own read
after a lost create, or its own block rewrite.  (The guard of `licStep`; the driver
evaluates it on every real call, so a DROPPED block rewrite in getBlockFromAffinity is a
model/code disagreement.) -/
theorem confirm_requires_own_block_write_partial (s s' : St22) (c : Call) (x b : Nat)
    (h : step22 s (.call c) = some s') (hk : c.key = Key.aff x b) (hv : c.verb = Verb.update)
    (hp : c.pl = Payload.affSt AffSt.confirmed)
    (hok : casOutcome (s.cas.curRev c.key) c.verb c.rev c.fault = Outcome.ok) :
    s.l.lic c.t = some (x, b) := by
  simp only [step22] at h
  cases hl : licStep s.l s.cas c with
  | none => simp [hl] at h
  | some l' =>
    unfold licStep at hl
    rw [hk, hv, hp] at hl
    simp only [hk, hv] at hok
    simp only [hok, beq_self_eq_true, if_true] at hl
    split at hl
    · rename_i hc; simpa using hc
    · cases hl

/-! ### The full-strength affinity-object statements are false -/

def ConfirmedMatches (s : St) : Prop :=
  ∀ x b r, s.aff x b = some (r, AffSt.confirmed) → ∃ rv v, s.blk b = some (rv, v) ∧ v.aff = some x

def OneConfirmed (s : St) : Prop :=
  ∀ x y b r1 r2, s.aff x b = some (r1, AffSt.confirmed) → s.aff y b = some (r2, AffSt.confirmed) → x = y

def w (t : Nat) (verb : Verb) (key : Key) (rev : Option Nat) (pl : Payload) : Ev :=
  .call { t := t, fault := .none, verb := verb, key := key, rev := rev, pl := pl }

/-- Host 1 owns block 0.  Thread 6 = `ReleaseAffinity(host 1, block 0)`, thread 7 =
`ClaimAffinity(host 1, block 0)`, no fault: 7 re-marks the affinity pending after 6
marked it pendingDeletion, sees the block still there and affine to host 1; 6
deletes the block (its block revision is still current); 7 confirms. -/
def rd (t : Nat) (key : Key) : Ev :=
  .call { t := t, fault := .none, verb := .get, key := key, rev := none, pl := .noev }

def raceTrace : List Ev :=
  [w 2 .create (.aff 1 0) none (.affSt .pending),          -- rev 104
   w 2 .create (.blk 0) none (.blkCreate 1 2),             -- rev 105
   w 2 .update (.aff 1 0) (some 104) (.affSt .confirmed),  -- rev 106
   w 7 .create (.aff 1 0) none .noev,                      -- exists
   rd 6 (.aff 1 0), rd 6 (.blk 0),
   w 6 .update (.aff 1 0) (some 106) (.affSt .pendingDeletion), -- rev 107
   rd 7 (.aff 1 0),
   w 7 .update (.aff 1 0) (some 107) (.affSt .pending),    -- rev 108
   w 7 .create (.blk 0) none .noev,                        -- exists
   rd 7 (.blk 0),                                          -- "already claimed by this host"
   w 6 .delete (.blk 0) (some 105) (.blkDelete [] none []),-- rev 109
   w 7 .update (.aff 1 0) (some 108) (.affSt .confirmed)]  -- rev 110

/-- …then host 0 claims the (absent) block. -/
def raceTrace2 : List Ev := raceTrace ++
  [w 6 .delete (.aff 1 0) (some 107) .affDel,              -- conflict
   w 8 .create (.aff 0 0) none (.affSt .pending),          -- rev 111
   w 8 .create (.blk 0) none (.blkCreate 0 2),             -- rev 112
   w 8 .update (.aff 0 0) (some 111) (.affSt .confirmed)]  -- rev 113

def init22 : St22 := { cas := St.init 103 2, l := Lic.init }
def raceEnd : St22 := (run22 init22 raceTrace).getD init22
def raceEnd2 : St22 := (run22 init22 raceTrace2).getD init22

theorem run_race : run22 init22 raceTrace = some raceEnd := by rfl
theorem run_race2 : run22 init22 raceTrace2 = some raceEnd2 := by rfl

/-- "A block's recorded affinity matches its confirmed claim" is false of the code — refuted
over `run22`, i.e. over runs that ALSO satisfy the claim-path call-sequence model the driver
checks on the real client (affinity objects created pending only; a confirm only after the
thread's own block create / read after a lost create / block rewrite).  The trace is the
real client's log (reads included), corpus/C22/two-confirmed.ops. -/
theorem affinity_matches_block_false :
    ¬ (∀ evs s, run22 init22 evs = some s → ConfirmedMatches s.cas) := by
  intro H
  obtain ⟨rv, v, hb, _⟩ := H raceTrace raceEnd run_race 1 0 110 (by decide)
  have : raceEnd.cas.blk 0 = none := by decide
  rw [this] at hb; cases hb

/-- "A block is confirmed as affine to at most one host" (as a statement about
BlockAffinity objects) is false of the code — again over `run22`. -/
theorem one_confirmed_owner_false :
    ¬ (∀ evs s, run22 init22 evs = some s → OneConfirmed s.cas) := by
  intro H
  have := H raceTrace2 raceEnd2 run_race2 1 0 0 110 113 (by decide) (by decide)
  cases this

/-- The licence model is not vacuous the other way: confirming without the thread's own block
write is NOT a run (this is the seeded "dropped block rewrite" of getBlockFromAffinity). -/
example : (run22 init22
    [w 2 .create (.aff 1 0) none (.affSt .pending), w 2 .create (.blk 0) none (.blkCreate 1 2),
     rd 4 (.aff 1 0), rd 4 (.blk 0),
     w 4 .update (.aff 1 0) (some 104) (.affSt .pending),
     w 4 .update (.aff 1 0) (some 106) (.affSt .confirmed)]).isSome = false := by decide

/-- non-vacuity: a strict-affinity allocation step as in `pending_not_ownership`. -/
example : ∃ s s', run (St.init 100 1)
      [w 1 .create (.blk 0) none (.blkCreate 3 2), w 1 .create (.hdl 1) none (.hInc 0 1)] = some s ∧
    step s (.call { t := 1, fault := .none, verb := .update, key := .blk 0, rev := some 101,
                    pl := .blkRmw [] (.assign 1 1 []) [], own := some 3 }) = some s' ∧
    (s'.blk 0).map (·.2.slots) = some [.live 1, .free] :=
  ⟨_, _, rfl, rfl, by decide⟩

end CalicoVerif.C22
