import CalicoVerif.Model.C10
/-!
C10 — Workload traffic dispatch is exact and fails closed.
-/
namespace CalicoVerif.C10
open CalicoVerif.Netfilter

/-- `dedupAdj` keeps exactly the members of its input. -/
theorem mem_dedupAdj (last : Option Bytes) (l : List Bytes) (x : Bytes) :
    x ∈ dedupAdj last l → x ∈ l := by
  induction l generalizing last with
  | nil => simp [dedupAdj]
  | cons n ns ih =>
    simp only [dedupAdj]
    split
    · intro h; exact List.mem_cons_of_mem _ (ih _ h)
    · intro h
      rcases List.mem_cons.1 h with h | h
      · exact h ▸ List.mem_cons_self
      · exact List.mem_cons_of_mem _ (ih _ h)

end CalicoVerif.C10
