import CalicoVerif.Proofs.C10
/-!
C10 — Workload traffic dispatch is exact and fails closed.

Property theorems (helper lemmas: `CalicoVerif.Proofs.C10`).  "Handed to the chain `c`" is
expressed as: evaluation of the dispatch root chain equals the evaluation of `c` — and since
the endpoint chains are not part of the dispatch chain set, `evalChain` reports `.missing c`
(control left the dispatch chains towards exactly `c`).

Naming: `workload_dispatch_exact_nft` (static rendering + verdict map contents = `DispatchMappings`)
and the name theorems are full strength.  The two map-tracking theorems `maps_apply_exact_partial`
and `nft_dispatch_after_history_partial` are `…_partial` because the model of `felix/nftables/maps.go`
behind them is an idealisation (see their doc-comments): one successful `Apply()` from an arbitrary
tracked state; resync, failed transactions and retries are not modelled — the real `Maps` / `Table`
code is exercised through histories by the harness over the knftables fake instead.
The prefix-tree theorems are `…_partial`: they carry the guard "no configured name ends in the wildcard byte", without which
the property is false of the code (a name `c+` is rendered as the pattern `c+`, see the last
`example`; unreachable for Calico-generated interface names), and the host theorem covers
`HostDispatchChains(endpoints, default, applyOnForward = false)` only.

Guards (each stated as an explicit hypothesis, each necessary — see the `example`s at the end):
* no configured name is empty (the real code panics; `sortAndDivide = none`);
* no configured name ends in the dataplane's wildcard byte (`+` / `*`): such a name is a pattern;
(The chain-name side condition `chainNamesOK` — rendered chain names pairwise distinct and distinct
from the endpoint chain names — is PROVED for every name list: `workload_names_ok`, `host_names_ok`.)
-/
namespace CalicoVerif.C10
open CalicoVerif.Netfilter

/-- The buckets computed by `sortAndDivideEndpointNamesToPrefixTree` partition exactly the
configured names by "common prefix + next byte", and the bucket of the bare common prefix is a
singleton (this is where sorting + adjacent de-duplication is needed). -/
theorem sortAndDivide_buckets {names : List Bytes} {t : Tree} (h : sortAndDivide names = some t) :
    TreeOK names t := sortAndDivide_ok h

theorem childChain_multi (chainName ifx epPfx : String) (d : IfDir) (cp : Bytes) (endRules : List Rule)
    (b : Bytes × List Bytes) (hm : ∀ n, b.2 ≠ [n]) :
    childChain chainName ifx epPfx d cp endRules b =
      some { name := childChainName chainName ifx cp b.1,
             rules := b.2.map (endpointRule epPfx d) ++ endRules } := by
  obtain ⟨p, ns⟩ := b
  rcases ns with _ | ⟨a, _ | ⟨c, cs⟩⟩
  · rfl
  · exact absurd rfl (hm a)
  · rfl

/-- **Prefix-tree dispatch is exact** (any dataplane, any end rules, any chain set that contains
the tree's chains): a packet on a configured interface leaves the dispatch chains towards that
interface's endpoint chain and no other; any other packet reaches the end rules. -/
theorem tree_chain_exact_partial (env : Env) (chains : List Chain) (pkt : Packet) (d : IfDir)
    (names : List Bytes) (t : Tree) (chainName ifx epPfx : String) (endRules : List Rule)
    (G : Nat) (mark : Mark)
    (hsd : sortAndDivide names = some t)
    (hw : ∀ n ∈ names, n.getLast? ≠ some (wildcardByte env.dp))
    (hsub : ∀ c, c ∈ (buildTree env.dp chainName t epPfx d endRules ifx).1 ∨
                 c = (buildTree env.dp chainName t epPfx d endRules ifx).2 → c ∈ chains)
    (hnd : (chains.map (·.name)).Nodup)
    (hext : ∀ n ∈ names, lookupChain chains (endpointChainName epPfx n) = none) :
    (ifaceOf d pkt ∈ names →
      evalChain env chains pkt (G + 3) chainName mark =
        .missing (endpointChainName epPfx (ifaceOf d pkt))) ∧
    (ifaceOf d pkt ∉ names → ∃ F, 1 ≤ F ∧
      evalChain env chains pkt (G + 3) chainName mark =
        runRules env (evalChain env chains pkt F) pkt endRules mark) := by
  have ok := sortAndDivide_ok hsd
  have hroot := lookupChain_of_mem hnd (hsub _ (Or.inr rfl))
  simp only [buildTree] at hroot
  rw [evalChain_of_lookup hroot]
  have hchild : ∀ b ∈ t.buckets, (∀ n, b.2 ≠ [n]) → ∀ m,
      evalChain env chains pkt (G + 2) (childChainName chainName ifx t.commonPrefix b.1) m =
        runRules env (evalChain env chains pkt (G + 1)) pkt
          (b.2.map (endpointRule epPfx d) ++ endRules) m := by
    intro b hb hm m
    have hc : ({ name := childChainName chainName ifx t.commonPrefix b.1,
                 rules := b.2.map (endpointRule epPfx d) ++ endRules } : Chain) ∈ chains := by
      apply hsub; left
      simp only [buildTree]
      exact List.mem_filterMap.2 ⟨b, hb, childChain_multi _ _ _ _ _ _ b hm⟩
    have := lookupChain_of_mem hnd hc
    exact evalChain_of_lookup this _ _
  have h := tree_dispatch env (evalChain env chains pkt (G + 2)) (evalChain env chains pkt (G + 1))
    pkt d mark names t chainName ifx epPfx endRules ok hw hchild
  constructor
  · intro hx
    have hmiss := hext _ hx
    rcases h.1 hx with h1 | h1
    · rw [h1]; exact evalChain_missing hmiss _ _
    · rw [h1]; exact evalChain_missing hmiss _ _
  · intro hx
    rcases h.2 hx with h1 | h1
    · exact ⟨G + 2, by omega, h1⟩
    · exact ⟨G + 1, by omega, h1⟩

theorem runRules_deny (env : Env) (call : String → Mark → Result) (pkt : Packet) (reject : Bool)
    (mark : Mark) :
    runRules env call pkt (unknownIfaceRules reject) mark =
      .verdict (if reject then .reject else .drop) mark := by
  cases reject <;> simp [unknownIfaceRules, denyAction, runRules, Rule.matches, resolveAction]

/-- **Workload dispatch (iptables) is exact and fails closed**, both directions: traffic from /
to a configured workload interface goes to that interface's `cali-fw-` / `cali-tw-` chain,
traffic on any other interface is dropped (or rejected, per `FilterDenyAction`). -/
theorem workload_dispatch_exact_ipt_partial (names : List Bytes) (reject : Bool) (chains : List Chain)
    (pkt : Packet) (G : Nat) (mark : Mark)
    (hc : workloadDispatchChains .ipt reject names = some chains)
    (hw : ∀ n ∈ names, n.getLast? ≠ some (wildcardByte .ipt)) :
    evalChain (mkEnv .ipt names) chains pkt (G + 3) chainFromWl mark =
      (if pkt.inIface ∈ names then .missing (endpointChainName pfxFromWl pkt.inIface)
       else .verdict (if reject then .reject else .drop) mark) ∧
    evalChain (mkEnv .ipt names) chains pkt (G + 3) chainToWl mark =
      (if pkt.outIface ∈ names then .missing (endpointChainName pfxToWl pkt.outIface)
       else .verdict (if reject then .reject else .drop) mark) := by
  have hok := workload_names_ok .ipt reject names chains hc
  unfold workloadDispatchChains interfaceNameDispatchChains at hc
  split at hc
  · exact absurd hc (by simp)
  · rename_i t hsd
    have hc := Option.some.inj hc
    simp only [chainNamesOK, Bool.and_eq_true, decide_eq_true_eq, List.all_eq_true,
      List.mem_append, List.mem_map, Option.isNone_iff_eq_none] at hok
    obtain ⟨hnd, hext⟩ := hok
    have hbs : ∀ (cn pf : String) (d : IfDir) (e : List Rule),
        buildSingle .ipt cn t pf d e "" = buildTree .ipt cn t pf d e "" := by
      intro cn pf d e; simp [buildSingle]
    simp only [hbs, pfxFromWl, pfxToWl, ne_eq, String.reduceEq, not_false_eq_true, if_true] at hc
    constructor
    · have h := tree_chain_exact_partial (mkEnv .ipt names) chains pkt .inp names t chainFromWl "" pfxFromWl
        (unknownIfaceRules reject) G mark hsd hw
        (by
          intro c hcm; rw [← hc]
          simp only [pfxFromWl, mkEnv] at hcm
          rcases hcm with h | h
          · simp only [List.mem_append]; exact Or.inl (Or.inl h)
          · subst h; simp)
        hnd (fun n hn => hext _ (Or.inl ⟨n, hn, rfl⟩))
      simp only [ifaceOf] at h
      split
      · rename_i hx; exact h.1 hx
      · rename_i hx
        obtain ⟨F, _, hF⟩ := h.2 hx
        rw [hF, runRules_deny]
    · have h := tree_chain_exact_partial (mkEnv .ipt names) chains pkt .out names t chainToWl "" pfxToWl
        (unknownIfaceRules reject) G mark hsd hw
        (by
          intro c hcm; rw [← hc]
          simp only [pfxToWl, mkEnv] at hcm
          rcases hcm with h | h
          · simp only [List.mem_append]; exact Or.inr (Or.inl h)
          · subst h; simp)
        hnd (fun n hn => hext _ (Or.inr ⟨n, hn, rfl⟩))
      simp only [ifaceOf] at h
      split
      · rename_i hx; exact h.1 hx
      · rename_i hx
        obtain ⟨F, _, hF⟩ := h.2 hx
        rw [hF, runRules_deny]

/-! ### nftables: verdict-map dispatch -/

theorem find_assoc_map (ks : List Bytes) (f : Bytes → String) (key : Bytes) :
    ((ks.map fun n => (n, f n)).find? fun kv => kv.1 == key) =
      if key ∈ ks then some (key, f key) else none := by
  induction ks with
  | nil => simp
  | cons k ks ih =>
    simp only [List.map_cons, List.find?_cons]
    by_cases h : k = key
    · subst h; simp
    · rw [show (k == key) = false from by simpa using h, ih]
      simp [List.mem_cons, Ne.symm h]

theorem vmapEnv_from (names : List Bytes) (key : Bytes) :
    vmapEnv names chainFromWl key =
      if key ∈ names then some (.goto (endpointChainName pfxFromWl key)) else none := by
  simp only [vmapEnv, dispatchMappings, if_true]
  rw [find_assoc_map]
  simp only [mem_uniq]
  split <;> simp

theorem vmapEnv_to (names : List Bytes) (key : Bytes) :
    vmapEnv names chainToWl key =
      if key ∈ names then some (.goto (endpointChainName pfxToWl key)) else none := by
  simp only [vmapEnv, dispatchMappings, chainToWl, chainFromWl, String.reduceEq, if_false, if_true]
  rw [find_assoc_map]
  simp only [mem_uniq]
  split <;> simp

theorem runRules_vmap_hit (env : Env) (call : String → Mark → Result) (pkt : Packet) (d : Dir)
    (name t : String) (rs : List Rule) (mark : Mark)
    (h : env.vmap name (if d = .src then pkt.inIface else pkt.outIface) = some (.goto t)) :
    runRules env call pkt (({ action := .vmap d name } : Rule) :: rs) mark = call t mark := by
  simp [runRules, Rule.matches, resolveAction, h]

theorem runRules_vmap_miss (env : Env) (call : String → Mark → Result) (pkt : Packet) (d : Dir)
    (name : String) (rs : List Rule) (mark : Mark)
    (h : env.vmap name (if d = .src then pkt.inIface else pkt.outIface) = none) :
    runRules env call pkt (({ action := .vmap d name } : Rule) :: rs) mark =
      runRules env call pkt rs mark := by
  simp [runRules, Rule.matches, resolveAction, h, applyMark]

/-- **Workload dispatch (nftables verdict map) is exact and fails closed**: with the map
contents given by `DispatchMappings`, the root chain hands a packet on a configured interface to
that interface's chain, and denies everything else. -/
theorem workload_dispatch_exact_nft (names : List Bytes) (reject : Bool) (chains : List Chain)
    (pkt : Packet) (G : Nat) (mark : Mark)
    (hc : workloadDispatchChains .nft reject names = some chains) :
    evalChain (mkEnv .nft names) chains pkt (G + 2) chainFromWl mark =
      (if pkt.inIface ∈ names then .missing (endpointChainName pfxFromWl pkt.inIface)
       else .verdict (if reject then .reject else .drop) mark) ∧
    evalChain (mkEnv .nft names) chains pkt (G + 2) chainToWl mark =
      (if pkt.outIface ∈ names then .missing (endpointChainName pfxToWl pkt.outIface)
       else .verdict (if reject then .reject else .drop) mark) := by
  have hok := workload_names_ok .nft reject names chains hc
  unfold workloadDispatchChains interfaceNameDispatchChains at hc
  split at hc
  · exact absurd hc (by simp)
  · rename_i t hsd
    have hc := Option.some.inj hc
    simp only [chainNamesOK, Bool.and_eq_true, decide_eq_true_eq, List.all_eq_true,
      List.mem_append, List.mem_map, Option.isNone_iff_eq_none] at hok
    obtain ⟨hnd, hext⟩ := hok
    simp only [buildSingle, pfxFromWl, pfxToWl, ne_eq, String.reduceEq, not_false_eq_true, if_true,
      true_and, or_true, true_or, and_self, List.nil_append] at hc
    have h1 : lookupChain chains chainFromWl =
        some (({ action := .vmap .src chainFromWl } : Rule) :: unknownIfaceRules reject) := by
      have := lookupChain_of_mem hnd (c := buildVmap chainFromWl .inp (unknownIfaceRules reject))
        (by rw [← hc]; simp)
      simpa [buildVmap] using this
    have h2 : lookupChain chains chainToWl =
        some (({ action := .vmap .dst chainToWl } : Rule) :: unknownIfaceRules reject) := by
      have := lookupChain_of_mem hnd (c := buildVmap chainToWl .out (unknownIfaceRules reject))
        (by rw [← hc]; simp)
      simpa [buildVmap] using this
    constructor
    · rw [evalChain_of_lookup h1]
      by_cases hx : pkt.inIface ∈ names
      · rw [if_pos hx, runRules_vmap_hit _ _ _ _ _ (endpointChainName pfxFromWl pkt.inIface)]
        · exact evalChain_missing (hext _ (Or.inl ⟨_, hx, rfl⟩)) _ _
        · simp [mkEnv, vmapEnv_from, hx]
      · rw [if_neg hx, runRules_vmap_miss]
        · exact runRules_deny _ _ _ _ _
        · simp [mkEnv, vmapEnv_from, hx]
    · rw [evalChain_of_lookup h2]
      by_cases hx : pkt.outIface ∈ names
      · rw [if_pos hx, runRules_vmap_hit _ _ _ _ _ (endpointChainName pfxToWl pkt.outIface)]
        · exact evalChain_missing (hext _ (Or.inr ⟨_, hx, rfl⟩)) _ _
        · simp [mkEnv, vmapEnv_to, hx]
      · rw [if_neg hx, runRules_vmap_miss]
        · exact runRules_deny _ _ _ _ _
        · simp [mkEnv, vmapEnv_to, hx]

/-! ### host endpoint dispatch -/

theorem runRules_goto_only (env : Env) (call : String → Mark → Result) (pkt : Packet) (t : String)
    (mark : Mark) :
    runRules env call pkt [({ action := .goto t } : Rule)] mark = call t mark := by
  simp [runRules, Rule.matches, resolveAction]

theorem runRules_skip (env : Env) (call : String → Mark → Result) (pkt : Packet) (wlp : List Bytes)
    (rest : List Rule) (mark : Mark) :
    runRules env call pkt
      (wlp.map (skipWorkloadRule env.dp) ++ rest) mark =
      if wlp.any (fun p => p.isPrefixOf pkt.outIface) then .returned mark
      else runRules env call pkt rest mark := by
  induction wlp with
  | nil => simp
  | cons p ps ih =>
    simp only [List.map_cons, List.cons_append, skipWorkloadRule, runRules, Rule.matches, List.all_cons, List.all_nil,
      Clause.matches, ifaceMatches_wild, Bool.and_true, resolveAction, List.any_cons]
    by_cases h : p.isPrefixOf pkt.outIface = true
    · simp [h]
    · have h' : p.isPrefixOf pkt.outIface = false := Bool.eq_false_iff.2 h
      simp only [h', Bool.false_eq_true, if_false, Bool.false_or]
      exact ih

/-- **Host endpoint dispatch is exact** (`HostDispatchChains(endpoints, default, false)`, either
dataplane): known host interfaces go to their own `cali-fh-`/`cali-th-` chain; anything else goes
to the wildcard host endpoint's chain only if one is configured (and, towards a workload
interface prefix, not at all); with no wildcard endpoint the packet just returns. -/
theorem host_dispatch_exact_partial (dp : Dataplane) (names : List Bytes) (dflt : Bytes) (wlp : List Bytes)
    (chains : List Chain) (pkt : Packet) (G : Nat) (mark : Mark)
    (hc : hostDispatchChains dp names dflt wlp .both false = some chains)
    (hw : ∀ n ∈ names, n.getLast? ≠ some (wildcardByte dp)) :
    evalChain (mkEnv dp names) chains pkt (G + 3) "cali-from-host-endpoint" mark =
      (if pkt.inIface ∈ names then .missing (endpointChainName "cali-fh-" pkt.inIface)
       else if dflt = [] then .returned mark
       else .missing (endpointChainName "cali-fh-" dflt)) ∧
    evalChain (mkEnv dp names) chains pkt (G + 3) "cali-to-host-endpoint" mark =
      (if pkt.outIface ∈ names then .missing (endpointChainName "cali-th-" pkt.outIface)
       else if dflt = [] then .returned mark
       else if wlp.any (fun p => p.isPrefixOf pkt.outIface) then .returned mark
       else .missing (endpointChainName "cali-th-" dflt)) := by
  have hok := host_names_ok dp names dflt wlp chains hc
  unfold hostDispatchChains at hc
  simp only [Bool.false_eq_true, not_false_eq_true, and_true, if_true] at hc
  unfold interfaceNameDispatchChains at hc
  split at hc
  · exact absurd hc (by simp)
  · rename_i t hsd
    have hc := Option.some.inj hc
    simp only [chainNamesOK, Bool.and_eq_true, decide_eq_true_eq, List.all_eq_true,
      List.mem_append, List.mem_map, Option.isNone_iff_eq_none, List.mem_cons,
      List.not_mem_nil, or_false] at hok
    obtain ⟨hnd, hext⟩ := hok
    have hbs : ∀ (cn pf : String) (d : IfDir) (e : List Rule), pf ≠ pfxFromWl → pf ≠ pfxToWl →
        buildSingle dp cn t pf d e "" = buildTree dp cn t pf d e "" := by
      intro cn pf d e h1 h2; simp [buildSingle, h1, h2]
    rw [hbs _ "cali-fh-" _ _ (by decide) (by decide), hbs _ "cali-th-" _ _ (by decide) (by decide)] at hc
    simp only [ne_eq, String.reduceEq, not_false_eq_true, if_true] at hc
    have hmissF : ∀ F, 1 ≤ F → dflt ≠ [] →
        evalChain (mkEnv dp names) chains pkt F (endpointChainName "cali-fh-" dflt) mark =
          .missing (endpointChainName "cali-fh-" dflt) := by
      intro F hF _
      obtain ⟨F', rfl⟩ : ∃ F', F = F' + 1 := ⟨F - 1, by omega⟩
      exact evalChain_missing (hext _ (Or.inr (Or.inl rfl))) _ _
    have hmissT : ∀ F, 1 ≤ F → dflt ≠ [] →
        evalChain (mkEnv dp names) chains pkt F (endpointChainName "cali-th-" dflt) mark =
          .missing (endpointChainName "cali-th-" dflt) := by
      intro F hF _
      obtain ⟨F', rfl⟩ : ∃ F', F = F' + 1 := ⟨F - 1, by omega⟩
      exact evalChain_missing (hext _ (Or.inr (Or.inr rfl))) _ _
    constructor
    · have h := tree_chain_exact_partial (mkEnv dp names) chains pkt .inp names t "cali-from-host-endpoint" ""
        "cali-fh-" _ G mark hsd hw
        (by
          intro c hcm; rw [← hc]
          simp only [mkEnv] at hcm
          rcases hcm with h | h
          · simp only [List.mem_append]; exact Or.inl (Or.inl h)
          · subst h; simp)
        hnd (fun n hn => hext _ (Or.inl (Or.inl ⟨n, hn, rfl⟩)))
      simp only [ifaceOf] at h
      split
      · rename_i hx; exact h.1 hx
      · rename_i hx
        obtain ⟨F, hF1, hF⟩ := h.2 hx
        rw [hF]
        by_cases hd : dflt = []
        · simp [hd, runRules]
        · simp only [hd, not_false_eq_true, if_true, if_false, runRules_goto_only]
          exact hmissF F hF1 hd
    · have h := tree_chain_exact_partial (mkEnv dp names) chains pkt .out names t "cali-to-host-endpoint" ""
        "cali-th-" _ G mark hsd hw
        (by
          intro c hcm; rw [← hc]
          simp only [mkEnv] at hcm
          rcases hcm with h | h
          · simp only [List.mem_append]; exact Or.inr (Or.inl h)
          · subst h; simp)
        hnd (fun n hn => hext _ (Or.inl (Or.inr ⟨n, hn, rfl⟩)))
      simp only [ifaceOf] at h
      split
      · rename_i hx; exact h.1 hx
      · rename_i hx
        obtain ⟨F, hF1, hF⟩ := h.2 hx
        rw [hF]
        by_cases hd : dflt = []
        · simp [hd, runRules]
        · simp only [hd, not_false_eq_true, if_true, if_false]
          have := runRules_skip (mkEnv dp names) (evalChain (mkEnv dp names) chains pkt F) pkt wlp
            [({ action := .goto (endpointChainName "cali-th-" dflt) } : Rule)] mark
          simp only [mkEnv] at this ⊢
          rw [this]
          split
          · rfl
          · rw [runRules_goto_only]; exact hmissT F hF1 hd

/-! ### nftables: the verdict maps through histories of workload sets -/

/-- **`AddOrReplaceMap` + one successful `Apply()` converges from any prior TRACKED state of the
map**: afterwards the (tracked) kernel content is exactly the new member set — nothing at all when
the new set is empty.

`_partial`, and modest: the model (`Model/C10.lean`, `MapState`) is
`desired := m; dataplane := (dataplane \ toDel) ++ toAdd`, so this theorem is little more than the
set algebra of that definition (`(D \ (D \ m)) ∪ (m \ D) = m`).  What it does NOT cover:
`Dataplane()` is taken to be the real kernel content (no out-of-band change, no
`LoadDataplaneState` resync), every transaction succeeds (no failure / retry paths), and "any
history" only means "any start value of the tracked state".  Whether the real `maps.go` computes
these sets (e.g. the seeded early return of `AddOrReplaceMap` on the empty set) is checked by the
harness on the real `nftables.Maps` over the knftables fake, not by this theorem. -/
theorem maps_apply_exact_partial (s : MapState) (m : List Member) (e : Member) :
    e ∈ ((s.addOrReplace m).apply).dataplane ↔ e ∈ m := mapState_apply_mem s m e

/-- the kernel state of the two maps after (any history followed by) a workload-set update and
`Apply()` yields exactly the verdicts of `DispatchMappings` for that set -/
theorem setWorkloads_env (s : MapsState) (names : List Bytes) :
    (s.setWorkloads names).env = mkEnv .nft names := by
  unfold MapsState.env mkEnv
  congr 1
  funext mapName key
  simp only [MapsState.setWorkloads, vmapEnv, dispatchMappings, MapState.verdict]
  by_cases h1 : mapName = chainFromWl
  · simp only [h1, if_true]
    have := find_val_of_set_eq _ _ (mapState_apply_mem s.fromWl _) (dispatchMappings_functional names pfxFromWl) key
    have h' := congrArg (Option.map Action.goto) this
    simpa [Option.map_map, Function.comp_def] using h'
  · by_cases h2 : mapName = chainToWl
    · simp only [h1, h2, if_false, if_true]
      have hne : ¬ chainToWl = chainFromWl := by decide
      simp only [hne, if_false]
      have := find_val_of_set_eq _ _ (mapState_apply_mem s.toWl _) (dispatchMappings_functional names pfxToWl) key
      have h' := congrArg (Option.map Action.goto) this
      simpa [Option.map_map, Function.comp_def] using h'
    · simp [h1, h2]

/-- **nftables workload dispatch is exact on the map state reached from any prior tracked state**
(in particular any state left by earlier workload-interface sets, including transitions to and
from the empty set): once the endpoint manager has pushed the set `names` through
`AddOrReplaceMap` and one successful `Apply()`, a packet on a configured interface is handed to
that interface's chain and any other interface — in particular one that WAS configured earlier —
is denied.  `_partial` for the same reason as `maps_apply_exact_partial`: the map tracking is the
idealised `MapState` model (arbitrary start state; no resync, failure or retry). -/
theorem nft_dispatch_after_history_partial (s : MapsState) (names : List Bytes) (reject : Bool) (chains : List Chain)
    (pkt : Packet) (G : Nat) (mark : Mark)
    (hc : workloadDispatchChains .nft reject names = some chains) :
    evalChain (s.setWorkloads names).env chains pkt (G + 2) chainFromWl mark =
      (if pkt.inIface ∈ names then .missing (endpointChainName pfxFromWl pkt.inIface)
       else .verdict (if reject then .reject else .drop) mark) ∧
    evalChain (s.setWorkloads names).env chains pkt (G + 2) chainToWl mark =
      (if pkt.outIface ∈ names then .missing (endpointChainName pfxToWl pkt.outIface)
       else .verdict (if reject then .reject else .drop) mark) := by
  rw [setWorkloads_env]
  exact workload_dispatch_exact_nft names reject chains pkt G mark hc

/-! ### non-vacuity and necessity of the guards -/

/-- "cali1", "cali12", "calix" — a child chain for bucket `cali1`, a direct rule for `calix`. -/
def exNames : List Bytes := [[99,97,108,105,49], [99,97,108,105,49,50], [99,97,108,105,120]]

theorem sortNames_exNames : sortNames exNames = exNames :=
  List.mergeSort_of_pairwise (by decide)

example : (sortAndDivide exNames).isSome = true := by
  simp only [sortAndDivide, sortNames_exNames]; decide
example : ∀ n ∈ exNames, n.getLast? ≠ some (wildcardByte .ipt) := by decide

/-- The wildcard guard is necessary: with the configured name "c+" (iptables) the rule
`--in-interface c+` also matches the unknown interface "cx", which is therefore sent to the
chain of "c+" instead of being dropped. -/
example : ifaceMatches .ipt [99, 43] [99, 120] = true := by decide
example :
    runRules (mkEnv .ipt [[99, 43]]) (fun t _ => .missing t) { inIface := [99, 120] }
      ([endpointRule pfxFromWl .inp [99, 43]] ++ unknownIfaceRules false) 0 ≠ .verdict .drop 0 := by
  decide

end CalicoVerif.C10
