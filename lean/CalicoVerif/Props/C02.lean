import CalicoVerif.Model.C02
/-!
C02 — Felix's output stream never references something the dataplane lacks.
-/
namespace CalicoVerif.C02

/-- placeholder first theorem: an empty sequencer flushes nothing. -/
theorem flush_init_empty : (({} : State).flush).2 = [] := by decide

end CalicoVerif.C02
