import CalicoVerif.Proofs.C02Routes
import CalicoVerif.Proofs.C03Dirty
/-!
C02 — Felix's output stream never references something the dataplane lacks.

Model: `CalicoVerif.Model.C02` (EventSequencer + AsyncCalcGraph flush logic).  Vocabulary
(`Proofs/C02Spec`, `Proofs/C02Hist`): `DP` = the dataplane state described by a message stream,
`DP.apply` = effect of one message, `WF d m` = message `m` is well-formed on arrival at state `d`
(deltas add only absent / remove only present members of an existing set, removals name existing
objects), `AllWF` / `AfterEach` = "for every message of the stream, in order", `execHist` = run a
history (upstream calls interleaved with flushes at arbitrary points), `upHist` = the state upstream
has declared, `ValidHist` = upstream respects the IP-set protocol, `ClosedAtFlushes` = the declared
state is reference-closed whenever a flush happens (the calc graph's obligation).
All theorems quantify over ALL histories and ALL placements of flushes.
-/
namespace CalicoVerif.C02

/-- (ii) `delta_wellformed` + "removals name only existing objects" + no panic: for every history of
protocol-respecting upstream calls with flushes anywhere, the sequencer never panics and EVERY
emitted message is well-formed against the dataplane state produced by all messages before it. -/
theorem stream_wellformed (h : List Step) (hv : ValidHist {} h) :
    ∃ s ms, execHist {} h = some (s, ms) ∧ AllWF {} ms := by
  obtain ⟨s, ms, he, hw, _⟩ := hist_ok Inv.init h hv
  exact ⟨s, ms, he, hw⟩

/-- (iv) `coalesce_sound`: after any history followed by a flush, the dataplane state described by
the whole emitted stream IS the state upstream has declared (IP sets incl. members, policies,
profiles, endpoints, VTEPs, routes, pass-through objects). -/
theorem coalesce_sound (h : List Step) (hv : ValidHist {} h) :
    ∃ s ms, execHist {} (h ++ [.flush]) = some (s, ms) ∧ ({} : DP).applyAll ms = upHist {} h := by
  obtain ⟨s, ms, he, _, hi⟩ := hist_ok Inv.init h hv
  have hs := flush_synced hi
  refine ⟨s.flush.1, ms ++ s.flush.2, execHist_append_flush he, ?_⟩
  · rw [applyAll_append]; exact hs

/-- (i) `flush_refs_closed`, IP set / policy / profile / endpoint part: if the state upstream has
declared is reference-closed whenever a flush happens, then after EVERY SINGLE emitted message the
dataplane holds no dangling reference: every policy's and profile's IP sets exist, every endpoint's
policies and profiles exist.  (Route → VTEP: `routes_closed`; both together: `flush_refs_closed`.) -/
theorem policy_refs_closed (h : List Step) (hv : ValidHist {} h) (hc : ClosedAtFlushes {} h) :
    ∃ s ms, execHist {} h = some (s, ms) ∧ AfterEach DP.closedMain {} ms :=
  hist_closed Inv.init (by simp [DP.closedMain]) h hv hc

/-- (iii) `insync_not_before`: whatever input events the AsyncCalcGraph loop processes (updates —
abstracted to the upstream calls they cause —, status changes, timer ticks), an `InSync` message is
in its output only if an `api.InSync` status is among the events processed so far. -/
theorem insync_not_before (evs : List AcgEvent) (a : Acg) (ms : List Msg)
    (hr : acgRun {} evs = some (a, ms)) (hm : Msg.inSync ∈ ms) : evs.any isInSyncStatus = true := by
  have := (acg_run (a := {}) (by simp [AcgInv]) hr).2 hm
  simpa using this

theorem afterEach_and {P Q : DP → Prop} {d : DP} {ms : List Msg} (hp : AfterEach P d ms) (hq : AfterEach Q d ms) :
    AfterEach (fun x => P x ∧ Q x) d ms := by
  induction ms generalizing d with
  | nil => exact ⟨hp, hq⟩
  | cons m t ih => exact ⟨⟨hp.1, hq.1⟩, ih hp.2 hq.2⟩

/-- (i) `flush_refs_closed`, route → VTEP part, for ALL histories and placements of flushes: if the
declared state is route-closed at every flush, then after EVERY SINGLE emitted message every route's
VTEP is present (flush order: route removes, VTEP adds, route adds/updates, VTEP removes — the order
of /repo commit 5d49db3; with the previous order this was false, see the regression example below). -/
theorem routes_closed (h : List Step) (hv : ValidHist {} h) (hr : RoutesClosedAtFlushes {} h) :
    ∃ s ms, execHist {} h = some (s, ms) ∧ AfterEach DP.closedRoutes {} ms :=
  hist_closed_routes Inv.init (by intro dst r n h1; simp at h1) h hv hr

/-- (i) `flush_refs_closed`, full statement: if the declared state is reference-closed at every flush
(IP set → policy/profile → endpoint, and route → VTEP), then after EVERY SINGLE emitted message the
dataplane holds no dangling reference of any of these kinds. -/
theorem flush_refs_closed (h : List Step) (hv : ValidHist {} h) (hc : ClosedAtFlushes {} h)
    (hr : RoutesClosedAtFlushes {} h) :
    ∃ s ms, execHist {} h = some (s, ms) ∧ AfterEach DP.closed {} ms := by
  obtain ⟨s, ms, e1, c1⟩ := policy_refs_closed h hv hc
  obtain ⟨s', ms', e2, c2⟩ := routes_closed h hv hr
  rw [e1] at e2; simp only [Option.some.injEq, Prod.mk.injEq] at e2
  obtain ⟨_, rfl⟩ := e2
  exact ⟨s, ms, e1, afterEach_and c1 c2⟩

/-! ### regression: the history on which the previous flush order left a route dangling -/

/-- A route that needs VTEP `n2` is re-pointed (same destination) and the VTEP removed, both between
two flushes.  Before /repo commit 5d49db3 (`Flush` sent VTEP removes before route updates) the stream
was `…; vtep-rm n2; route-upd r` and route `r` pointed at the removed VTEP after the third message
(oracle signature `dangling-route-vtep`).  Now the route update comes first. -/
def routeVtepWitness : List Step :=
  [Step.call (.routeUpdate "r" ⟨"a", some "n2"⟩), Step.call (.vtepUpdate "n2" "b"), Step.flush,
   Step.call (.routeUpdate "r" ⟨"a", none⟩), Step.call (.vtepRemove "n2"), Step.flush]

theorem route_vtep_regression :
    (execHist {} routeVtepWitness).map (·.2) = some [Msg.vtepUpdate "n2" "b", Msg.routeUpdate "r" ⟨"a", some "n2"⟩,
      Msg.routeUpdate "r" ⟨"a", none⟩, Msg.vtepRemove "n2"] ∧
    ValidHist {} routeVtepWitness ∧ RoutesClosedAtFlushes {} routeVtepWitness := by
  refine ⟨by decide, by simp [routeVtepWitness, ValidHist, upValid], ?_⟩
  simp only [routeVtepWitness, RoutesClosedAtFlushes, upApply, DP.closedRoutes]
  refine ⟨?_, ?_, trivial⟩
  · intro dst r n h1 h2
    simp only [fupd] at h1 ⊢
    by_cases hd : dst = "r"
    · simp only [hd, if_true, Option.some.injEq] at h1
      subst h1; simp only [Option.some.injEq] at h2; subst h2; simp
    · simp [hd] at h1
  · intro dst r n h1 h2
    simp only [fupd] at h1
    by_cases hd : dst = "r"
    · simp only [hd, if_true, Option.some.injEq] at h1
      subst h1; simp at h2
    · simp [hd] at h1

/-- Closure hypothesis discharged on the resolver side, for histories with ARBITRARY sync-status
sequences (status regressions after in-sync included; `Event.status` is just another event of the
history): after any history followed by a flush, the last `OnEndpointTierUpdate` the PolicyResolver
has handed to the sequencer for an endpoint lists only policies that currently match that endpoint
(`matchedHistory [] hist`: the match-started calls of the history not yet followed by match-stopped).
So when the ActiveRulesCalculator declares a policy inactive (its last match stopped) no endpoint
update presented to the sequencer references it: the endpoint → policy part of `ClosedAtFlushes`
holds at every flush of the real wiring (resolver flushed before the sequencer).  What makes this
true under status regressions is the one-way latch of `OnDatamodelStatus` (model: `.status` never
resets `inSync`); with `InitialSyncCompleted = (status == InSync)` the real code violates it
(seeded change C02-2, caught by the graph-mode correspondence and oracle `graph-dangling-*`). -/
theorem status_latch_refs_live (K : PolicyKey → Prop) (hK : C03.KeyU K) (hist : List C03.RStep) (hin : C03.HistIn K hist)
    (r : C03.Resolver) (L : C03.Last) (hr : C03.runL {} (fun _ => none) (hist ++ [.flush]) = some (r, L))
    (e : EpKey) (u : EpUpd) (hu : L e = some (some u)) :
    ∀ t ∈ u.tiers, ∀ kv ∈ t.policies, (kv.key, e) ∈ C03.matchedHistory [] hist := by
  have h := C03.last_update_refs_live hK hist hin hr e u hu
  have t2 := (C03.runL_tables (hist ++ [.flush]) hr).2.1
  rw [(C03.tables_append_flush hist).2.1] at t2
  rw [← t2]; exact h

/-! ### non-vacuity -/

/-- A non-trivial history satisfying the hypotheses of `stream_wellformed`, `coalesce_sound` and
`policy_refs_closed`: an IP set with a member, a policy using it, a profile, an endpoint using
both, a flush, then member churn, an in-window remove/re-add of the IP set and a policy deactivation. -/
def sampleHist : List Step :=
  [Step.call (.ipsetAdded "s1" 0), Step.call (.memberAdded "s1" "10.0.0.1"),
   Step.call (.policyActive ⟨"p", "", "gnp"⟩ ⟨"t", ["s1"]⟩), Step.call (.profileActive "prof" ⟨"t", []⟩),
   Step.call (.endpointUpdate (.wep "e") (some ⟨⟨"x", ["prof"]⟩,
     [⟨"default", none, "Deny", true, [⟨⟨"p", "", "gnp"⟩, ⟨none, false, false, false, true, true, "default"⟩⟩]⟩]⟩)),
   Step.flush,
   Step.call (.memberAdded "s1" "10.0.0.2"), Step.call (.memberRemoved "s1" "10.0.0.1"),
   Step.flush,
   Step.call (.endpointUpdate (.wep "e") none), Step.call (.policyInactive ⟨"p", "", "gnp"⟩),
   Step.call (.ipsetRemoved "s1"), Step.call (.ipsetAdded "s1" 1),
   Step.flush]

example : (execHist {} sampleHist).map (·.2) = some
    [Msg.ipsetUpdate "s1" 0 ["10.0.0.1"], Msg.policyUpdate ⟨"p", "", "gnp"⟩ ⟨"t", ["s1"]⟩, Msg.profileUpdate "prof" ⟨"t", []⟩,
     Msg.wepUpdate "e" ⟨"x", ["prof"]⟩ [⟨"default", "Deny", [⟨"p", "", "gnp"⟩], [⟨"p", "", "gnp"⟩]⟩],
     Msg.ipsetDelta "s1" ["10.0.0.2"] ["10.0.0.1"],
     Msg.ipsetUpdate "s1" 1 [], Msg.wepRemove "e", Msg.policyRemove ⟨"p", "", "gnp"⟩] := by decide

/-- hypotheses of the three history theorems hold for a history with member churn across flushes -/
def smallHist : List Step :=
  [Step.call (.ipsetAdded "s1" 0), Step.call (.memberAdded "s1" "m"), Step.call (.policyActive ⟨"p", "", "gnp"⟩ ⟨"t", ["s1"]⟩),
   Step.flush, Step.call (.memberRemoved "s1" "m"), Step.flush]

example : ValidHist {} smallHist ∧ ClosedAtFlushes {} smallHist := by
  refine ⟨?_, ?_⟩
  · simp [smallHist, ValidHist, upValid, upApply, fupd]
  · simp [smallHist, ClosedAtFlushes, upApply, fupd, DP.closedMain]

example : (execHist {} smallHist).map (·.2) = some
    [Msg.ipsetUpdate "s1" 0 ["m"], Msg.policyUpdate ⟨"p", "", "gnp"⟩ ⟨"t", ["s1"]⟩, Msg.ipsetDelta "s1" [] ["m"]] := by decide

/-- the hypothesis of `insync_not_before` is satisfiable with an `InSync` in the output -/
example : (acgRun {} [.tick, .status .inSync []]).map (·.2) = some [Msg.inSync] := by decide

end CalicoVerif.C02
