import CalicoVerif.Model.C41
import CalicoVerif.Proofs.C18
/-!
C41 — Flow offload never bypasses endpoints that need per-packet processing.

"Established" is read as conntrack state ESTABLISHED or RELATED (what the rule matches and what
felix/design/dataplane.md states: NEW and INVALID packets still traverse policy).
-/
namespace CalicoVerif.C41
open CalicoVerif.C18 (GoMap get set del NodupKeys get_set get_del nodupKeys_set nodupKeys_del
  nodupKeys_nil get_eq_some_iff)

/-- The property's own state: the current endpoints (whatever their QoS settings). -/
structure Spec where
  w : Nat → Option Wep
  h : Nat → Option Hep

def Spec.empty : Spec := ⟨fun _ => none, fun _ => none⟩

def specStep (s : Spec) : Op → Spec
  | .wepUpdate id w => { s with w := fun i => if id = i then some w else s.w i }
  | .wepRemove id => { s with w := fun i => if id = i then none else s.w i }
  | .hepUpdate id h => { s with h := fun i => if id = i then some h else s.h i }
  | .hepRemove id => { s with h := fun i => if id = i then none else s.h i }
  | .complete => s

def specRun (ops : List Op) : Spec := ops.foldl specStep Spec.empty

/-- `ip` is an address (of the manager's IP version) of a current workload endpoint that needs the
forward hooks, or of a current host endpoint with DSCP policies. -/
def Excluded (ipv : Nat) (s : Spec) (ip : String) : Prop :=
  (∃ id w, s.w id = some w ∧ workloadNeedsForwardHooks w = true ∧ ip ∈ stripSubnetMasks (w.nets ipv)) ∨
  (∃ id h, s.h id = some h ∧ h.nQos ≠ 0 ∧ ip ∈ stripSubnetMasks (h.ips ipv))

/-- `workloadNeedsForwardHooks` is exactly "DSCP marking or a connection or packet rate limit";
bandwidth settings play no role. -/
theorem needs_iff (w : Wep) :
    workloadNeedsForwardHooks w = true ↔
      w.present = true ∧ (w.nQos > 0 ∨ ∃ q, w.controls = some q ∧ (q.imc ≠ 0 ∨ q.emc ≠ 0 ∨ q.ipr ≠ 0 ∨ q.epr ≠ 0)) := by
  unfold workloadNeedsForwardHooks
  cases hp : w.present <;> simp
  by_cases hq : w.nQos > 0
  · simp [hq]
  · simp only [hq, if_false, false_or]
    cases hc : w.controls with
    | none => simp
    | some q => simp [bne_iff_ne, or_assoc]

def trackedW (ipv : Nat) (e : Option Wep) : Option (List String) :=
  e.bind (fun w => if workloadNeedsForwardHooks w then some (stripSubnetMasks (w.nets ipv)) else none)
def trackedH (ipv : Nat) (e : Option Hep) : Option (List String) :=
  e.bind (fun h => if h.nQos = 0 then none else some (stripSubnetMasks (h.ips ipv)))

/-- Refinement relation + the meaning of `dirty`. -/
structure Rel (ipv : Nat) (m : Mgr) (s : Spec) : Prop where
  ver : m.ipVersion = ipv
  w : ∀ id, get m.wepIPs id = trackedW ipv (s.w id)
  h : ∀ id, get m.hepIPs id = trackedH ipv (s.h id)
  nw : NodupKeys m.wepIPs
  nh : NodupKeys m.hepIPs
  clean : m.dirty = false → ∃ ms, m.last = some ms ∧ ∀ ip, ip ∈ ms ↔ ip ∈ m.members

theorem step_rel (ipv : Nat) (m : Mgr) (s : Spec) (op : Op) (r : Rel ipv m s) :
    Rel ipv (m.step op) (specStep s op) := by
  obtain ⟨ver, rw', rh, nw, nh, clean⟩ := r
  cases op with
  | wepUpdate id w =>
    simp only [Mgr.step, specStep]
    cases hn : workloadNeedsForwardHooks w
    · simp only [Bool.not_false, if_true, Mgr.removeWorkload]
      cases hg : get m.wepIPs id with
      | none =>
        refine ⟨ver, ?_, rh, nw, nh, clean⟩
        intro i
        by_cases hi : id = i
        · subst hi; simp [trackedW, hn, hg]
        · simp [hi, rw' i]
      | some x =>
        refine ⟨ver, ?_, rh, nodupKeys_del _ _ nw, nh, by simp⟩
        intro i
        by_cases hi : id = i
        · subst hi; simp [trackedW, hn, get_del]
        · simp [hi, get_del, rw' i]
    · simp only [Bool.not_true, Bool.false_eq_true, if_false]
      refine ⟨ver, ?_, rh, nodupKeys_set _ _ _ nw, nh, by simp⟩
      intro i
      by_cases hi : id = i
      · subst hi; simp [trackedW, hn, get_set, ver]
      · simp [hi, get_set, rw' i]
  | wepRemove id =>
    simp only [Mgr.step, specStep, Mgr.removeWorkload]
    cases hg : get m.wepIPs id with
    | none =>
      refine ⟨ver, ?_, rh, nw, nh, clean⟩
      intro i
      by_cases hi : id = i
      · subst hi; simp [trackedW, hg]
      · simp [hi, rw' i]
    | some x =>
      refine ⟨ver, ?_, rh, nodupKeys_del _ _ nw, nh, by simp⟩
      intro i
      by_cases hi : id = i
      · subst hi; simp [trackedW, get_del]
      · simp [hi, get_del, rw' i]
  | hepUpdate id h =>
    simp only [Mgr.step, specStep]
    by_cases hn : h.nQos = 0
    · simp only [hn, if_true, Mgr.removeHost]
      cases hg : get m.hepIPs id with
      | none =>
        refine ⟨ver, rw', ?_, nw, nh, clean⟩
        intro i
        by_cases hi : id = i
        · subst hi; simp [trackedH, hn, hg]
        · simp [hi, rh i]
      | some x =>
        refine ⟨ver, rw', ?_, nw, nodupKeys_del _ _ nh, by simp⟩
        intro i
        by_cases hi : id = i
        · subst hi; simp [trackedH, hn, get_del]
        · simp [hi, get_del, rh i]
    · simp only [hn, if_false]
      refine ⟨ver, rw', ?_, nw, nodupKeys_set _ _ _ nh, by simp⟩
      intro i
      by_cases hi : id = i
      · subst hi; simp [trackedH, hn, get_set, ver]
      · simp [hi, get_set, rh i]
  | hepRemove id =>
    simp only [Mgr.step, specStep, Mgr.removeHost]
    cases hg : get m.hepIPs id with
    | none =>
      refine ⟨ver, rw', ?_, nw, nh, clean⟩
      intro i
      by_cases hi : id = i
      · subst hi; simp [trackedH, hg]
      · simp [hi, rh i]
    | some x =>
      refine ⟨ver, rw', ?_, nw, nodupKeys_del _ _ nh, by simp⟩
      intro i
      by_cases hi : id = i
      · subst hi; simp [trackedH, get_del]
      · simp [hi, get_del, rh i]
  | complete =>
    simp only [Mgr.step, specStep]
    cases hd : m.dirty
    · simp only [Bool.not_false, if_true]
      exact ⟨ver, rw', rh, nw, nh, clean⟩
    · simp only [Bool.not_true, Bool.false_eq_true, if_false]
      exact ⟨ver, rw', rh, nw, nh, fun _ => ⟨m.members, rfl, fun ip => Iff.rfl⟩⟩

theorem run_rel (ipv : Nat) (ops : List Op) : Rel ipv (run ipv ops) (specRun ops) := by
  unfold run specRun
  suffices h : ∀ m s, Rel ipv m s → Rel ipv (ops.foldl Mgr.step m) (ops.foldl specStep s) by
    apply h
    exact ⟨rfl, fun _ => rfl, fun _ => rfl, nodupKeys_nil, nodupKeys_nil, by simp [Mgr.new]⟩
  induction ops with
  | nil => intro m s r; exact r
  | cons op rest ih => intro m s r; exact ih _ _ (step_rel ipv m s op r)

theorem mem_flatten_values (m : GoMap Nat (List String)) (hn : NodupKeys m) (ip : String) :
    ip ∈ (m.map (·.2)).flatten ↔ ∃ id ips, get m id = some ips ∧ ip ∈ ips := by
  simp only [List.mem_flatten, List.mem_map]
  constructor
  · rintro ⟨l, ⟨p, hp, rfl⟩, hip⟩
    exact ⟨p.1, p.2, (get_eq_some_iff m hn p.1 p.2).2 hp, hip⟩
  · rintro ⟨id, ips, hg, hip⟩
    exact ⟨ips, ⟨(id, ips), (get_eq_some_iff m hn id ips).1 hg, rfl⟩, hip⟩

/-- **The exclusion set is exact.**  After ANY history of endpoint updates/removals and
`CompleteDeferredWork` calls, whenever no work is pending (`dirty = false`) the members of the last
`AddOrReplaceIPSet` are exactly the addresses of the current endpoints that need per-packet hooks. -/
theorem exclusion_set_exact (ipv : Nat) (ops : List Op) (hd : (run ipv ops).dirty = false) :
    ∃ ms, (run ipv ops).last = some ms ∧ ∀ ip, ip ∈ ms ↔ Excluded ipv (specRun ops) ip := by
  have r := run_rel ipv ops
  obtain ⟨ms, hl, hm⟩ := r.clean hd
  refine ⟨ms, hl, fun ip => ?_⟩
  rw [hm ip]
  unfold Mgr.members Excluded
  rw [List.mem_append, mem_flatten_values _ r.nw, mem_flatten_values _ r.nh]
  constructor
  · rintro (⟨id, ips, hg, hip⟩ | ⟨id, ips, hg, hip⟩)
    · left
      rw [r.w id] at hg
      unfold trackedW at hg
      cases hw : (specRun ops).w id with
      | none => simp [hw] at hg
      | some w =>
        simp only [hw, Option.bind_some] at hg
        by_cases hn : workloadNeedsForwardHooks w = true
        · simp only [hn, if_true, Option.some.injEq] at hg
          exact ⟨id, w, hw, hn, hg ▸ hip⟩
        · simp [hn] at hg
    · right
      rw [r.h id] at hg
      unfold trackedH at hg
      cases hw : (specRun ops).h id with
      | none => simp [hw] at hg
      | some h =>
        simp only [hw, Option.bind_some] at hg
        by_cases hn : h.nQos = 0
        · simp [hn] at hg
        · simp only [hn, if_false, Option.some.injEq] at hg
          exact ⟨id, h, hw, hn, hg ▸ hip⟩
  · rintro (⟨id, w, hw, hn, hip⟩ | ⟨id, h, hw, hn, hip⟩)
    · left
      refine ⟨id, _, ?_, hip⟩
      rw [r.w id, hw]; simp [trackedW, hn]
    · right
      refine ⟨id, _, ?_, hip⟩
      rw [r.h id, hw]; simp [trackedH, hn]

/-- `CompleteDeferredWork` always leaves nothing pending, so after any history followed by it the
programmed set is exact. -/
theorem complete_cleans (ipv : Nat) (ops : List Op) : (run ipv (ops ++ [.complete])).dirty = false := by
  unfold run
  rw [List.foldl_append]
  simp only [List.foldl_cons, List.foldl_nil, Mgr.step]
  cases h : (List.foldl Mgr.step (Mgr.new ipv) ops).dirty <;> simp [h]

/-- The offload rule only fires for established/related packets whose source and destination
are both outside the no-flow-offload set. -/
theorem offload_rule_guarded (ipv : Nat) (sets : String → String → Bool) (p : Pkt)
    (h : (offloadRule ipv).fires sets p = true) :
    (p.ct = .established ∨ p.ct = .related) ∧
    sets (noOffloadSetName ipv) p.src = false ∧ sets (noOffloadSetName ipv) p.dst = false := by
  simp only [Rule.fires, offloadRule, List.all_cons, List.all_nil, Clause.eval, Bool.and_true,
    Bool.and_eq_true, Bool.not_eq_true'] at h
  obtain ⟨h1, h2, h3⟩ := h
  refine ⟨?_, h2, h3⟩
  cases hc : p.ct <;> simp_all

/-- **No bypass** (composition): if the kernel set holds what the manager last programmed and no work
is pending, a packet the offload rule fires on is established/related and neither its source nor its
destination is an address of a current endpoint that needs per-packet hooks. -/
theorem no_bypass (ipv : Nat) (ops : List Op) (hd : (run ipv ops).dirty = false)
    (sets : String → String → Bool)
    (hk : ∀ ms, (run ipv ops).last = some ms → ∀ ip, sets (noOffloadSetName ipv) ip = true ↔ ip ∈ ms)
    (p : Pkt) (hf : (offloadRule ipv).fires sets p = true) :
    (p.ct = .established ∨ p.ct = .related) ∧
    ¬ Excluded ipv (specRun ops) p.src ∧ ¬ Excluded ipv (specRun ops) p.dst := by
  obtain ⟨ms, hl, hm⟩ := exclusion_set_exact ipv ops hd
  obtain ⟨h1, h2, h3⟩ := offload_rule_guarded ipv sets p hf
  refine ⟨h1, ?_, ?_⟩
  · intro he
    have := (hk ms hl p.src).2 ((hm p.src).2 he)
    rw [h2] at this; cases this
  · intro he
    have := (hk ms hl p.dst).2 ((hm p.dst).2 he)
    rw [h3] at this; cases this

/-! ### Non-vacuity -/

def exW : Wep := { present := true, nQos := 0, controls := some ⟨0, 5, 0, 0, 0⟩, nets4 := ["10.0.0.1/32"], nets6 := [] }
def exW0 : Wep := { present := true, nQos := 0, controls := some ⟨0, 0, 0, 0, 1000⟩, nets4 := ["10.0.0.2/32"], nets6 := [] }
def exOps : List Op := [.wepUpdate 1 exW, .wepUpdate 2 exW0, .hepUpdate 1 ⟨1, ["10.0.0.9"], []⟩, .complete]

example : (run 4 exOps).dirty = false ∧ (run 4 exOps).last.isSome = true ∧
    ((run 4 exOps).wepIPs.map (·.1)) = [1] ∧ ((run 4 exOps).hepIPs.map (·.1)) = [1] := by decide

example : (offloadRule 4).fires (fun _ ip => ip == "10.0.0.1") ⟨.established, "10.0.0.2", "10.0.0.3"⟩ = true ∧
    (offloadRule 4).fires (fun _ ip => ip == "10.0.0.1") ⟨.established, "10.0.0.2", "10.0.0.1"⟩ = false ∧
    (offloadRule 4).fires (fun _ ip => ip == "10.0.0.1") ⟨.new, "10.0.0.2", "10.0.0.3"⟩ = false := by decide

/-! ### flowtableManager: which devices are in the flowtable -/

/-- What the handlers must have been given, as a function of the two active sets. -/
def ftWant (m : FtMgr) : List (List String) × List String :=
  (m.targets.map (fun t => sortStrings (t.filter (fun d => m.activeOverlay.contains d))), sortStrings m.activeExternal)

theorem onIface_spec (pattern : String → Bool) (m : FtMgr) (n : String) (s : Bool) :
    let m' := m.onIface pattern n s
    m'.targets = m.targets ∧ m'.last = m.last ∧
    (∀ x, x ∈ m'.activeOverlay ↔ if x = n ∧ m.isOverlayDevice n = true then s = true else x ∈ m.activeOverlay) ∧
    (∀ x, x ∈ m'.activeExternal ↔
      if x = n ∧ m.isOverlayDevice n = false ∧ pattern n = true then s = true else x ∈ m.activeExternal) ∧
    (m' = m ∨ m'.dirty = true) := by
  unfold FtMgr.onIface
  generalize m.isOverlayDevice n = b
  cases b
  · -- not an overlay device
    simp only [Bool.false_eq_true, if_false]
    cases hp : pattern n
    · simp only [Bool.false_eq_true, if_false]
      refine ⟨by simp, by simp, ?_, ?_, by simp⟩ <;> intro x <;> by_cases e : x = n <;> simp_all
    · simp only [if_true]
      cases s
      · simp only [Bool.false_eq_true, if_false]
        by_cases hc : m.activeExternal.contains n = true
        · simp only [hc, Bool.not_true, Bool.false_eq_true, if_false]
          refine ⟨by simp, by simp, ?_, ?_, by simp⟩ <;> intro x <;> by_cases e : x = n <;> simp_all [List.mem_filter]
        · simp only [hc, Bool.not_false, if_true]
          refine ⟨by simp, by simp, ?_, ?_, by simp⟩ <;> intro x <;> by_cases e : x = n <;> simp_all
      · simp only [if_true]
        by_cases hc : m.activeExternal.contains n = true
        · simp only [hc, if_true]
          refine ⟨by simp, by simp, ?_, ?_, by simp⟩ <;> intro x <;> by_cases e : x = n <;> simp_all
        · simp only [hc, if_false]
          refine ⟨by simp, by simp, ?_, ?_, by simp⟩ <;> intro x <;> by_cases e : x = n <;> simp_all
  · simp only [if_true]
    cases s
    · simp only [Bool.false_eq_true, if_false]
      by_cases hc : m.activeOverlay.contains n = true
      · simp only [hc, Bool.not_true, Bool.false_eq_true, if_false]
        refine ⟨by simp, by simp, ?_, ?_, by simp⟩ <;> intro x <;> by_cases e : x = n <;> simp_all [List.mem_filter]
      · simp only [hc, Bool.not_false, if_true]
        refine ⟨by simp, by simp, ?_, ?_, by simp⟩ <;> intro x <;> by_cases e : x = n <;> simp_all
    · simp only [if_true]
      by_cases hc : m.activeOverlay.contains n = true
      · simp only [hc, if_true]
        refine ⟨by simp, by simp, ?_, ?_, by simp⟩ <;> intro x <;> by_cases e : x = n <;> simp_all
      · simp only [hc, if_false]
        refine ⟨by simp, by simp, ?_, ?_, by simp⟩ <;> intro x <;> by_cases e : x = n <;> simp_all

structure FtRel (pattern : String → Bool) (targets : List (List String)) (m : FtMgr) (u : String → Bool) : Prop where
  tg : m.targets = targets
  ov : ∀ n, n ∈ m.activeOverlay ↔ (m.isOverlayDevice n = true ∧ u n = true)
  ex : ∀ n, n ∈ m.activeExternal ↔ (m.isOverlayDevice n = false ∧ pattern n = true ∧ u n = true)
  clean : m.dirty = false → m.last = some (ftWant m)

theorem ft_step (pattern : String → Bool) (targets : List (List String)) (m : FtMgr) (u : String → Bool)
    (op : FtOp) (r : FtRel pattern targets m u) :
    FtRel pattern targets (m.step pattern op) (ftUpStep u op) := by
  obtain ⟨tg, ov, ex, clean⟩ := r
  cases op with
  | complete =>
    simp only [FtMgr.step, ftUpStep, FtMgr.complete]
    cases hd : m.dirty
    · simp only [Bool.not_false, if_true]; exact ⟨tg, ov, ex, clean⟩
    · simp only [Bool.not_true, Bool.false_eq_true, if_false]
      exact ⟨tg, ov, ex, fun _ => rfl⟩
  | iface n s =>
    obtain ⟨h1, h2, h3, h4, h5⟩ := onIface_spec pattern m n s
    simp only [FtMgr.step, ftUpStep]
    have hiso : ∀ x, (m.onIface pattern n s).isOverlayDevice x = m.isOverlayDevice x := by
      intro x; unfold FtMgr.isOverlayDevice; rw [h1]
    refine ⟨h1.trans tg, ?_, ?_, ?_⟩
    · intro x
      rw [h3 x, hiso x]
      by_cases e : x = n
      · subst e
        by_cases hb : m.isOverlayDevice x = true
        · simp [hb]
        · have := ov x; simp_all
      · simp [e, ov x]
    · intro x
      rw [h4 x, hiso x]
      by_cases e : x = n
      · subst e
        by_cases hb : m.isOverlayDevice x = false ∧ pattern x = true
        · simp [hb.1, hb.2]
        · have := ex x
          by_cases h' : m.isOverlayDevice x = false <;> by_cases h'' : pattern x = true <;> simp_all
      · simp [e, ex x]
    · intro hd
      rcases h5 with h5 | h5
      · rw [h5] at hd ⊢; exact clean hd
      · rw [h5] at hd; cases hd

theorem ft_run_rel (pattern : String → Bool) (targets : List (List String)) (ops : List FtOp) :
    FtRel pattern targets (ftRun pattern targets ops) (ftUp ops) := by
  unfold ftRun ftUp
  suffices h : ∀ m u, FtRel pattern targets m u →
      FtRel pattern targets (ops.foldl (FtMgr.step pattern) m) (ops.foldl ftUpStep u) by
    apply h
    refine ⟨rfl, ?_, ?_, by simp [FtMgr.new]⟩ <;> intro n <;> simp [FtMgr.new]
  induction ops with
  | nil => intro m u r; exact r
  | cons op r ih => intro m u rel; exact ih _ _ (ft_step pattern targets m u op rel)

/-- **The flowtable device set is exact.**  After ANY history of interface state updates and
`CompleteDeferredWork` calls, whenever no work is pending each handler was last given exactly those of
ITS overlay devices that are currently up (sorted), and every handler the (sorted) interfaces that
match the external pattern, are not overlay devices of any handler, and are currently up. -/
theorem flowtable_devices_exact (pattern : String → Bool) (targets : List (List String)) (ops : List FtOp)
    (hd : (ftRun pattern targets ops).dirty = false) :
    ∃ ext, (ftRun pattern targets ops).last =
        some (targets.map (fun t => sortStrings (t.filter (fun d => ftUp ops d))), ext) ∧
      ∀ d, d ∈ ext ↔ ((targets.any (fun t => t.contains d)) = false ∧ pattern d = true ∧ ftUp ops d = true) := by
  have hr := ft_run_rel pattern targets ops
  obtain ⟨tg, ov, ex, clean⟩ := hr
  refine ⟨sortStrings (ftRun pattern targets ops).activeExternal, ?_, ?_⟩
  · rw [clean hd]
    unfold ftWant
    rw [tg]
    congr 2
    apply List.map_congr_left
    intro t ht
    congr 1
    apply List.filter_congr
    intro d hdt
    have hiso : (ftRun pattern targets ops).isOverlayDevice d = true := by
      unfold FtMgr.isOverlayDevice; rw [tg]
      simp only [List.any_eq_true, List.contains_iff_mem]
      exact ⟨t, ht, hdt⟩
    have := ov d
    rw [Bool.eq_iff_iff]
    simp only [List.contains_iff_mem, this, hiso, true_and]
  · intro d
    unfold sortStrings
    rw [List.mem_mergeSort, ex d]
    unfold FtMgr.isOverlayDevice
    rw [tg]

theorem ft_complete_cleans (pattern : String → Bool) (targets : List (List String)) (ops : List FtOp) :
    (ftRun pattern targets (ops ++ [.complete])).dirty = false := by
  unfold ftRun
  rw [List.foldl_append]
  simp only [List.foldl_cons, List.foldl_nil, FtMgr.step, FtMgr.complete]
  cases h : (List.foldl (FtMgr.step pattern) (FtMgr.new targets) ops).dirty <;> simp [h]

example :
    let m := ftRun (fun n => n == "eth0" || n == "eth1") [["vxlan.calico"], ["vxlan-v6.calico"]]
      [.iface "vxlan.calico" true, .iface "eth0" true, .iface "lo" true, .iface "eth1" true, .iface "eth1" false,
       .complete]
    m.dirty = false ∧ m.activeOverlay = ["vxlan.calico"] ∧ m.activeExternal = ["eth0"] ∧ m.last.isSome = true := by
  decide

end CalicoVerif.C41
