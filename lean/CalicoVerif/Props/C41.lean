import CalicoVerif.Model.C41
namespace CalicoVerif.C41

/-- The offload rule only fires for established/related packets whose source and destination
are both outside the no-flow-offload set. -/
theorem offload_rule_guarded (ipv : Nat) (sets : String → String → Bool) (p : Pkt)
    (h : (offloadRule ipv).fires sets p = true) :
    (p.ct = .established ∨ p.ct = .related) ∧
    sets (noOffloadSetName ipv) p.src = false ∧ sets (noOffloadSetName ipv) p.dst = false := by
  simp only [Rule.fires, offloadRule, List.all_cons, List.all_nil, Clause.eval, Bool.and_true,
    Bool.and_eq_true, Bool.not_eq_true'] at h
  obtain ⟨h1, h2, h3⟩ := h
  refine ⟨?_, h2, h3⟩
  cases hc : p.ct <;> simp_all
end CalicoVerif.C41
