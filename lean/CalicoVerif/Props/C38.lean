import CalicoVerif.Proofs.C38
/-!
C38 — CNI delete is idempotent and leaves no address behind.

`delSeq` is `cmdDel` (ordinary workload) as the sequence of backend calls of
`ReleaseByHandle(handle id)` then `ReleaseByHandle(workload id)` over the C19 store,
executed through `Cas.step`, with a datastore error possible at EVERY backend call
(`fs` = arbitrary fault flags).  The start state is ANY state reachable by ANY
history of the C19 model (any adds, failed or partial adds, crashes, other clients).
-/
namespace CalicoVerif.C38
open CalicoVerif.Cas CalicoVerif.C19

theorem delSeq_ok (imm : Bool) (t h1 h2 : Nat) (o1 o2 : List Nat) (s : St) (fs : List Bool)
    (hok : (delSeq imm t h1 h2 o1 o2 s fs).2 = true) :
    (relByHandleSeq imm t h1 o1 s fs).2.2 ≠ RelRes.err ∧
    (relByHandleSeq imm t h2 o2 (relByHandleSeq imm t h1 o1 s fs).1 (relByHandleSeq imm t h1 o1 s fs).2.1).2.2 ≠ RelRes.err ∧
    (delSeq imm t h1 h2 o1 o2 s fs).1 =
      (relByHandleSeq imm t h2 o2 (relByHandleSeq imm t h1 o1 s fs).1 (relByHandleSeq imm t h1 o1 s fs).2.1).1 := by
  unfold delSeq at hok ⊢
  generalize relByHandleSeq imm t h1 o1 s fs = R1 at *
  obtain ⟨s1, fs1, r1⟩ := R1
  cases r1 <;> simp only at hok ⊢
  · generalize relByHandleSeq imm t h2 o2 s1 fs1 = R2 at *
    obtain ⟨s2, fs2, r2⟩ := R2
    cases r2 <;> simp_all
  · generalize relByHandleSeq imm t h2 o2 s1 fs1 = R2 at *
    obtain ⟨s2, fs2, r2⟩ := R2
    cases r2 <;> simp_all
  · simp at hok

/-- After ANY history of the C19 model (any adds, failed or partial adds, crashes, other
clients), a DEL that succeeds, whatever errors were injected and wherever, leaves no
address allocated under either of the container's handles, in any block. -/
theorem del_leaves_nothing (r0 nb : Nat) (evs : List Ev) (s : St)
    (hrun : run (St.init r0 nb) evs = some s)
    (imm : Bool) (t h1 h2 : Nat) (hh1 : h1 ≠ 0) (hh2 : h2 ≠ 0) (o1 o2 : List Nat) (fs : List Bool)
    (hc1 : Covers s h1 o1)
    (hc2 : Covers (relByHandleSeq imm t h1 o1 s fs).1 h2 o2)
    (hok : (delSeq imm t h1 h2 o1 o2 s fs).2 = true) :
    ∀ b, liveAt (delSeq imm t h1 h2 o1 o2 s fs).1 b h1 = 0 ∧ liveAt (delSeq imm t h1 h2 o1 o2 s fs).1 b h2 = 0 := by
  have hP : P s := inv_run (inv_init r0 nb) hrun
  have sp1 := relByHandle_spec imm t h1 hh1 o1 s fs hP hc1
  have hP1 := P_relByHandleSeq imm t h1 o1 s fs hP
  have sp2 := relByHandle_spec imm t h2 hh2 o2 _ (relByHandleSeq imm t h1 o1 s fs).2.1 hP1 hc2
  obtain ⟨n1, n2, e⟩ := delSeq_ok imm t h1 h2 o1 o2 s fs hok
  intro b
  rw [e]
  have a := sp1.2 n1 b
  have c := sp2.1 b h1
  exact ⟨by omega, sp2.2 n2 b⟩

theorem relBlock_noop (imm : Bool) (t h b : Nat) (s : St) (fs : List Bool) (hz : liveAt s b h = 0) :
    (relBlock imm t h b s fs).1 = s ∧ relBlock imm t h b s [] = (s, [], false) := by
  unfold relBlock
  constructor
  · cases pop fs with
    | mk f1 fs1 =>
    dsimp only
    split
    · rfl
    · split
      · rfl
      · rename_i r v hb
        have : liveCount h v.slots = 0 := by simpa [liveAt, hb] using hz
        simp [this]
  · simp only [pop, Bool.false_eq_true, if_false]
    split
    · rfl
    · rename_i r v hb
      have : liveCount h v.slots = 0 := by simpa [liveAt, hb] using hz
      simp [this]

theorem relBlocks_noop (imm : Bool) (t h : Nat) : ∀ (order : List Nat) (s : St) (fs : List Bool),
    (∀ b, liveAt s b h = 0) →
    (relBlocks imm t h order s fs).1 = s ∧ relBlocks imm t h order s [] = (s, [], false)
  | [], s, fs, _ => by simp [relBlocks]
  | b :: bs, s, fs, hz => by
    have h1 := relBlock_noop imm t h b s fs (hz b)
    have ih := relBlocks_noop imm t h bs s
    constructor
    · unfold relBlocks
      generalize relBlock imm t h b s fs = R at *
      obtain ⟨s1, fs1, e⟩ := R
      simp only at h1
      obtain ⟨e1, _⟩ := h1
      subst e1
      cases e
      · exact (ih fs1 hz).1
      · rfl
    · unfold relBlocks
      rw [h1.2]
      exact (ih [] hz).2

theorem relByHandleSeq_noop (imm : Bool) (t h : Nat) (order : List Nat) (s : St) (fs : List Bool)
    (hz : ∀ b, liveAt s b h = 0) :
    (relByHandleSeq imm t h order s fs).1 = s ∧
    (relByHandleSeq imm t h order s []).2.2 ≠ RelRes.err ∧ (relByHandleSeq imm t h order s []).2.1 = [] := by
  have nb := relBlocks_noop imm t h order s
  unfold relByHandleSeq
  refine ⟨?_, ?_⟩
  · cases pop fs with
    | mk f0 fs0 =>
    dsimp only
    split
    · rfl
    · split
      · rfl
      · have := (nb fs0 hz).1
        generalize relBlocks imm t h order s fs0 = R at *
        obtain ⟨s1, fs1, e⟩ := R
        cases e <;> exact this
  · simp only [pop, Bool.false_eq_true, if_false]
    split
    · simp
    · rw [(nb [] hz).2]; simp

theorem delSeq_fst (imm : Bool) (t h1 h2 : Nat) (o1 o2 : List Nat) (s : St) (fs : List Bool) :
    (delSeq imm t h1 h2 o1 o2 s fs).1 = (relByHandleSeq imm t h1 o1 s fs).1 ∨
    (delSeq imm t h1 h2 o1 o2 s fs).1 =
      (relByHandleSeq imm t h2 o2 (relByHandleSeq imm t h1 o1 s fs).1 (relByHandleSeq imm t h1 o1 s fs).2.1).1 := by
  unfold delSeq
  generalize relByHandleSeq imm t h1 o1 s fs = R1
  obtain ⟨s1, fs1, r1⟩ := R1
  cases r1 <;> simp only
  · right
    generalize relByHandleSeq imm t h2 o2 s1 fs1 = R2
    obtain ⟨s2, fs2, r2⟩ := R2
    cases r2 <;> rfl
  · right
    generalize relByHandleSeq imm t h2 o2 s1 fs1 = R2
    obtain ⟨s2, fs2, r2⟩ := R2
    cases r2 <;> rfl
  · exact Or.inl trivial

theorem delSeq_snd (imm : Bool) (t h1 h2 : Nat) (o1 o2 : List Nat) (s : St) (fs : List Bool)
    (n1 : (relByHandleSeq imm t h1 o1 s fs).2.2 ≠ RelRes.err)
    (n2 : (relByHandleSeq imm t h2 o2 (relByHandleSeq imm t h1 o1 s fs).1 (relByHandleSeq imm t h1 o1 s fs).2.1).2.2 ≠ RelRes.err) :
    (delSeq imm t h1 h2 o1 o2 s fs).2 = true := by
  unfold delSeq
  generalize relByHandleSeq imm t h1 o1 s fs = R1 at *
  obtain ⟨s1, fs1, r1⟩ := R1
  cases r1 <;> simp only at n1 n2 ⊢
  all_goals
    generalize relByHandleSeq imm t h2 o2 s1 fs1 = R2 at *
    obtain ⟨s2, fs2, r2⟩ := R2
    cases r2 <;> simp_all

/-- DEL is idempotent: once nothing is allocated under the container's handles (e.g. after a
successful DEL), another DEL changes nothing in the store whatever errors are injected,
and succeeds when no error is injected. -/
theorem del_idempotent (imm : Bool) (t h1 h2 : Nat) (o1 o2 : List Nat) (s : St) (fs : List Bool)
    (hz : ∀ b, liveAt s b h1 = 0 ∧ liveAt s b h2 = 0) :
    (delSeq imm t h1 h2 o1 o2 s fs).1 = s ∧ (delSeq imm t h1 h2 o1 o2 s []).2 = true := by
  have k1 := fun fs => relByHandleSeq_noop imm t h1 o1 s fs (fun b => (hz b).1)
  have k2 := fun fs => relByHandleSeq_noop imm t h2 o2 s fs (fun b => (hz b).2)
  constructor
  · rcases delSeq_fst imm t h1 h2 o1 o2 s fs with e | e
    · rw [e]; exact (k1 fs).1
    · rw [e, (k1 fs).1]; exact (k2 _).1
  · apply delSeq_snd
    · exact (k1 []).2.1
    · rw [(k1 []).1, (k1 []).2.2]; exact (k2 []).2.1

/-- Every state a ReleaseByHandle passes through keeps the C19 invariants. -/
theorem relByHandle_keeps_invariants (imm : Bool) (t h : Nat) (order : List Nat) (s : St) (fs : List Bool)
    (hP : P s) : P (relByHandleSeq imm t h order s fs).1 :=
  P_relByHandleSeq imm t h order s fs hP

/-- cmdAdd's DECISION TABLE (finite: 32 rows), not a statement about the store: given what
AutoAssign reported (`g4`/`g6` = "an address of that family was returned"), cmdAdd
reports success only if every requested family was returned one.  That the returned
address is then live in the store is C19's `recorded_by_own_cas` at the moment of the
write; that it is still held when ADD returns is checked on the real code by the
harness oracle (`add-missing-family`), not proved. -/
theorem add_decision_table (w4 w6 e g4 g6 : Bool) (h : (addDecision w4 w6 e g4 g6).ok = true) :
    (w4 = true → g4 = true) ∧ (w6 = true → g6 = true) := by
  revert h; cases w4 <;> cases w6 <;> cases e <;> cases g4 <;> cases g6 <;> decide

/-- Decision table, "all families or none", the part that holds: when AutoAssign itself
reported no error, a failed ADD asks for the rollback (ReleaseIPs) of every address it was given. -/
theorem add_decision_rollback_partial (w4 w6 g4 g6 : Bool) (h : (addDecision w4 w6 false g4 g6).ok = false) :
    (w4 = true → g4 = true → (addDecision w4 w6 false g4 g6).rel4 = true) ∧
    (w6 = true → g6 = true → (addDecision w4 w6 false g4 g6).rel6 = true) := by
  revert h; cases w4 <;> cases w6 <;> cases g4 <;> cases g6 <;> decide

/-- …and the part that does not: when AutoAssign returns an error after the IPv4 address was
assigned (e.g. the IPv6 assignment hit a datastore error), cmdAdd returns the error
WITHOUT rolling the IPv4 address back — the failed ADD keeps an address until DEL. -/
theorem failed_add_may_retain : (addDecision true true true true false) = { ok := false, rel4 := false, rel6 := false } := by
  decide

/-- (`_partial`: `hadd` — a successful ADD consists of non-releasing events only — and `hg4`/`hg6`
— "AutoAssign returned an address of family f" = "the thread recorded one in a block of family
f" — are hypotheses; only the driver's `nonrel` flag and C19's endOp check tie them to the code.)
Store-level ADD: take ANY reachable state, let the ADD for handle `h` perform ANY sequence
of events none of which is a release (`addEv`: claims, affinity writes, handle
increments, allocations for `h`, deletes of empty blocks — the driver checks that the
real successful ADDs consist of such events only).  Then every address the ADD has
recorded (what AutoAssign returns, `Cas.got`) is live for `h` when the ADD returns.
So with `fam` splitting the blocks into families: if cmdAdd's decision table reports
success and "AutoAssign returned an address of family f" means "the thread recorded an
address in a block of family f", every requested family holds an address of `h`. -/
theorem add_success_all_families_partial (r0 nb : Nat) (evs0 evs : List Ev) (s0 s1 : St)
    (hr0 : run (St.init r0 nb) evs0 = some s0) (h t : Nat) (hh : h ≠ 0)
    (hadd : ∀ e ∈ evs, addEv h e = true) (hr1 : run s0 evs = some s1)
    (fam : Nat → Bool) (w4 w6 e g4 g6 : Bool)
    (hg4 : g4 = true → ∃ b o, fam b = false ∧ (b, o) ∈ s1.got t ∧ (b, o) ∉ s0.got t)
    (hg6 : g6 = true → ∃ b o, fam b = true ∧ (b, o) ∈ s1.got t ∧ (b, o) ∉ s0.got t)
    (hok : (addDecision w4 w6 e g4 g6).ok = true) :
    (w4 = true → ∃ b, fam b = false ∧ 1 ≤ liveAt s1 b h) ∧
    (w6 = true → ∃ b, fam b = true ∧ 1 ≤ liveAt s1 b h) := by
  have hw0 : AllWF s0 := (inv_run (inv_init r0 nb) hr0).1
  have key := add_recorded_stays_live h hh evs s0 s1 hw0 hadd hr1 t
  have tab := add_decision_table w4 w6 e g4 g6 hok
  constructor
  · intro hw
    obtain ⟨b, o, hf, hin, hnot⟩ := hg4 (tab.1 hw)
    exact ⟨b, hf, key b o hin hnot⟩
  · intro hw
    obtain ⟨b, o, hf, hin, hnot⟩ := hg6 (tab.2 hw)
    exact ⟨b, hf, key b o hin hnot⟩

/-- non-vacuity: a DEL over a store holding two addresses of the container. -/
example : ∃ s, run (St.init 100 2)
    [.call { t := 1, fault := .none, verb := .create, key := .blk 0, rev := none, pl := .blkCreate 0 4 },
     .call { t := 1, fault := .none, verb := .create, key := .hdl 1, rev := none, pl := .hInc 0 2 },
     .call { t := 1, fault := .none, verb := .update, key := .blk 0, rev := some 101,
             pl := .blkRmw [] (.assign 1 2 []) [] }] = some s ∧
    (delSeq true 2 1 2 [0] [] s []).2 = true ∧ liveAt (delSeq true 2 1 2 [0] [] s []).1 0 1 = 0 ∧ liveAt s 0 1 = 2 :=
  ⟨_, rfl, by decide, by decide, by decide⟩

end CalicoVerif.C38
