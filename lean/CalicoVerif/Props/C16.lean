import CalicoVerif.Model.C16
namespace CalicoVerif.C16
end CalicoVerif.C16
