import CalicoVerif.Proofs.C16j
import CalicoVerif.Gen.C16
/-!
C16 — IP set sync converges and never breaks rules that use a set.
Property theorems over the model `CalicoVerif.Model.C16` of felix/ipsets (`IPSets`) and of the
`ipset` command.  `W` = Felix state + kernel + failure plan (which restore/list/destroy calls
fail and where) + order hints (Go map iteration orders); every theorem below is for ALL `W`,
i.e. all start kernels, all in-memory states, all failure plans, all orders.

What is NOT proved in Lean (checked only by the correspondence run and by the harness oracle on
the real code): the convergence clause itself ("after a successful apply every desired set is
exactly as desired and no other owned set remains") — see `level_note` in checks/C16.json.
-/
namespace CalicoVerif.C16

/-- **never_destroy_desired, line granularity**: no `ipset restore` line ever removes a set, so
after every single line (also of a restore that fails part-way) every set that existed still exists. -/
theorem never_destroy_desired_per_line (n : String) (ls : List Line) (K : Kernel)
    (h : K.has n = true) : ∀ Ki ∈ kstates K ls, Ki.has n = true :=
  kstates_has_mono ls K h

/-- **never_destroy_desired, ApplyUpdates**: over the whole retry loop (resyncs, temporary-set
clean-up, up to ten restore attempts, any failures), every set that is desired and present in
the kernel at the start is still present at the end. -/
theorem never_destroy_desired_applyUpdates (w : W) (n : String)
    (hd : w.F.desired.has n = true) (hk : w.K.has n = true) : w.applyUpdates.1.K.has n = true :=
  (applyUpdates_KD w).2.2 n hd hk

/-- **never_destroy_desired, ApplyDeletions**: `ApplyDeletions` only destroys sets that are not desired. -/
theorem never_destroy_desired_applyDeletions (w : W) (n : String)
    (hd : w.F.desired.has n = true) (hk : w.K.has n = true) : w.applyDeletions.1.K.has n = true :=
  (applyDeletions_KD w).2.2 n hd hk

/-- **foreign_untouched, ApplyUpdates** (`_partial`: the hypothesis `hD` "every desired name is one
Felix owns" is assumed; it holds because desired names are `NameForMainIPSet` names, but its
preservation by the API calls is not proved here).  For every failure plan, order and start
state, a set whose name Felix does not own is bit-for-bit unchanged by `ApplyUpdates`. -/
theorem foreign_untouched_applyUpdates_partial (w : W) (hc : CfgOK w.cfg)
    (hD : ∀ n, w.F.desired.has n = true → w.cfg.owns n = true)
    (x : String) (hx : w.cfg.owns x = false) : w.applyUpdates.1.K.get x = w.K.get x :=
  (applyUpdates_FU w hc hD).2.2 x hx

/-- **foreign_untouched, ApplyDeletions** (`_partial`: the hypothesis `hP` "Felix's view of the
dataplane only contains names it owns" is assumed; names enter the view only through the
`OwnsIPSet` filter of the listing or as names Felix wrote, but that invariant is not proved here;
the harness checks it on the real code after every apply). -/
theorem foreign_untouched_applyDeletions_partial (w : W)
    (hP : ∀ n ∈ w.F.dp.keys, w.cfg.owns n = true)
    (x : String) (hx : w.cfg.owns x = false) : w.applyDeletions.1.K.get x = w.K.get x :=
  (applyDeletions_FU w hP).2.2 x hx

/-- **swap_atomic**: what `writeUpdates` writes for a set `n` (for every visiting order `ord` of
the member iterations).  Either the set is updated in place, and then every line targets `n`,
only desired members are added and only undesired members deleted (the visible contents stay
between old∩desired and old∪desired); or its metadata changes, and then the lines build a
temporary set and the LAST line swaps it in: in every kernel state reached while running the
lines before that swap, the visible set `n` is exactly what it was. -/
theorem swap_atomic {c : Cfg} (hc : CfgOK c) {ord : List String → List String}
    (hord : ∀ l x, x ∈ ord l → x ∈ l) {F F' : Felix} {n : String} {ls : List Line}
    (hn : c.isTemp n = false) (h : F.writeUpdates c ord n = some (F', ls)) (K : Kernel) :
    ∃ t, F.members.get n = some t ∧
      ((∀ l ∈ ls, l.names = [n] ∧ (∀ m, l = Line.add n m → m ∈ t.des) ∧ (∀ m, l = Line.del n m → m ∉ t.des)) ∨
       (∃ tmp body, ls = body ++ [Line.swap n tmp] ∧ ∀ Ki ∈ kstates K body, Ki.get n = K.get n)) := by
  obtain ⟨t, ht, hs⟩ := writeUpdates_shape hord h
  refine ⟨t, ht, ?_⟩
  rcases hs with hs | ⟨k, body, hb, hnames⟩
  · exact Or.inl hs
  · refine Or.inr ⟨c.tempName k, body, hb, ?_⟩
    apply kstates_get_other
    intro l hl hmem
    rw [hnames l hl] at hmem
    simp only [List.mem_singleton] at hmem
    have := hc.tempIsTemp k
    rw [← hmem, hn] at this
    exact absurd this (by simp)

/-- Index of the first occurrence of an event in a schedule. -/
def idxOf (l : List String) (x : String) : Nat := l.findIdx (· == x)

/-- **creates_before_tables_deletes_after**: in `InternalDataplane.apply()` (schedule regenerated from
the source on every run by translate/c16) the IP set updates are started and JOINED before any table
is applied, and the IP set deletions are only started after every table apply/clean-up has been
joined.  (`decide` over the generated finite list.) -/
theorem creates_before_tables_deletes_after :
    let s := Gen.applySchedule
    idxOf s "ipsets.ApplyUpdates" < idxOf s "ipSetsWG.Wait" ∧
    idxOf s "ipSetsWG.Wait" < idxOf s "tables.Apply" ∧
    idxOf s "tables.Apply" < idxOf s "iptablesWG.Wait" ∧
    idxOf s "tables.CleanUp" < idxOf s "iptablesWG.Wait" ∧
    idxOf s "iptablesWG.Wait" < idxOf s "ipsets.ApplyDeletions" ∧
    idxOf s "ipsets.ApplyDeletions" < s.length ∧
    (s.filter (· == "ipsets.ApplyUpdates")).length = 1 ∧ (s.filter (· == "ipsets.ApplyDeletions")).length = 1 ∧
    (s.filter (· == "tables.Apply")).length = 1 := by decide

/-! ### Non-vacuity -/

/-- The real IPv4 configuration satisfies `CfgOK`. -/
example : CfgOK realCfg := realCfg_ok

/-- A concrete world: Felix wants `cali40a = {10.0.0.1}` (hash:ip), the kernel holds a stale
`cali40a` of another type, a stale temp set and a foreign set.  `ApplyUpdates` succeeds, swaps the
desired set in, and the foreign set is untouched. -/
def exW : W :=
  { cfg := realCfg
    F := Felix.addOrReplace realCfg {} "a" ⟨"hash:ip", 100, 0, 0, false, false⟩ ["10.0.0.1"]
    K := [("cali40a", ⟨"hash:net", 100, 0, 0, ["10.1.0.0/16"], false, false⟩),
          ("cali4t0", ⟨"hash:ip", 100, 0, 0, [], false, false⟩),
          ("foo", ⟨"hash:ip", 5, 0, 0, ["1.1.1.1"], false, false⟩)]
    hintR := [["cali40a"]], hintD := ["cali4t0"] }

example : exW.F.desired.has "cali40a" = true ∧ exW.K.has "cali40a" = true ∧ exW.cfg.owns "foo" = false := by decide
theorem exW_desired : exW.F.desired = [("cali40a", ⟨"hash:ip", 100, 0, 0, false, false⟩)] := by decide

/-- `exW` satisfies the hypotheses of the foreign-untouched theorems. -/
example : ∀ n, exW.F.desired.has n = true → exW.cfg.owns n = true := by
  intro n hn
  rw [exW_desired] at hn
  simp only [Map.has, Map.get, List.lookup] at hn
  by_cases h : n = "cali40a"
  · subst h; decide
  · have : (n == "cali40a") = false := by simp [h]
    simp [this] at hn
example : ∀ n ∈ exW.F.dp.keys, exW.cfg.owns n = true := by decide

/-- `swap_atomic` is not vacuous: a set whose metadata differs from the dataplane's takes the
temporary-set branch (hypotheses satisfied by a concrete state). -/
def exF : Felix :=
  { desired := [("cali40a", ⟨"hash:ip", 200, 0, 0, false, false⟩)]
    dp := [("cali40a", ⟨"hash:ip", 100, 0, 0, false, false⟩)]
    members := [("cali40a", ⟨["10.0.0.2"], ["10.0.0.1"]⟩)] }

example : realCfg.isTemp "cali40a" = false := by decide
example : ∃ F' ls, exF.writeUpdates realCfg id "cali40a" = some (F', ls) := ⟨_, _, rfl⟩
example : needTemp (exF.dp.get "cali40a") ⟨"hash:ip", 200, 0, 0, false, false⟩ = true := by decide

end CalicoVerif.C16
