import CalicoVerif.Proofs.C16ze
import CalicoVerif.Gen.C16
/-!
C16 — IP set sync converges and never breaks rules that use a set.
Property theorems over the model `CalicoVerif.Model.C16` of felix/ipsets (`IPSets`) and of the
`ipset` command.  `W` = Felix state + kernel + failure plan (which restore/list/destroy calls
fail and where) + order hints (Go map iteration orders); every theorem below is for ALL `W`,
i.e. all start kernels, all in-memory states, all failure plans, all orders.

The convergence clause (`ipsets_converge_partial`, `ipsets_converge_no_stale_partial`) is proved for a
successful `ApplyUpdates` that begins with a full resync (`fullResyncRequired`: start of day, restart, or after
persistent failures), after any history and for every failure plan inside that call.
What is missing (hence `_partial`): the same statement for a call that relies on a view kept accurate
incrementally (no out-of-band edit since the last resync); that case is covered by the convergence oracle on
the real code and the model correspondence only.
-/
namespace CalicoVerif.C16

/-- **never_destroy_desired, line granularity**: no `ipset restore` line ever removes a set, so
after every single line (also of a restore that fails part-way) every set that existed still exists. -/
theorem never_destroy_desired_per_line (n : String) (ls : List Line) (K : Kernel)
    (h : K.has n = true) : ∀ Ki ∈ kstates K ls, Ki.has n = true :=
  kstates_has_mono ls K h

/-- **never_destroy_desired, ApplyUpdates**: over the whole retry loop (resyncs, temporary-set
clean-up, up to ten restore attempts, any failures), every set that is desired and present in
the kernel at the start is still present at the end. -/
theorem never_destroy_desired_applyUpdates (w : W) (n : String)
    (hd : w.F.desired.has n = true) (hk : w.K.has n = true) : w.applyUpdates.1.K.has n = true :=
  (applyUpdates_KD w).2.2 n hd hk

/-- **never_destroy_desired, ApplyDeletions**: `ApplyDeletions` only destroys sets that are not desired. -/
theorem never_destroy_desired_applyDeletions (w : W) (n : String)
    (hd : w.F.desired.has n = true) (hk : w.K.has n = true) : w.applyDeletions.1.K.has n = true :=
  (applyDeletions_KD w).2.2 n hd hk

/-- **The invariant** (`Inv`): every set Felix was told about has a main-set name (owned, not a temporary
name) and a member tracker, the desired sets are those that pass the filter, and the dataplane view and
the resync queue only hold owned names.  It holds after EVERY history from a fresh `IPSets` and any kernel:
API calls, restart, out-of-band kernel edits, and `ApplyUpdates`/`ApplyDeletions` with any failure plan and
any map-iteration order. -/
theorem invariant_always (c : Cfg) (hc : CfgOK c) (hm : CfgMain c) (K : Kernel) (ops : List Op) :
    (({ cfg := c, F := {}, K := K } : W).run ops).cfg = c ∧ Inv c (({ cfg := c, F := {}, K := K } : W).run ops).F :=
  run_inv ops { cfg := c, F := {}, K := K } hc hm (inv_init c)

/-- **foreign_untouched, whole histories**: starting from a fresh `IPSets` and ANY kernel, after any
sequence of API calls, restarts, applies (any failure plans, any orders) and out-of-band edits of OTHER
sets, a set that Felix does not own is exactly as it was. -/
theorem foreign_untouched (c : Cfg) (hc : CfgOK c) (hm : CfgMain c) (K : Kernel) (ops : List Op) (x : String)
    (hx : c.owns x = false) (he : ∀ op ∈ ops, op.edits x = false) :
    (({ cfg := c, F := {}, K := K } : W).run ops).K.get x = K.get x :=
  run_foreign ops { cfg := c, F := {}, K := K } hc hm (inv_init c) x hx he

/-- **ipsets_converge** (partial: calls that begin with a full resync).  After ANY history `ops` from a fresh
`IPSets` and ANY start kernel (stale temporary sets, stale or wrongly typed main sets, foreign sets,
unlistable sets), for ANY failure plan of the call (restores failing after any number of lines or at start,
listings failing with or without partial output, destroys failing) and any map-iteration orders: if
`ApplyUpdates` — begun with `fullResyncRequired` set, as at start of day, after a restart and after persistent
failures, and run with any failure plan `plan` and order hints — returns successfully, then every desired set is in the kernel with exactly the
desired type and parameters and exactly the desired members; every owned set in the kernel is in Felix's view;
and the API-level state is untouched. -/
theorem ipsets_converge_partial (c : Cfg) (hc : CfgOK c) (hm : CfgMain c) (K : Kernel) (ops : List Op)
    (plan : Plan) (hintR : List (List String)) (hintD : List String) :
    let w : W := { ({ cfg := c, F := {}, K := K } : W).run ops with plan := plan, hintR := hintR, hintD := hintD }
    w.F.fullReq = true → w.applyUpdates.2 = true →
    ∀ (n : String) (dm : Meta) (t : MT), w.F.desired.get n = some dm → w.F.members.get n = some t →
    (∃ k, w.applyUpdates.1.K.get n = some k ∧ metaMatches k dm ∧ setEq k.members t.des) ∧
    Cov w.cfg w.applyUpdates.1.F w.applyUpdates.1.K ∧ w.applyUpdates.1.F.desired = w.F.desired := by
  intro w hfull hs n dm t hd ht
  obtain ⟨hcfg, h⟩ := run_inv ops { cfg := c, F := {}, K := K } hc hm (inv_init c)
  have hc' : CfgOK w.cfg := by rw [show w.cfg = c from hcfg]; exact hc
  have h : Inv w.cfg w.F := by rw [show w.cfg = c from hcfg]; exact h
  have post := applyUpdates_converges w hc' h.1 hfull hs
  refine ⟨?_, post.cov, post.desired⟩
  have hn : w.F.desired.has n = true := Map.has_of_get hd
  obtain ⟨dm', t', k, e1, e2, e3, e4, e5⟩ := post.exact n hn
  obtain ⟨t'', ht'', hd''⟩ := post.desKeep n t.des (h.1.inAll n hn) ⟨t, ht, rfl⟩
  rw [post.desired, hd] at e1
  simp only [Option.some.injEq] at e1
  rw [ht''] at e2
  simp only [Option.some.injEq] at e2
  subst e1; subst e2
  exact ⟨k, e3, e4, by rw [← hd'']; exact e5⟩

/-- **ipsets_converge, deletions** (partial: as above).  After such an `ApplyUpdates`, any number of
`ApplyDeletions` calls (any destroy failures, any orders) keep every desired set exact, and once nothing is
pending deletion every Felix-owned set in the kernel is a desired one — no other Felix-owned set remains. -/
theorem ipsets_converge_no_stale_partial (c : Cfg) (hc : CfgOK c) (hm : CfgMain c) (K : Kernel) (ops : List Op)
    (plan : Plan) (hintR : List (List String)) (hintD : List String) (rounds : List (Plan × List String)) :
    let w : W := { ({ cfg := c, F := {}, K := K } : W).run ops with plan := plan, hintR := hintR, hintD := hintD }
    w.F.fullReq = true → w.applyUpdates.2 = true →
    let w' := w.applyUpdates.1.delRounds rounds
    (∀ n, w.F.desired.has n = true → Exact w'.F w'.K n) ∧
    (w'.F.pendingDeletions = [] → ∀ b, c.owns b = true → w'.K.has b = true → w.F.desired.has b = true) := by
  intro w hfull hs
  obtain ⟨hcfg, h⟩ := run_inv ops { cfg := c, F := {}, K := K } hc hm (inv_init c)
  have hcfg' : w.cfg = c := hcfg
  have hc' : CfgOK w.cfg := by rw [hcfg']; exact hc
  have h : Inv w.cfg w.F := by rw [hcfg']; exact h
  have post := applyUpdates_converges w hc' h.1 hfull hs
  have had := delRounds_AD rounds w.applyUpdates.1
  refine ⟨?_, ?_⟩
  · intro n hn
    apply had.exact (post.exact n hn)
    rw [post.allMeta]; exact h.1.inAll n hn
  · intro hdr b hown hk
    have hcov : Cov w.cfg (w.applyUpdates.1.delRounds rounds).F (w.applyUpdates.1.delRounds rounds).K := by
      have := had.cov (by rw [post.cfg]; exact post.cov)
      rw [post.cfg] at this; exact this
    have := no_stale_owned hcov hdr b (by rw [hcfg']; exact hown) hk
    rw [had.pres.1.2.1, post.desired] at this
    exact this

/-- **Ownership is "prefix of"**: Felix owns a set name iff the name STARTS with one of the instance's prefixes (the
versioned current and historic prefixes and the legacy set names, which the code also matches as prefixes).  A name
that merely contains a prefix is foreign.  (Restates the model's `Cfg.owns`; the real `IPVersionConfig.OwnsIPSet` — a
regexp — is tied to it by the oracle `owns-not-prefix-of` on every kernel set name of every run.) -/
theorem owns_is_prefix_of (c : Cfg) (n : String) :
    c.owns n = true ↔ ∃ p ∈ c.prefixes, p.toList.isPrefixOf n.toList = true := by
  unfold Cfg.owns hasPrefix
  simp [List.any_eq_true]

example : realCfg.owns "cali40a" = true ∧ realCfg.owns "felix-masq-ipam-pools" = true ∧
    realCfg.owns "backup-cali40s:web" = false ∧ realCfg.owns "k8s-felix-4-allow" = false ∧
    realCfg.owns "fw_cali4t0" = false ∧ realCfg.owns "x-felix-masq-ipam-pools" = false := by decide

/-- **swap_atomic**: what `writeUpdates` writes for a set `n` (for every visiting order `ord` of
the member iterations).  Either the set is updated in place, and then every line targets `n`,
only desired members are added and only undesired members deleted (the visible contents stay
between old∩desired and old∪desired); or its metadata changes, and then the lines build a
temporary set and the LAST line swaps it in: in every kernel state reached while running the
lines before that swap, the visible set `n` is exactly what it was. -/
theorem swap_atomic {c : Cfg} (hc : CfgOK c) {ord : List String → List String}
    (hord : ∀ l x, x ∈ ord l → x ∈ l) {F F' : Felix} {n : String} {ls : List Line}
    (hn : c.isTemp n = false) (h : F.writeUpdates c ord n = some (F', ls)) (K : Kernel) :
    ∃ t, F.members.get n = some t ∧
      ((∀ l ∈ ls, l.names = [n] ∧ (∀ m, l = Line.add n m → m ∈ t.des) ∧ (∀ m, l = Line.del n m → m ∉ t.des)) ∨
       (∃ tmp body, ls = body ++ [Line.swap n tmp] ∧ ∀ Ki ∈ kstates K body, Ki.get n = K.get n)) := by
  obtain ⟨t, ht, hs⟩ := writeUpdates_shape hord h
  refine ⟨t, ht, ?_⟩
  rcases hs with hs | ⟨k, body, hb, hnames⟩
  · exact Or.inl hs
  · refine Or.inr ⟨c.tempName k, body, hb, ?_⟩
    apply kstates_get_other
    intro l hl hmem
    rw [hnames l hl] at hmem
    simp only [List.mem_singleton] at hmem
    have := hc.tempIsTemp k
    rw [← hmem, hn] at this
    exact absurd this (by simp)

/-- Index of the first occurrence of an event in a schedule. -/
def idxOf (l : List String) (x : String) : Nat := l.findIdx (· == x)

/-- **creates_before_tables_deletes_after**: in `InternalDataplane.apply()` (schedule regenerated from
the source on every run by translate/c16) the IP set updates are started and JOINED before any table
is applied, and the IP set deletions are only started after every table apply/clean-up has been
joined.  (`decide` over the generated finite list.) -/
theorem creates_before_tables_deletes_after :
    let s := Gen.applySchedule
    idxOf s "ipsets.ApplyUpdates" < idxOf s "ipSetsWG.Wait" ∧
    idxOf s "ipSetsWG.Wait" < idxOf s "tables.Apply" ∧
    idxOf s "tables.Apply" < idxOf s "iptablesWG.Wait" ∧
    idxOf s "tables.CleanUp" < idxOf s "iptablesWG.Wait" ∧
    idxOf s "iptablesWG.Wait" < idxOf s "ipsets.ApplyDeletions" ∧
    idxOf s "ipsets.ApplyDeletions" < s.length ∧
    (s.filter (· == "ipsets.ApplyUpdates")).length = 1 ∧ (s.filter (· == "ipsets.ApplyDeletions")).length = 1 ∧
    (s.filter (· == "tables.Apply")).length = 1 := by decide

/-! ### Non-vacuity -/

/-- The real IPv4 configuration satisfies `CfgOK`. -/
example : CfgOK realCfg := realCfg_ok

/-- A concrete world: Felix wants `cali40a = {10.0.0.1}` (hash:ip), the kernel holds a stale
`cali40a` of another type, a stale temp set and a foreign set.  `ApplyUpdates` succeeds, swaps the
desired set in, and the foreign set is untouched. -/
def exW : W :=
  { cfg := realCfg
    F := Felix.addOrReplace realCfg {} "a" ⟨"hash:ip", 100, 0, 0, false, false⟩ ["10.0.0.1"]
    K := [("cali40a", ⟨"hash:net", 100, 0, 0, ["10.1.0.0/16"], false, false⟩),
          ("cali4t0", ⟨"hash:ip", 100, 0, 0, [], false, false⟩),
          ("foo", ⟨"hash:ip", 5, 0, 0, ["1.1.1.1"], false, false⟩)]
    hintR := [["cali40a"]], hintD := ["cali4t0"] }

example : exW.F.desired.has "cali40a" = true ∧ exW.K.has "cali40a" = true ∧ exW.cfg.owns "foo" = false := by decide
theorem exW_desired : exW.F.desired = [("cali40a", ⟨"hash:ip", 100, 0, 0, false, false⟩)] := by decide

/-- The real configuration satisfies the two configuration hypotheses. -/
example : CfgMain realCfg := realCfg_main

/-- `exW` satisfies the hypotheses of `ipsets_converge_partial` (with the one-call history) and of the foreign-untouched theorems: its Felix
state is reached from the empty one by one API call (so `Inv` holds), and it is
at start of day (`fullResyncRequired`). -/
example : Inv exW.cfg exW.F :=
  addOrReplace_inv realCfg_main (inv_init realCfg) "a" ⟨"hash:ip", 100, 0, 0, false, false⟩ ["10.0.0.1"]
example : exW.F.fullReq = true := by decide
example : exW.F.desired.get "cali40a" = some ⟨"hash:ip", 100, 0, 0, false, false⟩ := by decide
example : (exW.F.members.get "cali40a").map (·.des) = some ["10.0.0.1"] := by decide

/- The remaining hypothesis of `ipsets_converge_partial` — `ApplyUpdates` succeeds — is satisfiable: evaluated
by the Lean interpreter (an executable check at build time, not a kernel proof: the kernel cannot unfold
`List.mergeSort`/`Nat.repr`).  `exW` takes the temp-set-and-swap path and destroys the stale temp set;
with a restore that dies after 2 lines and a failing first listing it still succeeds (after retries). -/
#guard exW.applyUpdates.2
#guard ({ exW with plan := { restores := [.failAt 2, .ok], names := [true, false] },
                   hintR := [["cali40a"], ["cali40a"]], hintD := ["cali4t0", "cali4t0", "cali4t1"] } : W).applyUpdates.2
#guard (exW.applyUpdates.1.K.get "cali40a").map (fun k => (k.type, k.members)) == some ("hash:ip", ["10.0.0.1"])

/- The same through a history, as in the statement of `ipsets_converge_partial`: a fresh `IPSets` over `exW`'s
kernel, one API call, then `ApplyUpdates` with a failure plan. -/
def exOps : List Op := [Op.add "a" "hash:ip" 100 0 0 ["10.0.0.1"]]
#guard (({ cfg := realCfg, F := {}, K := exW.K } : W).run exOps).F.fullReq
#guard ({ ({ cfg := realCfg, F := {}, K := exW.K } : W).run exOps with
           plan := { restores := [.failAt 2, .ok], names := [true, false] },
           hintR := [["cali40a"], ["cali40a"]], hintD := ["cali4t0", "cali4t0", "cali4t1"] } : W).applyUpdates.2
#guard (({ ({ cfg := realCfg, F := {}, K := exW.K } : W).run exOps with
           plan := { restores := [.failAt 2, .ok], names := [true, false] },
           hintR := [["cali40a"], ["cali40a"]], hintD := ["cali4t0", "cali4t0", "cali4t1"] } : W).applyUpdates.1.K.get "cali40a").map
         (fun k => (k.type, k.members)) == some ("hash:ip", ["10.0.0.1"])

/-- `swap_atomic` is not vacuous: a set whose metadata differs from the dataplane's takes the
temporary-set branch (hypotheses satisfied by a concrete state). -/
def exF : Felix :=
  { desired := [("cali40a", ⟨"hash:ip", 200, 0, 0, false, false⟩)]
    dp := [("cali40a", ⟨"hash:ip", 100, 0, 0, false, false⟩)]
    members := [("cali40a", ⟨["10.0.0.2"], ["10.0.0.1"]⟩)] }

example : realCfg.isTemp "cali40a" = false := by decide
example : ∃ F' ls, exF.writeUpdates realCfg id "cali40a" = some (F', ls) := ⟨_, _, rfl⟩
example : needTemp (exF.dp.get "cali40a") ⟨"hash:ip", 200, 0, 0, false, false⟩ = true := by decide

end CalicoVerif.C16
