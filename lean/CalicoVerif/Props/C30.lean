import CalicoVerif.Proofs.C30Tier
/-!
C30 — Windows rule flattening preserves policy verdicts for supported rules.
Property theorems (helper lemmas live in `CalicoVerif.Proofs.C30*`).

`getPolicySetRules ∘ members` is the model of what policysets hands to HNS for one tier and one
direction; `hnsActions` returns the actions of ALL matching rules with the lowest priority number
(HNS's own tie-break between equal priorities is unknown), `tierVerdict` is Calico's
first-match-in-order semantics with the end-of-tier action.
-/
namespace CalicoVerif.C30

/-- protocolNameToNumber is case-insensitive on the names Calico uses (finite table). -/
theorem protocolNameToNumber_table :
    protocolNameToNumber "TCP" = 6 ∧ protocolNameToNumber "tcp" = 6 ∧ protocolNameToNumber "Udp" = 17 ∧
    protocolNameToNumber "sctp" = 132 ∧ protocolNameToNumber "bogus" = 256 := by decide

/-- Chunking (SplitIPList / SplitPortList, any chunk size > 0, any list) never changes whether an
address/port list admits a value: "no constraint, or some element matches" is preserved. -/
theorem split_preserves {α : Type} (l : List α) (n : Nat) (hn : 0 < n) (f : α → Bool) :
    (splitList l n).any (fun c => c.isEmpty || c.any f) = (l.isEmpty || l.any f) :=
  splitList_any l n hn f

example : splitList [1, 2, 3, 4, 5] 2 = [[1, 2], [3, 4], [5]] := by decide
example : splitList ([] : List Nat) 2 = [[]] := by decide

/-- IntersectCIDRs (used when a rule has both CIDRs and an IP set on one side): an address is in some
output CIDR iff it is in a CIDR of each input list. -/
theorem intersect_preserves (as bs : List Addr) (ha : ∀ a ∈ as, a.v6 = false) (hb : ∀ b ∈ bs, b.v6 = false)
    (ip : Nat) :
    (intersectCIDRs as bs).any (·.contains ip) = (as.any (·.contains ip) && bs.any (·.contains ip)) :=
  intersectCIDRs_any as bs ha hb ip

/-- One supported proto rule: every generated HNS rule carries the rule's action and direction, and
a packet matches SOME generated rule iff it matches the proto rule — whatever the chunk size, i.e.
"including when addresses or ports are split across several rules". -/
theorem rule_flattening (s : IPSets) (hs : s.wf) (hipp : s.ipportOK) (r : Rule) (inbound : Bool)
    (hsup : r.supportedIn inbound) (n : Nat) (hn : 0 < n) (pid : String) (p : Pkt) :
    (∀ h ∈ hr s pid r inbound n, h.action = ruleAction r ∧ h.inbound = inbound) ∧
    (hr s pid r inbound n).any (·.matches p) = r.matches s p :=
  rule_sem s hs hipp r inbound hsup n hn pid p

/-- Priority bumping: in the list built by GetPolicySetRules priorities never decrease and two
rules with different actions never share a priority "run" — for ANY members, supported or not. -/
theorem priorities_good (sets : List (Option (List HRule))) (inbound eotDrop : Bool) :
    good (getPolicySetRules sets inbound eotDrop) :=
  (getPolicySetRules_spec sets inbound eotDrop ⟨0, 0, 0, 0, 0⟩).1

/-- MAIN THEOREM.  For every IP set contents, every list of policy sets whose rules use supported
criteria only, both directions, both end-of-tier actions, every chunk size and every packet:
the HNS rules evaluated by priority have at least one decisive rule, and EVERY decisive rule
(whatever HNS's tie-break) carries exactly the verdict of the policy semantics. -/
theorem hns_verdict (s : IPSets) (hs : s.wf) (hipp : s.ipportOK) (sets : List (String × PolicySet))
    (hsup : ∀ x ∈ sets, x.2.supported) (n : Nat) (hn : 0 < n) (d eot : Bool) (p : Pkt) :
    let rules := getPolicySetRules (sets.map fun x => some (x.2.members s x.1 n)) d eot
    hnsActions rules p ≠ [] ∧ ∀ a ∈ hnsActions rules p, a = tierVerdict s (sets.map (·.2)) d eot p := by
  intro rules
  obtain ⟨hg, hf⟩ := getPolicySetRules_spec (sets.map fun x => some (x.2.members s x.1 n)) d eot p
  rw [firstAction_gather s hs hipp n hn d p sets hsup, ← tierVerdict_eq] at hf
  exact first_match_decides rules hg p _ hf

/-! ## Non-vacuity -/

def a1 : Addr := ⟨"10.0.0.1", false, 167772161, 32⟩
def a2 : Addr := ⟨"10.0.0.2", false, 167772162, 32⟩
def net24 : Addr := ⟨"10.0.0.0/24", false, 167772160, 24⟩
def setsW : IPSets := ⟨[("s1", [a1, a2])], [("pp", [⟨a1, "tcp", 80⟩])]⟩
/-- deny from IP set s1 on tcp/80, then allow 10.0.0.0/24 -/
def psW : PolicySet :=
  ⟨[{ action := "deny", proto := some (.name "tcp"), srcSets := ["s1"], dstPorts := [⟨80, 80⟩], ruleId := "r1" },
    { action := "allow", srcNet := [net24], ruleId := "r2" }], []⟩

theorem setsW_wf : setsW.wf := IPSets.wf_of_entries _ (by decide)

theorem setsW_ipportOK : setsW.ipportOK := IPSets.ipportOK_of_entries _ (by decide)

theorem psW_supported : psW.supported := by
  constructor
  · intro r hr
    simp only [psW, List.mem_cons, List.not_mem_nil, or_false] at hr
    rcases hr with rfl | rfl
    · exact ⟨⟨Or.inl rfl, rfl, rfl, rfl, rfl, rfl, by decide, by decide, by decide, by decide⟩, Or.inl rfl⟩
    · exact ⟨⟨Or.inl rfl, rfl, rfl, rfl, rfl, rfl, by decide, trivial, by decide, by decide⟩, Or.inl rfl⟩
  · intro r hr; simp [psW] at hr

/-- The hypotheses of `hns_verdict` hold for a non-trivial instance, and its verdicts differ by packet. -/
example : setsW.wf ∧ setsW.ipportOK ∧ psW.supported ∧
    tierVerdict setsW [psW] true true ⟨6, 167772161, 1000, 167772170, 80⟩ = .block ∧
    tierVerdict setsW [psW] true true ⟨6, 167772165, 1000, 167772170, 80⟩ = .allow ∧
    tierVerdict setsW [psW] true false ⟨6, 3232235777, 1000, 167772170, 80⟩ = .pass :=
  ⟨setsW_wf, setsW_ipportOK, psW_supported, by decide, by decide, by decide⟩

/-! ## Why the restrictions in `supportedIn` are needed -/

/-- Two IP sets on one side: Calico means "in BOTH sets", the converter emits their UNION.
(Not reachable from the v3 API: validation forbids combining a selector with a source Service, so
the calculation graph never emits two ids on a side; stated to show the hypothesis is necessary.) -/
theorem two_sets_union_not_intersection :
    ∃ (s : IPSets) (ps : PolicySet) (p : Pkt), s.wf ∧
      hnsActions (getPolicySetRules [some (ps.members s "p" 4000)] true true) p = [.allow] ∧
      tierVerdict s [ps] true true p = .block := by
  refine ⟨⟨[("s1", [a1]), ("s2", [a2])], []⟩,
    ⟨[{ action := "allow", srcSets := ["s1", "s2"], ruleId := "r1" }], []⟩,
    ⟨6, 167772161, 1000, 167772170, 80⟩, ?_, by decide, by decide⟩
  exact IPSets.wf_of_entries _ (by decide)

/-- COUNTEREXAMPLE (reachable): an egress rule that names a destination Service (IP-port set) AND a
protocol.  The converter returns early from the DstIpPortSetIds branch and never looks at
`Protocol` (nor at the source ports): `allow udp to service {10.0.0.1 tcp/80}` is programmed as
"allow tcp/80 to 10.0.0.1", so a TCP packet is allowed where the policy (and the Linux dataplanes)
deny it.  All criteria used are supported ones, so the unrestricted statement is false. -/
theorem hns_verdict_false_service_protocol :
    ∃ (s : IPSets) (ps : PolicySet) (p : Pkt), s.wf ∧ s.ipportOK ∧
      (∀ r ∈ ps.outRules, r.supported) ∧
      hnsActions (getPolicySetRules [some (ps.members s "p" 4000)] false true) p = [.allow] ∧
      tierVerdict s [ps] false true p = .block :=
  ⟨setsW, ⟨[], [{ action := "allow", proto := some (.name "udp"), dstIpPortSets := ["pp"], ruleId := "r1" }]⟩,
    ⟨6, 167772170, 1000, 167772161, 80⟩, setsW_wf, setsW_ipportOK,
    by
      intro r hr
      simp only [List.mem_singleton] at hr; subst hr
      exact ⟨Or.inl rfl, rfl, rfl, rfl, rfl, rfl, by decide, by decide, by decide, by decide⟩,
    by decide, by decide⟩

end CalicoVerif.C30
