import CalicoVerif.Proofs.C30FlatTier
/-!
C30 — Windows rule flattening preserves policy verdicts for supported rules.
Property theorems (helper lemmas live in `CalicoVerif.Proofs.C30*`).

`getPolicySetRules ∘ members` is the model of what policysets hands to HNS for one tier and one
direction; `hnsActions` returns the actions of ALL matching rules with the lowest priority number
(HNS's own tie-break between equal priorities is unknown), `tierVerdict` is Calico's
first-match-in-order semantics with the end-of-tier action.
-/
namespace CalicoVerif.C30

/-- protocolNameToNumber is case-insensitive on the names Calico uses (finite table). -/
theorem protocolNameToNumber_table :
    protocolNameToNumber "TCP" = 6 ∧ protocolNameToNumber "tcp" = 6 ∧ protocolNameToNumber "Udp" = 17 ∧
    protocolNameToNumber "sctp" = 132 ∧ protocolNameToNumber "bogus" = 256 := by decide

/-- Chunking (SplitIPList / SplitPortList, any chunk size > 0, any list) never changes whether an
address/port list admits a value: "no constraint, or some element matches" is preserved. -/
theorem split_preserves {α : Type} (l : List α) (n : Nat) (hn : 0 < n) (f : α → Bool) :
    (splitList l n).any (fun c => c.isEmpty || c.any f) = (l.isEmpty || l.any f) :=
  splitList_any l n hn f

example : splitList [1, 2, 3, 4, 5] 2 = [[1, 2], [3, 4], [5]] := by decide
example : splitList ([] : List Nat) 2 = [[]] := by decide

/-- IntersectCIDRs (used when a rule has both CIDRs and an IP set on one side): an address is in some
output CIDR iff it is in a CIDR of each input list. -/
theorem intersect_preserves (as bs : List Addr) (ha : ∀ a ∈ as, a.v6 = false) (hb : ∀ b ∈ bs, b.v6 = false)
    (ip : Nat) :
    (intersectCIDRs as bs).any (·.contains ip) = (as.any (·.contains ip) && bs.any (·.contains ip)) :=
  intersectCIDRs_any as bs ha hb ip

/-- One supported proto rule: every generated HNS rule carries the rule's action and direction, and
a packet matches SOME generated rule iff it matches the proto rule — whatever the chunk size, i.e.
"including when addresses or ports are split across several rules".

PARTIAL: `supportedIn` restricts an (egress) rule on a destination Service (IP-port set) to carry no
nets / IP sets (protocol and source ports are honoured since /repo commit 44f8f9c).  SOURCE nets and
IP sets next to a Service are legal in the v3 API but still ignored by the converter, so without the
restriction the statement is false of the current code: `hns_verdict_false_service_source`. -/
theorem rule_flattening_partial (s : IPSets) (hs : s.wf) (hipp : s.ipportOK) (r : Rule) (inbound : Bool)
    (hsup : r.supportedIn inbound) (n : Nat) (hn : 0 < n) (pid : String) (p : Pkt) :
    (∀ h ∈ hr s pid r inbound n, h.action = ruleAction r ∧ h.inbound = inbound) ∧
    (hr s pid r inbound n).any (·.matches p) = r.matches s p :=
  rule_sem s hs hipp r inbound hsup n hn pid p

/-- Priority bumping: in the list built by GetPolicySetRules priorities never decrease and two
rules with different actions never share a priority "run" — for ANY members, supported or not. -/
theorem priorities_good (sets : List (Option (List HRule))) (inbound eotDrop : Bool) :
    good (getPolicySetRules sets inbound eotDrop) :=
  (getPolicySetRules_spec sets inbound eotDrop ⟨0, 0, 0, 0, 0⟩).1

/-- MAIN THEOREM (partial).  For every IP set contents, every list of policy sets whose rules use
supported criteria only, both directions, both end-of-tier actions, every chunk size and every packet:
the HNS rules evaluated by priority have at least one decisive rule, and EVERY decisive rule
(whatever HNS's tie-break) carries exactly the verdict of the policy semantics.

PARTIAL because `PolicySet.supported` (via `Rule.supportedIn`) demands that an egress rule matching
a destination Service (IP-port set) carries no source nets / IP sets, although those are criteria the
dataplane supports and the v3 API accepts next to a Service: the converter ignores them
(`hns_verdict_false_service_source`, known finding service-rule-source-ignored).  Protocol and source
ports on such a rule ARE covered (fixed in /repo commit 44f8f9c).  The other restrictions in
`supported` (at most one IP set per side, known protocol name) are guaranteed upstream. -/
theorem hns_verdict_partial (s : IPSets) (hs : s.wf) (hipp : s.ipportOK) (sets : List (String × PolicySet))
    (hsup : ∀ x ∈ sets, x.2.supported) (n : Nat) (hn : 0 < n) (d eot : Bool) (p : Pkt) :
    let rules := getPolicySetRules (sets.map fun x => some (x.2.members s x.1 n)) d eot
    hnsActions rules p ≠ [] ∧ ∀ a ∈ hnsActions rules p, a = tierVerdict s (sets.map (·.2)) d eot p := by
  intro rules
  obtain ⟨hg, hf⟩ := getPolicySetRules_spec (sets.map fun x => some (x.2.members s x.1 n)) d eot p
  rw [firstAction_gather s hs hipp n hn d p sets hsup, ← tierVerdict_eq] at hf
  exact first_match_decides rules hg p _ hf

/-! ## Non-vacuity -/

def a1 : Addr := ⟨"10.0.0.1", false, 167772161, 32⟩
def a2 : Addr := ⟨"10.0.0.2", false, 167772162, 32⟩
def net24 : Addr := ⟨"10.0.0.0/24", false, 167772160, 24⟩
def setsW : IPSets := ⟨[("s1", [a1, a2])], [("pp", [⟨a1, "tcp", 80⟩])]⟩
/-- deny from IP set s1 on tcp/80, then allow 10.0.0.0/24 -/
def psW : PolicySet :=
  ⟨[{ action := "deny", proto := some (.name "tcp"), srcSets := ["s1"], dstPorts := [⟨80, 80⟩], ruleId := "r1" },
    { action := "allow", srcNet := [net24], ruleId := "r2" }], []⟩

theorem setsW_wf : setsW.wf := IPSets.wf_of_entries _ (by decide)

theorem setsW_ipportOK : setsW.ipportOK := IPSets.ipportOK_of_entries _ (by decide)

theorem psW_supported : psW.supported := by
  constructor
  · intro r hr
    simp only [psW, List.mem_cons, List.not_mem_nil, or_false] at hr
    rcases hr with rfl | rfl
    · exact ⟨⟨Or.inl rfl, rfl, rfl, rfl, rfl, rfl, by decide, by decide, by decide, by decide⟩, Or.inl rfl⟩
    · exact ⟨⟨Or.inl rfl, rfl, rfl, rfl, rfl, rfl, by decide, trivial, by decide, by decide⟩, Or.inl rfl⟩
  · intro r hr; simp [psW] at hr

/-- The hypotheses of `hns_verdict_partial` hold for a non-trivial instance, and its verdicts differ by packet. -/
example : setsW.wf ∧ setsW.ipportOK ∧ psW.supported ∧
    tierVerdict setsW [psW] true true ⟨6, 167772161, 1000, 167772170, 80⟩ = .block ∧
    tierVerdict setsW [psW] true true ⟨6, 167772165, 1000, 167772170, 80⟩ = .allow ∧
    tierVerdict setsW [psW] true false ⟨6, 3232235777, 1000, 167772170, 80⟩ = .pass :=
  ⟨setsW_wf, setsW_ipportOK, psW_supported, by decide, by decide, by decide⟩

/-! ## Why the restrictions in `supportedIn` are needed -/

/-- Two IP sets on one side: Calico means "in BOTH sets", the converter emits their UNION.
(Not reachable from the v3 API: validation forbids combining a selector with a source Service, so
the calculation graph never emits two ids on a side; stated to show the hypothesis is necessary.) -/
theorem two_sets_union_not_intersection :
    ∃ (s : IPSets) (ps : PolicySet) (p : Pkt), s.wf ∧
      hnsActions (getPolicySetRules [some (ps.members s "p" 4000)] true true) p = [.allow] ∧
      tierVerdict s [ps] true true p = .block := by
  refine ⟨⟨[("s1", [a1]), ("s2", [a2])], []⟩,
    ⟨[{ action := "allow", srcSets := ["s1", "s2"], ruleId := "r1" }], []⟩,
    ⟨6, 167772161, 1000, 167772170, 80⟩, ?_, by decide, by decide⟩
  exact IPSets.wf_of_entries _ (by decide)

/-- Regression guard for /repo commit 44f8f9c: "allow udp to service {10.0.0.1 tcp/80}" no longer
lets TCP through (before the fix the rule's protocol was ignored and this packet was allowed). -/
def psUdpToService : PolicySet :=
  ⟨[], [{ action := "allow", proto := some (.name "udp"), dstIpPortSets := ["pp"], ruleId := "r1" }]⟩

example : hnsActions (getPolicySetRules [some (psUdpToService.members setsW "p" 4000)] false true)
    ⟨6, 167772170, 1000, 167772161, 80⟩ = [.block] := by decide

/-- COUNTEREXAMPLE (reachable): an egress rule that names a destination Service AND source nets.
The DstIpPortSetIds branch of protoRuleToHnsRules never looks at SrcNet / SrcIpSetIds:
"allow from 10.0.0.0/24 to service {10.0.0.1 tcp/80}" also allows a source outside 10.0.0.0/24.
All criteria used are supported ones and the v3 API accepts the combination (only DESTINATION nets,
selectors and ports are forbidden next to destination.services), so the unrestricted statement is
false of the current code. -/
theorem hns_verdict_false_service_source :
    ∃ (s : IPSets) (ps : PolicySet) (p : Pkt), s.wf ∧ s.ipportOK ∧
      (∀ r ∈ ps.outRules, r.supported) ∧
      hnsActions (getPolicySetRules [some (ps.members s "p" 4000)] false true) p = [.allow] ∧
      tierVerdict s [ps] false true p = .block :=
  ⟨setsW, ⟨[], [{ action := "allow", srcNet := [net24], dstIpPortSets := ["pp"], ruleId := "r1" }]⟩,
    ⟨6, 3232235777, 1000, 167772161, 80⟩, setsW_wf, setsW_ipportOK,
    by
      intro r hr
      simp only [List.mem_singleton] at hr; subst hr
      exact ⟨Or.inl rfl, rfl, rfl, rfl, rfl, rfl, by decide, trivial, by decide, by decide⟩,
    by decide, by decide⟩

/-! ## Multi-tier flattening (flattener.go, as repaired by /repo commit dea4f0a) -/

/-- combinePorts computes the intersection: `none` (ErrRuleIsNoOp) iff no port satisfies both lists,
otherwise the result admits exactly the ports both admit — for ALL port lists. -/
theorem combinePorts_intersection (a b : List PortRange) (x : Nat) :
    match combinePorts a b with
    | some c => portsOK c x = (portsOK a x && portsOK b x)
    | none => (portsOK a x && portsOK b x) = false := combinePorts_sem a b x

example : combinePorts [⟨80, 80⟩] [⟨80, 80⟩] = some [⟨80, 80⟩] := by decide
example : combinePorts [⟨20, 20⟩] [⟨30, 31⟩] = none := by decide
example : combinePorts [⟨1, 2⟩, ⟨10, 15⟩] [⟨2, 2⟩, ⟨12, 16⟩, ⟨55, 55⟩] = some [⟨2, 2⟩, ⟨12, 15⟩] := by decide

/-- Regression witnesses: what combinePorts did BEFORE the fix (kept as `combinePortsBeforeFix`):
a panic when both lists share their largest port, and "any port" for disjoint lists.  The oracle
signatures flatten-panic / flatten-disjoint-ports-any and corpus/C30/flatten-*.ops guard against a
regression on the real code. -/
theorem combinePorts_same_max_panicked : combinePortsBeforeFix [⟨80, 80⟩] [⟨80, 80⟩] = none := by decide
theorem combinePorts_disjoint_was_any : combinePortsBeforeFix [⟨20, 20⟩] [⟨30, 31⟩] = some [] := by decide

/-- The tiers of the former counterexample (tier 1 = "pass tcp dport 20, else drop", tier 2 = "allow
tcp dport 30, else drop") now flatten to a list that drops TCP to port 22, like the tiers do. -/
def tierPass20 : List HRule :=
  [HRule.mk .pass true 6 [] [] [⟨20, 20⟩] [] 1000 "", eotRule true true 1001]
def tierAllow30 : List HRule :=
  [HRule.mk .allow true 6 [] [] [⟨30, 30⟩] [] 1000 "", eotRule true true 1001]

example : (flattenTiers [tierPass20, tierAllow30]).map
    (fun l => hnsActions (rewritePriorities l policyRuleMaxPriority) ⟨6, 1, 1000, 2, 22⟩) = some [.block] := by decide

/-- FLATTENING THEOREM (full, at the level flattener.go works on).  For ANY non-empty list of tiers
of HNS rules of one direction with IPv4 addresses, each tier containing a rule that matches every
packet (the end-of-tier rule), with ANY ports on ANY rules: flattenTiers does not panic, and the
flattened list with rewritten priorities, evaluated by HNS with any tie-break, gives exactly the
tier-by-tier verdict `mvH` (first match per tier; a pass continues in the next tier; a pass in the
last tier is a drop).
Note on `limit`: Go computes `limit-currentPriority` in uint16 (it wraps when `limit < 1000`), the
model uses truncated subtraction; the theorem holds for BOTH branches of rewritePriorities, so the
difference cannot matter, and the only caller passes 65000. -/
theorem flatten_verdict (d : Bool) (tiers : List (List HRule)) (hne : tiers ≠ [])
    (h : ∀ t ∈ tiers, TierOK d t ∧ Total t) (limit : Nat) (p : Pkt) :
    ∃ l, flattenTiers tiers = some l ∧ ∃ a, mvH p tiers = some a ∧
      hnsActions (rewritePriorities l limit) p ≠ [] ∧
      ∀ b ∈ hnsActions (rewritePriorities l limit) p, b = a := by
  obtain ⟨l, hl, hlf⟩ := flattenTiers_sem d tiers hne h
  obtain ⟨hg, hfa⟩ := rewritePriorities_sem l limit p
  -- some rule of the first tier matches, so the cascade yields a verdict
  have hsome : ∃ a, mvH p tiers = some a := by
    have : ∀ ts : List (List HRule), ts ≠ [] → (∀ t ∈ ts, Total t) → ∃ a, mvH p ts = some a := by
      intro ts
      induction ts with
      | nil => intro h; exact absurd rfl h
      | cons t rest ih =>
        intro _ htot
        have ht := htot t (by simp) p
        cases hfa : firstAction t p with
        | none => rw [hfa] at ht; simp at ht
        | some a =>
          cases rest with
          | nil => exact ⟨if a = .pass then .block else a, by simp [mvH, hfa]⟩
          | cons t2 r =>
            obtain ⟨b, hb⟩ := ih (by simp) (fun x hx => htot x (by simp [hx]))
            cases a
            · exact ⟨.allow, by simp [mvH, hfa]⟩
            · exact ⟨.block, by simp [mvH, hfa]⟩
            · exact ⟨b, by simp [mvH, hfa, hb]⟩
    exact this tiers hne (fun t ht => (h t ht).2)
  obtain ⟨a, ha⟩ := hsome
  refine ⟨l, hl, a, ha, ?_⟩
  have : firstAction (rewritePriorities l limit) p = some a := by rw [hfa, hlf p, ha]
  exact first_match_decides _ hg p _ this

/-- … composed with policysets: for tiers generated by GetPolicySetRules from supported rules the
verdict is the policies' tier-by-tier verdict.  PARTIAL only through `PolicySet.supported` (Service
rules without source nets / IP sets, see `hns_verdict_partial`); no restriction on ports any more. -/
theorem flatten_policy_verdict_partial (s : IPSets) (hs : s.wf) (hipp : s.ipportOK) (hv : s.ipportV4)
    (ts : List TierSpec) (hne : ts ≠ [])
    (hsup : ∀ t ∈ ts, ∀ x ∈ t.1, x.2.supported)
    (n : Nat) (hn : 0 < n) (d : Bool) (limit : Nat) (p : Pkt) :
    ∃ l, flattenTiers (ts.map (genTier s n d)) = some l ∧
      hnsActions (rewritePriorities l limit) p ≠ [] ∧
      ∀ a ∈ hnsActions (rewritePriorities l limit) p,
        a = multiVerdict s d p (ts.map fun t => (t.1.map (·.2), t.2)) := by
  have htiers : ∀ t ∈ ts.map (genTier s n d), TierOK d t ∧ Total t := by
    intro t ht
    obtain ⟨x, hx, rfl⟩ := List.mem_map.1 ht
    refine ⟨tierOK_generated s hs hv n hn d x.2 x.1, ?_⟩
    intro q
    rw [show firstAction (genTier s n d x) q = _ from tier_first s hs hipp n hn d x.2 q x.1 (hsup x hx)]
    rfl
  obtain ⟨l, hl, a, ha, hne', hall⟩ := flatten_verdict d (ts.map (genTier s n d)) (by simpa using hne) htiers limit p
  rw [mvH_generated s hs hipp n hn d p ts hne hsup] at ha
  simp only [Option.some.injEq] at ha
  exact ⟨l, hl, hne', fun b hb => by rw [hall b hb, ← ha]⟩

end CalicoVerif.C30
