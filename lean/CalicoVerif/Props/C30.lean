import CalicoVerif.Proofs.C30FlatTier
/-!
C30 — Windows rule flattening preserves policy verdicts for supported rules.
Property theorems (helper lemmas live in `CalicoVerif.Proofs.C30*`).

`getPolicySetRules ∘ members` is the model of what policysets hands to HNS for one tier and one
direction; `hnsActions` returns the actions of ALL matching rules with the lowest priority number
(HNS's own tie-break between equal priorities is unknown), `tierVerdict` is Calico's
first-match-in-order semantics with the end-of-tier action.
-/
namespace CalicoVerif.C30

/-- protocolNameToNumber is case-insensitive on the names Calico uses (finite table). -/
theorem protocolNameToNumber_table :
    protocolNameToNumber "TCP" = 6 ∧ protocolNameToNumber "tcp" = 6 ∧ protocolNameToNumber "Udp" = 17 ∧
    protocolNameToNumber "sctp" = 132 ∧ protocolNameToNumber "bogus" = 256 := by decide

/-- Chunking (SplitIPList / SplitPortList, any chunk size > 0, any list) never changes whether an
address/port list admits a value: "no constraint, or some element matches" is preserved. -/
theorem split_preserves {α : Type} (l : List α) (n : Nat) (hn : 0 < n) (f : α → Bool) :
    (splitList l n).any (fun c => c.isEmpty || c.any f) = (l.isEmpty || l.any f) :=
  splitList_any l n hn f

example : splitList [1, 2, 3, 4, 5] 2 = [[1, 2], [3, 4], [5]] := by decide
example : splitList ([] : List Nat) 2 = [[]] := by decide

/-- IntersectCIDRs (used when a rule has both CIDRs and an IP set on one side): an address is in some
output CIDR iff it is in a CIDR of each input list. -/
theorem intersect_preserves (as bs : List Addr) (ha : ∀ a ∈ as, a.v6 = false) (hb : ∀ b ∈ bs, b.v6 = false)
    (ip : Nat) :
    (intersectCIDRs as bs).any (·.contains ip) = (as.any (·.contains ip) && bs.any (·.contains ip)) :=
  intersectCIDRs_any as bs ha hb ip

/-- One supported proto rule: every generated HNS rule carries the rule's action and direction, and
a packet matches SOME generated rule iff it matches the proto rule — whatever the chunk size, i.e.
"including when addresses or ports are split across several rules". -/
theorem rule_flattening (s : IPSets) (hs : s.wf) (hipp : s.ipportOK) (r : Rule) (inbound : Bool)
    (hsup : r.supportedIn inbound) (n : Nat) (hn : 0 < n) (pid : String) (p : Pkt) :
    (∀ h ∈ hr s pid r inbound n, h.action = ruleAction r ∧ h.inbound = inbound) ∧
    (hr s pid r inbound n).any (·.matches p) = r.matches s p :=
  rule_sem s hs hipp r inbound hsup n hn pid p

/-- Priority bumping: in the list built by GetPolicySetRules priorities never decrease and two
rules with different actions never share a priority "run" — for ANY members, supported or not. -/
theorem priorities_good (sets : List (Option (List HRule))) (inbound eotDrop : Bool) :
    good (getPolicySetRules sets inbound eotDrop) :=
  (getPolicySetRules_spec sets inbound eotDrop ⟨0, 0, 0, 0, 0⟩).1

/-- MAIN THEOREM.  For every IP set contents, every list of policy sets whose rules use supported
criteria only, both directions, both end-of-tier actions, every chunk size and every packet:
the HNS rules evaluated by priority have at least one decisive rule, and EVERY decisive rule
(whatever HNS's tie-break) carries exactly the verdict of the policy semantics. -/
theorem hns_verdict (s : IPSets) (hs : s.wf) (hipp : s.ipportOK) (sets : List (String × PolicySet))
    (hsup : ∀ x ∈ sets, x.2.supported) (n : Nat) (hn : 0 < n) (d eot : Bool) (p : Pkt) :
    let rules := getPolicySetRules (sets.map fun x => some (x.2.members s x.1 n)) d eot
    hnsActions rules p ≠ [] ∧ ∀ a ∈ hnsActions rules p, a = tierVerdict s (sets.map (·.2)) d eot p := by
  intro rules
  obtain ⟨hg, hf⟩ := getPolicySetRules_spec (sets.map fun x => some (x.2.members s x.1 n)) d eot p
  rw [firstAction_gather s hs hipp n hn d p sets hsup, ← tierVerdict_eq] at hf
  exact first_match_decides rules hg p _ hf

/-! ## Non-vacuity -/

def a1 : Addr := ⟨"10.0.0.1", false, 167772161, 32⟩
def a2 : Addr := ⟨"10.0.0.2", false, 167772162, 32⟩
def net24 : Addr := ⟨"10.0.0.0/24", false, 167772160, 24⟩
def setsW : IPSets := ⟨[("s1", [a1, a2])], [("pp", [⟨a1, "tcp", 80⟩])]⟩
/-- deny from IP set s1 on tcp/80, then allow 10.0.0.0/24 -/
def psW : PolicySet :=
  ⟨[{ action := "deny", proto := some (.name "tcp"), srcSets := ["s1"], dstPorts := [⟨80, 80⟩], ruleId := "r1" },
    { action := "allow", srcNet := [net24], ruleId := "r2" }], []⟩

theorem setsW_wf : setsW.wf := IPSets.wf_of_entries _ (by decide)

theorem setsW_ipportOK : setsW.ipportOK := IPSets.ipportOK_of_entries _ (by decide)

theorem psW_supported : psW.supported := by
  constructor
  · intro r hr
    simp only [psW, List.mem_cons, List.not_mem_nil, or_false] at hr
    rcases hr with rfl | rfl
    · exact ⟨⟨Or.inl rfl, rfl, rfl, rfl, rfl, rfl, by decide, by decide, by decide, by decide⟩, Or.inl rfl⟩
    · exact ⟨⟨Or.inl rfl, rfl, rfl, rfl, rfl, rfl, by decide, trivial, by decide, by decide⟩, Or.inl rfl⟩
  · intro r hr; simp [psW] at hr

/-- The hypotheses of `hns_verdict` hold for a non-trivial instance, and its verdicts differ by packet. -/
example : setsW.wf ∧ setsW.ipportOK ∧ psW.supported ∧
    tierVerdict setsW [psW] true true ⟨6, 167772161, 1000, 167772170, 80⟩ = .block ∧
    tierVerdict setsW [psW] true true ⟨6, 167772165, 1000, 167772170, 80⟩ = .allow ∧
    tierVerdict setsW [psW] true false ⟨6, 3232235777, 1000, 167772170, 80⟩ = .pass :=
  ⟨setsW_wf, setsW_ipportOK, psW_supported, by decide, by decide, by decide⟩

/-! ## Why the restrictions in `supportedIn` are needed -/

/-- Two IP sets on one side: Calico means "in BOTH sets", the converter emits their UNION.
(Not reachable from the v3 API: validation forbids combining a selector with a source Service, so
the calculation graph never emits two ids on a side; stated to show the hypothesis is necessary.) -/
theorem two_sets_union_not_intersection :
    ∃ (s : IPSets) (ps : PolicySet) (p : Pkt), s.wf ∧
      hnsActions (getPolicySetRules [some (ps.members s "p" 4000)] true true) p = [.allow] ∧
      tierVerdict s [ps] true true p = .block := by
  refine ⟨⟨[("s1", [a1]), ("s2", [a2])], []⟩,
    ⟨[{ action := "allow", srcSets := ["s1", "s2"], ruleId := "r1" }], []⟩,
    ⟨6, 167772161, 1000, 167772170, 80⟩, ?_, by decide, by decide⟩
  exact IPSets.wf_of_entries _ (by decide)

/-- COUNTEREXAMPLE (reachable): an egress rule that names a destination Service (IP-port set) AND a
protocol.  The converter returns early from the DstIpPortSetIds branch and never looks at
`Protocol` (nor at the source ports): `allow udp to service {10.0.0.1 tcp/80}` is programmed as
"allow tcp/80 to 10.0.0.1", so a TCP packet is allowed where the policy (and the Linux dataplanes)
deny it.  All criteria used are supported ones, so the unrestricted statement is false. -/
theorem hns_verdict_false_service_protocol :
    ∃ (s : IPSets) (ps : PolicySet) (p : Pkt), s.wf ∧ s.ipportOK ∧
      (∀ r ∈ ps.outRules, r.supported) ∧
      hnsActions (getPolicySetRules [some (ps.members s "p" 4000)] false true) p = [.allow] ∧
      tierVerdict s [ps] false true p = .block :=
  ⟨setsW, ⟨[], [{ action := "allow", proto := some (.name "udp"), dstIpPortSets := ["pp"], ruleId := "r1" }]⟩,
    ⟨6, 167772170, 1000, 167772161, 80⟩, setsW_wf, setsW_ipportOK,
    by
      intro r hr
      simp only [List.mem_singleton] at hr; subst hr
      exact ⟨Or.inl rfl, rfl, rfl, rfl, rfl, rfl, by decide, by decide, by decide, by decide⟩,
    by decide, by decide⟩


/-! ## Multi-tier flattening (flattener.go) -/

/-- combinePorts with a port-free side never changes the other side (and never panics). -/
theorem combinePorts_portfree (b : List PortRange) : combinePorts [] b = some b := combinePorts_nil b

/-- FINDING (crash).  Two port lists whose intersection contains the largest port of both:
combinePorts panics ("bitset said no end of range").  Here: a `pass` rule on port 80 combined with a
next-tier rule on port 80. -/
theorem combinePorts_same_max_panics : combinePorts [⟨80, 80⟩] [⟨80, 80⟩] = none := by decide

example : combinePorts [⟨20, 63⟩] [⟨30, 63⟩, ⟨5, 5⟩] = none := by decide

/-- FINDING (fail-open).  Disjoint port lists: the result is `[]` = "" = ANY port, with no error
(the code tests the bitset's capacity `Len()`, which is never 0, instead of an empty intersection). -/
theorem combinePorts_disjoint_is_any : combinePorts [⟨20, 20⟩] [⟨30, 31⟩] = some [] := by decide

/-- … and when they overlap properly the result is the exact intersection as maximal runs. -/
example : combinePorts [⟨1, 2⟩, ⟨10, 15⟩] [⟨2, 2⟩, ⟨12, 16⟩, ⟨55, 55⟩] = some [⟨2, 2⟩, ⟨12, 15⟩] := by decide

/-- The disjoint-ports defect at the level of verdicts: tier 1 = "pass tcp dport 20, else drop",
tier 2 = "allow tcp dport 30, else drop".  Every TCP packet to port 22 is dropped by tier 1, but the
flattened rule list allows it. -/
theorem flatten_false_disjoint_ports :
    ∃ (t1 t2 : List HRule) (l : List HRule) (p : Pkt),
      flattenTiers [t1, t2] = some l ∧
      hnsActions (rewritePriorities l policyRuleMaxPriority) p = [.allow] ∧ mvH p [t1, t2] = some .block :=
  ⟨[{ action := .pass, inbound := true, proto := 6, lPorts := [⟨20, 20⟩], prio := 1000 }, eotRule true true 1001],
   [{ action := .allow, inbound := true, proto := 6, lPorts := [⟨30, 30⟩], prio := 1000 }, eotRule true true 1001],
   [{ action := .allow, inbound := true, proto := 6, prio := 1000 },
    { action := .block, inbound := true, proto := 6, lPorts := [⟨20, 20⟩], prio := 1001 }, eotRule true true 1001],
   ⟨6, 1, 1000, 2, 22⟩, by decide, by decide, by decide⟩

/-- MULTI-TIER THEOREM (partial: pass rules carry no port criteria — see the two findings above).
For tiers generated by GetPolicySetRules from supported rules: flattenTiers does not panic, and the
flattened list with rewritten priorities, evaluated by HNS with any tie-break, gives exactly the
verdict of evaluating the tiers in order (a pass continues in the next tier, a pass in the last tier
is a drop). -/
theorem flatten_verdict_partial (s : IPSets) (hs : s.wf) (hipp : s.ipportOK) (hv : s.ipportV4)
    (ts : List TierSpec) (hne : ts ≠ [])
    (hsup : ∀ t ∈ ts, ∀ x ∈ t.1, x.2.supported) (hpf : ∀ t ∈ ts, ∀ x ∈ t.1, x.2.passPortFree)
    (n : Nat) (hn : 0 < n) (d : Bool) (limit : Nat) (p : Pkt) :
    ∃ l, flattenTiers (ts.map (genTier s n d)) = some l ∧
      hnsActions (rewritePriorities l limit) p ≠ [] ∧
      ∀ a ∈ hnsActions (rewritePriorities l limit) p,
        a = multiVerdict s d p (ts.map fun t => (t.1.map (·.2), t.2)) := by
  have htiers : ∀ t ∈ ts.map (genTier s n d), TierOK d t ∧ Total t := by
    intro t ht
    obtain ⟨x, hx, rfl⟩ := List.mem_map.1 ht
    refine ⟨tierOK_generated s hs hv n hn d x.2 x.1 (hpf x hx), ?_⟩
    intro q
    rw [show firstAction (genTier s n d x) q = _ from tier_first s hs hipp n hn d x.2 q x.1 (hsup x hx)]
    rfl
  obtain ⟨l, hl, hlf⟩ := flattenTiers_sem d (ts.map (genTier s n d)) (by simpa using hne) htiers
  refine ⟨l, hl, ?_⟩
  obtain ⟨hg, hfa⟩ := rewritePriorities_sem l limit p
  have : firstAction (rewritePriorities l limit) p = some (multiVerdict s d p (ts.map fun t => (t.1.map (·.2), t.2))) := by
    rw [hfa, hlf p, mvH_generated s hs hipp n hn d p ts hne hsup]
  exact first_match_decides _ hg p _ this

end CalicoVerif.C30
