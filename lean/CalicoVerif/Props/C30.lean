import CalicoVerif.Model.C30
/-!
C30 — Windows rule flattening preserves policy verdicts for supported rules.
-/
namespace CalicoVerif.C30

/-- protocolNameToNumber is case-insensitive on the names Calico uses (finite table). -/
theorem protocolNameToNumber_table :
    protocolNameToNumber "TCP" = 6 ∧ protocolNameToNumber "tcp" = 6 ∧ protocolNameToNumber "Udp" = 17 ∧
    protocolNameToNumber "sctp" = 132 ∧ protocolNameToNumber "bogus" = 256 := by decide

end CalicoVerif.C30
