import CalicoVerif.Proofs.C23
/-!
C23 — IPAM garbage collection never frees an address that is still in use.
Property theorems over the model `Model/C23.lean`.  Every conclusion is about the INPUT state of the
function concerned or about the state AT THE MOMENT of the call (`releaseTrace`), never about an
existentially chosen state.

IP releases
* `gc_release_justified_partial` — every item of a `ReleaseIPs` call of `garbageCollectKnownLeaks s` is a tracked
  allocation OF `s`, released with its tracked sequence number, which is a confirmed leak and fails the
  final re-validation against `s.env`.  `sync_release_justified_partial`: the same for a whole `syncIPAM`, about the
  state `checkAllocations` leaves.
* `handle_all_confirmed_partial` — every allocation of `s` sharing a released address's handle is a
  confirmed leak.  PARTIAL w.r.t. "all of a handle's addresses together or none": at batch level that is
  false and order dependent — `handle_split_witness` (reproduced on the real code, KNOWN-FINDING handle-split).
* `confirm_needs_grace_or_dead_node_partial` — `checkOne` turns a pod allocation into a confirmed leak only
  when it is invalid and its node is gone or a positive grace period has elapsed since it became a
  candidate.  PARTIAL: a statement about `checkOne` for arbitrary `knode`/`exists`; it is NOT lifted to
  `checkNode`/`checkAllocations`/whole histories (no invariant "confirmed ⇒ node gone ∨ grace elapsed" is
  proved), and nothing is proved about the confirmation of TUNNEL addresses (`checkNode`'s dead-node branch).
  `valid_is_never_confirmed` is a one-branch lemma about `checkOne`.

Block affinity releases (`releaseTrace` = the state at the moment of each call; `block_calls_eq_trace`)
* `block_release_guarded` — at each release: `emptyBlocks[b] = node`, `blocksByNode[node]` has ≥ 2 blocks,
  and a positive grace period has elapsed since an EARLIER sync first saw the block empty.  (That an
  `emptyBlocks` entry means "no allocation of the block is tracked" is not proved.)
* `reachable_idx`/`idx_step` — `blocksByNode[n]` is exactly the duplicate-free set of blocks with
  `nodesByBlock[b] = n`, and `emptyBlocks` entries name their block's node, in every reachable state.
* `never_last_block_index` — at each release another block `b'` has `nodesByBlock[b'] = node` (all reachable states).
* `never_last_block` — FULL strength w.r.t. the blocks SEEN (`seen`, a ghost field = latest host affinity delivered
  for each block; `reachable_tracks`: `nodesByBlock` agrees with it in every reachable state): at each release
  another block's latest seen affinity is `node`.  Both routes that used to break this are repaired in /repo
  (host→host 361e296, host→non-host 8ebf246); `last_block_history_fixed` / `last_block_virtual_history_fixed` are the
  old counterexample histories (kept as corpus + oracle signature `last-block-stale-index`).
-/
namespace CalicoVerif.C23

/-! ### ReleaseIPs -/

theorem gc_items (s : St) (batch : List (Nat × Nat × Nat × Nat))
    (h : Call.releaseIPs batch ∈ (garbageCollectKnownLeaks s).2) :
    ∀ x ∈ batch, ∃ a ∈ s.allocs, x = (a.block, a.ord, a.handle, a.seq) ∧
      isValid s.env a a.knode.isNone = false ∧ a.confirmed = true ∧
      ∀ c ∈ s.allocs, c.handle = a.handle → c.confirmed = true := by
  intro x hx
  unfold garbageCollectKnownLeaks at h
  by_cases he : (gcSelect s s.leaks).2.isEmpty = true
  · simp [he] at h
  · simp only [he] at h
    simp only [Bool.false_eq_true, if_false, List.mem_singleton, Call.releaseIPs.injEq] at h
    subst h
    simp only [List.mem_map] at hx
    obtain ⟨a, ha, rfl⟩ := hx
    obtain ⟨h1, h2, h3, h4⟩ := gcSelect_input s [] s s.leaks rfl (by rw [show mv [] = id from funext mv_nil]; simp) a ha
    exact ⟨a, h1, rfl, h2, h3, h4⟩

/-- **gc_release_justified_partial.**  PARTIAL w.r.t. the property's "its owner no longer justifies it": invalidity is
proved against the code's OWN validity function with the code's OWN choice of source (informer cache when the hosting
node is unknown, API otherwise), not against the ground truth — with a stale cache and an unknown node these differ
(KNOWN-FINDING release-in-use-node-gone-stale-cache), and a stale `a.knode` makes a live node's tunnel address
"invalid" (KNOWN-FINDING release-in-use-tunnel-stale-knode).  What is proved: every (block, ordinal, handle, sequence number) that `garbageCollectKnownLeaks s`
passes to `ReleaseIPs` is an allocation tracked in `s`, with the sequence number tracked for it, that is a
confirmed leak and FAILS the final re-validation against the cluster state `s.env` (informer cache when the
hosting node is unknown, API otherwise). -/
theorem gc_release_justified_partial (s : St) (batch : List (Nat × Nat × Nat × Nat))
    (h : Call.releaseIPs batch ∈ (garbageCollectKnownLeaks s).2) :
    ∀ x ∈ batch, ∃ a ∈ s.allocs, x = (a.block, a.ord, a.handle, a.seq) ∧
      isValid s.env a a.knode.isNone = false ∧ a.confirmed = true := by
  intro x hx
  obtain ⟨a, ha, e, h1, h2, _⟩ := gc_items s batch h x hx
  exact ⟨a, ha, e, h1, h2⟩

/-- **handle guard (partial).** Every allocation tracked in `s` that shares the handle of a released address is a
confirmed leak (before any resurrection of this pass).  This is NOT "all of the handle's addresses are in the
batch": see `handle_split_witness`. -/
theorem handle_all_confirmed_partial (s : St) (batch : List (Nat × Nat × Nat × Nat))
    (h : Call.releaseIPs batch ∈ (garbageCollectKnownLeaks s).2) :
    ∀ x ∈ batch, ∀ c ∈ s.allocs, c.handle = x.2.2.1 → c.confirmed = true := by
  intro x hx c hc hch
  obtain ⟨a, _, e, _, _, h4⟩ := gc_items s batch h x hx
  subst e
  exact h4 c hc hch

theorem loop_only_rba (st : St) (l : List (Nat × Nat)) :
    ∀ c ∈ (releaseUnusedLoop st l).2, ∃ b n, c = Call.releaseBlockAffinity b n := by
  rw [loop_calls_eq_trace]
  intro c hc
  simp only [List.mem_map] at hc
  obtain ⟨t, _, rfl⟩ := hc
  exact ⟨_, _, rfl⟩

/-- the `ReleaseIPs` calls of a whole `syncIPAM s` are those of `garbageCollectKnownLeaks` run on the state
`checkAllocations s` leaves; every item is justified in THAT state. -/
theorem sync_release_justified_partial (s : St) (batch : List (Nat × Nat × Nat × Nat))
    (h : Call.releaseIPs batch ∈ (syncIPAM s).2.1) :
    ∀ x ∈ batch, ∃ a ∈ (checkAllocations s).1.allocs, x = (a.block, a.ord, a.handle, a.seq) ∧
      isValid (checkAllocations s).1.env a a.knode.isNone = false ∧ a.confirmed = true := by
  unfold syncIPAM at h
  by_cases hi : s.inSync = true
  · simp only [hi, Bool.not_true, Bool.false_eq_true, if_false, List.mem_append, List.mem_map] at h
    rcases h with (h | h) | ⟨n, _, h⟩
    · exact gc_release_justified_partial _ batch h
    · obtain ⟨b, n, hbn⟩ := loop_only_rba _ _ _ h; cases hbn
    · cases h
  · simp [hi] at h

/-! ### becoming a confirmed leak (about `checkOne` only) -/

theorem confirm_needs_grace_or_dead_node_partial (s : St) (knode : Option Nat) (ex : Bool) (a0 : Alloc)
    (h0 : a0.confirmed = false) (h1 : (checkOne s knode ex a0).a.confirmed = true) :
    a0.kind = .pod ∧ isValid s.env { a0 with knode := knode } true = false ∧
    (ex = false ∨ ∃ g t, s.grace = some g ∧ 0 < g ∧ a0.leakedAt = some t ∧ s.now - t > g) := by
  obtain ⟨blk, ord, hd, kind, nd, pd, sq, kn, la, cf⟩ := a0
  simp only at h0
  subst h0
  cases kind with
  | winres => simp [checkOne] at h1
  | unknown => simp [checkOne] at h1
  | tunnel => simp [checkOne] at h1
  | pod =>
    simp only [checkOne] at h1
    by_cases hv : isValid s.env { block := blk, ord := ord, handle := hd, kind := .pod, node := nd, pod := pd, seq := sq, knode := knode, leakedAt := la, confirmed := false } true = true
    · simp [hv, Alloc.markValid] at h1
    · simp only [hv] at h1
      refine ⟨rfl, by simpa using hv, ?_⟩
      cases ex with
      | false => exact Or.inl rfl
      | true =>
        right
        cases hg : s.grace with
        | none => simp [hg] at h1
        | some g =>
          simp only [hg, Bool.not_true, Bool.false_eq_true, if_false] at h1
          unfold Alloc.markLeak at h1
          cases la with
          | none => simp at h1
          | some t =>
            simp only [Option.getD_some, Bool.not_false, Bool.and_true] at h1
            by_cases hc : (decide (s.now - t > g) && decide (g > 0)) = true
            · simp only [Bool.and_eq_true, decide_eq_true_eq] at hc
              exact ⟨g, t, rfl, hc.2, rfl, hc.1⟩
            · simp [hc] at h1

/-- **valid_is_never_confirmed.** A pod allocation that `checkAllocations` finds valid is reset:
not confirmed, no candidate timestamp, and it blocks the clean-up of its node. -/
theorem valid_is_never_confirmed (s : St) (knode : Option Nat) (ex : Bool) (a0 : Alloc) (hk : a0.kind = .pod)
    (hv : isValid s.env { a0 with knode := knode } true = true) :
    (checkOne s knode ex a0).a.confirmed = false ∧ (checkOne s knode ex a0).a.leakedAt = none ∧
    (checkOne s knode ex a0).blocks = true := by
  obtain ⟨blk, ord, hd, kind, nd, pd, sq, kn, la, cf⟩ := a0
  simp only at hk
  subst hk
  simp only at hv
  simp [checkOne, hv, Alloc.markValid]

/-! ### block affinity releases -/

theorem markEmpty_true {s s' : St} {b : Nat} (h : markEmpty s b = (s', true)) :
    s' = s ∧ ∃ g t, s.grace = some g ∧ 0 < g ∧ s.tracker.get b = some t ∧ s.now - t > g := by
  unfold markEmpty at h
  cases hg : s.grace with
  | none => simp [hg] at h
  | some g =>
    simp only [hg] at h
    by_cases hp : g > 0
    · simp only [hp, if_true] at h
      cases ht : s.tracker.get b with
      | none => simp [ht] at h
      | some t =>
        simp only [ht, Prod.mk.injEq, decide_eq_true_eq] at h
        exact ⟨h.1.symm, g, t, rfl, hp, rfl, h.2⟩
    · simp [hp] at h

/-- what holds in the state `st` AT THE MOMENT block `b` of `node` has its affinity released -/
structure BlockGuard (st : St) (b node : Nat) : Prop where
  empty : st.emptyBlocks.get b = some node
  twoBlocks : 2 ≤ ((st.blocksByNode.get node).getD []).length
  grace : ∃ g t, st.grace = some g ∧ 0 < g ∧ st.tracker.get b = some t ∧ st.now - t > g

/-- the list `releaseUnusedBlocks` iterates is consistent with `emptyBlocks` -/
def ListOK (st : St) (l : List (Nat × Nat)) : Prop :=
  ∀ bn ∈ l, st.emptyBlocks.get bn.1 = some bn.2 ∨ st.emptyBlocks.get bn.1 = none

theorem forgetBlock_empty (s : St) (b : Nat) : (forgetBlock s b).emptyBlocks = s.emptyBlocks.del b := by
  unfold forgetBlock
  simp only
  rw [(fr_releaseAll s _).2.2.1]

theorem fr_markEmpty (s : St) (b : Nat) : Fr s (markEmpty s b).1 := by
  unfold markEmpty
  split
  · split
    · split
      · exact ⟨rfl, rfl, rfl, rfl⟩
      · exact Fr.refl s
    · exact Fr.refl s
  · exact Fr.refl s

theorem exists_other {l : List Nat} (hn : l.Nodup) (h2 : 2 ≤ l.length) (b : Nat) : ∃ x ∈ l, x ≠ b := by
  match l, hn, h2 with
  | [], _, h2 => simp at h2
  | [_], _, h2 => simp at h2
  | a :: c :: rest, hn, _ =>
    by_cases ha : a = b
    · refine ⟨c, by simp, fun hc => ?_⟩
      have := (List.nodup_cons.1 hn).1
      apply this
      rw [ha, ← hc]; simp
    · exact ⟨a, by simp, ha⟩

/-- the indexes agree with the blocks SEEN -/
def Tracks (s : St) : Prop := ∀ b, s.nodesByBlock.get b = s.seen.get b

/-- at the moment of the release, `node` has another block -/
structure NotLast (st : St) (b node : Nat) : Prop where
  mine : st.nodesByBlock.get b = some node
  other : ∃ b', b' ≠ b ∧ st.nodesByBlock.get b' = some node

theorem tracks_forgetBlock {s : St} (h : Tracks s) (b : Nat) : Tracks (forgetBlock s b) := by
  intro x
  have f := fr_releaseAll s (s.allocs.filter (fun a => a.block == b))
  show ((releaseAll s _).nodesByBlock.del b).get x = ((releaseAll s _).seen.del b).get x
  rw [f.1, f.2.2.2, AMap.get_del, AMap.get_del, h x]

theorem tracks_of_fr {s s' : St} (h : Tracks s) (f : Fr s s') : Tracks s' := by
  intro x; rw [f.1, f.2.2.2]; exact h x

/-- the whole loop: every at-release state satisfies the guard; with consistent indexes the released block
is never the node's only one; index consistency and agreement with the blocks seen survive the loop. -/
theorem trace_spec (st : St) (l : List (Nat × Nat)) (hl : ListOK st l) :
    (∀ t ∈ releaseTrace st l, BlockGuard t.1 t.2.1 t.2.2) ∧
    (Idx st → Idx (releaseUnusedLoop st l).1 ∧ ∀ t ∈ releaseTrace st l, Idx t.1 ∧ NotLast t.1 t.2.1 t.2.2) ∧
    (Tracks st → Tracks (releaseUnusedLoop st l).1 ∧ ∀ t ∈ releaseTrace st l, Tracks t.1) := by
  induction l generalizing st with
  | nil => exact ⟨fun t h => by simp [releaseTrace] at h, fun hI => ⟨hI, fun t h => by simp [releaseTrace] at h⟩,
      fun hT => ⟨hT, fun t h => by simp [releaseTrace] at h⟩⟩
  | cons bn rest ih =>
    obtain ⟨b0, n0⟩ := bn
    have hrest : ListOK st rest := fun bn h => hl bn (List.mem_cons_of_mem _ h)
    simp only [releaseUnusedLoop, releaseTrace]
    by_cases h1 : (st.emptyBlocks.get b0).isNone = true
    · simp only [h1, if_true]; exact ih st hrest
    · simp only [h1]
      by_cases h2 : ((st.blocksByNode.get n0).getD []).length ≤ 1
      · simp only [h2, if_true]; exact ih st hrest
      · simp only [h2]
        by_cases h3 : (st.cnodes.get n0 == some none) = true
        · simp only [h3, if_true]
          exact ih { st with tracker := st.tracker.del b0 } hrest
        · simp only [h3]
          have fm := fr_markEmpty st b0
          cases hm : markEmpty st b0 with
          | mk st1 ok =>
            rw [hm] at fm
            simp only
            have hrest1 : ListOK st1 rest := by
              intro bn h; rw [fm.2.2.1]; exact hrest bn h
            have lift1 : ∀ {P : Prop}, ((∀ t ∈ releaseTrace st1 rest, BlockGuard t.1 t.2.1 t.2.2) ∧
                (Idx st1 → Idx (releaseUnusedLoop st1 rest).1 ∧ ∀ t ∈ releaseTrace st1 rest, Idx t.1 ∧ NotLast t.1 t.2.1 t.2.2) ∧
                (Tracks st1 → Tracks (releaseUnusedLoop st1 rest).1 ∧ ∀ t ∈ releaseTrace st1 rest, Tracks t.1) → P) → P :=
              fun k => k (ih st1 hrest1)
            cases ok with
            | false =>
              simp only [Bool.not_false, if_true]
              obtain ⟨a, b, c⟩ := ih st1 hrest1
              exact ⟨a, fun hI => b (hI.of_fr fm), fun hT => c (tracks_of_fr hT fm)⟩
            | true =>
              simp only [Bool.not_true, Bool.false_eq_true, if_false]
              by_cases h5 : st1.allBlocks.contains b0 = true
              · simp only [h5, Bool.not_true, Bool.false_eq_true, if_false]
                have hrest2 : ListOK (forgetBlock st1 b0) rest := by
                  intro bn h
                  rw [forgetBlock_empty, AMap.get_del]
                  by_cases hb : bn.1 = b0
                  · simp [hb]
                  · simp only [hb, if_false]; exact hrest1 bn h
                obtain ⟨a, b, c⟩ := ih (forgetBlock st1 b0) hrest2
                obtain ⟨rfl, hg⟩ := markEmpty_true hm
                have hem : st1.emptyBlocks.get b0 = some n0 := by
                  rcases hl (b0, n0) (by simp) with h' | h'
                  · exact h'
                  · simp [h'] at h1
                refine ⟨fun t ht => ?_, fun hI => ?_, fun hT => ?_⟩
                · rcases List.mem_cons.1 ht with rfl | ht
                  · show BlockGuard st1 b0 n0
                    exact ⟨hem, by omega, hg⟩
                  · exact a t ht
                · obtain ⟨i1, i2⟩ := b (idx_forgetBlock hI b0)
                  refine ⟨i1, fun t ht => ?_⟩
                  rcases List.mem_cons.1 ht with rfl | ht
                  · have hmine := hI.empty b0 n0 hem
                    have hlen : 2 ≤ (blocksOf st1.blocksByNode n0).length := by unfold blocksOf; omega
                    obtain ⟨b', hb', hne⟩ := exists_other (hI.nodup n0) hlen b0
                    exact ⟨hI, hmine, b', hne, (hI.mem n0 b').1 hb'⟩
                  · exact i2 t ht
                · obtain ⟨c1, c2⟩ := c (tracks_forgetBlock hT b0)
                  refine ⟨c1, fun t ht => ?_⟩
                  rcases List.mem_cons.1 ht with rfl | ht
                  · exact hT
                  · exact c2 t ht
              · simp only [h5]
                obtain ⟨a, b, c⟩ := ih st1 hrest1
                exact ⟨a, fun hI => b (hI.of_fr fm), fun hT => c (tracks_of_fr hT fm)⟩

theorem mem_sortKV {m : AMap Nat} {bn : Nat × Nat} (h : bn ∈ sortKV m) : m.get bn.1 = some bn.2 := by
  simp only [sortKV, List.mem_filterMap] at h
  obtain ⟨k, _, hk⟩ := h
  cases hg : m.get k with
  | none => simp [hg] at hk
  | some v => simp [hg] at hk; subst hk; exact hg

theorem listOK_sortKV (st : St) : ListOK st (sortKV st.emptyBlocks) := fun _ h => Or.inl (mem_sortKV h)

/-- the `ReleaseBlockAffinity` calls of `releaseUnusedBlocks st` are exactly the entries of the trace, in order:
each call is made in the recorded state -/
theorem block_calls_eq_trace (st : St) :
    (releaseUnusedBlocks st).2 = (releaseTrace st (sortKV st.emptyBlocks)).map (fun t => Call.releaseBlockAffinity t.2.1 t.2.2) :=
  loop_calls_eq_trace st _

/-- **block_release_guarded.** In the state at the moment of each `ReleaseBlockAffinity(b, node)`:
`emptyBlocks[b] = node`, `blocksByNode[node]` lists at least two blocks, and a positive grace period has elapsed
since an EARLIER sync first recorded the block as empty. -/
theorem block_release_guarded (st : St) :
    ∀ t ∈ releaseTrace st (sortKV st.emptyBlocks), BlockGuard t.1 t.2.1 t.2.2 :=
  (trace_spec st _ (listOK_sortKV st)).1

/-- **never_last_block w.r.t. the collector's `nodesByBlock`** (every state with consistent indexes, i.e. every
reachable state): at the moment of each release, `nodesByBlock[b] = node` and ANOTHER block `b'` has
`nodesByBlock[b'] = node`. -/
theorem never_last_block_index (st : St) (hI : Idx st) :
    ∀ t ∈ releaseTrace st (sortKV st.emptyBlocks), NotLast t.1 t.2.1 t.2.2 :=
  fun t ht => (((trace_spec st _ (listOK_sortKV st)).2.1 hI).2 t ht).2

/-- **never_last_block w.r.t. the blocks SEEN.**  In a state with consistent indexes that agree with the latest host
affinity seen for every block (every reachable state: `reachable_idx`, `reachable_tracks`), at the moment of each
release the released block's latest seen affinity is `node` and ANOTHER block's latest seen affinity is `node`. -/
theorem never_last_block (st : St) (hI : Idx st) (hT : Tracks st) :
    ∀ t ∈ releaseTrace st (sortKV st.emptyBlocks),
      t.1.seen.get t.2.1 = some t.2.2 ∧ ∃ b', b' ≠ t.2.1 ∧ t.1.seen.get b' = some t.2.2 := by
  intro t ht
  obtain ⟨hm, b', hne, hb'⟩ := never_last_block_index st hI t ht
  have hTt := ((trace_spec st _ (listOK_sortKV st)).2.2 hT).2 t ht
  exact ⟨by rw [← hTt]; exact hm, b', hne, by rw [← hTt]; exact hb'⟩

/-! ### the invariants over whole histories -/

theorem idx_syncIPAM {s : St} (hI : Idx s) : Idx (syncIPAM s).1 := by
  unfold syncIPAM
  by_cases hi : s.inSync = true
  · simp only [hi, Bool.not_true, Bool.false_eq_true, if_false]
    have h2 : Idx (garbageCollectKnownLeaks (checkAllocations s).1).1 :=
      (hI.of_fr (fr_checkAllocations s)).of_fr (fr_gc _)
    exact Idx.of_fr ((trace_spec _ _ (listOK_sortKV _)).2.1 h2).1 (fr_foldl _ fr_markClean _ _)
  · simp only [hi]; exact hI

theorem tracks_syncIPAM {s : St} (hT : Tracks s) : Tracks (syncIPAM s).1 := by
  unfold syncIPAM
  by_cases hi : s.inSync = true
  · simp only [hi, Bool.not_true, Bool.false_eq_true, if_false]
    have h2 : Tracks (garbageCollectKnownLeaks (checkAllocations s).1).1 :=
      tracks_of_fr (tracks_of_fr hT (fr_checkAllocations s)) (fr_gc _)
    exact tracks_of_fr ((trace_spec _ _ (listOK_sortKV _)).2.2 h2).1 (fr_foldl _ fr_markClean _ _)
  · simp only [hi]; exact hT

theorem idx_syncStep {s : St} (hI : Idx s) : Idx (syncStep s).1 := by
  unfold syncStep
  split
  · exact ((hI.of_fr (fr_checkAllocations s)).of_fr (fr_gcSelect _ _)).of_fr ⟨rfl, rfl, rfl, rfl⟩
  · exact idx_syncIPAM hI

theorem tracks_syncStep {s : St} (hT : Tracks s) : Tracks (syncStep s).1 := by
  unfold syncStep
  split
  · exact tracks_of_fr (tracks_of_fr (tracks_of_fr hT (fr_checkAllocations s)) (fr_gcSelect _ _)) ⟨rfl, rfl, rfl, rfl⟩
  · exact tracks_syncIPAM hT

/-- when `ReleaseIPs` fails the attempted batch is justified in the same way (and nothing is released) -/
theorem syncFail_release_justified_partial (s : St) (batch : List (Nat × Nat × Nat × Nat))
    (h : Call.releaseIPs batch ∈ (syncIPAMFail s).2.1) :
    ∀ x ∈ batch, ∃ a ∈ (checkAllocations s).1.allocs, x = (a.block, a.ord, a.handle, a.seq) ∧
      isValid (checkAllocations s).1.env a a.knode.isNone = false ∧ a.confirmed = true := by
  intro x hx
  simp only [syncIPAMFail, List.mem_singleton, Call.releaseIPs.injEq] at h
  subst h
  simp only [List.mem_map] at hx
  obtain ⟨a, ha, rfl⟩ := hx
  obtain ⟨h1, h2, h3, _⟩ := gcSelect_input (checkAllocations s).1 [] (checkAllocations s).1 _ rfl
    (by rw [show mv [] = id from funext mv_nil]; simp) a ha
  exact ⟨a, h1, rfl, h2, h3⟩

theorem idx_onBlock {s : St} (hI : Idx s) (b : Nat) (aff : Aff) (es : List Entry) : Idx (onBlock s b aff es) := by
  cases aff with
  | host n => exact idx_onBlockUpdated hI b (some n) es
  | none => exact idx_onBlockUpdated hI b none es
  | other => exact idx_onBlockUpdated hI b none es

/-- **store/index consistency is inductive** -/
theorem idx_step {s : St} (hI : Idx s) (op : Op) : Idx (step s op).1 := by
  cases op with
  | block b aff es => exact idx_onBlock hI b aff es
  | blockDel b => exact idx_forgetBlock hI b
  | sync full =>
    simp only [step]
    cases full with
    | true => exact idx_syncStep (s := { s with fullSync := true }) hI
    | false => exact idx_syncStep hI
  | dirty n => exact hI.of_fr (fr_markDirty s n)
  | failRel => exact hI
  | inSync => exact hI
  | cnode n k => exact hI
  | cnodeDel n => exact hI
  | knode n p => exact hI
  | pod id c a p => exact hI
  | podDel id c a => exact hI
  | tick d => exact hI

/-- **a whole sync, from any state with consistent indexes**: every `ReleaseBlockAffinity(b, node)` of `syncIPAM s`
is an entry of the release trace of the state `s2` that `checkAllocations` and `garbageCollectKnownLeaks` leave,
and in the recorded at-release state the guard holds and `node` has another block in `nodesByBlock`. -/
theorem sync_block_release (s : St) (hI : Idx s) (b node : Nat)
    (h : Call.releaseBlockAffinity b node ∈ (syncIPAM s).2.1) :
    ∃ t ∈ releaseTrace (garbageCollectKnownLeaks (checkAllocations s).1).1
        (sortKV (garbageCollectKnownLeaks (checkAllocations s).1).1.emptyBlocks),
      t.2 = (b, node) ∧ BlockGuard t.1 b node ∧ NotLast t.1 b node := by
  unfold syncIPAM at h
  by_cases hi : s.inSync = true
  · simp only [hi, Bool.not_true, Bool.false_eq_true, if_false, List.mem_append, List.mem_map] at h
    have h2 : Idx (garbageCollectKnownLeaks (checkAllocations s).1).1 :=
      (hI.of_fr (fr_checkAllocations s)).of_fr (fr_gc _)
    rcases h with (h | h) | ⟨n, _, h⟩
    · exfalso
      unfold garbageCollectKnownLeaks at h
      simp only at h
      split at h
      · simp at h
      · simp at h
    · change Call.releaseBlockAffinity b node ∈ (releaseUnusedBlocks _).2 at h
      rw [block_calls_eq_trace, List.mem_map] at h
      obtain ⟨t, ht, he⟩ := h
      simp only [Call.releaseBlockAffinity.injEq] at he
      obtain ⟨rfl, rfl⟩ := he
      exact ⟨t, ht, rfl, block_release_guarded _ t ht, never_last_block_index _ h2 t ht⟩
    · cases h
  · simp [hi] at h

def runOps (s : St) : List Op → St × List (List Call)
  | [] => (s, [])
  | op :: ops =>
    let r := step s op
    let r2 := runOps r.1 ops
    (r2.1, r.2.1 :: r2.2)

theorem idx_init (g : Option Nat) : Idx { grace := g } :=
  ⟨fun n b => by simp [blocksOf, AMap.get], fun n => by simp [blocksOf, AMap.get], fun b n h => by simp [AMap.get] at h⟩

/-- every state reachable from a fresh controller has consistent indexes -/
theorem reachable_idx (g : Option Nat) (ops : List Op) : Idx (runOps { grace := g } ops).1 := by
  have : ∀ (s : St), Idx s → Idx (runOps s ops).1 := by
    induction ops with
    | nil => intro s h; exact h
    | cons op ops ih => intro s h; exact ih _ (idx_step h op)
  exact this _ (idx_init g)

theorem nodesByBlock_onBlockUpdated (s : St) (b : Nat) (aff : Option Nat) (es : List Entry) (x : Nat) :
    (onBlockUpdated s b aff es).nodesByBlock.get x = if x = b then aff else s.nodesByBlock.get x := by
  unfold onBlockUpdated
  simp only
  rw [(fr_releaseAll _ _).1]
  have f2 := fr_upsertAll (affinityStage s b aff) b es
  have e3 : (emptyStage (upsertAll (affinityStage s b aff) b es) b es.isEmpty aff).nodesByBlock =
      (upsertAll (affinityStage s b aff) b es).nodesByBlock := by
    unfold emptyStage; cases aff with
    | none => rfl
    | some n => simp only; split <;> rfl
  rw [e3, f2.1]
  cases aff with
  | some n => simp only [affinityStage]; rw [AMap.get_set]
  | none =>
    simp only [affinityStage]
    cases hg : s.nodesByBlock.get b with
    | some n' => simp only; rw [AMap.get_del]
    | none =>
      simp only
      by_cases hx : x = b
      · subst hx; simp [hg]
      · simp [hx]

theorem tracks_step {s : St} (hT : Tracks s) (op : Op) : Tracks (step s op).1 := by
  cases op with
  | block b aff es =>
    cases aff with
    | host n =>
      intro x
      show (onBlockUpdated s b (some n) es).nodesByBlock.get x = (s.seen.set b n).get x
      rw [nodesByBlock_onBlockUpdated, AMap.get_set, hT x]
    | none =>
      intro x
      show (onBlockUpdated s b none es).nodesByBlock.get x = (s.seen.del b).get x
      rw [nodesByBlock_onBlockUpdated, AMap.get_del, hT x]
    | other =>
      intro x
      show (onBlockUpdated s b none es).nodesByBlock.get x = (s.seen.del b).get x
      rw [nodesByBlock_onBlockUpdated, AMap.get_del, hT x]
  | blockDel b => exact tracks_forgetBlock hT b
  | sync full =>
    simp only [step]
    cases full with
    | true => exact tracks_syncStep (s := { s with fullSync := true }) hT
    | false => exact tracks_syncStep hT
  | dirty n => exact tracks_of_fr hT (fr_markDirty s n)
  | failRel => exact hT
  | inSync => exact hT
  | cnode n k => exact hT
  | cnodeDel n => exact hT
  | knode n p => exact hT
  | pod id c a p => exact hT
  | podDel id c a => exact hT
  | tick d => exact hT

/-- **the indexes agree with the blocks seen in every reachable state** (since /repo 8ebf246 also for blocks
re-seen with a non-`host:` affinity) -/
theorem reachable_tracks (g : Option Nat) (ops : List Op) : Tracks (runOps { grace := g } ops).1 := by
  have : ∀ (s : St), Tracks s → Tracks (runOps s ops).1 := by
    induction ops with
    | nil => intro s h; exact h
    | cons op ops ih => intro s hT; exact ih _ (tracks_step hT op)
  exact this _ (fun b => by simp [AMap.get])

/-! ### the two histories that released a node's last block before the repairs -/



/-- node 1 owns blocks 1 (one tunnel address) and 2 (empty); block 1 is then seen with a `virtual:` affinity
(not a host affinity: node 1 no longer owns it); two syncs 70 minutes apart (grace 60). -/
def lastBlockVirtualHistory : List Op :=
  [.inSync, .cnode 1 (some 1), .knode 1 true,
   .block 1 (.host 1) [⟨0, some 7, .tunnel, 1, 0, 1⟩], .block 2 (.host 1) [],
   .block 1 .other [⟨0, some 7, .tunnel, 1, 0, 1⟩],
   .sync true, .tick 70, .sync true]

/-- with the repaired `onBlockUpdated` (/repo 8ebf246) that history releases nothing: block 2 is node 1's only block -/
theorem last_block_virtual_history_fixed :
    let r := runOps { grace := some 60 } lastBlockVirtualHistory
    r.2.getLast? = some [] ∧ r.1.blocksByNode.get 1 = some [2] ∧ r.1.nodesByBlock.get 1 = none := by
  decide +kernel

/-- the host→host history that was a counterexample before /repo 361e296 now releases nothing -/
def lastBlockHistory : List Op :=
  [.inSync, .cnode 1 (some 1), .knode 1 true, .cnode 2 (some 2), .knode 2 true,
   .block 1 (.host 1) [⟨0, some 7, .tunnel, 1, 0, 1⟩], .block 2 (.host 1) [],
   .block 1 (.host 2) [⟨0, some 7, .tunnel, 1, 0, 1⟩],
   .sync true, .tick 70, .sync true]

theorem last_block_history_fixed :
    let r := runOps { grace := some 60 } lastBlockHistory
    r.2.getLast? = some [] ∧ r.1.blocksByNode.get 1 = some [2] ∧ r.1.blocksByNode.get 2 = some [1] := by
  decide +kernel

/-! ### regression: a failed release followed by the node's re-creation -/

/-- node 1 is deleted, its tunnel address becomes a confirmed leak in a FULL sync whose `ReleaseIPs` fails; the node
is re-created before the dirty-only retry. -/
def tunnelRetryHistory : List Op :=
  [.inSync, .cnode 1 (some 1), .knode 1 true, .block 4 (.host 1) [⟨0, some 8, .tunnel, 1, 0, 1⟩], .sync true,
   .knode 1 false, .cnodeDel 1, .failRel, .sync true, .cnode 1 (some 1), .knode 1 true, .sync false]

/-- since /repo f65adf3 the node stays dirty after the failed sync, so the retry re-checks it, refreshes the cached
node name and releases NOTHING; the live node keeps its tunnel address (before the repair the retry released it:
corpus/C23/tunnel-stale-knode.ops). -/
theorem tunnel_retry_history_fixed :
    let r := runOps { grace := some 60 } tunnelRetryHistory
    r.2.getLast? = some [] ∧ r.1.leaks = [] ∧
    r.1.allocs.map (fun a => (a.block, a.ord, a.knode, a.confirmed)) = [(4, 0, some 1, false)] := by
  decide +kernel

/-! ### "all of a handle's addresses together or none" depends on the iteration order -/

/-- two addresses of handle 4 (pod 4 on node 1); the informer cache has lost the pod, the API has it and it
reports only address 1.1; both addresses become candidates, then (70 min later, grace 60) confirmed leaks. -/
def handleSplitHistory : List Op :=
  [.inSync, .cnode 1 (some 1), .knode 1 true,
   .block 1 (.host 1) [⟨0, some 4, .pod, 1, 4, 1⟩, ⟨1, some 4, .pod, 1, 4, 2⟩],
   .pod 4 false true ⟨1, [(1, 1)], false⟩, .sync false, .tick 70]

/-- **Witness: `handle_all_or_none` is false at batch level and depends on the order in which
`garbageCollectKnownLeaks` visits `confirmedLeaks`** (a Go map).  From the SAME state, visiting address 1.0
first releases it alone (its handle-mate 1.1 is resurrected by the final API check afterwards); visiting 1.1
first releases nothing.  Reproduced on the real controller by the harness's order-parametric probe
(64 fresh runs: both outcomes occur; oracle signature `handle-split`). -/
theorem handle_split_witness :
    let s := (checkAllocations { (runOps { grace := some 60 } handleSplitHistory).1 with fullSync := true }).1
    s.leaks = [(4, 1, 0), (4, 1, 1)] ∧
    ((gcSelect s [(4, 1, 0), (4, 1, 1)]).2.map (fun a => (a.block, a.ord))) = [(1, 0)] ∧
    ((gcSelect s [(4, 1, 1), (4, 1, 0)]).2.map (fun a => (a.block, a.ord))) = [] := by
  decide +kernel


/-! ### non-vacuity -/

/-- a pod address whose pod is gone from cache and API, on an existing node, grace 60 min:
candidate at the first sync, released (with its sequence number) at the sync 70 minutes later -/
def leakHistory : List Op :=
  [.inSync, .cnode 1 (some 1), .knode 1 true, .block 1 (.host 1) [⟨3, some 4, .pod, 1, 4, 9⟩],
   .sync false, .tick 70, .sync true]

example : ((runOps { grace := some 60 } leakHistory).2.getLast?) = some [Call.releaseIPs [(1, 3, 4, 9)]] := by
  decide +kernel

/-- … and is NOT released when only 40 minutes have passed, nor when the pod exists with that address -/
example : ((runOps { grace := some 60 } [.inSync, .cnode 1 (some 1), .knode 1 true,
    .block 1 (.host 1) [⟨3, some 4, .pod, 1, 4, 9⟩], .sync false, .tick 40, .sync true]).2.getLast?) = some [] := by
  decide +kernel

example : ((runOps { grace := some 60 } [.inSync, .cnode 1 (some 1), .knode 1 true,
    .pod 4 true true ⟨1, [(1, 3)], false⟩,
    .block 1 (.host 1) [⟨3, some 4, .pod, 1, 4, 9⟩], .sync false, .tick 70, .sync true]).2.getLast?) = some [] := by
  decide +kernel

/-- `block_release_guarded` is not vacuous: a node with one in-use and one empty block has the empty one released -/
example : ((runOps { grace := some 60 } [.inSync, .cnode 1 (some 1), .knode 1 true,
    .block 1 (.host 1) [⟨0, some 7, .tunnel, 1, 0, 1⟩], .block 2 (.host 1) [], .sync true, .tick 70, .sync true]).2.getLast?)
    = some [Call.releaseBlockAffinity 2 1] := by
  decide +kernel

end CalicoVerif.C23
