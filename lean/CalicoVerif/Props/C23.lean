import CalicoVerif.Proofs.C23
/-!
C23 — IPAM garbage collection never frees an address that is still in use.
Property theorems over the model `Model/C23.lean`, for EVERY collector state,
cluster state (pods in cache / API, nodes) and clock value — i.e. for whatever
history of block updates, pod/node churn, time advance and earlier syncs
produced that state.

* `gc_release_justified` — every address in a `ReleaseIPs` call of a sync failed the FINAL
  re-validation against the cluster state at that moment, is a confirmed leak, is released with
  the sequence number the collector tracks for it, and every tracked allocation sharing its
  handle is a confirmed leak too.
* `confirm_needs_grace_or_dead_node` — a pod allocation only BECOMES a confirmed leak when it is
  invalid and either its Kubernetes node is gone or it has been a candidate for longer than a
  positive grace period (never on first sight).
* `valid_is_never_confirmed` — an allocation found valid by `checkAllocations` is reset (not a leak).
* `block_release_guarded` — every `ReleaseBlockAffinity` is for a block the collector holds as empty,
  whose node has at least two blocks in `blocksByNode`, after a positive grace period measured
  from an earlier observation (two observations).
* `reachable_idx` / `idx_step` — store/index consistency: in every reachable state `blocksByNode[n]` is
  exactly (and without duplicates) the set of blocks whose latest seen affinity is `n`, and every
  empty-block entry names its block's node; proved over `onBlockUpdated`, `forgetBlock` and every
  other step (the allocation-side functions do not touch these indexes).
* `never_last_block` / `sync_never_last_block` — FULL strength since the repair of `onBlockUpdated`
  (/repo 361e296): whenever a sync releases the affinity of block `b` of `node`, the blocks seen hold
  ANOTHER block whose latest affinity is `node`.  (Before the repair this was false: the index kept
  a block whose affinity had moved straight to another host; `last_block_history_fixed` is the old
  counterexample history, which now releases nothing; the harness oracle keeps the signature
  `last-block-stale-index` and corpus/C23/last-block.ops so a regression is reported.)
* `handle_all_or_none`: proved as the per-address guard inside `gc_release_justified` (all allocations
  sharing the handle are confirmed leaks when the address is selected).  At BATCH level it is false and
  order dependent: `handle_split_witness` (same state, two visiting orders of `confirmedLeaks`, different
  batches); settled on the real code by the harness's order-parametric probe (KNOWN-FINDING sig=handle-split).
-/
namespace CalicoVerif.C23

/-! ### ReleaseIPs is justified -/

/-- what `garbageCollectKnownLeaks` has established about an allocation it is about to release,
in the collector state `s'` at the moment it was selected -/
structure Justified (env : Env) (s' : St) (a : Alloc) : Prop where
  tracked : a ∈ s'.allocs
  sameEnv : s'.env = env
  finalCheck : isValid env a a.knode.isNone = false
  confirmed : a.confirmed = true
  handle : ∀ b ∈ s'.allocs, b.handle = a.handle → b.confirmed = true

theorem mem_of_find? {p : Alloc → Bool} {l : List Alloc} {a : Alloc} (h : l.find? p = some a) : a ∈ l :=
  List.mem_of_find?_eq_some h

theorem gcSelect_justified (s : St) (ids : List Id) :
    ∀ a ∈ (gcSelect s ids).2, ∃ s', Justified s.env s' a := by
  induction ids generalizing s with
  | nil => intro a ha; simp [gcSelect] at ha
  | cons id ids ih =>
    intro a ha
    simp only [gcSelect] at ha
    cases hf : s.allocs.find? (fun x => x.id == id) with
    | none => simp only [hf] at ha; exact ih _ a ha
    | some a0 =>
      simp only [hf] at ha
      by_cases hv : isValid s.env a0 a0.knode.isNone = true
      · simp only [hv, if_true] at ha
        exact ih { s with leaks := s.leaks.filter (· != id),
                          allocs := s.allocs.map (fun x => if x.id == id then x.markValid else x) } a ha
      · simp only [hv] at ha
        by_cases hh : handleConfirmed s a0.handle = true
        · simp only [hh, Bool.not_true, Bool.false_eq_true, if_false] at ha
          rcases List.mem_cons.1 ha with rfl | ha
          · have hm := mem_of_find? hf
            have hall : ∀ b ∈ s.allocs, b.handle = a.handle → b.confirmed = true := by
              intro b hb hbh
              simp only [handleConfirmed, Bool.and_eq_true, List.all_eq_true, List.mem_filter, beq_iff_eq, and_imp] at hh
              exact hh.2 b hb hbh
            exact ⟨s, hm, rfl, by simpa using hv, hall a hm rfl, hall⟩
          · exact ih _ a ha
        · simp only [hh, Bool.not_false, if_true] at ha
          exact ih _ a ha

/-- **gc_release_justified.** Every (block, ordinal, handle, sequence number) passed to `ReleaseIPs`
by a sync is a tracked allocation that, at the moment it was selected, failed the final
re-validation against the current cluster state, is a confirmed leak, carries the tracked sequence
number, and shares its handle only with confirmed leaks. -/
theorem gc_release_justified (s : St) (batch : List (Nat × Nat × Nat × Nat))
    (h : Call.releaseIPs batch ∈ (garbageCollectKnownLeaks s).2) :
    ∀ x ∈ batch, ∃ a s', Justified s.env s' a ∧ x = (a.block, a.ord, a.handle, a.seq) := by
  intro x hx
  unfold garbageCollectKnownLeaks at h
  by_cases he : (gcSelect s s.leaks).2.isEmpty = true
  · simp [he] at h
  · simp only [he] at h
    simp only [Bool.false_eq_true, if_false, List.mem_singleton, Call.releaseIPs.injEq] at h
    subst h
    simp only [List.mem_map] at hx
    obtain ⟨a, ha, rfl⟩ := hx
    obtain ⟨s', hj⟩ := gcSelect_justified s s.leaks a ha
    exact ⟨a, s', hj, rfl⟩

/-- the ReleaseIPs calls of a whole `syncIPAM` are those of its `garbageCollectKnownLeaks` step, run
on the state `checkAllocations` left (same cluster facts, same clock). -/
theorem sync_release_justified (s : St) (batch : List (Nat × Nat × Nat × Nat))
    (h : Call.releaseIPs batch ∈ (syncIPAM s).2.1) :
    ∀ x ∈ batch, ∃ a s', Justified (checkAllocations s).1.env s' a ∧ x = (a.block, a.ord, a.handle, a.seq) := by
  unfold syncIPAM at h
  by_cases hi : s.inSync = true
  · simp only [hi, Bool.not_true, Bool.false_eq_true, if_false, List.mem_append, List.mem_map] at h
    rcases h with (h | h) | ⟨n, _, h⟩
    · exact gc_release_justified _ batch h
    · exfalso
      -- releaseUnusedBlocks only issues ReleaseBlockAffinity calls
      have : ∀ (st : St) (l : List (Nat × Nat)), ∀ c ∈ (releaseUnusedLoop st l).2, ∃ b n, c = Call.releaseBlockAffinity b n := by
        intro st l
        induction l generalizing st with
        | nil => intro c hc; simp [releaseUnusedLoop] at hc
        | cons bn rest ih =>
          obtain ⟨b, nd⟩ := bn
          intro c hc
          simp only [releaseUnusedLoop] at hc
          split at hc
          · exact ih _ c hc
          · split at hc
            · exact ih _ c hc
            · split at hc
              · exact ih _ c hc
              · split at hc
                · exact ih _ c hc
                · split at hc
                  · exact ih _ c hc
                  · rcases List.mem_cons.1 hc with rfl | hc
                    · exact ⟨b, nd, rfl⟩
                    · exact ih _ c hc
      obtain ⟨b, n, hbn⟩ := this _ _ _ h
      cases hbn
    · cases h
  · simp [hi] at h

/-! ### becoming a confirmed leak -/

/-- **confirm_needs_grace_or_dead_node.** `checkAllocations` turns an allocation into a confirmed
leak only if it is a pod address that is INVALID against the informer cache and either its
Kubernetes node does not exist, or a positive grace period `g` is configured and the allocation has
been a leak candidate since a time `t` with `now - t > g` — in particular never on the sync that
first sees it as a candidate. -/
theorem confirm_needs_grace_or_dead_node (s : St) (knode : Option Nat) (ex : Bool) (a0 : Alloc)
    (h0 : a0.confirmed = false) (h1 : (checkOne s knode ex a0).a.confirmed = true) :
    a0.kind = .pod ∧ isValid s.env { a0 with knode := knode } true = false ∧
    (ex = false ∨ ∃ g t, s.grace = some g ∧ 0 < g ∧ a0.leakedAt = some t ∧ s.now - t > g) := by
  obtain ⟨blk, ord, hd, kind, nd, pd, sq, kn, la, cf⟩ := a0
  simp only at h0
  subst h0
  cases kind with
  | winres => simp [checkOne] at h1
  | unknown => simp [checkOne] at h1
  | tunnel => simp [checkOne] at h1
  | pod =>
    simp only [checkOne] at h1
    by_cases hv : isValid s.env { block := blk, ord := ord, handle := hd, kind := .pod, node := nd, pod := pd, seq := sq, knode := knode, leakedAt := la, confirmed := false } true = true
    · simp [hv, Alloc.markValid] at h1
    · simp only [hv] at h1
      refine ⟨rfl, by simpa using hv, ?_⟩
      cases ex with
      | false => exact Or.inl rfl
      | true =>
        right
        cases hg : s.grace with
        | none => simp [hg] at h1
        | some g =>
          simp only [hg, Bool.not_true, Bool.false_eq_true, if_false] at h1
          unfold Alloc.markLeak at h1
          cases la with
          | none => simp at h1
          | some t =>
            simp only [Option.getD_some, Bool.not_false, Bool.and_true] at h1
            by_cases hc : (decide (s.now - t > g) && decide (g > 0)) = true
            · simp only [Bool.and_eq_true, decide_eq_true_eq] at hc
              exact ⟨g, t, rfl, hc.2, rfl, hc.1⟩
            · simp [hc] at h1

/-- **valid_is_never_confirmed.** A pod allocation that `checkAllocations` finds valid is reset:
not confirmed, no candidate timestamp, and it blocks the clean-up of its node. -/
theorem valid_is_never_confirmed (s : St) (knode : Option Nat) (ex : Bool) (a0 : Alloc) (hk : a0.kind = .pod)
    (hv : isValid s.env { a0 with knode := knode } true = true) :
    (checkOne s knode ex a0).a.confirmed = false ∧ (checkOne s knode ex a0).a.leakedAt = none ∧
    (checkOne s knode ex a0).blocks = true := by
  obtain ⟨blk, ord, hd, kind, nd, pd, sq, kn, la, cf⟩ := a0
  simp only at hk
  subst hk
  simp only at hv
  simp [checkOne, hv, Alloc.markValid]

/-! ### block affinity release -/

/-- what `releaseUnusedBlocks` has established when it releases block `b` of `node`, in the state `st`
at that moment -/
structure BlockGuard (st : St) (b node : Nat) : Prop where
  empty : st.emptyBlocks.get b = some node ∨ (st.emptyBlocks.get b).isSome
  twoBlocks : 2 ≤ ((st.blocksByNode.get node).getD []).length
  grace : ∃ g t, st.grace = some g ∧ 0 < g ∧ st.tracker.get b = some t ∧ st.now - t > g

theorem markEmpty_true {s s' : St} {b : Nat} (h : markEmpty s b = (s', true)) :
    s' = s ∧ ∃ g t, s.grace = some g ∧ 0 < g ∧ s.tracker.get b = some t ∧ s.now - t > g := by
  unfold markEmpty at h
  cases hg : s.grace with
  | none => simp [hg] at h
  | some g =>
    simp only [hg] at h
    by_cases hp : g > 0
    · simp only [hp, if_true] at h
      cases ht : s.tracker.get b with
      | none => simp [ht] at h
      | some t =>
        simp only [ht, Prod.mk.injEq, decide_eq_true_eq] at h
        exact ⟨h.1.symm, g, t, rfl, hp, rfl, h.2⟩
    · simp [hp] at h

/-- **block_release_guarded.** Every `ReleaseBlockAffinity(b, node)` of `releaseUnusedBlocks` happens in a
state where the collector holds `b` as empty, `blocksByNode[node]` has at least two blocks, and a
positive grace period has elapsed since an EARLIER sync first saw the block empty. -/
theorem block_release_guarded (st : St) (l : List (Nat × Nat)) :
    ∀ b node, Call.releaseBlockAffinity b node ∈ (releaseUnusedLoop st l).2 → ∃ st', BlockGuard st' b node := by
  induction l generalizing st with
  | nil => intro b node h; simp [releaseUnusedLoop] at h
  | cons bn rest ih =>
    obtain ⟨b0, n0⟩ := bn
    intro b node h
    simp only [releaseUnusedLoop] at h
    by_cases h1 : (st.emptyBlocks.get b0).isNone = true
    · simp only [h1, if_true] at h; exact ih _ b node h
    · simp only [h1] at h
      by_cases h2 : ((st.blocksByNode.get n0).getD []).length ≤ 1
      · simp only [h2, if_true] at h; exact ih _ b node h
      · simp only [h2] at h
        by_cases h3 : (st.cnodes.get n0 == some none) = true
        · simp only [h3, if_true] at h; exact ih _ b node h
        · simp only [h3] at h
          cases hm : markEmpty st b0 with
          | mk st1 ok =>
            simp only [hm] at h
            cases ok with
            | false => simp only [Bool.not_false, if_true] at h; exact ih _ b node h
            | true =>
              simp only [Bool.not_true, Bool.false_eq_true, if_false] at h
              by_cases h5 : st1.allBlocks.contains b0 = true
              · simp only [h5, Bool.not_true, Bool.false_eq_true, if_false] at h
                rcases List.mem_cons.1 h with heq | h
                · cases heq
                  obtain ⟨rfl, hg⟩ := markEmpty_true hm
                  refine ⟨st1, ⟨Or.inr ?_, by omega, hg⟩⟩
                  cases hh : st1.emptyBlocks.get b0 <;> simp_all
                · exact ih _ b node h
              · simp only [h5] at h
                exact ih _ b node h

/-! ### index consistency and the full `never_last_block` -/

theorem exists_other {l : List Nat} (hn : l.Nodup) (h2 : 2 ≤ l.length) (b : Nat) : ∃ x ∈ l, x ≠ b := by
  match l, hn, h2 with
  | [], _, h2 => simp at h2
  | [_], _, h2 => simp at h2
  | a :: c :: rest, hn, _ =>
    by_cases ha : a = b
    · refine ⟨c, by simp, fun hc => ?_⟩
      have := (List.nodup_cons.1 hn).1
      apply this
      rw [ha, ← hc]; simp
    · exact ⟨a, by simp, ha⟩

theorem fr_markEmpty (s : St) (b : Nat) : Fr s (markEmpty s b).1 := by
  unfold markEmpty
  split
  · split
    · split
      · exact ⟨rfl, rfl, rfl⟩
      · exact Fr.refl s
    · exact Fr.refl s
  · exact Fr.refl s

theorem forgetBlock_empty (s : St) (b : Nat) : (forgetBlock s b).emptyBlocks = s.emptyBlocks.del b := by
  unfold forgetBlock
  simp only
  rw [(fr_releaseAll s _).2.2]

/-- what holds, in the state `st` at that moment, when block `b` of `node` has its affinity released:
the indexes are consistent, `b` is an empty block of `node`, and `node` has ANOTHER block. -/
structure NotLast (st : St) (b node : Nat) : Prop where
  idx : Idx st
  isEmpty : st.emptyBlocks.get b = some node
  mine : st.nodesByBlock.get b = some node
  other : ∃ b', b' ≠ b ∧ st.nodesByBlock.get b' = some node

theorem loop_never_last (st : St) (l : List (Nat × Nat)) (hI : Idx st)
    (hl : ∀ bn ∈ l, st.emptyBlocks.get bn.1 = some bn.2 ∨ st.emptyBlocks.get bn.1 = none) :
    Idx (releaseUnusedLoop st l).1 ∧
    ∀ b node, Call.releaseBlockAffinity b node ∈ (releaseUnusedLoop st l).2 → ∃ st', NotLast st' b node := by
  induction l generalizing st with
  | nil => exact ⟨hI, fun b node h => by simp [releaseUnusedLoop] at h⟩
  | cons bn rest ih =>
    obtain ⟨b0, n0⟩ := bn
    have hrest : ∀ bn ∈ rest, st.emptyBlocks.get bn.1 = some bn.2 ∨ st.emptyBlocks.get bn.1 = none :=
      fun bn h => hl bn (List.mem_cons_of_mem _ h)
    simp only [releaseUnusedLoop]
    by_cases h1 : (st.emptyBlocks.get b0).isNone = true
    · simp only [h1, if_true]; exact ih st hI hrest
    · simp only [h1]
      by_cases h2 : ((st.blocksByNode.get n0).getD []).length ≤ 1
      · simp only [h2, if_true]; exact ih st hI hrest
      · simp only [h2]
        by_cases h3 : (st.cnodes.get n0 == some none) = true
        · simp only [h3, if_true]
          exact ih { st with tracker := st.tracker.del b0 } hI hrest
        · simp only [h3]
          have fm := fr_markEmpty st b0
          cases hm : markEmpty st b0 with
          | mk st1 ok =>
            rw [hm] at fm
            simp only
            have hI1 : Idx st1 := hI.of_fr fm
            have hrest1 : ∀ bn ∈ rest, st1.emptyBlocks.get bn.1 = some bn.2 ∨ st1.emptyBlocks.get bn.1 = none := by
              intro bn h; rw [fm.2.2]; exact hrest bn h
            cases ok with
            | false => simp only [Bool.not_false, if_true]; exact ih st1 hI1 hrest1
            | true =>
              simp only [Bool.not_true, Bool.false_eq_true, if_false]
              by_cases h5 : st1.allBlocks.contains b0 = true
              · simp only [h5, Bool.not_true, Bool.false_eq_true, if_false]
                have hI2 : Idx (forgetBlock st1 b0) := idx_forgetBlock hI1 b0
                have hrest2 : ∀ bn ∈ rest, (forgetBlock st1 b0).emptyBlocks.get bn.1 = some bn.2 ∨
                    (forgetBlock st1 b0).emptyBlocks.get bn.1 = none := by
                  intro bn h
                  rw [forgetBlock_empty, AMap.get_del]
                  by_cases hb : bn.1 = b0
                  · simp [hb]
                  · simp only [hb, if_false]; exact hrest1 bn h
                obtain ⟨i1, i2⟩ := ih (forgetBlock st1 b0) hI2 hrest2
                refine ⟨i1, fun b node h => ?_⟩
                rcases List.mem_cons.1 h with heq | h
                · cases heq
                  -- the state at release time is st1
                  have hem : st1.emptyBlocks.get b0 = some n0 := by
                    rw [fm.2.2]
                    rcases hl (b0, n0) (by simp) with h' | h'
                    · exact h'
                    · simp [h'] at h1
                  have hmine := hI1.empty b0 n0 hem
                  have hlen : 2 ≤ (blocksOf st1.blocksByNode n0).length := by
                    unfold blocksOf; rw [fm.2.1]; omega
                  obtain ⟨b', hb', hne⟩ := exists_other (hI1.nodup n0) hlen b0
                  exact ⟨st1, hI1, hem, hmine, b', hne, (hI1.mem n0 b').1 hb'⟩
                · exact i2 b node h
              · simp only [h5]
                exact ih st1 hI1 hrest1

theorem mem_sortKV {m : AMap Nat} {bn : Nat × Nat} (h : bn ∈ sortKV m) : m.get bn.1 = some bn.2 := by
  simp only [sortKV, List.mem_filterMap] at h
  obtain ⟨k, _, hk⟩ := h
  cases hg : m.get k with
  | none => simp [hg] at hk
  | some v => simp [hg] at hk; subst hk; exact hg

/-- **never_last_block** (full strength).  In a state with consistent indexes (every reachable state:
`reachable_idx`), every `ReleaseBlockAffinity(b, node)` issued by `releaseUnusedBlocks` is for an empty
block of `node` while the blocks seen hold ANOTHER block whose latest affinity is `node`. -/
theorem never_last_block (st : St) (hI : Idx st) (b node : Nat)
    (h : Call.releaseBlockAffinity b node ∈ (releaseUnusedBlocks st).2) : ∃ st', NotLast st' b node :=
  (loop_never_last st _ hI (fun bn hbn => Or.inl (mem_sortKV hbn))).2 b node h

theorem idx_syncIPAM {s : St} (hI : Idx s) : Idx (syncIPAM s).1 := by
  unfold syncIPAM
  by_cases hi : s.inSync = true
  · simp only [hi, Bool.not_true, Bool.false_eq_true, if_false]
    have h2 : Idx (garbageCollectKnownLeaks (checkAllocations s).1).1 :=
      (hI.of_fr (fr_checkAllocations s)).of_fr (fr_gc _)
    have h3 := (loop_never_last _ _ h2 (fun bn hbn => Or.inl (mem_sortKV hbn))).1
    exact Idx.of_fr h3 (fr_foldl _ fr_markClean _ _)
  · simp only [hi]; exact hI

/-- **store/index consistency is inductive**: every step keeps `blocksByNode`, `nodesByBlock` and
`emptyBlocks` consistent. -/
theorem idx_step {s : St} (hI : Idx s) (op : Op) : Idx (step s op).1 := by
  cases op with
  | block b aff es => exact idx_onBlockUpdated hI b aff es
  | blockDel b => exact idx_forgetBlock hI b
  | sync full =>
    simp only [step]
    cases full with
    | true => exact idx_syncIPAM (s := { s with fullSync := true }) hI
    | false => exact idx_syncIPAM hI
  | dirty n => exact hI.of_fr (fr_markDirty s n)
  | inSync => exact hI
  | cnode n k => exact hI
  | cnodeDel n => exact hI
  | knode n p => exact hI
  | pod id c a p => exact hI
  | podDel id c a => exact hI
  | tick d => exact hI

def runOps (s : St) : List Op → St × List (List Call)
  | [] => (s, [])
  | op :: ops =>
    let r := step s op
    let r2 := runOps r.1 ops
    (r2.1, r.2.1 :: r2.2)

theorem idx_runOps {s : St} (hI : Idx s) (ops : List Op) : Idx (runOps s ops).1 := by
  induction ops generalizing s with
  | nil => exact hI
  | cons op ops ih => exact ih (idx_step hI op)

theorem idx_init (g : Option Nat) : Idx { grace := g } :=
  ⟨fun n b => by simp [blocksOf, AMap.get], fun n => by simp [blocksOf, AMap.get], fun b n h => by simp [AMap.get] at h⟩

/-- every state reachable from a fresh controller has consistent indexes -/
theorem reachable_idx (g : Option Nat) (ops : List Op) : Idx (runOps { grace := g } ops).1 :=
  idx_runOps (idx_init g) ops

/-- **never_last_block over a whole sync, from any reachable state**: every `ReleaseBlockAffinity(b, node)`
of `syncIPAM` leaves `node` another block among the blocks the collector has seen. -/
theorem sync_never_last_block (s : St) (hI : Idx s) (b node : Nat)
    (h : Call.releaseBlockAffinity b node ∈ (syncIPAM s).2.1) : ∃ st', NotLast st' b node := by
  unfold syncIPAM at h
  by_cases hi : s.inSync = true
  · simp only [hi, Bool.not_true, Bool.false_eq_true, if_false, List.mem_append, List.mem_map] at h
    have h2 : Idx (garbageCollectKnownLeaks (checkAllocations s).1).1 :=
      (hI.of_fr (fr_checkAllocations s)).of_fr (fr_gc _)
    rcases h with (h | h) | ⟨n, _, h⟩
    · exfalso
      unfold garbageCollectKnownLeaks at h
      simp only at h
      split at h
      · simp at h
      · simp at h
    · exact never_last_block _ h2 b node h
    · cases h
  · simp [hi] at h

/-- the pre-repair counterexample history: node 1 owns blocks 1 (one tunnel address) and 2 (empty);
block 1's affinity then moves straight to node 2; two syncs 70 minutes apart (grace 60). -/
def lastBlockHistory : List Op :=
  [.inSync, .cnode 1 (some 1), .knode 1 true, .cnode 2 (some 2), .knode 2 true,
   .block 1 (some 1) [⟨0, some 7, .tunnel, 1, 0, 1⟩], .block 2 (some 1) [],
   .block 1 (some 2) [⟨0, some 7, .tunnel, 1, 0, 1⟩],
   .sync true, .tick 70, .sync true]

/-- with the repaired `onBlockUpdated` that history releases nothing, and node 1's index holds only block 2 -/
theorem last_block_history_fixed :
    let r := runOps { grace := some 60 } lastBlockHistory
    r.2.getLast? = some [] ∧ r.1.blocksByNode.get 1 = some [2] ∧ r.1.blocksByNode.get 2 = some [1] := by
  decide +kernel

/-! ### "all of a handle's addresses together or none" depends on the iteration order -/

/-- two addresses of handle 4 (pod 4 on node 1); the informer cache has lost the pod, the API has it and it
reports only address 1.1; both addresses become candidates, then (70 min later, grace 60) confirmed leaks. -/
def handleSplitHistory : List Op :=
  [.inSync, .cnode 1 (some 1), .knode 1 true,
   .block 1 (some 1) [⟨0, some 4, .pod, 1, 4, 1⟩, ⟨1, some 4, .pod, 1, 4, 2⟩],
   .pod 4 false true ⟨1, [(1, 1)], false⟩, .sync false, .tick 70]

/-- **Witness: `handle_all_or_none` is false at batch level and depends on the order in which
`garbageCollectKnownLeaks` visits `confirmedLeaks`** (a Go map).  From the SAME state, visiting address 1.0
first releases it alone (its handle-mate 1.1 is resurrected by the final API check afterwards); visiting 1.1
first releases nothing.  Reproduced on the real controller by the harness's order-parametric probe
(64 fresh runs: both outcomes occur; oracle signature `handle-split`). -/
theorem handle_split_witness :
    let s := (checkAllocations { (runOps { grace := some 60 } handleSplitHistory).1 with fullSync := true }).1
    s.leaks = [(4, 1, 0), (4, 1, 1)] ∧
    ((gcSelect s [(4, 1, 0), (4, 1, 1)]).2.map (fun a => (a.block, a.ord))) = [(1, 0)] ∧
    ((gcSelect s [(4, 1, 1), (4, 1, 0)]).2.map (fun a => (a.block, a.ord))) = [] := by
  decide +kernel

/-! ### non-vacuity -/

/-- a pod address whose pod is gone from cache and API, on an existing node, grace 60 min:
candidate at the first sync, released (with its sequence number) at the sync 70 minutes later -/
def leakHistory : List Op :=
  [.inSync, .cnode 1 (some 1), .knode 1 true, .block 1 (some 1) [⟨3, some 4, .pod, 1, 4, 9⟩],
   .sync false, .tick 70, .sync true]

example : ((runOps { grace := some 60 } leakHistory).2.getLast?) = some [Call.releaseIPs [(1, 3, 4, 9)]] := by
  decide +kernel

/-- … and is NOT released when only 40 minutes have passed, nor when the pod exists with that address -/
example : ((runOps { grace := some 60 } [.inSync, .cnode 1 (some 1), .knode 1 true,
    .block 1 (some 1) [⟨3, some 4, .pod, 1, 4, 9⟩], .sync false, .tick 40, .sync true]).2.getLast?) = some [] := by
  decide +kernel

example : ((runOps { grace := some 60 } [.inSync, .cnode 1 (some 1), .knode 1 true,
    .pod 4 true true ⟨1, [(1, 3)], false⟩,
    .block 1 (some 1) [⟨3, some 4, .pod, 1, 4, 9⟩], .sync false, .tick 70, .sync true]).2.getLast?) = some [] := by
  decide +kernel

/-- `block_release_guarded` is not vacuous: a node with one in-use and one empty block has the empty one released -/
example : ((runOps { grace := some 60 } [.inSync, .cnode 1 (some 1), .knode 1 true,
    .block 1 (some 1) [⟨0, some 7, .tunnel, 1, 0, 1⟩], .block 2 (some 1) [], .sync true, .tick 70, .sync true]).2.getLast?)
    = some [Call.releaseBlockAffinity 2 1] := by
  decide +kernel

end CalicoVerif.C23
