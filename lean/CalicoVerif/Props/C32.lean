import CalicoVerif.Proofs.C32
/-!
C32 — Flow aggregation conserves counts and emits each window once
(goldmane/pkg/storage BucketRing). Property theorems over the model `CalicoVerif.Model.C32`.

STATUS (honest).
Proved for every history from `NewBucketRing` (any size/interval/pushAfter/bucketsToAggregate, any
interleaving of AddFlow / Rollover with or without sink / EmitFlowCollections):
* the ring stays contiguous, hence every flow is sorted into exactly one bucket
  (`one_bucket_per_flow`), flows outside the history are dropped without effect;
* the count stored for (key, bucket) equals the sum of the accepted flows of that key whose start
  time lies in that bucket (`window_eq_sum_accepted`, ghost log of accepted flows);
* `List` returns for every key the sum of its windows inside the range (`list_eq_sum_windows`), which
  for a range that is exactly one retained bucket is the sum of the accepted flows of that bucket
  (`query_eq_sum_retained_partial`), and for ANY range is the sum over the retained buckets wholly inside
  the range of the accepted flows of each bucket (`query_eq_sum_retained`; bucket granularity: a range
  bound inside a bucket excludes that bucket, as the code does); conversely every key with a retained
  accepted flow in range has a row (`list_complete`).
* emission (after /repo 6722529): the walk terminates by its own test (`emit_walk_terminates`); every
  collection handed to the sink consists of buckets that are not yet pushed, collections of one emission
  are pairwise disjoint and never contain the head bucket, and all their buckets are pushed afterwards
  (`emit_at_most_once`, `rollover_emit_at_most_once`: per emission), and over whole histories the ghost
  list of emitted bucket start times never repeats (`emitted_at_most_once_history`): no bucket is handed
  to the sink twice; a built
  collection carries for each key the sum of its windows inside the collection's time window
  (`emitted_window_complete_partial`).
* statistics: `Statistics` over any range = per-key sums over the log of accepted flows of the retained buckets
  in range (`statistics_eq_sum_retained`; time-series mode and PolicyMatch filters are not modelled).
KNOWN FINDING kept: late flows accepted into an already emitted window are counted by `List` but never
emitted (`late_flow_accepted`, `late_flow_never_emitted`; AddFlow only logs a warning).
-/
namespace CalicoVerif.C32


/-- `DiachronicFlow.AddFlow` conserves counts: the per-key total grows by exactly the flow's count. -/
theorem addWin_total (start stop cnt : Int) (ws : List Win) :
    total (addWin start stop cnt ws) = total ws + cnt := by
  induction ws with
  | nil => simp [addWin, total]
  | cons w ws ih =>
    simp only [addWin]
    split
    · split
      · simp [total]; omega
      · simp [total]; omega
    · simp only [total, List.map_cons, List.sum_cons] at ih ⊢
      omega

/-- … and only the window that starts at the bucket's start time changes (or is created):
every window with another start time is still there with the same count. -/
theorem addWin_other (start stop cnt : Int) (ws : List Win) (w : Win) (hne : w.start ≠ start) :
    w ∈ addWin start stop cnt ws ↔ w ∈ ws := by
  induction ws with
  | nil =>
    simp only [addWin, List.mem_singleton, List.not_mem_nil, iff_false]
    intro h; rw [h] at hne; exact hne rfl
  | cons x xs ih =>
    simp only [addWin]
    split
    · split
      · rename_i hx
        simp only [List.mem_cons]
        constructor
        · rintro (h | h)
          · rw [h] at hne; simp at hne; exact absurd hx hne
          · exact Or.inr h
        · rintro (h | h)
          · rw [h] at hne; exact absurd hx hne
          · exact Or.inr h
      · simp only [List.mem_cons]
        constructor
        · rintro (h | h)
          · rw [h] at hne; exact absurd rfl hne
          · exact h
        · intro h; exact Or.inr h
    · simp only [List.mem_cons, ih]

theorem scan_sound (r : Ring) (t : Int) (k i j : Nat) (h : r.scan t k i = some j) : (r.bucket j).contains t = true := by
  induction k generalizing i with
  | zero => simp [Ring.scan] at h
  | succ k ih =>
    simp only [Ring.scan] at h
    split at h
    · rename_i hc; cases h; exact hc
    · exact ih _ h

/-- one_bucket_per_flow (soundness half, every ring): `findBucket` only ever answers with a bucket
whose `[start, end)` contains the flow's start time. -/
theorem findBucket_sound (r : Ring) (t : Int) (i : Nat) (h : r.findBucket t = some i) :
    (r.bucket i).contains t = true := by
  unfold Ring.findBucket at h
  split at h
  · cases h
  · simp only [] at h
    split at h
    · rename_i hc; cases h; exact hc
    · exact scan_sound r t _ _ _ h

/-- A flow that cannot be sorted into a bucket (too old / too far in the future) is dropped and
changes nothing. -/
theorem addFlow_rejected_unchanged (r : Ring) (key : Nat) (t cnt : Int) (h : r.findBucket t = none) :
    r.addFlow key t cnt = (r, false) := by
  simp [Ring.addFlow, h]

/-- An accepted flow is recorded in exactly the bucket `findBucket` chose: all other buckets keep
their key sets, flags and bounds. -/
theorem addFlow_other_buckets (r : Ring) (key : Nat) (t cnt : Int) (i j : Nat) (h : r.findBucket t = some i)
    (hj : j ≠ i) : (r.addFlow key t cnt).1.buckets[j]? = r.buckets[j]? := by
  simp only [Ring.addFlow, h, Ring.setBucket]
  exact List.getElem?_set_ne (fun hh => hj hh.symm)

/-- `maybeBuildFlowCollection` never builds a window whose first bucket was already pushed. -/
theorem maybeBuild_none_of_pushed (r : Ring) (s e : Nat) (h : (r.bucket s).pushed = true) : r.maybeBuild s e = none := by
  simp [Ring.maybeBuild, h]

/-! ## every reachable ring is contiguous; one bucket per flow -/

/-- Histories: any interleaving of AddFlow / Rollover (with or without sink) / EmitFlowCollections
from a freshly built ring, together with the ghost log of the ACCEPTED flows. -/
theorem reachable_invariant (n : Nat) (interval now : Int) (pushAfter agg : Nat) (hn : 0 < n) (hi : 0 < interval)
    (ops : List Op) :
    GInv (grun (newRing n interval now pushAfter agg, []) ops).1 (grun (newRing n interval now pushAfter agg, []) ops).2 :=
  grun_ginv (newRing_ginv n interval now pushAfter agg hn hi) ops

/-- On a contiguous ring (every reachable ring, `reachable_invariant`): a flow whose start time lies in
the retained history is sorted into a bucket that contains it, and that is the ONLY bucket containing
it; a flow outside the history is rejected. -/
theorem one_bucket_per_flow {r : Ring} (hc : Contig r) (t : Int) :
    (r.boh ≤ t ∧ t < r.eoh →
      ∃ i, i < r.n ∧ r.findBucket t = some i ∧ (r.bucket i).contains t = true ∧
        ∀ j, j < r.n → (r.bucket j).contains t = true → j = i) ∧
    (¬ (r.boh ≤ t ∧ t < r.eoh) → r.findBucket t = none) := by
  constructor
  · rintro ⟨h1, h2⟩
    obtain ⟨i, hi, hf, hcn⟩ := contig_findBucket hc t h1 h2
    exact ⟨i, hi, hf, hcn, fun j hj hcj => contig_unique hc t j i hj hi hcj hcn⟩
  · intro h
    unfold Ring.findBucket
    have : t ≥ r.eoh ∨ t < r.boh := by omega
    simp [this]

/-! ## counts are conserved: stored counts = sums of accepted flows -/

/-- In every reachable state, for every key and every bucket of the ring, the count stored in the
key's window for that bucket is exactly the sum of the counts of the accepted flows of that key whose
start time lies in the bucket (flows of buckets that were rolled over are no longer counted anywhere:
their window is dropped with the bucket). -/
theorem window_eq_sum_accepted (n : Nat) (interval now : Int) (pushAfter agg : Nat) (hn : 0 < n) (hi : 0 < interval)
    (ops : List Op) (k i : Nat) :
    let s := grun (newRing n interval now pushAfter agg, []) ops
    i < s.1.n → wcOf (s.1.wins k) (s.1.bucket i).start = logSum s.2 k (s.1.bucket i).start (s.1.bucket i).stop := by
  intro s hlt
  exact (reachable_invariant n interval now pushAfter agg hn hi ops).q k i hlt

/-- `List` (time index): the count of every returned row is the sum of that key's windows inside the range. -/
theorem list_eq_sum_windows (r : Ring) (gte lt : Int) (x : Nat × Int × Int × Int) (hx : x ∈ r.list gte lt) :
    x.2.1 = total ((r.wins x.1).filter (inRange gte lt)) := list_count r gte lt x hx

/-- query = sum of retained accepted flows, for a range that is exactly one bucket of the ring (bounds
≠ 0: the code reads a bound of 0 as "unbounded"). PARTIAL: ranges spanning several buckets are covered
by `list_eq_sum_windows` + `window_eq_sum_accepted` only up to the (unproved) absence of stale windows. -/
theorem query_eq_sum_retained_partial (n : Nat) (interval now : Int) (pushAfter agg : Nat) (hn : 0 < n) (hi : 0 < interval)
    (ops : List Op) (i : Nat) (x : Nat × Int × Int × Int) :
    let s := grun (newRing n interval now pushAfter agg, []) ops
    i < s.1.n → (s.1.bucket i).start ≠ 0 → (s.1.bucket i).stop ≠ 0 →
    x ∈ s.1.list (s.1.bucket i).start (s.1.bucket i).stop →
    x.2.1 = logSum s.2 x.1 (s.1.bucket i).start (s.1.bucket i).stop := by
  intro s hlt h0 h1 hx
  have hg := reachable_invariant n interval now pushAfter agg hn hi ops
  rw [list_count _ _ _ x hx, range_one_bucket hg x.1 i hlt h0 h1]
  exact hg.q x.1 i hlt

/-- `query_eq_sum_retained` (any range, `0` = unbounded as in the code): in every reachable state every row
returned by `List` carries, for its key, the sum over the buckets still in the ring that lie wholly inside
the requested range of the accepted flows whose start time falls into that bucket — i.e. the sum of the
accepted flows of the range that are still retained, at bucket granularity. (Uses the extended invariant
`QInv`: windows sorted by start, every window belongs to a ring bucket that lists its key — so `Rollover`
drops exactly the windows of the bucket it resets and no stale window survives.) -/
theorem query_eq_sum_retained (n : Nat) (interval now : Int) (pushAfter agg : Nat) (hn : 0 < n) (hi : 0 < interval)
    (ops : List Op) (gte lt : Int) (x : Nat × Int × Int × Int) :
    let s := grun (newRing n interval now pushAfter agg, []) ops
    x ∈ s.1.list gte lt →
    x.2.1 = ((List.range s.1.n).map (fun i =>
      if bucketIn gte lt (s.1.bucket i) then logSum s.2 x.1 (s.1.bucket i).start (s.1.bucket i).stop else 0)).sum := by
  intro s hx
  exact list_eq_sum_buckets (grun_qinv (newRing_qinv n interval now pushAfter agg hn hi) ops) gte lt x hx

/-- `list_complete` (the converse of `query_eq_sum_retained`): in every reachable state, a key that has an
accepted flow whose bucket is still in the ring and lies wholly inside the requested range (`0` = unbounded)
does get a row in `List` — no retained key is silently omitted. -/
theorem list_complete (n : Nat) (interval now : Int) (pushAfter agg : Nat) (hn : 0 < n) (hi : 0 < interval)
    (ops : List Op) (gte lt : Int) (e : Nat × Int × Int) (i : Nat) :
    let s := grun (newRing n interval now pushAfter agg, []) ops
    e ∈ s.2 → i < s.1.n → (s.1.bucket i).contains e.2.1 = true → bucketIn gte lt (s.1.bucket i) = true →
    ∃ x ∈ s.1.list gte lt, x.1 = e.1 := by
  intro s he hlt hc hin
  exact list_complete_of_cinv (grun_cinv (newRing_cinv n interval now pushAfter agg hn hi) ops) gte lt e he i hlt hc hin

/-! ## statistics -/

/-- `statistics_eq_sum_retained` (+ completeness): in every reachable state, for every statistic type
(packets / bytes / live connections), grouping (per policy / per policy rule and direction) and time range,
`BucketRing.Statistics` either fails because a bound lies outside the retained history, or returns exactly
`statsOfFlows` — the per-result-key sums of the per-flow contributions (`flowContribs`: one contribution per
distinct policy hit of the flow, into the allowed/denied/passed in/out counters) — evaluated on the ghost LOG
of accepted flows, restricted bucket by bucket to the ring buckets the range covers (from the bucket containing
the start, `0` = oldest, up to but excluding the one containing the end, `0` = the head bucket). Buckets that
were rolled over contribute nothing: their flows are no longer in any ring bucket's interval. Equality of the
whole result lists gives both directions (no key missing, no key extra). The aggregation function itself is the
specification here (a plain sum per key); it is tied to stats.go by the correspondence check. -/
theorem statistics_eq_sum_retained (n : Nat) (interval now : Int) (pushAfter agg : Nat) (hn : 0 < n) (hi : 0 < interval)
    (ops : List Op) (typ : Nat) (groupByRule : Bool) (gte lt : Int) :
    let s := grun (newRing n interval now pushAfter agg, []) ops
    s.1.stats typ groupByRule gte lt =
      (s.1.statRange gte lt).map (fun idxs =>
        statsOfFlows typ groupByRule (idxs.map (fun i => logOf s.2 (s.1.bucket i)))) := by
  intro s
  have hs : SInv s.1 s.2 := grun_sinv (newRing_sinv n interval now pushAfter agg hn hi) ops
  exact stats_eq_log hs typ groupByRule gte lt (fun idxs h => statRange_lt hs.g.contig gte lt idxs h)

-- non-vacuity / the recycled-slot scenario of seeded defect C32-3: key 0 sends 7 at t=1334; after the ring has
-- wrapped completely (8 rollovers of a 7-slot ring) the packet statistics over the whole history are empty again
example : ((grun (newRing 7 5 1333 0 2, []) [.add 0 1334 7]).1.stats 0 false 0 0) = some [((1, 0, 0, 0), ⟨7, 14, 0, 0, 0, 0⟩)] := by decide
example : ((grun (newRing 7 5 1333 0 2, []) ([.add 0 1334 7] ++ List.replicate 8 (.roll false))).1.stats 0 false 0 0) = some [] := by decide

/-! ## emission -/

/-- PARTIAL at-most-once: every bucket of a collection handed to the sink is marked pushed, and a window
is only built when its first bucket is not pushed — so after an emission no bucket of a sent collection
is the first bucket of a window built from the resulting ring. -/
theorem emit_at_most_once_partial (r : Ring) (c1 c2 : Coll) (hc1 : c1 ∈ r.emit.2) (s e : Nat) (hs : s < r.n)
    (hc2 : r.emit.1.maybeBuild s e = some c2) : s ∉ c1.idxs := by
  intro hmem
  have h1 := emit_sent_marked r c1 hc1 s hmem hs
  have h2 := maybeBuild_start_unpushed _ s e c2 hc2
  rw [h1] at h2; cases h2

/-- PARTIAL completeness: a built collection spans `[start of its first bucket, start of its end
bucket)` and carries, for each key it lists, the sum of that key's windows inside that time window —
by `window_eq_sum_accepted` each such window is the sum of the flows accepted into its bucket so far.
(Late flows accepted afterwards are not in it: `late_flow_never_emitted`.) -/
theorem emitted_window_complete_partial (r : Ring) (s e : Nat) (c : Coll) (h : r.maybeBuild s e = some c)
    (k : Nat) (x : Int) (hk : (k, x) ∈ c.flows) :
    c.start = (r.bucket s).start ∧ c.stop = (r.bucket e).start ∧
    x = total ((r.wins k).filter (inRange c.start c.stop)) := maybeBuild_flows r s e c h k x hk

/-! ## the emission walk: termination and at-most-once for EVERY configuration -/

/-- Termination: the walk stops by its own test (`oldest < len(buckets)`, `oldest` growing by
`bucketsToAggregate ≥ 1`); the fuel of the model (`n`) is never what stops it — any larger fuel gives the
same collections. (For `bucketsToAggregate < 1` the code returns before the loop.) -/
theorem emit_walk_terminates (r : Ring) (hagg : 1 ≤ r.agg) (fuel oldest s e : Nat) (h : r.n ≤ fuel + oldest) :
    r.buildLoop2 fuel oldest s e = r.buildLoop2 (fuel + 1) oldest s e := buildLoop2_fuel r hagg fuel oldest s e h

theorem disjoint_symm {a b : List Nat} (h : ∀ i, i ∈ a → i ∉ b) : ∀ i, i ∈ b → i ∉ a := fun i hb ha => h i ha hb

/-- `emit_at_most_once`, ALL ring sizes / intervals / pushAfter / bucketsToAggregate, all
histories: every collection handed to the sink consists of ring buckets that are NOT yet pushed (and not
the head bucket), no two collections of one emission share a bucket, and all their buckets are pushed
afterwards. Pushed flags are only cleared when Rollover resets a bucket, so no bucket's flows are handed
to the sink twice. -/
theorem emit_at_most_once (n : Nat) (interval now : Int) (pushAfter agg : Nat) (hn : 0 < n) (hi : 0 < interval)
    (ops : List Op) :
    let r := (grun (newRing n interval now pushAfter agg, []) ops).1
    (∀ c ∈ r.emit.2, ∀ i ∈ c.idxs,
        i < r.n ∧ i ≠ r.head ∧ (r.bucket i).pushed = false ∧ (r.emit.1.bucket i).pushed = true) ∧
    (r.emit.2.map (·.idxs)).Pairwise (fun a b => ∀ i, i ∈ a → i ∉ b) := by
  intro r
  have hh : HInv r := grun_hinv (newRing_hinv n interval now pushAfter agg hn hi) ops
  have hd := built_disjoint r hh.hlt
  constructor
  · intro c hc i hi'
    have hb := emit_sent_built r c hc
    have h1 := hd.2 c hb i hi'
    exact ⟨h1.2, h1.1, built_all_unpushed r hh.hlt hh.pinv c hb i hi', emit_sent_marked r c hc i hi' h1.2⟩
  · have hsub : (r.emit.2.map (·.idxs)).Sublist ((r.built.map (·.idxs)).reverse) := by
      unfold Ring.emit; simp only []
      rw [← List.map_reverse]
      exact (List.filter_sublist).map _
    refine List.Pairwise.sublist hsub ?_
    rw [List.pairwise_reverse]
    exact hd.1.imp (fun h => disjoint_symm h)

/-- History level: run any history and record, in a ghost list, the start time of every bucket of every
collection handed to the sink (by `EmitFlowCollections` or by `Rollover(sink)`; `estep`). That list never
contains a start time twice: no bucket — a bucket incarnation is identified by its start time, every reset
gives it a new, larger one — is handed to the sink twice, for every ring size / interval / pushAfter /
bucketsToAggregate. -/
theorem emitted_at_most_once_history (n : Nat) (interval now : Int) (pushAfter agg : Nat) (hn : 0 < n) (hi : 0 < interval)
    (ops : List Op) :
    (erun (newRing n interval now pushAfter agg, []) ops).2.Nodup :=
  (erun_estate (newRing_estate n interval now pushAfter agg hn hi) ops).2.2.nodup

/-- the ghost run is the real run: `estep` moves the ring exactly like `gstep` (it only observes) -/
theorem erun_ring (s : Ring × List Int) (l : Log) (ops : List Op) : (erun s ops).1 = (grun (s.1, l) ops).1 := by
  induction ops generalizing s l with
  | nil => rfl
  | cons op ops ih =>
    show (erun (estep s op) ops).1 = (grun (gstep (s.1, l) op) ops).1
    rw [ih (estep s op) (gstep (s.1, l) op).2, estep_ring s l op]

-- non-vacuity: in this history the sink is handed the buckets starting at 1328 and 1333, once
example : (erun (newRing 7 5 1333 0 2, []) [.add 0 1334 7, .add 2 1340 4, .roll true, .roll true, .emit]).2 = [1328, 1333] := by decide

/-- the same for the emission made by `Rollover(sink)`: the collections consist of buckets that are
unpushed in the ring right after the head moved (`rolled`), and are pushed in the result. -/
theorem rollover_emit_at_most_once (n : Nat) (interval now : Int) (pushAfter agg : Nat) (hn : 0 < n) (hi : 0 < interval)
    (ops : List Op) :
    let r := (grun (newRing n interval now pushAfter agg, []) ops).1
    ∀ c ∈ (r.rollover true).2.2, ∀ i ∈ c.idxs,
      i ≠ r.rolled.head ∧ (r.rolled.bucket i).pushed = false ∧ ((r.rollover true).1.bucket i).pushed = true := by
  intro r c hc i hi'
  have hh : HInv r.rolled := rolled_hinv (grun_hinv (newRing_hinv n interval now pushAfter agg hn hi) ops)
  rw [(rollover_true_eq r).2] at hc
  rw [(rollover_true_eq r).1]
  have hb := emit_sent_built r.rolled c hc
  have h1 := (built_disjoint r.rolled hh.hlt).2 c hb i hi'
  exact ⟨h1.1, built_all_unpushed r.rolled hh.hlt hh.pinv c hb i hi', emit_sent_marked r.rolled c hc i hi' h1.2⟩

/-! ### late flows (known finding, kept) and a regression witness -/

/-- ring of 7 buckets, pushAfter 0, bucketsToAggregate 2; key 0 sends 7 packets at t=1334, key 2
sends 4 at t=1340; one rollover with a sink. -/
def exR : Ring := ((newRing 7 5 1333 0 2).addFlow 0 1334 7).1
def exR2 : Ring := (exR.addFlow 2 1340 4).1

/-- Regression witness for the repaired defect (/repo 6722529): with the walk bounded by the ring size the
sink receives ONE collection here; the walk that only stopped when the head index was strictly inside
the next window handed it two overlapping ones, `[1333,1343)` and `[1328,1338)`. -/
theorem emit_wrap_config_single_collection :
    (exR2.rollover true).2.2.map (fun c => (c.start, c.stop, c.flows)) = [(1328, 1338, [(0, 7)])] := by decide

/-- `emitted_window_complete` fails for late flows: after that rollover the bucket `[1333,1338)` is
marked pushed, a further flow of key 0 at t=1335 is still accepted (List counts it: 8) … -/
theorem late_flow_accepted :
    let r := (exR2.rollover true).1
    (r.addFlow 0 1335 1).2 = true ∧ ((r.addFlow 0 1335 1).1.list 1333 1338) = [(0, 8, 1333, 1338)] := by decide

/-- … but it is never handed to the sink: the next emission builds nothing for that window. -/
theorem late_flow_never_emitted :
    let r := ((exR2.rollover true).1.addFlow 0 1335 1).1
    r.emit.2 = [] := by decide

/-- Non-vacuity of the conservation lemmas: an accepted flow. -/
example : ((newRing 7 5 1333 0 2).findBucket 1334) = some 6 := by decide
example : ((newRing 7 5 1333 0 2).findBucket 1343) = none := by decide
example : total (addWin 10 15 3 [⟨5, 10, 2⟩, ⟨10, 15, 4⟩]) = 9 := by decide

end CalicoVerif.C32
