import CalicoVerif.Model.C32
/-!
C32 — Flow aggregation conserves counts and emits each window once
(goldmane/pkg/storage BucketRing). Property theorems over the model `CalicoVerif.Model.C32`.

STATUS (honest): proved here are the per-operation conservation facts (a flow is sorted only into a
bucket that contains its start time, a rejected flow changes nothing, adding to the per-key windows
raises the total by exactly the flow's count and touches only the window of that bucket). The
history-level statements `query_eq_sum_retained` and `emitted_window_complete` are NOT proved (they
are checked by the oracle of the harness on the real code only). `emit_at_most_once` is FALSE of the
current code for some ring configurations — witness below, reproduced on the real code.
-/
namespace CalicoVerif.C32

def total (ws : List Win) : Int := (ws.map (·.cnt)).sum

/-- `DiachronicFlow.AddFlow` conserves counts: the per-key total grows by exactly the flow's count. -/
theorem addWin_total (start stop cnt : Int) (ws : List Win) :
    total (addWin start stop cnt ws) = total ws + cnt := by
  induction ws with
  | nil => simp [addWin, total]
  | cons w ws ih =>
    simp only [addWin]
    split
    · split
      · simp [total]; omega
      · simp [total]; omega
    · simp only [total, List.map_cons, List.sum_cons] at ih ⊢
      omega

/-- … and only the window that starts at the bucket's start time changes (or is created):
every window with another start time is still there with the same count. -/
theorem addWin_other (start stop cnt : Int) (ws : List Win) (w : Win) (hne : w.start ≠ start) :
    w ∈ addWin start stop cnt ws ↔ w ∈ ws := by
  induction ws with
  | nil =>
    simp only [addWin, List.mem_singleton, List.not_mem_nil, iff_false]
    intro h; rw [h] at hne; exact hne rfl
  | cons x xs ih =>
    simp only [addWin]
    split
    · split
      · rename_i hx
        simp only [List.mem_cons]
        constructor
        · rintro (h | h)
          · rw [h] at hne; simp at hne; exact absurd hx hne
          · exact Or.inr h
        · rintro (h | h)
          · rw [h] at hne; exact absurd hx hne
          · exact Or.inr h
      · simp only [List.mem_cons]
        constructor
        · rintro (h | h)
          · rw [h] at hne; exact absurd rfl hne
          · exact h
        · intro h; exact Or.inr h
    · simp only [List.mem_cons, ih]

theorem scan_sound (r : Ring) (t : Int) (k i j : Nat) (h : r.scan t k i = some j) : (r.bucket j).contains t = true := by
  induction k generalizing i with
  | zero => simp [Ring.scan] at h
  | succ k ih =>
    simp only [Ring.scan] at h
    split at h
    · rename_i hc; cases h; exact hc
    · exact ih _ h

/-- one_bucket_per_flow (soundness half, every ring): `findBucket` only ever answers with a bucket
whose `[start, end)` contains the flow's start time. -/
theorem findBucket_sound (r : Ring) (t : Int) (i : Nat) (h : r.findBucket t = some i) :
    (r.bucket i).contains t = true := by
  unfold Ring.findBucket at h
  split at h
  · cases h
  · simp only [] at h
    split at h
    · rename_i hc; cases h; exact hc
    · exact scan_sound r t _ _ _ h

/-- A flow that cannot be sorted into a bucket (too old / too far in the future) is dropped and
changes nothing. -/
theorem addFlow_rejected_unchanged (r : Ring) (key : Nat) (t cnt : Int) (h : r.findBucket t = none) :
    r.addFlow key t cnt = (r, false) := by
  simp [Ring.addFlow, h]

/-- An accepted flow is recorded in exactly the bucket `findBucket` chose: all other buckets keep
their key sets, flags and bounds. -/
theorem addFlow_other_buckets (r : Ring) (key : Nat) (t cnt : Int) (i j : Nat) (h : r.findBucket t = some i)
    (hj : j ≠ i) : (r.addFlow key t cnt).1.buckets[j]? = r.buckets[j]? := by
  simp only [Ring.addFlow, h, Ring.setBucket]
  exact List.getElem?_set_ne (fun hh => hj hh.symm)

/-- `maybeBuildFlowCollection` never builds a window whose first bucket was already pushed. -/
theorem maybeBuild_none_of_pushed (r : Ring) (s e : Nat) (h : (r.bucket s).pushed = true) : r.maybeBuild s e = none := by
  simp [Ring.maybeBuild, h]

/-! ### `emit_at_most_once` is false of the current code (witness; replayed on the real BucketRing) -/

/-- ring of 7 buckets, pushAfter 0, bucketsToAggregate 2; key 0 sends 7 packets at t=1334, key 2
sends 4 at t=1340; one rollover with a sink. -/
def exR : Ring := ((newRing 7 5 1333 0 2).addFlow 0 1334 7).1
def exR2 : Ring := (exR.addFlow 2 1340 4).1

/-- The sink receives TWO collections, `[1333,1343)` and `[1328,1338)`, which overlap in the bucket
`[1333,1338)`: key 0's 7 packets are emitted twice. (The walk in `EmitFlowCollections` only stops
when the head index is strictly inside the next window; here it lands exactly on the head index and
wraps around the ring.) -/
theorem emit_at_most_once_false :
    (exR2.rollover true).2.2.map (fun c => (c.start, c.stop, c.flows)) =
      [(1333, 1343, [(0, 7), (2, 4)]), (1328, 1338, [(0, 7)])] := by decide

/-- `emitted_window_complete` fails for late flows: after that rollover the bucket `[1333,1338)` is
marked pushed, a further flow of key 0 at t=1335 is still accepted (List counts it: 8) … -/
theorem late_flow_accepted :
    let r := (exR2.rollover true).1
    (r.addFlow 0 1335 1).2 = true ∧ ((r.addFlow 0 1335 1).1.list 1333 1338) = [(0, 8, 1333, 1338)] := by decide

/-- … but it is never handed to the sink: the next emission builds nothing for that window. -/
theorem late_flow_never_emitted :
    let r := ((exR2.rollover true).1.addFlow 0 1335 1).1
    r.emit.2 = [] := by decide

/-- Non-vacuity of the conservation lemmas: an accepted flow. -/
example : ((newRing 7 5 1333 0 2).findBucket 1334) = some 6 := by decide
example : ((newRing 7 5 1333 0 2).findBucket 1343) = none := by decide
example : total (addWin 10 15 3 [⟨5, 10, 2⟩, ⟨10, 15, 4⟩]) = 9 := by decide

end CalicoVerif.C32
