import CalicoVerif.Proofs.C37
import CalicoVerif.Gen.C37
/-!
C37 — Length-limited kernel object names never collide.

Property theorems only (helper lemmas live in `CalicoVerif.Proofs.C37`).
`hash` (base64url of SHA-256) is an uninterpreted parameter; where its length
(43) or its collision-freeness matters this is an explicit HYPOTHESIS of the
theorem, never an axiom. Strings are arbitrary byte lists, prefixes and limits
are arbitrary unless a theorem names the generated constants
(`Gen/C37.lean`, regenerated from /repo on every run).

Guard (DESIGN §5): the empty suffix is replaced by `"_"`, so `""` and `"_"`
always get the same name (`empty_suffix_is_underscore`); the distinctness
theorems therefore require non-empty suffixes.

FINDING (`always_named` is false, see `nft_long_id_panics`): when
`maxLength - 1 - len(prefix) > 43` and the identity needs shortening, the Go
code slices the 43-character hash out of range and panics instead of
returning a name. With nftables (limit 256) this happens for every policy /
profile / interface identity longer than `256 - len(prefix)`.
-/
namespace CalicoVerif.C37

variable (hash : Str → Str)

/-! ### 1. Names fit the limit -/

/-- Every name returned fits the limit. -/
theorem fits_limit {p s : Str} {m : Int} {n : Str} (h : getLengthLimitedID hash p s m = some n) :
    (n.length : Int) ≤ m := by
  cases hs : shortens p s m with
  | true => have := (gll_short_some hs h).2.1; omega
  | false =>
    rw [gll_long hs] at h
    simp only [Option.some.injEq] at h
    have := (shortens_false_iff.1 hs).1
    rw [← h, List.length_append]
    omega

/-- `GetLengthLimitedID` panics exactly when it has to shorten and there is no
room for a hash character or more room than hash characters. -/
theorem panics_iff (hlen : ∀ s, (hash s).length = 43) (p s : Str) (m : Int) :
    getLengthLimitedID hash p s m = none ↔
      shortens p s m = true ∧ (m - 1 - (p.length : Int) ≤ 0 ∨ m - 1 - (p.length : Int) > 43) := by
  cases hs : shortens p s m with
  | true =>
    have h43 : (((43 : Nat)) : Int) = 43 := rfl
    rw [gll_short hs, hlen, h43]
    by_cases h1 : m - 1 - (p.length : Int) ≤ 0
    · simp [h1]
    · by_cases h2 : m - 1 - (p.length : Int) > 43
      · simp only [h1, h2, if_true, if_false, true_and]
        exact ⟨fun _ => Or.inr (by omega), fun _ => trivial⟩
      · simp [h1, h2]
  | false => rw [gll_long hs]; simp

/-- The full-strength statement "every identity gets a name" holds when the
room left for the hash is between 1 and 43 characters (`_partial`: the general
statement is false, see `nft_long_id_panics`). -/
theorem always_named_partial (hlen : ∀ s, (hash s).length = 43) (p s : Str) (m : Int)
    (h1 : 0 < m - 1 - (p.length : Int)) (h2 : m - 1 - (p.length : Int) ≤ 43) :
    (getLengthLimitedID hash p s m).isSome = true := by
  cases h : getLengthLimitedID hash p s m with
  | some n => rfl
  | none =>
    have := ((panics_iff hash hlen p s m).1 h).2
    omega

/-- With the iptables limit every dynamic chain-name prefix leaves 1..43 hash
characters, so every identity gets a name (finite table: `decide`). -/
theorem iptables_always_named (hlen : ∀ s, (hash s).length = 43) (p : Str)
    (hp : p ∈ Gen.dynamicPrefixes) (s : Str) :
    (getLengthLimitedID hash p s Gen.maxChainNameLengthIptables).isSome = true := by
  have hall : ∀ q ∈ Gen.dynamicPrefixes,
      0 < Gen.maxChainNameLengthIptables - 1 - (q.length : Int) ∧
        Gen.maxChainNameLengthIptables - 1 - (q.length : Int) ≤ 43 := by decide
  exact always_named_partial hash hlen p s _ (hall p hp).1 (hall p hp).2

/-- NEGATION WITNESS of "every identity gets a name": with the nftables limit,
every dynamic prefix and every identity longer than `limit - len(prefix)` make
`GetLengthLimitedID` panic. Reproduced on the real code by the harness oracle
(`panic-hash-slice`). -/
theorem nft_long_id_panics (hlen : ∀ s, (hash s).length = 43) (p : Str)
    (hp : p ∈ Gen.dynamicPrefixes) (s : Str)
    (hlong : (p.length : Int) + (s.length : Int) > Gen.maxChainNameLengthNftables) :
    getLengthLimitedID hash p s Gen.maxChainNameLengthNftables = none := by
  have hall : ∀ q ∈ Gen.dynamicPrefixes,
      Gen.maxChainNameLengthNftables - 1 - (q.length : Int) > 43 := by decide
  rw [panics_iff hash hlen]
  refine ⟨?_, Or.inr (hall p hp)⟩
  have hne : s ≠ [] := by
    intro e; subst e
    have : (p.length : Int) ≤ 10 := by
      have : ∀ q ∈ Gen.dynamicPrefixes, (q.length : Int) ≤ 10 := by decide
      exact this p hp
    simp only [List.length_nil] at hlong
    have : Gen.maxChainNameLengthNftables = 256 := rfl
    omega
  simp only [shortens, decide_eq_true_eq]
  left
  have : (if s.length = 0 then [us] else s) = s := eff_of_ne_nil hne
  rw [this]; exact hlong

/-- Concrete instance: policy chain prefix `cali-pi-`, an identity of 249 bytes. -/
example (hlen : ∀ s, (hash s).length = 43) :
    policyChainName hash Gen.maxChainNameLengthIptables Gen.maxChainNameLengthNftables
      Gen.pfx_PolicyInboundPfx (List.replicate 249 97) true = none := by
  apply nft_long_id_panics hash hlen _ (by decide)
  rw [List.length_replicate]
  decide

/-! ### 2. Distinct identities get distinct names (same prefix, same limit) -/

/-- Guard: the empty suffix and `"_"` are the same identity for this function. -/
theorem empty_suffix_is_underscore (p : Str) (m : Int) :
    getLengthLimitedID hash p [] m = getLengthLimitedID hash p [us] m := by
  simp [getLengthLimitedID]

/-- Names used verbatim are injective. -/
theorem injective_unhashed {p s1 s2 : Str} {m : Int} (h1 : s1 ≠ []) (h2 : s2 ≠ [])
    (u1 : shortens p s1 m = false) (u2 : shortens p s2 m = false)
    (h : getLengthLimitedID hash p s1 m = getLengthLimitedID hash p s2 m) : s1 = s2 := by
  rw [gll_long u1, gll_long u2, eff_of_ne_nil h1, eff_of_ne_nil h2] at h
  simp only [Option.some.injEq] at h
  exact List.append_cancel_left h

/-- The `_` marker argument: a shortened name never equals a verbatim name. -/
theorem hashed_never_equals_unhashed {p s1 s2 : Str} {m : Int} {n1 n2 : Str}
    (u1 : shortens p s1 m = true) (u2 : shortens p s2 m = false)
    (h1 : getLengthLimitedID hash p s1 m = some n1) (h2 : getLengthLimitedID hash p s2 m = some n2) :
    n1 ≠ n2 := by
  intro e
  obtain ⟨hn1, hl1, -, -⟩ := gll_short_some u1 h1
  rw [gll_long u2] at h2
  simp only [Option.some.injEq] at h2
  obtain ⟨hle, hmark⟩ := shortens_false_iff.1 u2
  have hlen2 : (n2.length : Int) = (p.length : Int) + ((eff s2).length : Int) := by
    rw [← h2, List.length_append]; omega
  have heq : us :: (hash (eff s1)).take (m - 1 - (p.length : Int)).toNat = eff s2 := by
    have : p ++ us :: (hash (eff s1)).take (m - 1 - (p.length : Int)).toNat = p ++ eff s2 := by
      rw [← hn1, e, h2]
    exact List.append_cancel_left this
  apply hmark (by rw [← hlen2, ← e, hl1])
  rw [← heq]; rfl

/-- Two shortened names are equal only if the truncated hashes are equal. -/
theorem injective_hashed {p s1 s2 : Str} {m : Int} {n : Str}
    (u1 : shortens p s1 m = true) (u2 : shortens p s2 m = true)
    (h1 : getLengthLimitedID hash p s1 m = some n) (h2 : getLengthLimitedID hash p s2 m = some n) :
    (hash (eff s1)).take (m - 1 - (p.length : Int)).toNat =
      (hash (eff s2)).take (m - 1 - (p.length : Int)).toNat := by
  have e1 := (gll_short_some u1 h1).1
  have e2 := (gll_short_some u2 h2).1
  have := List.append_cancel_left (e1.symm.trans e2)
  simpa using this

/-- **Distinct identities get distinct names**: same prefix and limit, two
different non-empty identities; the only hypothesis is the cryptographic one —
the hashes of these two identities, truncated to the room left, differ. -/
theorem names_distinct {p s1 s2 : Str} {m : Int} {n1 n2 : Str}
    (hne : s1 ≠ s2) (h1 : s1 ≠ []) (h2 : s2 ≠ [])
    (hcrypto : (hash s1).take (m - 1 - (p.length : Int)).toNat ≠
      (hash s2).take (m - 1 - (p.length : Int)).toNat)
    (g1 : getLengthLimitedID hash p s1 m = some n1) (g2 : getLengthLimitedID hash p s2 m = some n2) :
    n1 ≠ n2 := by
  intro e
  subst e
  cases u1 : shortens p s1 m <;> cases u2 : shortens p s2 m
  · exact hne (injective_unhashed hash h1 h2 u1 u2 (g1.trans g2.symm))
  · exact hashed_never_equals_unhashed hash u2 u1 g2 g1 rfl
  · exact hashed_never_equals_unhashed hash u1 u2 g1 g2 rfl
  · have := injective_hashed hash u1 u2 g1 g2
    rw [eff_of_ne_nil h1, eff_of_ne_nil h2] at this
    exact hcrypto this

/-- Non-vacuity: an identity at the limit starting with `_` is shortened, its
neighbour not starting with `_` is used verbatim, one byte more is shortened. -/
example : shortens [99, 45] [95, 97] 4 = true ∧ shortens [99, 45] [97, 97] 4 = false ∧
    shortens [99, 45] [97, 97, 97] 4 = true := by decide
example : getLengthLimitedID (fun _ => List.replicate 43 65) [99, 45] [97, 97, 97] 4 =
    some [99, 45, 95, 65] := by decide

/-! ### 3. Different kinds of object never share a name -/

/-- Names built on two prefixes neither of which is a prefix of the other differ
(whatever the identities, limits and hash). -/
theorem cross_prefix_distinct {p1 p2 s1 s2 : Str} {m1 m2 : Int} {n1 n2 : Str}
    (hinc : incomparable p1 p2 = true)
    (g1 : getLengthLimitedID hash p1 s1 m1 = some n1) (g2 : getLengthLimitedID hash p2 s2 m2 = some n2) :
    n1 ≠ n2 := by
  intro e
  obtain ⟨r1, e1⟩ := gll_has_prefix g1
  obtain ⟨r2, e2⟩ := gll_has_prefix g2
  have := append_eq_append_prefix (e1.symm.trans (e.trans e2))
  simp only [incomparable, Bool.and_eq_true, Bool.not_eq_true'] at hinc
  rcases this with h | h
  · rw [hinc.1] at h; simp at h
  · rw [hinc.2] at h; simp at h

/-- The dynamic chain-name prefixes of rule_defs.go (policy in/out, profile
in/out, group in/out, the endpoint prefixes) are pairwise incomparable
(finite generated table: `decide`). Policy-group chain names are
`prefix ++ uid`, so the same argument covers them. -/
theorem dynamic_prefixes_incomparable :
    ∀ a ∈ Gen.dynamicPrefixes, ∀ b ∈ Gen.dynamicPrefixes, a ≠ b → incomparable a b = true := by
  decide

theorem group_cross_prefix_distinct {p1 p2 u1 u2 : Str} (hinc : incomparable p1 p2 = true) :
    groupChainName p1 u1 ≠ groupChainName p2 u2 := by
  intro e
  have := append_eq_append_prefix e
  simp only [incomparable, Bool.and_eq_true, Bool.not_eq_true'] at hinc
  rcases this with h | h
  · rw [hinc.1] at h; simp at h
  · rw [hinc.2] at h; simp at h

/-- Policy-group chain names: injective in the UID and exactly at the iptables limit. -/
theorem group_names (p u1 u2 : Str) :
    (groupChainName p u1 = groupChainName p u2 ↔ u1 = u2) ∧
    (p ∈ [Gen.pfx_PolicyGroupInboundPrefix, Gen.pfx_PolicyGroupOutboundPrefix] →
      u1.length = Gen.maxPolicyGroupUIDLength →
      ((groupChainName p u1).length : Int) ≤ Gen.maxChainNameLengthIptables ∧
      ((groupChainName p u1).length : Int) ≤ Gen.maxChainNameLengthNftables) := by
  constructor
  · exact ⟨fun h => List.append_cancel_left h, fun h => by rw [h]⟩
  · intro hp hu
    have hl : p.length = 8 := by
      simp only [List.mem_cons, List.not_mem_nil, or_false] at hp
      rcases hp with rfl | rfl <;> rfl
    simp only [groupChainName, List.length_append, hl, hu]
    decide

/-! ### 4. IP set names -/

/-- IP set names fit the limit, and two ids get the same name iff they agree on
the first `limit - len(prefix)` bytes (ids are themselves hashes: stated as such). -/
theorem ipset_names (p s1 s2 : Str) (M : Nat) (hp : p.length ≤ M) :
    (combineAndTrunc p s1 M).length ≤ M ∧
    (combineAndTrunc p s1 M = combineAndTrunc p s2 M ↔
      s1.take (M - p.length) = s2.take (M - p.length)) := by
  rw [combineAndTrunc_eq, combineAndTrunc_eq]
  constructor
  · simp only [List.length_take]; omega
  · rw [List.take_append, List.take_append, List.take_of_length_le hp]
    exact ⟨fun h => List.append_cancel_left h, fun h => by rw [h]⟩

example : nameForMainIPSet Gen.ipSetNamePrefix false Gen.mainIpsetToken Gen.maxIPSetNameLength
    [115, 58, 65, 66] = [99, 97, 108, 105, 52, 48, 115, 58, 65, 66] := by decide

end CalicoVerif.C37
