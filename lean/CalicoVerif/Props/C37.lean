import CalicoVerif.Proofs.C37
import CalicoVerif.Proofs.C37Ident
import CalicoVerif.Gen.C37
/-!
C37 — Length-limited kernel object names never collide.

Property theorems only (helper lemmas live in `CalicoVerif.Proofs.C37`).
`hash` (base64url of SHA-256) is an uninterpreted parameter; where its length
(43) or its collision-freeness matters this is an explicit HYPOTHESIS of the
theorem, never an axiom. Strings are arbitrary byte lists, prefixes and limits
are arbitrary unless a theorem names the generated constants
(`Gen/C37.lean`, regenerated from /repo on every run).

Model = the code after /repo d3812f3 and 6a0784d:
* d3812f3: the hash is cut to `min(room, len(hash))` characters (before, the
  code panicked when the room exceeded the 43 hash characters — oracle
  signature `panic-hash-slice`, corpus/C37/nft-long-identity-panics.ops);
* 6a0784d: an identity starting with `_` is hashed when its name would be as
  long as a shortened ID really is, `min(maxLength, len(prefix)+1+43)` (before,
  the guard compared with `maxLength`, so with room for the whole hash the
  verbatim identity `"_" ++ hash(x)` collided with `x` — oracle signature
  `collision-marker-fullhash`, corpus/C37/nft-marker-fullhash-collision.ops).

Guard (DESIGN §5): the empty suffix is replaced by `"_"`, so `""` and `"_"`
always get the same name (`empty_suffix_is_underscore`); the distinctness
theorems therefore require non-empty suffixes.
-/
namespace CalicoVerif.C37

variable (hash : Str → Str)

/-! ### 1. Names fit the limit, and every identity gets one -/

/-- Every name returned fits the limit. -/
theorem fits_limit {p s : Str} {m : Int} {n : Str} (h : getLengthLimitedID hash p s m = some n) :
    (n.length : Int) ≤ m := by
  cases hs : shortens p s m with
  | true => obtain ⟨-, hl, hk, -⟩ := gll_short_some hs h; omega
  | false =>
    rw [gll_long hs] at h
    simp only [Option.some.injEq] at h
    have := (shortens_false_iff.1 hs).1
    rw [← h, List.length_append]
    omega

/-- `GetLengthLimitedID` panics exactly when it has to shorten and there is no
room for even one hash character (the documented `log.Panicf` precondition). -/
theorem panics_iff (p s : Str) (m : Int) :
    getLengthLimitedID hash p s m = none ↔
      shortens p s m = true ∧ m - 1 - (p.length : Int) ≤ 0 := by
  cases hs : shortens p s m with
  | true =>
    rw [gll_short hs]
    by_cases h1 : m - 1 - (p.length : Int) ≤ 0 <;> simp [h1]
  | false => rw [gll_long hs]; simp

/-- **Every identity gets a name** as soon as the limit leaves room for the
prefix, the marker and one hash character. -/
theorem always_named (p s : Str) (m : Int) (h1 : 0 < m - 1 - (p.length : Int)) :
    (getLengthLimitedID hash p s m).isSome = true := by
  cases h : getLengthLimitedID hash p s m with
  | some n => rfl
  | none => have := ((panics_iff hash p s m).1 h).2; omega

/-- Both dataplane limits leave that room for every dynamic chain-name prefix
(finite generated table: `decide`), so every policy / profile / endpoint
identity gets an iptables AND an nftables chain name. -/
theorem chains_always_named (p : Str) (hp : p ∈ Gen.dynamicPrefixes) (s : Str) :
    (getLengthLimitedID hash p s Gen.maxChainNameLengthIptables).isSome = true ∧
    (getLengthLimitedID hash p s Gen.maxChainNameLengthNftables).isSome = true := by
  have hall : ∀ q ∈ Gen.dynamicPrefixes,
      0 < Gen.maxChainNameLengthIptables - 1 - (q.length : Int) ∧
        0 < Gen.maxChainNameLengthNftables - 1 - (q.length : Int) := by decide
  exact ⟨always_named hash p s _ (hall p hp).1, always_named hash p s _ (hall p hp).2⟩

/-- The identity that used to panic (prefix `cali-pi-`, 249 bytes, nftables). -/
example : (policyChainName hash Gen.maxChainNameLengthIptables Gen.maxChainNameLengthNftables
      Gen.pfx_PolicyInboundPfx (List.replicate 249 97) true).isSome = true :=
  (chains_always_named hash _ (by decide) _).2

/-! ### 2. Distinct identities get distinct names (same prefix, same limit) -/

/-- Guard: the empty suffix and `"_"` are the same identity for this function. -/
theorem empty_suffix_is_underscore (p : Str) (m : Int) :
    getLengthLimitedID hash p [] m = getLengthLimitedID hash p [us] m := by
  simp [getLengthLimitedID]

/-- Names used verbatim are injective. -/
theorem injective_unhashed {p s1 s2 : Str} {m : Int} (h1 : s1 ≠ []) (h2 : s2 ≠ [])
    (u1 : shortens p s1 m = false) (u2 : shortens p s2 m = false)
    (h : getLengthLimitedID hash p s1 m = getLengthLimitedID hash p s2 m) : s1 = s2 := by
  rw [gll_long u1, gll_long u2, eff_of_ne_nil h1, eff_of_ne_nil h2] at h
  simp only [Option.some.injEq] at h
  exact List.append_cancel_left h

/-- A shortened name is exactly `shortenedLen = min(maxLength, len(prefix)+1+43)` long. -/
theorem shortened_length (hlen : ∀ s, (hash s).length = 43) {p s : Str} {m : Int} {n : Str}
    (u : shortens p s m = true) (h : getLengthLimitedID hash p s m = some n) :
    (n.length : Int) = shortenedLen p m := by
  obtain ⟨-, hl, hk, hpos⟩ := gll_short_some u h
  rw [hlen] at hk
  unfold shortenedLen
  omega

/-- **The `_` marker argument**, full strength (every limit, every prefix): a
shortened name never equals a verbatim name. Only hypothesis: the hash values
are 43 characters long. -/
theorem hashed_never_equals_unhashed (hlen : ∀ s, (hash s).length = 43)
    {p s1 s2 : Str} {m : Int} {n1 n2 : Str}
    (u1 : shortens p s1 m = true) (u2 : shortens p s2 m = false)
    (h1 : getLengthLimitedID hash p s1 m = some n1) (h2 : getLengthLimitedID hash p s2 m = some n2) :
    n1 ≠ n2 := by
  intro e
  have hl1 := shortened_length hash hlen u1 h1
  obtain ⟨hn1, -, -, -⟩ := gll_short_some u1 h1
  rw [gll_long u2] at h2
  simp only [Option.some.injEq] at h2
  obtain ⟨hle, hmark⟩ := shortens_false_iff.1 u2
  have hlen2 : (n2.length : Int) = (p.length : Int) + ((eff s2).length : Int) := by
    rw [← h2, List.length_append]; omega
  have heq : us :: (hash (eff s1)).take (kept hash p s1 m) = eff s2 := by
    have : p ++ us :: (hash (eff s1)).take (kept hash p s1 m) = p ++ eff s2 := by
      rw [← hn1, e, h2]
    exact List.append_cancel_left this
  apply hmark (by rw [← hlen2, ← e, hl1])
  rw [← heq]; rfl

/-- The identity that collided before 6a0784d — `"_" ++ hash x` with room for
the whole hash — is now itself shortened (for every hash with 43-character values). -/
theorem marker_twin_is_shortened (hlen : ∀ s, (hash s).length = 43) (p x : Str) (m : Int)
    (hroom : m - 1 - (p.length : Int) ≥ 43) : shortens p (us :: hash (eff x)) m = true := by
  have he : (if (us :: hash (eff x)).length = 0 then [us] else us :: hash (eff x)) =
      us :: hash (eff x) := eff_of_ne_nil (by simp)
  simp only [shortens, decide_eq_true_eq]
  rw [he, List.length_cons, hlen]
  right
  refine ⟨?_, rfl⟩
  omega

/-- Two shortened names are equal only if the kept parts of the hashes are equal. -/
theorem injective_hashed {p s1 s2 : Str} {m : Int} {n : Str}
    (u1 : shortens p s1 m = true) (u2 : shortens p s2 m = true)
    (h1 : getLengthLimitedID hash p s1 m = some n) (h2 : getLengthLimitedID hash p s2 m = some n) :
    (hash (eff s1)).take (kept hash p s1 m) = (hash (eff s2)).take (kept hash p s2 m) := by
  have e1 := (gll_short_some u1 h1).1
  have e2 := (gll_short_some u2 h2).1
  have := List.append_cancel_left (e1.symm.trans e2)
  simpa using this

/-- … and when the room is at least the hash length, the WHOLE hashes are
equal: two shortened names then collide only on a genuine SHA-256 collision. -/
theorem injective_hashed_full (hlen : ∀ s, (hash s).length = 43) {p s1 s2 : Str} {m : Int} {n : Str}
    (hroom : 43 ≤ m - 1 - (p.length : Int))
    (u1 : shortens p s1 m = true) (u2 : shortens p s2 m = true)
    (h1 : getLengthLimitedID hash p s1 m = some n) (h2 : getLengthLimitedID hash p s2 m = some n) :
    hash (eff s1) = hash (eff s2) := by
  have h := injective_hashed hash u1 u2 h1 h2
  have k1 : kept hash p s1 m = 43 := by unfold kept; rw [hlen]; omega
  have k2 : kept hash p s2 m = 43 := by unfold kept; rw [hlen]; omega
  rw [k1, k2, List.take_of_length_le (by rw [hlen]; omega),
    List.take_of_length_le (by rw [hlen]; omega)] at h
  exact h

/-- **Distinct identities get distinct names**, full strength: same prefix and
limit, two different non-empty identities (which may start with `_`, sit at any
length, under any limit). Only hypotheses: hash values are 43 characters, and
the cryptographic one — the two hashes differ within the characters kept. -/
theorem names_distinct (hlen : ∀ s, (hash s).length = 43) {p s1 s2 : Str} {m : Int} {n1 n2 : Str}
    (hne : s1 ≠ s2) (h1 : s1 ≠ []) (h2 : s2 ≠ [])
    (hcrypto : (hash s1).take (min (m - 1 - (p.length : Int)) 43).toNat ≠
      (hash s2).take (min (m - 1 - (p.length : Int)) 43).toNat)
    (g1 : getLengthLimitedID hash p s1 m = some n1) (g2 : getLengthLimitedID hash p s2 m = some n2) :
    n1 ≠ n2 := by
  intro e
  subst e
  have e1 := eff_of_ne_nil h1
  have e2 := eff_of_ne_nil h2
  cases u1 : shortens p s1 m <;> cases u2 : shortens p s2 m
  · exact hne (injective_unhashed hash h1 h2 u1 u2 (g1.trans g2.symm))
  · exact hashed_never_equals_unhashed hash hlen u2 u1 g2 g1 rfl
  · exact hashed_never_equals_unhashed hash hlen u1 u2 g1 g2 rfl
  · have := injective_hashed hash u1 u2 g1 g2
    unfold kept at this
    rw [e1, e2, hlen, hlen] at this
    exact hcrypto this

/-- Non-vacuity: an identity at the limit starting with `_` is shortened, its
neighbour not starting with `_` is used verbatim, one byte more is shortened. -/
example : shortens [99, 45] [95, 97] 4 = true ∧ shortens [99, 45] [97, 97] 4 = false ∧
    shortens [99, 45] [97, 97, 97] 4 = true := by decide
example : getLengthLimitedID (fun _ => List.replicate 43 65) [99, 45] [97, 97, 97] 4 =
    some [99, 45, 95, 65] := by decide
/-- Room for the whole hash (limit 60, prefix 2): a 44-byte identity starting with `_` is
shortened (6a0784d), a 44-byte identity not starting with `_` and a 45-byte one with `_` are verbatim. -/
example : shortens [99, 45] (95 :: List.replicate 43 65) 60 = true ∧
    shortens [99, 45] (97 :: List.replicate 43 65) 60 = false ∧
    shortens [99, 45] (95 :: List.replicate 44 65) 60 = false := by decide
/-- Room (57) larger than the hash: the whole 43-character hash is used. -/
example : getLengthLimitedID (fun _ => List.replicate 43 65) [99, 45] (List.replicate 70 97) 60 =
    some ([99, 45, 95] ++ List.replicate 43 65) := by decide

/-! ### 3. Different kinds of object never share a name -/

/-- Names built on two prefixes neither of which is a prefix of the other differ
(whatever the identities, limits and hash). -/
theorem cross_prefix_distinct {p1 p2 s1 s2 : Str} {m1 m2 : Int} {n1 n2 : Str}
    (hinc : incomparable p1 p2 = true)
    (g1 : getLengthLimitedID hash p1 s1 m1 = some n1) (g2 : getLengthLimitedID hash p2 s2 m2 = some n2) :
    n1 ≠ n2 := by
  intro e
  obtain ⟨r1, e1⟩ := gll_has_prefix g1
  obtain ⟨r2, e2⟩ := gll_has_prefix g2
  have := append_eq_append_prefix (e1.symm.trans (e.trans e2))
  simp only [incomparable, Bool.and_eq_true, Bool.not_eq_true'] at hinc
  rcases this with h | h
  · rw [hinc.1] at h; simp at h
  · rw [hinc.2] at h; simp at h

/-- The dynamic chain-name prefixes of rule_defs.go (policy in/out, profile
in/out, group in/out, the endpoint prefixes) are pairwise incomparable
(finite generated table: `decide`). Policy-group chain names are
`prefix ++ uid`, so the same argument covers them. -/
theorem dynamic_prefixes_incomparable :
    ∀ a ∈ Gen.dynamicPrefixes, ∀ b ∈ Gen.dynamicPrefixes, a ≠ b → incomparable a b = true := by
  decide

theorem group_cross_prefix_distinct {p1 p2 u1 u2 : Str} (hinc : incomparable p1 p2 = true) :
    groupChainName p1 u1 ≠ groupChainName p2 u2 := by
  intro e
  have := append_eq_append_prefix e
  simp only [incomparable, Bool.and_eq_true, Bool.not_eq_true'] at hinc
  rcases this with h | h
  · rw [hinc.1] at h; simp at h
  · rw [hinc.2] at h; simp at h

/-- Policy-group chain names: injective in the UID and exactly at the iptables limit. -/
theorem group_names (p u1 u2 : Str) :
    (groupChainName p u1 = groupChainName p u2 ↔ u1 = u2) ∧
    (p ∈ [Gen.pfx_PolicyGroupInboundPrefix, Gen.pfx_PolicyGroupOutboundPrefix] →
      u1.length = Gen.maxPolicyGroupUIDLength →
      ((groupChainName p u1).length : Int) ≤ Gen.maxChainNameLengthIptables ∧
      ((groupChainName p u1).length : Int) ≤ Gen.maxChainNameLengthNftables) := by
  constructor
  · exact ⟨fun h => List.append_cancel_left h, fun h => by rw [h]⟩
  · intro hp hu
    have hl : p.length = 8 := by
      simp only [List.mem_cons, List.not_mem_nil, or_false] at hp
      rcases hp with rfl | rfl <;> rfl
    simp only [groupChainName, List.length_append, hl, hu]
    decide

/-! ### 3b. Dynamic names against the fixed chain names of rule_defs.go -/

/-- `"cali-arp-dispatch"` (`ChainARPDispatch` / `NftablesARPDispatchMap`). -/
def arpDispatchName : Str := Gen.pfx_WorkloadARPPfx ++ [100, 105, 115, 112, 97, 116, 99, 104]

/-- Table fact (finite generated tables: `decide`): the only fixed chain name
that starts with a dynamic prefix is `cali-arp-dispatch` (under `cali-arp-`). -/
theorem static_names_vs_dynamic_prefixes :
    ∀ n0 ∈ Gen.staticNames, ∀ p ∈ Gen.dynamicPrefixes, isPrefix p n0 = true →
      n0 = arpDispatchName ∧ p = Gen.pfx_WorkloadARPPfx := by
  decide

/-- No policy / profile / endpoint / group chain name ever equals a fixed chain
name other than `cali-arp-dispatch` (`_partial`: for that one name the
statement is false, see `arp_dispatch_clash`). -/
theorem dynamic_never_equals_static_partial {n0 p s : Str} {m : Int}
    (hn : n0 ∈ Gen.staticNames) (hne : n0 ≠ arpDispatchName) (hp : p ∈ Gen.dynamicPrefixes) :
    getLengthLimitedID hash p s m ≠ some n0 ∧ ∀ uid, groupChainName p uid ≠ n0 := by
  constructor
  · intro h
    obtain ⟨r, e⟩ := gll_has_prefix h
    have := static_names_vs_dynamic_prefixes n0 hn p hp (by rw [e]; exact isPrefix_append p r)
    exact hne this.1
  · intro uid e
    have := static_names_vs_dynamic_prefixes n0 hn p hp (by rw [← e]; exact isPrefix_append p uid)
    exact hne this.1

/-- NEGATION WITNESS for the remaining name: the ARP chain of a workload
interface called `dispatch` IS the fixed chain `cali-arp-dispatch`, under both
limits (interface names normally carry the configured interface prefix, e.g.
`cali…`, so this needs an unusual `InterfacePrefix`). Reproduced on the real
code by the harness oracle (`collision-static-chain`). -/
theorem arp_dispatch_clash :
    arpDispatchName ∈ Gen.staticNames ∧
    endpointChainName hash Gen.pfx_WorkloadARPPfx [100, 105, 115, 112, 97, 116, 99, 104]
      Gen.maxChainNameLengthIptables = some arpDispatchName ∧
    endpointChainName hash Gen.pfx_WorkloadARPPfx [100, 105, 115, 112, 97, 116, 99, 104]
      Gen.maxChainNameLengthNftables = some arpDispatchName := by
  refine ⟨by decide, ?_, ?_⟩ <;>
    simp [endpointChainName, getLengthLimitedID, arpDispatchName, Gen.pfx_WorkloadARPPfx,
      Gen.maxChainNameLengthIptables, Gen.maxChainNameLengthNftables, us]

/-! ### 4. IP set names -/

/-- IP set names fit the limit, and two ids get the same name iff they agree on
the first `limit - len(prefix)` bytes. NOTE: this is the exact characterisation, not
"distinct IP sets get distinct names": set ids are themselves hashes, so distinctness of
the NAMES rests on the (cryptographic, unproved) assumption that two set ids differ
within their first `31 - len(prefix)` bytes. -/
theorem ipset_names (p s1 s2 : Str) (M : Nat) (hp : p.length ≤ M) :
    (combineAndTrunc p s1 M).length ≤ M ∧
    (combineAndTrunc p s1 M = combineAndTrunc p s2 M ↔
      s1.take (M - p.length) = s2.take (M - p.length)) := by
  rw [combineAndTrunc_eq, combineAndTrunc_eq]
  constructor
  · simp only [List.length_take]; omega
  · rw [List.take_append, List.take_append, List.take_of_length_le hp]
    exact ⟨fun h => List.append_cancel_left h, fun h => by rw [h]⟩

/-- Main and temporary IP set names never coincide: right after the versioned
prefix the main name carries `mainIpsetToken` and the temporary one
`tempIpsetToken` (single, different bytes), provided the limit leaves room for
prefix + version + token. -/
theorem ipset_temp_main_disjoint (np id : Str) (v6 : Bool) (a b : Nat) (n M : Nat)
    (hab : a ≠ b) (hroom : np.length + 2 ≤ M) :
    nameForMainIPSet np v6 [a] M id ≠ nameForTempIPSet np v6 [b] n := by
  intro e
  have := congrArg (fun l => l[np.length + 1]?) e
  simp only [nameForMainIPSet, mainSetNamePrefix, nameForTempIPSet, combineAndTrunc_eq] at this
  rw [List.getElem?_take_of_lt (by omega)] at this
  simp at this
  exact hab this

/-- … instantiated with the generated tokens (`"0"` vs `"t"`) and limit (31): for the
default `cali` prefix and any prefix of at most 29 bytes. -/
theorem ipset_temp_main_disjoint_gen (np id : Str) (v6 : Bool) (n : Nat) (hnp : np.length ≤ 29) :
    nameForMainIPSet np v6 Gen.mainIpsetToken Gen.maxIPSetNameLength id ≠
      nameForTempIPSet np v6 Gen.tempIpsetToken n :=
  ipset_temp_main_disjoint np id v6 48 116 n 31 (by decide) (by omega)

theorem tempIPSet_shape : Gen.nameForTempIPSetExpr = "fmt.Sprint(c.tempSetNamePrefix, n)" ∧
    Gen.mainIpsetToken = [48] ∧ Gen.tempIpsetToken = [116] := by decide

example : nameForMainIPSet Gen.ipSetNamePrefix false Gen.mainIpsetToken Gen.maxIPSetNameLength
    [115, 58, 65, 66] = [99, 97, 108, 105, 52, 48, 115, 58, 65, 66] := by decide

/-! ### 5. The identity strings themselves

Distinct objects must first of all have distinct identity strings: what is
passed as `suffix` (`PolicyID.ID()`, `ProfileID.ID()` = the name, the interface
name) and what `PolicyGroup.UniqueID()` feeds into its hash. The formats are
taken from the source by the translator (`policyString_shape`,
`policyID_shape`, `groupWrite_shape`, `kindShortTable_facts` are the tie
obligations: a changed format/shape no longer proves).

Alphabet guard = what v3 validation guarantees: names and namespaces are
DNS-1123 strings (`validName`: `a-z 0-9 - .`), kinds come from the
`KindShortName` table (`knownKind`), a selector contains no newline. -/

/-- A group whose fields respect the alphabet guard. -/
def Group.valid (g : Group) : Prop :=
  10 ∉ g.selector ∧ ∀ p ∈ g.policies, validName p.name ∧ validName p.namespace_ ∧ 10 ∉ p.kind

/-- `PolicyID.ID()` (the identity used for policy chain names) is injective on
validated policies: Kind, Namespace and Name all matter. -/
theorem policy_id_injective {p q : PolicyID} (kp : knownKind p.kind) (kq : knownKind q.kind)
    (hp : validName p.name ∧ validName p.namespace_) (hq : validName q.name ∧ validName q.namespace_)
    (h : p.id = q.id) : p = q :=
  policyID_injective kp kq
    ⟨validName_not_mem hp.1 not_dns_47, validName_not_mem hp.2 not_dns_47⟩
    ⟨validName_not_mem hq.1 not_dns_47, validName_not_mem hq.2 not_dns_47⟩ h

/-- Why the guard is needed: with `/` inside a name or namespace two different
policies have the same `ID()` (namespace `a/b` + name `c` vs namespace `a` + name `b/c`). -/
theorem policy_id_ambiguous_without_guard :
    (PolicyID.mk [99] [97, 47, 98] [78, 101, 116, 119, 111, 114, 107, 80, 111, 108, 105, 99, 121]).id =
    (PolicyID.mk [98, 47, 99] [97] [78, 101, 116, 119, 111, 114, 107, 80, 111, 108, 105, 99, 121]).id := by
  decide

/-- `PolicyID.String()` (what a policy contributes to a group's hash) is injective
on validated policies. -/
theorem policy_string_injective {p q : PolicyID}
    (hp : validName p.name ∧ validName p.namespace_) (hq : validName q.name ∧ validName q.namespace_)
    (h : p.string = q.string) : p = q :=
  policyString_injective
    ⟨validName_not_mem hp.1 not_dns_44, validName_not_mem hp.2 not_dns_44⟩
    ⟨validName_not_mem hq.1 not_dns_44, validName_not_mem hq.2 not_dns_44⟩ h

/-- **The bytes hashed by `PolicyGroup.UniqueID()` determine the group**:
direction, selector and the ORDERED list of policies including each policy's
Kind, Namespace and Name. -/
theorem group_prehash_injective {g1 g2 : Group} (v1 : g1.valid) (v2 : g2.valid)
    (h : g1.preHash = g2.preHash) : g1 = g2 := by
  have hdir : ∀ g : Group, 10 ∉ g.direction := by
    intro g; unfold Group.direction; split <;> decide
  have hitems : ∀ g : Group, g.valid → ∀ x ∈ g.items, 10 ∉ x := by
    intro g v x hx
    simp only [Group.items, List.mem_cons, List.mem_map] at hx
    rcases hx with rfl | rfl | rfl | ⟨p, hp, rfl⟩
    · exact v.1
    · exact hdir g
    · intro m; have := natDigits_range _ 10 m; omega
    · have := v.2 p hp
      exact policyString_no_newline
        ⟨validName_not_mem this.1 not_dns_10, validName_not_mem this.2.1 not_dns_10, this.2.2⟩
  unfold Group.preHash at h
  rw [groupWrite_shape.2.1] at h
  have hi := joinSep_injective (hitems g1 v1) (hitems g2 v2) h
  simp only [Group.items, List.cons.injEq] at hi
  obtain ⟨hs, hd, -, hp⟩ := hi
  have hpol := map_string_injective
    (fun p hp => ⟨validName_not_mem (v1.2 p hp).1 not_dns_44, validName_not_mem (v1.2 p hp).2.1 not_dns_44⟩)
    (fun p hp => ⟨validName_not_mem (v2.2 p hp).1 not_dns_44, validName_not_mem (v2.2 p hp).2.1 not_dns_44⟩) hp
  have hout : g1.outbound = g2.outbound := by
    unfold Group.direction at hd
    cases h1 : g1.outbound <;> cases h2 : g2.outbound <;> simp [h1, h2] at hd ⊢ <;>
      exact absurd hd (by decide)
  cases g1; cases g2
  simp only [Group.mk.injEq]
  exact ⟨hout, hs, hpol⟩

/-- **Distinct policy groups get distinct chain names.** Hypothesis: the
cryptographic one — the base64(SHA3-224) values of the two (different) pre-hash
strings differ within the characters kept. -/
theorem group_names_distinct (h3 : Bytes → Bytes) {g1 g2 : Group} (v1 : g1.valid) (v2 : g2.valid)
    (hne : g1 ≠ g2)
    (hcrypto : g1.preHash ≠ g2.preHash →
      (h3 g1.preHash).take Gen.maxPolicyGroupUIDLength ≠ (h3 g2.preHash).take Gen.maxPolicyGroupUIDLength) :
    g1.chainName h3 ≠ g2.chainName h3 := by
  have hpre : g1.preHash ≠ g2.preHash := fun e => hne (group_prehash_injective v1 v2 e)
  have huid := hcrypto hpre
  unfold Group.chainName Group.uniqueID
  cases h1 : g1.outbound <;> cases h2 : g2.outbound
  · simp only [Bool.false_eq_true, if_false]; exact fun e => huid (List.append_cancel_left e)
  · simp only [Bool.false_eq_true, if_false, if_true]
    exact group_cross_prefix_distinct (by decide)
  · simp only [Bool.false_eq_true, if_false, if_true]
    exact group_cross_prefix_distinct (by decide)
  · simp only [if_true]; exact fun e => huid (List.append_cancel_left e)

/-- **Distinct validated policies get distinct policy chain names** (same
direction prefix, same dataplane limit), composing `policy_id_injective` with
`names_distinct`. Hypotheses: hash values have 43 characters and the hashes of
the two ID strings differ within the characters kept. -/
theorem policy_chain_names_distinct (hlen : ∀ s, (hash s).length = 43) {p q : PolicyID}
    {pfx : Str} {m : Int} {n1 n2 : Str}
    (kp : knownKind p.kind) (kq : knownKind q.kind)
    (hp : validName p.name ∧ validName p.namespace_) (hq : validName q.name ∧ validName q.namespace_)
    (hne : p ≠ q)
    (hcrypto : (hash p.id).take (min (m - 1 - (pfx.length : Int)) 43).toNat ≠
      (hash q.id).take (min (m - 1 - (pfx.length : Int)) 43).toNat)
    (g1 : getLengthLimitedID hash pfx p.id m = some n1) (g2 : getLengthLimitedID hash pfx q.id m = some n2) :
    n1 ≠ n2 := by
  have hid : p.id ≠ q.id := fun e => hne (policy_id_injective kp kq hp hq e)
  have nonempty : ∀ r : PolicyID, r.id ≠ [] := by
    intro r; unfold PolicyID.id; split <;> simp
  exact names_distinct hash hlen hid (nonempty p) (nonempty q) hcrypto g1 g2

/-- An injective toy hash with 43-character values (pad / cut the input to 43
bytes): used to show that the hypotheses of the distinctness theorems are
JOINTLY satisfiable. -/
def toyHash (s : Str) : Str := (s ++ List.replicate 43 0).take 43

theorem toyHash_length (s : Str) : (toyHash s).length = 43 := by
  simp [toyHash, List.length_take]

/-- Joint non-vacuity of `names_distinct`: with the toy hash, `hlen` and `hcrypto`
hold together for two 5-byte identities that both need shortening under
prefix `c-`, limit 6; the conclusion is the concrete `c-_aaa ≠ c-_bbb`. -/
example : ([99, 45, 95, 97, 97, 97] : Str) ≠ [99, 45, 95, 98, 98, 98] :=
  names_distinct toyHash toyHash_length (p := [99, 45]) (m := 6)
    (s1 := [97, 97, 97, 97, 97]) (s2 := [98, 98, 98, 98, 98])
    (by decide) (by decide) (by decide) (by decide) (by decide) (by decide)

/-- Joint non-vacuity of `policy_chain_names_distinct`: NetworkPolicy `a` vs `b`
(no namespace) under `cali-pi-` and the iptables limit, with the toy hash. -/
example : ∀ n1 n2,
    getLengthLimitedID toyHash Gen.pfx_PolicyInboundPfx
      (PolicyID.mk [97] [] [78, 101, 116, 119, 111, 114, 107, 80, 111, 108, 105, 99, 121]).id
      Gen.maxChainNameLengthIptables = some n1 →
    getLengthLimitedID toyHash Gen.pfx_PolicyInboundPfx
      (PolicyID.mk [98] [] [78, 101, 116, 119, 111, 114, 107, 80, 111, 108, 105, 99, 121]).id
      Gen.maxChainNameLengthIptables = some n2 → n1 ≠ n2 := by
  intro n1 n2 g1 g2
  have hv : ∀ c : Nat, c = 97 ∨ c = 98 → dnsChar c := by
    intro c hc; unfold dnsChar; omega
  have hk : knownKind [78, 101, 116, 119, 111, 114, 107, 80, 111, 108, 105, 99, 121] :=
    ⟨([78, 101, 116, 119, 111, 114, 107, 80, 111, 108, 105, 99, 121], [110, 112]), by decide, rfl⟩
  refine policy_chain_names_distinct toyHash toyHash_length
    hk hk ⟨?_, ?_⟩ ⟨?_, ?_⟩ (by decide) (by decide) g1 g2
  · intro c hc; simp at hc; exact hv c (Or.inl hc)
  · intro c hc; simp at hc
  · intro c hc; simp at hc; exact hv c (Or.inr hc)
  · intro c hc; simp at hc

/-- Non-vacuity: a valid two-policy group, its pre-hash string, and the same
group with one policy's Kind changed (a different pre-hash string). -/
example : (Group.mk false [97] [⟨[112], [110], [75]⟩]).preHash =
    [97, 10] ++ [105, 110, 98, 111, 117, 110, 100, 10] ++ [49, 10] ++
    [123, 78, 97, 109, 101, 58, 32, 112, 44, 32, 78, 97, 109, 101, 115, 112, 97, 99, 101, 58, 32, 110,
      44, 32, 75, 105, 110, 100, 58, 32, 75, 125, 10] := by
  have hd : natDigits 1 = [49] := by rw [natDigits]; simp
  simp [Group.preHash, Group.items, joinSep, groupWrite_shape.2.1, Group.direction,
    policyString_eq, hd, Gen.directionInbound]
example : (Group.mk false [97] [⟨[112], [110], [75]⟩]).valid := by
  refine ⟨by decide, ?_⟩
  intro p hp
  simp only [List.mem_singleton] at hp
  subst hp
  refine ⟨?_, ?_, by decide⟩ <;> intro c hc <;> simp at hc <;> subst hc <;> unfold dnsChar <;> omega

end CalicoVerif.C37
