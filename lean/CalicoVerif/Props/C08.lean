import CalicoVerif.Proofs.C08
/-!
C08 — Rendered iptables/nftables rules match exactly what the policy rule says.

Full-strength statement: `RenderExact` below, for every rule, packet and configuration.
It is FALSE of the current code in two ways (both reproduced on the real renderer by the
harness oracle, see known_findings.txt):
* `render_exact_false_three_blocks` — three positive match blocks (ThisBlockPass never cleared);
* `render_exact_false_nft_not_icmp` — nftables `NotICMPTypeAndCode` negates type and code separately.

What IS proved, for all inputs (`…_partial` = the pieces of `RenderExact` that hold):
* `filterRule_preserves_partial` — `FilterRuleToIPVersion`/`filterNets` never change the meaning;
* `splitPortList_flatten_partial` — the 15-slot split keeps every port range, in order;
* `render_exact_partial` — `CombineMatchAndActionsForProtoRule`: the rendered action rules take
  exactly the rule's action when the match clauses hold and otherwise fall through with the
  mark untouched.
Not proved in Lean (covered by the text-exact correspondence + evaluation oracle only): that the
clause list of `CalculateRuleMatch` is equivalent to the reference match, and the mark-bit
invariants of one or two positive blocks plus negated blocks.
-/
namespace CalicoVerif.C08
open CalicoVerif.Netfilter CalicoVerif.Policy

/-- The property, for one configuration / rule / packet / entry mark. -/
def RenderExact (cfg : Cfg) (ctx : Ctx) (env : Env) (v6 : Bool) (r : Policy.Rule) (pkt : Packet)
    (mark : Mark) : Prop :=
  ∀ rs act, protoRuleToRules cfg ctx (setNameFor v6) v6 r = some rs → parseAction r.action = some act →
    ∃ mark', mark' &&& (cfg.markAccept ||| cfg.markPass ||| cfg.markDrop) = 0 ∧
      runRules env (fun t _ => .missing t) pkt rs mark =
        if ruleMatches env (setNameFor v6) r pkt then actionOutcome cfg env (fun t _ => .missing t) pkt [] mark' act
        else .returned mark'

/-! ### the statement is false: three positive blocks -/

def ports16 (base : Nat) : List PortRange := (List.range 16).map fun i => ⟨base + i, base + i⟩

/-- allow tcp, 2 source CIDRs, 16 source ports, 16 destination ports: three positive blocks -/
def threeBlockRule : Policy.Rule :=
  { action := "allow", protocol := some (.name "tcp"),
    srcNet := ["10.0.0.0/8", "192.168.0.0/16"], srcPorts := ports16 1, dstPorts := ports16 101 }

def wEnv : Env :=
  { netContains := fun c a => (c == "10.0.0.0/8" && a / 16777216 == 10) ||
      (c == "192.168.0.0/16" && a / 65536 == 49320) || c == "0.0.0.0/0" || c == "::/0"
    protoNum := fun s => if s == "tcp" then some 6 else if s == "icmp" then some 1 else none }

/-- tcp 172.16.0.0:1 → 10.1.2.3:101 — the source is in neither CIDR, the ports are listed -/
def wPkt : Packet := { proto := 6, src := 2886729728, dst := 167837955, sport := 1, dport := 101 }

/-- The rule does not match the packet, yet the rendered rules set the accept mark and return:
the 2nd block (destination ports) leaves ThisBlockPass (0x400) set, so the failing 3rd block
(source CIDRs) does not clear AllBlocksPass (0x200). -/
theorem render_exact_false_three_blocks :
    ruleMatches wEnv (setNameFor false) threeBlockRule wPkt = false ∧
    (protoRuleToRules {} {} (setNameFor false) false threeBlockRule).map
      (fun rs => runRules wEnv (fun t _ => .missing t) wPkt rs 0) = some (.returned 0x680#32) := by
  constructor <;> decide

theorem not_renderExact_three_blocks : ¬ RenderExact {} {} wEnv false threeBlockRule wPkt 0 := by
  intro h
  have h1 := render_exact_false_three_blocks
  cases hrs : protoRuleToRules {} {} (setNameFor false) false threeBlockRule with
  | none => rw [hrs] at h1; exact absurd h1.2 (by simp)
  | some rs =>
    obtain ⟨m', hm', he⟩ := h rs .allow hrs (by decide)
    rw [hrs] at h1
    have h2 : runRules wEnv (fun t _ => .missing t) wPkt rs 0 = .returned 0x680#32 := by simpa using h1.2
    rw [h2, h1.1] at he
    simp only [Bool.false_eq_true, if_false, Result.returned.injEq] at he
    subst he
    revert hm'; decide

/-! ### the statement is false: nftables negated ICMP type+code -/

def notIcmpRule : Policy.Rule := { action := "deny", protocol := some (.name "icmp"), notIcmp := .typeCode 8 0 }

/-- ICMP type 8 code 1: it is not (type 8, code 0), so the rule matches -/
def icmpPkt : Packet := { proto := 1, src := 1, dst := 2, icmpType := 8, icmpCode := 1 }

/-- On nftables the rendered rule `icmp type != 8 code != 0` does not fire for (8,1) although the
rule matches it; on iptables (`! --icmp-type 8/0`) it does. -/
theorem render_exact_false_nft_not_icmp :
    ruleMatches { wEnv with dp := .nft } (setNameFor false) notIcmpRule icmpPkt = true ∧
    (protoRuleToRules {} {} (setNameFor false) false notIcmpRule).map
      (fun rs => runRules { wEnv with dp := .nft } (fun t _ => .missing t) icmpPkt rs 0) = some (.returned 0#32) ∧
    (protoRuleToRules {} {} (setNameFor false) false notIcmpRule).map
      (fun rs => runRules { wEnv with dp := .ipt } (fun t _ => .missing t) icmpPkt rs 0) =
        some (.verdict .drop 0x800#32) := by
  refine ⟨?_, ?_, ?_⟩ <;> decide

/-! ### what holds for all inputs -/

/-- `FilterRuleToIPVersion` (with `filterNets`) preserves the meaning of EVERY rule for packets of
the IP version it is rendered for: the rule is dropped only if it cannot match such a packet,
and otherwise the filtered copy matches exactly the same packets. -/
theorem filterRule_preserves_partial (env : Env) (henv : EnvCatchAll env) (setName : String → String)
    (r : Policy.Rule) (pkt : Packet) :
    ruleMatches env setName r pkt =
      match filterRuleToIPVersion pkt.v6 r with
      | none => false
      | some rc => ruleMatches env setName rc pkt :=
  filterRule_preserves env henv setName r pkt

/-- `SplitPortList` loses and reorders nothing: the concatenation of the splits is the input, so
"port in some split" is "port in the list" (for lists of any length). -/
theorem splitPortList_flatten_partial (ports : List PortRange) (p : Nat) :
    (splitPortList ports).flatten = ports ∧
    (splitPortList ports).any (fun s => inRanges s p) = inRanges ports p := by
  refine ⟨splitPortList_flatten ports, ?_⟩
  rw [← inRanges_flatten, splitPortList_flatten]

/-- `CombineMatchAndActionsForProtoRule` is exact for every action, match-clause list, entry mark
with the verdict bits clear, flow logs on or off, tracked or untracked, either deny action, and any
rules that follow: matching ⇒ allow/pass set their bit and RETURN, deny sets its bit and
DROPs/REJECTs, log falls through; not matching ⇒ fall through with the mark untouched. -/
theorem render_exact_partial (cfg : Cfg) (ctx : Ctx) (env : Env) (call : String → Mark → Result)
    (pkt : Packet) (action : String) (act : RuleAction) (m : List Clause) (rs rest : List Netfilter.Rule)
    (mark : Mark)
    (hact : parseAction action = some act)
    (hrs : combineMatchAndActions cfg ctx action m = some rs)
    (hA : cfg.markAccept ≠ 0) (hP : cfg.markPass ≠ 0) (hD : cfg.markDrop ≠ 0)
    (hmA : mark &&& cfg.markAccept = 0) (hmP : mark &&& cfg.markPass = 0) (hmD : mark &&& cfg.markDrop = 0) :
    runRules env call pkt (rs ++ rest) mark =
      if clausesMatch env pkt mark m then actionOutcome cfg env call pkt rest mark act
      else runRules env call pkt rest mark :=
  combine_exact cfg ctx env call pkt action act m rs rest mark hact hrs hA hP hD hmA hmP hmD

/-! ### non-vacuity -/

example : EnvCatchAll wEnv := by intro a; constructor <;> rfl
example : (combineMatchAndActions {} {} "deny" [.proto false (.name "tcp")]).isSome = true := by decide
example : (0 : Mark) &&& ({} : Cfg).markAccept = 0 := by decide
/-- a rule that IS rendered exactly: the 10.1.2.3 source matches all three blocks -/
example :
    ruleMatches wEnv (setNameFor false) threeBlockRule { wPkt with src := 167837955 } = true ∧
    (protoRuleToRules {} {} (setNameFor false) false threeBlockRule).map
      (fun rs => runRules wEnv (fun t _ => .missing t) { wPkt with src := 167837955 } rs 0) =
        some (.returned 0x680#32) := by
  constructor <;> decide

end CalicoVerif.C08
