import CalicoVerif.Model.C08
/-!
C08 — Rendered iptables/nftables rules match exactly what the policy rule says.
-/
namespace CalicoVerif.C08
open CalicoVerif.Netfilter CalicoVerif.Policy

/-- placeholder while the pipeline is brought up -/
theorem splitPortList_nil : splitPortList [] = [] := by
  simp [splitPortList]

end CalicoVerif.C08
