import CalicoVerif.Proofs.C08
/-!
C08 — Rendered iptables/nftables rules match exactly what the policy rule says.

Full-strength statement: `RenderExact` below, for every rule, packet and configuration.
It is FALSE of the current code in two ways (both reproduced on the real renderer by the
harness oracle, see known_findings.txt):
* `render_exact_false_three_blocks` — three positive match blocks (ThisBlockPass never cleared);
* `render_exact_false_nft_not_icmp` — nftables `NotICMPTypeAndCode` negates type and code separately.

What IS proved, for all inputs (`…_partial` = the part of `RenderExact` that holds):
* `render_exact_partial` — END TO END, from `Policy.Rule` to the outcome: for every rule that needs at
  most TWO positive match blocks (any number of negated blocks, any lists, any action), either
  dataplane except nftables with a negated ICMP type+code, every packet of the rendered IP version,
  every entry mark with the verdict bits clear and every continuation: the rendered rules take the
  rule's action iff `ruleMatches`, and otherwise fall through with only the two scratch bits changed.
  (Exactly the complement of the two findings above.)
* pieces, each for all inputs: `filterRule_preserves_partial` (`FilterRuleToIPVersion`/`filterNets`
  keep the meaning), `splitPortList_flatten_partial` (the 15-slot split keeps every port range),
  `calculateRuleMatch_exact_partial` (the clause list of `CalculateRuleMatch` is the reference match),
  `combine_exact_partial` (`CombineMatchAndActionsForProtoRule`).
-/
namespace CalicoVerif.C08
open CalicoVerif.Netfilter CalicoVerif.Policy

/-- The property, for one configuration / rule / packet / entry mark. -/
def RenderExact (cfg : Cfg) (ctx : Ctx) (env : Env) (v6 : Bool) (r : Policy.Rule) (pkt : Packet)
    (mark : Mark) : Prop :=
  ∀ rs act, protoRuleToRules cfg ctx (setNameFor v6) v6 r = some rs → parseAction r.action = some act →
    ∃ mark', mark' &&& (cfg.markAccept ||| cfg.markPass ||| cfg.markDrop) = 0 ∧
      runRules env (fun t _ => .missing t) pkt rs mark =
        if ruleMatches env (setNameFor v6) r pkt then actionOutcome cfg env (fun t _ => .missing t) pkt [] mark' act
        else .returned mark'

/-! ### the statement is false: three positive blocks -/

def ports16 (base : Nat) : List PortRange := (List.range 16).map fun i => ⟨base + i, base + i⟩

/-- allow tcp, 2 source CIDRs, 16 source ports, 16 destination ports: three positive blocks -/
def threeBlockRule : Policy.Rule :=
  { action := "allow", protocol := some (.name "tcp"),
    srcNet := ["10.0.0.0/8", "192.168.0.0/16"], srcPorts := ports16 1, dstPorts := ports16 101 }

def wEnv : Env :=
  { netContains := fun c a => (c == "10.0.0.0/8" && a / 16777216 == 10) ||
      (c == "192.168.0.0/16" && a / 65536 == 49320) || c == "0.0.0.0/0" || c == "::/0"
    protoNum := fun s => if s == "tcp" then some 6 else if s == "icmp" then some 1 else none }

/-- tcp 172.16.0.0:1 → 10.1.2.3:101 — the source is in neither CIDR, the ports are listed -/
def wPkt : Packet := { proto := 6, src := 2886729728, dst := 167837955, sport := 1, dport := 101 }

/-- The rule does not match the packet, yet the rendered rules set the accept mark and return:
the 2nd block (destination ports) leaves ThisBlockPass (0x400) set, so the failing 3rd block
(source CIDRs) does not clear AllBlocksPass (0x200). -/
theorem render_exact_false_three_blocks :
    ruleMatches wEnv (setNameFor false) threeBlockRule wPkt = false ∧
    (protoRuleToRules {} {} (setNameFor false) false threeBlockRule).map
      (fun rs => runRules wEnv (fun t _ => .missing t) wPkt rs 0) = some (.returned 0x680#32) := by
  constructor <;> decide

theorem not_renderExact_three_blocks : ¬ RenderExact {} {} wEnv false threeBlockRule wPkt 0 := by
  intro h
  have h1 := render_exact_false_three_blocks
  cases hrs : protoRuleToRules {} {} (setNameFor false) false threeBlockRule with
  | none => rw [hrs] at h1; exact absurd h1.2 (by simp)
  | some rs =>
    obtain ⟨m', hm', he⟩ := h rs .allow hrs (by decide)
    rw [hrs] at h1
    have h2 : runRules wEnv (fun t _ => .missing t) wPkt rs 0 = .returned 0x680#32 := by simpa using h1.2
    rw [h2, h1.1] at he
    simp only [Bool.false_eq_true, if_false, Result.returned.injEq] at he
    subst he
    revert hm'; decide

/-! ### the statement is false: nftables negated ICMP type+code -/

def notIcmpRule : Policy.Rule := { action := "deny", protocol := some (.name "icmp"), notIcmp := .typeCode 8 0 }

/-- ICMP type 8 code 1: it is not (type 8, code 0), so the rule matches -/
def icmpPkt : Packet := { proto := 1, src := 1, dst := 2, icmpType := 8, icmpCode := 1 }

/-- On nftables the rendered rule `icmp type != 8 code != 0` does not fire for (8,1) although the
rule matches it; on iptables (`! --icmp-type 8/0`) it does. -/
theorem render_exact_false_nft_not_icmp :
    ruleMatches { wEnv with dp := .nft } (setNameFor false) notIcmpRule icmpPkt = true ∧
    (protoRuleToRules {} {} (setNameFor false) false notIcmpRule).map
      (fun rs => runRules { wEnv with dp := .nft } (fun t _ => .missing t) icmpPkt rs 0) = some (.returned 0#32) ∧
    (protoRuleToRules {} {} (setNameFor false) false notIcmpRule).map
      (fun rs => runRules { wEnv with dp := .ipt } (fun t _ => .missing t) icmpPkt rs 0) =
        some (.verdict .drop 0x800#32) := by
  refine ⟨?_, ?_, ?_⟩ <;> decide

/-! ### what holds for all inputs -/

/-- `FilterRuleToIPVersion` (with `filterNets`) preserves the meaning of EVERY rule for packets of
the IP version it is rendered for: the rule is dropped only if it cannot match such a packet,
and otherwise the filtered copy matches exactly the same packets. -/
theorem filterRule_preserves_partial (env : Env) (henv : EnvCatchAll env) (setName : String → String)
    (r : Policy.Rule) (pkt : Packet) :
    ruleMatches env setName r pkt =
      match filterRuleToIPVersion pkt.v6 r with
      | none => false
      | some rc => ruleMatches env setName rc pkt :=
  filterRule_preserves env henv setName r pkt

/-- `SplitPortList` loses and reorders nothing: the concatenation of the splits is the input, so
"port in some split" is "port in the list" (for lists of any length). -/
theorem splitPortList_flatten_partial (ports : List PortRange) (p : Nat) :
    (splitPortList ports).flatten = ports ∧
    (splitPortList ports).any (fun s => inRanges s p) = inRanges ports p := by
  refine ⟨splitPortList_flatten ports, ?_⟩
  rw [← inRanges_flatten, splitPortList_flatten]

/-- `CombineMatchAndActionsForProtoRule` is exact for every action, match-clause list, entry mark
with the verdict bits clear, flow logs on or off, tracked or untracked, either deny action, and any
rules that follow. -/
theorem combine_exact_partial (cfg : Cfg) (ctx : Ctx) (env : Env) (call : String → Mark → Result)
    (pkt : Packet) (action : String) (act : RuleAction) (m : List Clause) (rs rest : List Netfilter.Rule)
    (mark : Mark)
    (hact : parseAction action = some act)
    (hrs : combineMatchAndActions cfg ctx action m = some rs)
    (hA : cfg.markAccept ≠ 0) (hP : cfg.markPass ≠ 0) (hD : cfg.markDrop ≠ 0)
    (hmA : mark &&& cfg.markAccept = 0) (hmP : mark &&& cfg.markPass = 0) (hmD : mark &&& cfg.markDrop = 0) :
    runRules env call pkt (rs ++ rest) mark =
      if clausesMatch env pkt mark m then actionOutcome cfg env call pkt rest mark act
      else runRules env call pkt rest mark :=
  combine_exact cfg ctx env call pkt action act m rs rest mark hact hrs hA hP hD (fun _ => hmA) (fun _ => hmP)
    (fun _ => hmD)

/-- `CalculateRuleMatch`: for a rule it can render in one netfilter rule (what is left after the
blocks), the clause list matches exactly when the CIDR + remaining criteria of the reference
semantics hold (iptables; nftables unless the rule has a negated ICMP type+code). -/
theorem calculateRuleMatch_exact_partial (env : Env) (pkt : Packet) (mark : Mark) (setName : String → String)
    (r : Policy.Rule) (hs : Simple pkt.v6 r) (hi : env.dp = .ipt ∨ ∀ t c, r.notIcmp ≠ .typeCode t c) :
    ∃ m, calculateRuleMatch setName pkt.v6 r = some m ∧
      clausesMatch env pkt mark m = (netsMatch env r pkt && restMatch env setName r pkt) :=
  calc_exact env pkt mark setName r hs hi

/-- **End-to-end exactness for rules with at most two positive match blocks.**
`numPositive` counts the positive blocks of the IP-version-filtered rule (source ports, destination
ports, source CIDRs, destination CIDRs — each only when it overflows one netfilter match).
Under `MarksOK` (non-zero, disjoint mark bits) and for any entry mark with the verdict bits clear,
the rendered rules followed by ANY `rest` behave as: if the rule matches the packet, its action
(`actionOutcome`: allow/pass set their bit and RETURN, deny sets its bit and DROPs/REJECTs, log
continues); otherwise `rest` runs; in both cases on a mark that differs from the entry mark only in
the two scratch bits.

NOTE on the entry-mark hypotheses `hmA`/`hmP`/`hmD` (verdict bits clear): they are a real
restriction, not a formality.  Policy chains are always entered with the accept and pass bits
clear, but PROFILE chains are reachable with the pass bit still set by the last tier — this is
C09's finding `profile_pass_stale_false` (Props/C09.lean; known finding `profile-pass-stale-mark`):
a pass rule in a profile then returns without matching.  The C09 composition therefore uses the
per-action form (`render_exact_le2` / `RuleExact`: only the bit of the rule's own action must be
clear) and excludes pass rules in profiles. -/
theorem render_exact_partial (cfg : Cfg) (ctx : Ctx) (env : Env) (call : String → Mark → Result) (pkt : Packet)
    (setName : String → String) (r : Policy.Rule) (rest : List Netfilter.Rule) (mark : Mark) (act : RuleAction)
    (mo : MarksOK cfg) (henv : EnvCatchAll env)
    (hi : env.dp = .ipt ∨ ∀ t c, r.notIcmp ≠ .typeCode t c)
    (hpos : ∀ rc, filterRuleToIPVersion pkt.v6 r = some rc → numPositive rc ≤ 2)
    (hact : parseAction r.action = some act)
    (hmA : mark &&& cfg.markAccept = 0) (hmP : mark &&& cfg.markPass = 0) (hmD : mark &&& cfg.markDrop = 0) :
    ∃ rs mark', protoRuleToRules cfg ctx setName pkt.v6 r = some rs ∧
      baseOf cfg.markScratch0 cfg.markScratch1 mark' = baseOf cfg.markScratch0 cfg.markScratch1 mark ∧
      runRules env call pkt (rs ++ rest) mark =
        if ruleMatches env setName r pkt then actionOutcome cfg env call pkt rest mark' act
        else runRules env call pkt rest mark' :=
  render_exact_le2 cfg ctx env call pkt setName r rest mark act mo henv hi hpos hact (fun _ => hmA) (fun _ => hmP)
    (fun _ => hmD)

/-! ### non-vacuity -/

example : EnvCatchAll wEnv := by intro a; constructor <;> rfl
example : MarksOK {} := by constructor <;> decide
/-- the hypothesis `numPositive ≤ 2` is satisfiable by a rule that does use blocks (two of them),
and the three-block witness violates it -/
example : numPositive { threeBlockRule with srcNet := ["10.0.0.0/8"] } = 2 := by decide
example : numPositive threeBlockRule = 3 := by decide
example : (combineMatchAndActions {} {} "deny" [.proto false (.name "tcp")]).isSome = true := by decide
example : (0 : Mark) &&& ({} : Cfg).markAccept = 0 := by decide
/-- a rule that IS rendered exactly: the 10.1.2.3 source matches all three blocks -/
example :
    ruleMatches wEnv (setNameFor false) threeBlockRule { wPkt with src := 167837955 } = true ∧
    (protoRuleToRules {} {} (setNameFor false) false threeBlockRule).map
      (fun rs => runRules wEnv (fun t _ => .missing t) { wPkt with src := 167837955 } rs 0) =
        some (.returned 0x680#32) := by
  constructor <;> decide

end CalicoVerif.C08
