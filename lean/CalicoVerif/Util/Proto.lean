/-
Line-protocol helpers shared by every model driver (core Lean only, so the
drivers link as `lean_exe`).

A driver reads one operation per line on stdin and prints exactly one
canonical output line per input line.  Lines starting with `#` are echoed
unchanged (they delimit cases in the harness stream).
-/
namespace CalicoVerif.Proto

/-- Split a line into whitespace separated words. -/
def words (line : String) : List String :=
  (line.splitOn " ").filter (fun w => !w.isEmpty)

def stripNL (s : String) : String :=
  let s := if s.endsWith "\n" then (s.dropEnd 1).toString else s
  if s.endsWith "\r" then (s.dropEnd 1).toString else s

/-- Generic read-eval-print loop over stdin with an explicit state. -/
partial def loop {σ : Type} (h : IO.FS.Stream) (out : IO.FS.Stream)
    (step : σ → String → σ × String) (s : σ) : IO Unit := do
  let line ← h.getLine
  if line.isEmpty then
    out.flush
    return ()
  let line := stripNL line
  if line.startsWith "#" then
    out.putStrLn line
    loop h out step s
  else
    let (s', o) := step s line
    out.putStrLn o
    loop h out step s'

def run {σ : Type} (step : σ → String → σ × String) (init : σ) : IO Unit := do
  let stdin ← IO.getStdin
  let stdout ← IO.getStdout
  loop stdin stdout step init

def joinWith (sep : String) (xs : List String) : String :=
  sep.intercalate xs

def showOptNat : Option Nat → String
  | some n => toString n
  | none => "err"

def showBool (b : Bool) : String := if b then "1" else "0"

end CalicoVerif.Proto
