import CalicoVerif.Model.C13
/-!
C13 — comparison of the Go-side table (what Felix's Go code uses) with the C layout.
Core Lean only (used by the generated file and by the driver).
-/
namespace CalicoVerif.C13

/-- One fact about the Go code: it touches `size` bytes at `off` for C member `path` of `st`.
`mode`: `exact` (offset and size must equal the C member's), `within` (same start, not longer than
the C member: a small value kept in a wider little-endian scalar), `inside` (a chunk lying inside a
wider C member), `offset` (offset only: constants the policy-program builder defines but never uses), `bit` (bit-field: `off`/`size` in bits), and for `path = ""`
(the whole structure) `exact` / `atmost` (map value large enough) / `mirror-size` (reported, see
Props). -/
structure GoRow where
  st : String
  path : String
  off : Nat
  size : Nat
  mode : String
  src : String
deriving Repr

abbrev Structs := List (String × Rec × List (String × List (Rec × String)))

/-- Bit offset and bit size of a member path of a shared structure. -/
def findPath (ss : Structs) (st path : String) : Option (Nat × Nat) :=
  (ss.lookup st).bind (fun e => (e.2.lookup path).bind pathSlot)

def sizeOfStruct (ss : Structs) (st : String) : Option Nat := (ss.lookup st).map (·.1.size)

def rowOk (ss : Structs) (r : GoRow) : Bool :=
  if r.path == "" then
    match sizeOfStruct ss r.st with
    | none => false
    | some sz =>
      if r.mode == "exact" then sz == r.size
      else if r.mode == "atmost" then decide (sz ≤ r.size)
      else r.mode == "mirror-size"
  else
    match findPath ss r.st r.path with
    | none => false
    | some (o, n) =>
      if r.mode == "exact" then o == 8 * r.off && n == 8 * r.size
      else if r.mode == "bit" then o == r.off && n == r.size
      else if r.mode == "within" then o == 8 * r.off && decide (8 * r.size ≤ n)
      else if r.mode == "inside" then decide (o ≤ 8 * r.off) && decide (8 * r.off + 8 * r.size ≤ o + n)
      else if r.mode == "offset" then o == 8 * r.off
      else false

end CalicoVerif.C13
