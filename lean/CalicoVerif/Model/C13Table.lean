import CalicoVerif.Model.C13
/-!
C13 — comparison of the Go-side table (what Felix's Go code uses) with the C layout.
Core Lean only (used by the generated file and by the driver).
-/
namespace CalicoVerif.C13

/-- One fact about the Go code: it touches `size` bytes at `off` for C member `path` of `st`.
`mode`: `exact` (offset and size must equal the C member's), `within` (same start, not longer than
the C member: a small value kept in a wider little-endian scalar), `inside` (a chunk lying inside a
wider C member), `offset` (offset only: constants the policy-program builder defines but never uses), `bit` (bit-field: `off`/`size` in bits), and for `path = ""`
(the whole structure) `exact` / `atmost` (map value large enough) / `mirror-size` (reported, see
Props). -/
structure GoRow where
  st : String
  path : String
  off : Nat
  size : Nat
  mode : String
  src : String
deriving Repr

abbrev Structs := List (String × Rec × List (String × List (Rec × String)))

/-- Bit offset and bit size of a member path of a shared structure. -/
def findPath (ss : Structs) (st path : String) : Option (Nat × Nat) :=
  (ss.lookup st).bind (fun e => (e.2.lookup path).bind pathSlot)

def sizeOfStruct (ss : Structs) (st : String) : Option Nat := (ss.lookup st).map (·.1.size)

def rowOk (ss : Structs) (r : GoRow) : Bool :=
  if r.path == "" then
    match sizeOfStruct ss r.st with
    | none => false
    | some sz =>
      if r.mode == "exact" then sz == r.size
      else if r.mode == "atmost" then decide (sz ≤ r.size)
      else r.mode == "mirror-size"
  else
    match findPath ss r.st r.path with
    | none => false
    | some (o, n) =>
      if r.mode == "exact" then o == 8 * r.off && n == 8 * r.size
      else if r.mode == "bit" then o == r.off && n == r.size
      else if r.mode == "within" then o == 8 * r.off && decide (8 * r.size ≤ n)
      else if r.mode == "inside" then decide (o ≤ 8 * r.off) && decide (8 * r.off + 8 * r.size ≤ o + n)
      else if r.mode == "offset" then o == 8 * r.off
      else false

/-! ### The policy-program builder's accesses to `struct cali_tc_state` (decoded from real programs) -/

/-- An access relative to the state pointer, annotated by the builder with the member it means:
(member path, byte offset, bits).  It must lie inside that member. -/
def accessInside (ss : Structs) (a : String × Nat × Nat) : Bool :=
  match findPath ss "cali_tc_state" a.1 with
  | none => false
  | some (o, n) => decide (o ≤ 8 * a.2.1) && decide (8 * a.2.1 + a.2.2 ≤ o + n)

/-- What one single-match rule made the builder read: `kind` ∈ cidr | ipset | port | proto, `field` the
member the rule's leg denotes, `acc` the (byte offset, bits) loads in program order. -/
structure BuilderMatch where
  kind : String
  field : String
  pfx : Nat
  acc : List (Nat × Nat)
deriving Repr

def portFieldOf (ipField : String) : String :=
  if ipField == "ip_src" then "sport"
  else if ipField == "pre_nat_ip_dst" then "pre_nat_dport" else "post_nat_dport"

/-- What the match has to read, from the C layout: a CIDR of prefix `p` reads word `k` of the address
at `field + 4k` for `k < max 1 ⌈p/32⌉` (IPv4: the single word); an IP-set match reads the whole
address (one 32-bit load, or two 64-bit loads at `field`, `field + 8`), then the leg's port and
`ip_proto`; a port / protocol match reads exactly that member. -/
def expectedMatch (v6 : Bool) (ss : Structs) (m : BuilderMatch) : Option (List (Nat × Nat)) :=
  match findPath ss "cali_tc_state" m.field with
  | none => none
  | some (o, n) =>
    if m.kind == "cidr" then
      some ((List.range (if v6 then max 1 ((m.pfx + 31) / 32) else 1)).map (fun k => (o / 8 + 4 * k, 32)))
    else if m.kind == "ipset" then
      match findPath ss "cali_tc_state" (portFieldOf m.field), findPath ss "cali_tc_state" "ip_proto" with
      | some (po, _), some (pr, _) =>
        some ((if v6 then [(o / 8, 64), (o / 8 + 8, 64)] else [(o / 8, 32)]) ++ [(po / 8, 16), (pr / 8, 8)])
      | _, _ => none
    else some [(o / 8, n)]

def matchOk (v6 : Bool) (ss : Structs) (m : BuilderMatch) : Bool :=
  match expectedMatch v6 ss m with
  | none => false
  | some e =>
    if m.kind == "cidr" || m.kind == "ipset" then m.acc == e
    else !m.acc.isEmpty && m.acc.all (fun a => [a] == e)

end CalicoVerif.C13
