import CalicoVerif.Model.C11Ref
/-
C11 — label-level semantics of the builder's event list (before assembly):
`lrun` executes the events in order; a taken jump continues just after the
FIRST following definition of its label (`seek`) — exactly what the eager
fix-up in `Block.LabelNextInsn` resolves a forward jump to.  The recursion is
on the remaining event list (no fuel).  `Proofs/C11Asm` proves that running the
assembled instructions (`execL ∘ asmGo`) agrees with `lrun`; the compositional
verdict proof is done on `lrun`.  Core Lean only (the driver prints it too, as
an extra cross-check of the assembler model).
-/
namespace CalicoVerif.C11

/-- The events after the first definition of `l`. -/
def seek (l : Label) : List Ev → Option (List Ev)
  | [] => none
  | .label l' :: r => if l' = l then some r else seek l r
  | .ins _ :: r => seek l r
  | .jmp _ _ :: r => seek l r

theorem seek_length {l : Label} {evs r : List Ev} (h : seek l evs = some r) : r.length < evs.length := by
  induction evs with
  | nil => simp [seek] at h
  | cons e es ih =>
    cases e with
    | label l' =>
      simp only [seek] at h
      split at h
      · cases h; simp
      · have := ih h; simp only [List.length_cons]; omega
    | ins i => simp only [seek] at h; have := ih h; simp only [List.length_cons]; omega
    | jmp i l' => simp only [seek] at h; have := ih h; simp only [List.length_cons]; omega

/-- The instruction slot following the current one (needed by LoadImm64). -/
def nextIns : List Ev → Option Insn
  | .ins j :: _ => some j
  | _ => none

def Insn.isJumpOp (i : Insn) : Bool := i.op % 8 == 5 || i.op % 8 == 6

def lrun (env : Env) : List Ev → Mach → Outcome
  | [], _ => .fault
  | .label _ :: r, m => lrun env r m
  | .ins i :: r, m =>
    match step env i (nextIns r) m with
    | .next m' => lrun env r m'
    | .next2 m' => lrun env (r.drop 1) m'
    | .taken _ => .fault
    | .exit r0 m' => .exit r0 m'
    | .tail fd idx m' => .tail fd idx m'
    | .fault => .fault
  | .jmp i l :: r, m =>
    if !i.isJumpOp then .fault else
    match step env i none m with
    | .next m' => lrun env r m'
    | .taken m' =>
      match h : seek l r with
      | some r' => lrun env r' m'
      | none => .fault
    | _ => .fault
termination_by l => l.length
decreasing_by
  all_goals simp_wf
  all_goals (try simp only [List.length_drop])
  all_goals (try (have := seek_length h))
  all_goals omega

def Outcome.isFault : Outcome → Bool
  | .fault => true
  | _ => false

/-- Plain events of a builder event list (split markers dropped). -/
def flat : List BEv → List Ev
  | [] => []
  | .ev e :: r => e :: flat r
  | .maybeSplit _ :: r => flat r

end CalicoVerif.C11
