/-
C25 — model of libcalico-go/lib/backend/syncersv1/dedupebuffer/dedupe_buffer.go
(DedupeBuffer), the buffer between the Typha sync client and Felix's consumer.

Modelled state (Go field → model):
  pendingUpdates (container/list, mix of api.SyncStatus and updateWithKey) → `pending : List Item`
  keyToPendingUpdate (map key → list element)   → implicit: `isPending pending k`
                                                   (the Go code keeps the map and the list in step
                                                   in every method; the harness checks that on the
                                                   real object at every `dump`)
  liveResourceKeys (set)                        → `live : List Key` (duplicate free)
  liveKeysNotSeenSinceReconnect (set or nil)    → `notSeen : Option (List Key)`
  mostRecentStatusReceived                      → `mostRecent : Nat`
Not modelled: the mutex/condition variable (every method body runs under the
lock, so each op below is atomic; `dropLockAndSendBatch` only talks to the sink
and reads nothing of the buffer), `stopped`, `peakPendingUpdatesLen`/map
re-allocation, `resyncStart`, logging.

`for key := range liveKeysNotSeenSinceReconnect.All()` iterates a Go map, so the
order in which the deletions are synthesised is not determined by the code; the
model takes that order as an input (`order`) and every theorem quantifies over
it (`synthOrder` falls back to the stored order when the input is not a
permutation of the set).

Core Lean only (linked into the driver executable).
-/
namespace CalicoVerif.C25

abbrev Key := Nat

/-- api.SyncStatus values. -/
abbrev waitForDatastore : Nat := 0
abbrev resyncInProgress : Nat := 1
abbrev inSync : Nat := 2

/-- api.UpdateType values. -/
abbrev utUnknown : Nat := 0
abbrev utNew : Nat := 1
abbrev utUpdated : Nat := 2
abbrev utDeleted : Nat := 3

/-- api.Update: `val = none` is `Value == nil` (a deletion); `rev` stands for the
rest of the KVPair that the buffer passes through untouched. -/
structure Upd where
  key : Key
  val : Option Nat
  rev : Nat
  ut : Nat
deriving DecidableEq, Repr

/-- An element of `pendingUpdates`. -/
inductive Item where
  | st (s : Nat)
  | up (u : Upd)
deriving DecidableEq, Repr

def Item.hasKey (k : Key) : Item → Bool
  | .st _ => false
  | .up u => u.key == k

structure Buf where
  pending : List Item
  live : List Key
  notSeen : Option (List Key)
  mostRecent : Nat
deriving DecidableEq, Repr

/-- `New()`. -/
def Buf.new : Buf := { pending := [], live := [], notSeen := none, mostRecent := waitForDatastore }

/-- `_, ok := keyToPendingUpdate[k]`. -/
def isPending (p : List Item) (k : Key) : Bool := p.any (Item.hasKey k)

/-- `pendingUpdates.Remove(element)` for the element of key `k`. -/
def removeKey (p : List Item) (k : Key) : List Item := p.filter (fun i => !i.hasKey k)

/-- `element.Value = uwk` (swap in the most recent value, position kept). -/
def replaceKey (p : List Item) (u : Upd) : List Item :=
  p.map (fun i => if i.hasKey u.key then Item.up u else i)

/-- set.Add -/
def setAdd (l : List Key) (k : Key) : List Key := if l.contains k then l else l ++ [k]
/-- set.Discard -/
def setDiscard (l : List Key) (k : Key) : List Key := l.filter (fun x => x != k)

/-- The update-type recalculation at the top of `queueUpdate` (only when `u.Value != nil`). -/
def retype (live : List Key) (u : Upd) : Upd :=
  match u.val with
  | some _ => { u with ut := if live.contains u.key then utUpdated else utNew }
  | none => u

/-- `queueUpdate(key, u)`. -/
def queueUpdate (b : Buf) (u : Upd) : Buf :=
  let u := retype b.live u
  if isPending b.pending u.key then
    if u.val.isNone && !b.live.contains u.key then
      { b with pending := removeKey b.pending u.key }
    else
      { b with pending := replaceKey b.pending u }
  else
    { b with pending := b.pending ++ [Item.up u] }

/-- One iteration of the loop in `OnUpdates`. -/
def onUpdate (b : Buf) (u : Upd) : Buf :=
  queueUpdate { b with notSeen := b.notSeen.map (fun n => setDiscard n u.key) } u

/-- `OnUpdates(updates)`. -/
def onUpdates (b : Buf) (us : List Upd) : Buf := us.foldl onUpdate b

/-- `OnTyphaConnectionRestarted()`. -/
def onRestart (b : Buf) : Buf := { b with pending := [], notSeen := some b.live }

/-- The deletion that `onInSyncAfterReconnection` synthesises for a key. -/
def synthDel (k : Key) : Upd := { key := k, val := none, rev := 0, ut := utDeleted }

/-- The order in which the Go map iteration visits `n`: the input `order` when it
is a permutation of `n`, otherwise `n` itself. -/
def synthOrder (n order : List Key) : List Key := if order.isPerm n then order else n

/-- `onInSyncAfterReconnection()` given the iteration order. -/
def onInSyncAfterReconnection (b : Buf) (keys : List Key) : Buf :=
  { keys.foldl (fun b k => queueUpdate b (synthDel k)) b with notSeen := none }

/-- The tail of `OnStatusUpdated` after the resync handling. -/
def pushStatus (b : Buf) (s : Nat) : Buf :=
  if b.mostRecent == s then b
  else
    let b := { b with mostRecent := s }
    match b.pending.getLast? with
    | some (Item.st _) => { b with pending := b.pending.dropLast ++ [Item.st s] }
    | _ => { b with pending := b.pending ++ [Item.st s] }

/-- `OnStatusUpdated(status)`; `order` resolves the map-iteration order. -/
def onStatus (b : Buf) (s : Nat) (order : List Key) : Buf :=
  let b := if s == inSync then
      match b.notSeen with
      | some n => onInSyncAfterReconnection b (synthOrder n order)
      | none => b
    else b
  pushStatus b s

/-- The `liveResourceKeys` update `pullNextBatch` makes for one pulled element. -/
def pullLive (live : List Key) : Item → List Key
  | .st _ => live
  | .up u => match u.val with
    | none => setDiscard live u.key
    | some _ => setAdd live u.key

/-- `pullNextBatch(buf, batchSize)`: new buffer state and the batch. -/
def pullNextBatch (b : Buf) (batchSize : Nat) : Buf × List Item :=
  let batch := b.pending.take batchSize
  ({ b with pending := b.pending.drop batchSize, live := batch.foldl pullLive b.live }, batch)

/-- `const batchSize = 100` in `sendNextBatchToSinkLockHeld`. -/
abbrev batchSize : Nat := 100

/-- `sendNextBatchToSinkLockHeld` run to completion with nothing interleaved:
the concatenation of the batches (fuel = queue length, each batch removes ≥ 1). -/
def drain (b : Buf) : Nat → Buf × List (List Item)
  | 0 => (b, [])
  | fuel + 1 =>
    if b.pending.isEmpty then (b, [])
    else
      let (b', batch) := pullNextBatch b batchSize
      let (b'', rest) := drain b' fuel
      (b'', batch :: rest)

end CalicoVerif.C25
