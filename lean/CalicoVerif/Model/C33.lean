/-
C33 — model of felix/bpf/consistenthash/consistenthash.go (ConsistentHash: New /
AddBackend / Generate / permutation / offsetAndSKip / hashFromString) and of
libcalico-go/lib/consistenthash/primes.go (NextPrimeUint16), used by
felix/config/config_params.go BPFLUTSizeMaglev.

Conventions
* A backend name (Go `string`, `kep.String()`) is the list of its bytes
  (`List Nat`, every element < 256).  `slices.Sort` on Go strings is byte-wise
  lexicographic order = `bytesLe`.
* Go `int` is 64 bit; every value here is far below 2^63 (`j*skip < 2^32`,
  hash values < 2^32), so `Nat` arithmetic is exact.
* A Go run-time panic (integer divide by zero in `offsetAndSKip` for m < 2,
  index out of range in `Generate`, the explicit `Panic` in NextPrimeUint16) is
  modelled as `none`.
* The two `hash.Hash` objects are PARAMETERS of the model (`Hashes`): a function
  from the bytes written after `Reset` to the bytes returned by `Sum(nil)`.  The
  driver instantiates them with FNV-1/32 (`fnv.New32()`, what
  felix/bpf/proxy/syncer.go newConsistentHash passes).
Core Lean only (linked into the driver executable).
-/
namespace CalicoVerif.C33

/-! ## byte order of `binary.Read(reader, <order>, &result)` with `result uint32` -/

/-- Byte order of the CPU the code runs on. -/
inductive Endian where
  | little | big
deriving Repr, DecidableEq

/-- The `binary.ByteOrder` value named in the source of `hashFromString`. -/
inductive SrcOrder where
  | littleEndian | bigEndian | nativeEndian
deriving Repr, DecidableEq

/-- What `binary.<SrcOrder>` means on a CPU of byte order `cpu`
(encoding/binary: NativeEndian is LittleEndian or BigEndian by build target). -/
def SrcOrder.on (s : SrcOrder) (cpu : Endian) : Endian :=
  match s with
  | .littleEndian => .little
  | .bigEndian => .big
  | .nativeEndian => cpu

/-- `binary.Read` of a `uint32` from the first four bytes; fewer than four bytes
is `io.ErrUnexpectedEOF`/`io.EOF` → `none` (hashFromString returns the error). -/
def decodeU32 (e : Endian) : List Nat → Option Nat
  | b0 :: b1 :: b2 :: b3 :: _ =>
    match e with
    | .little => some (b0 + 256 * b1 + 65536 * b2 + 16777216 * b3)
    | .big => some (b3 + 256 * b2 + 65536 * b1 + 16777216 * b0)
  | _ => none

/-! ## hashes -/

/-- A `hash.Hash` as the model sees it: bytes written since `Reset` ↦ `Sum(nil)`. -/
abbrev HashFn := List Nat → List Nat

structure Hashes where
  h1 : HashFn
  h2 : HashFn

/-- FNV-1 32-bit (`hash/fnv` `New32`: multiply by the prime, then xor the byte). -/
def fnv1 (bytes : List Nat) : Nat :=
  bytes.foldl (fun h b => ((h * 16777619) % 4294967296) ^^^ b) 2166136261

/-- `fnv.New32().Sum(nil)`: the 32-bit state appended big-endian. -/
def fnvSum (bytes : List Nat) : List Nat :=
  let h := fnv1 bytes
  [h / 16777216 % 256, h / 65536 % 256, h / 256 % 256, h % 256]

/-- FNV-1a 32-bit (`fnv.New32a`: xor the byte, then multiply). -/
def fnv1a (bytes : List Nat) : Nat :=
  bytes.foldl (fun h b => ((h ^^^ b) * 16777619) % 4294967296) 2166136261

def fnvaSum (bytes : List Nat) : List Nat :=
  let h := fnv1a bytes
  [h / 16777216 % 256, h / 65536 % 256, h / 256 % 256, h % 256]

/-- A (test) hash whose `Sum` is only two bytes long: `binary.Read` fails. -/
def shortSum (bytes : List Nat) : List Nat := (fnvSum bytes).take 2

def fnvHashes : Hashes := { h1 := fnvSum, h2 := fnvSum }

/-- `hashFromString(s, h, seed)`: `h.Reset(); h.Write(seed); h.Write(s); binary.Read(Sum, order)`. -/
def hashFromString (e : Endian) (h : HashFn) (seed : List Nat) (s : List Nat) : Option Nat :=
  decodeU32 e (h (seed ++ s))

/-- Outcome of a Go call that can return an error or panic. -/
inductive Res (α : Type) where
  | ok (a : α)
  | err
  | panic
deriving Repr, DecidableEq

/-- `offsetAndSKip`: `(offset % m, skip % (m-1) + 1)`; seeds `{0}` and `{0xa}`.
A hashing error is returned before the arithmetic; then `m = 0` (`offset % 0`)
and `m = 1` (`skip % 0`) are integer-divide-by-zero panics. -/
def offsetAndSkip (e : Endian) (hs : Hashes) (m : Nat) (s : List Nat) : Res (Nat × Nat) :=
  match hashFromString e hs.h1 [0] s with
  | none => .err
  | some o =>
    match hashFromString e hs.h2 [10] s with
    | none => .err
    | some k => if m < 2 then .panic else .ok (o % m, k % (m - 1) + 1)

/-- The loop of `permutation`: `permutation[j] = (offset + j*skip) % m`, j = 0..m-1. -/
def permOf (m offset skip : Nat) : List Nat :=
  (List.range m).map (fun j => (offset + j * skip) % m)

def permutation (e : Endian) (hs : Hashes) (m : Nat) (s : List Nat) : Res (List Nat) :=
  match offsetAndSkip e hs m s with
  | .ok os => .ok (permOf m os.1 os.2)
  | .err => .err
  | .panic => .panic

/-! ## AddBackend / sort -/

/-- Byte-wise lexicographic `≤` on Go strings. -/
def bytesLe : List Nat → List Nat → Bool
  | [], _ => true
  | _ :: _, [] => false
  | a :: as, b :: bs => if a < b then true else if b < a then false else bytesLe as bs

/-- `AddBackend` called for each arriving name in turn.  `acc` is
`ch.backendNames` (arrival order, first occurrences).  A name already present
is ignored; a name whose permutation cannot be computed (hash error) is logged
and NOT added; a panic propagates. -/
def addBackends (perm : List Nat → Res (List Nat)) :
    List (List Nat) → List (List Nat) → Option (List (List Nat))
  | acc, [] => some acc
  | acc, n :: ns =>
    if acc.contains n then addBackends perm acc ns
    else match perm n with
      | .ok _ => addBackends perm (acc ++ [n]) ns
      | .err => addBackends perm acc ns
      | .panic => none

/-- `slices.Sort(ch.backendNames)`. -/
def sortNames (names : List (List Nat)) : List (List Nat) :=
  names.mergeSort bytesLe

/-! ## Generate -/

/-- State of the fill loop: `next[i]` per backend, `lut[slot]` = index of the
backend (in sorted order) that owns the slot, `none` = Go `nil`. -/
structure GenState where
  next : List Nat
  lut : List (Option Nat)
deriving Repr, DecidableEq

/-- The inner loop `for lut[choice] != nil { next[i]++; choice = prefs[next[i]] }`
run over the still unread preferences `prefs[k:]`: returns the first preference
whose slot is free together with its index.  Running off the end of `prefs`
(Go: index out of range) or off the table is `none`. -/
def scan (lut : List (Option Nat)) : List Nat → Nat → Option (Nat × Nat)
  | [], _ => none
  | c :: cs, k =>
    match lut[c]? with
    | some none => some (c, k)
    | some (some _) => scan lut cs (k + 1)
    | none => none

/-- One iteration of the body of `for i, backend := range ch.backendNames`. -/
def stepBackend (perms : List (List Nat)) (st : GenState) (i : Nat) : Option GenState :=
  match perms[i]?, st.next[i]? with
  | some prefs, some k =>
    match scan st.lut (prefs.drop k) k with
    | some (c, k') => some { next := st.next.set i (k' + 1), lut := st.lut.set c (some i) }
    | none => none
  | _, _ => none

/-- The two nested loops of `Generate`, flattened: the t-th slot assignment
(t = 0,1,…) is made by backend `t % N` (the outer `for {}` restarts the inner
range loop, `n` counts assignments, return when `n == m`). `r` = assignments
still to make. -/
def fill (perms : List (List Nat)) (N : Nat) : Nat → Nat → GenState → Option GenState
  | 0, _, st => some st
  | r + 1, t, st =>
    match stepBackend perms st (t % N) with
    | some st' => fill perms N r (t + 1) st'
    | none => none

def initState (N m : Nat) : GenState :=
  { next := List.replicate N 0, lut := List.replicate m none }

/-- `Generate` given the permutations of the sorted backends: `some []` models
the `return nil` for no backends.  For `m = 0` with ≥1 backend the Go loop reads
`prefs[0]` of an empty permutation (panic) — unreachable, AddBackend already
panicked. -/
def generate (perms : List (List Nat)) (m : Nat) : Option (List (Option Nat)) :=
  if perms.length = 0 then some []
  else if m = 0 then none
  else (fill perms perms.length m 0 (initState perms.length m)).map (·.lut)

/-- `ch.backendsByName[name].permutation` for the sorted names (every stored
name has an `.ok` permutation; anything else maps to `[]`, never reached). -/
def permsOf (perm : List Nat → Res (List Nat)) (sorted : List (List Nat)) : List (List Nat) :=
  sorted.map (fun s => match perm s with | .ok p => p | _ => [])

/-- Slot owners as names. -/
def namesOfLut (sorted : List (List Nat)) (lut : List (Option Nat)) : List (List Nat) :=
  lut.map (fun o => match o with
    | some i => sorted.getD i []
    | none => [])

/-- `New(m,h1,h2)`; `AddBackend` for every element of `arrivals` in order;
`Generate()`.  Result: for every slot the NAME of the backend that owns it;
`none` = panic, `some []` = Go `nil` (no backends). -/
def tableWith (perm : List Nat → Res (List Nat)) (m : Nat) (arrivals : List (List Nat)) :
    Option (List (List Nat)) :=
  match addBackends perm [] arrivals with
  | none => none
  | some names =>
    let sorted := sortNames names
    (generate (permsOf perm sorted) m).map (namesOfLut sorted)

def table (e : Endian) (hs : Hashes) (m : Nat) (arrivals : List (List Nat)) :
    Option (List (List Nat)) :=
  tableWith (permutation e hs m) m arrivals

/-! ## NextPrimeUint16 / BPFLUTSizeMaglev -/

/-- `sort.Search(n, f)`: binary search for the least `i ∈ [0,n]` with `f i`
(Go's loop `i, j := 0, n; for i < j { h := (i+j)/2; if !f(h) {i = h+1} else {j = h} }`),
`fuel` ≥ number of halvings. -/
def sortSearch (f : Nat → Bool) : Nat → Nat → Nat → Nat
  | 0, i, _ => i
  | fuel + 1, i, j =>
    if i < j then
      let h := (i + j) / 2
      if !f h then sortSearch f fuel (h + 1) j else sortSearch f fuel i h
    else i

/-- `NextPrimeUint16(i)` over the prime table `pr`; `limit` is the literal in
`if i > 65521 { Panic }`.  Go `int` input may be negative. -/
def nextPrimeUint16 (pr : List Nat) (limit : Nat) (i : Int) : Option Nat :=
  if i > (limit : Int) then none
  else
    let idx := sortSearch (fun x => decide ((pr.getD x 0 : Int) ≥ i)) (pr.length + 1) 0 pr.length
    if idx = pr.length then pr.getLast? else pr[idx]?

/-- `Config.BPFLUTSizeMaglev()` = `int(NextPrimeUint16(BPFMaglevMaxEndpointsPerService * MaglevEndpointLUTFactor))`. -/
def bpfLUTSizeMaglev (pr : List Nat) (limit factor : Nat) (maxEndpoints : Nat) : Option Nat :=
  nextPrimeUint16 pr limit ((maxEndpoints * factor : Nat) : Int)

/-- Trial division: no divisor `k` of `p` with `d ≤ k`, `k*k ≤ p`; `fuel` bounds the loop. -/
def noDivisorsFrom (p : Nat) : Nat → Nat → Bool
  | 0, _ => false
  | fuel + 1, d =>
    if d * d > p then true
    else if p % d = 0 then false
    else noDivisorsFrom p fuel (d + 1)

def isPrimeB (p : Nat) : Bool := decide (2 ≤ p) && noDivisorsFrom p p 2

end CalicoVerif.C33
