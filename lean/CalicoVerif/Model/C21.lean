/-
C21 — model of libcalico-go/lib/ipam/ipam_block.go (`allocationBlock`) at the
level of one block: `newBlock`, `autoAssign`, `assign`, `release`,
`releaseByHandle`, `addCooldownAttribute`, `findOrAddAttribute`,
`garbageCollect`, plus the two things the client does around them
(`SequenceNumber++` on every write, wall-clock time).

Conventions
* ordinals, attribute indexes, sequence numbers and times are `Nat`
  (Go `int`/`uint64`/seconds; overflow is not modelled); the cooldown is an
  `Int` because the code distinguishes `ipCooldownSeconds < 0`.
* a handle string is its list of bytes (`13` = `'\r'`, the only byte
  `sanitizeHandle` looks at); `ActiveOwnerAttrs` is an opaque token (`Nat`):
  the code only ever compares it with `reflect.DeepEqual`.
* `Allocations[o]` is `allocs[o]? : Option (Option Nat)`; the map
  `SequenceNumberForAllocation` is the list `seqFor` indexed by ordinal
  (`none` = key absent, read back as `0` like the Go map).
* time is an explicit input `now` in whole seconds. The real clock is strictly
  increasing, so a garbage collection always runs strictly later than any
  earlier release (even the one made a few lines above in the same call):
  in whole seconds `ReleasedAt.Before(now - cooldown)` is `rel + cooldown ≤ now`
  (in particular a cooldown of `0` frees the address in the releasing call).
* loops that visit every ordinal and take a decision that depends only on that
  ordinal's own entry (`garbageCollect` phase 1, `releaseByHandle`) are written
  as "filter the ordinals, then update them all" (`setAll`).
* Go index panics (attribute index out of range, ...) cannot happen on blocks
  built by these operations (`WF` in Props/C21); the model is totalised with
  `[i]?` and the theorems are proved under `WF`.
Core Lean only (linked into the driver executable).
-/
namespace CalicoVerif.C21

abbrev Handle := List Nat

/-- `sanitizeHandle`: `strings.Split(h, "\r")[0]`. -/
def sanitize (h : Handle) : Handle := h.takeWhile (fun c => c != 13)

/-- `model.AllocationAttribute` (AlternateOwnerAttrs is never set by the modelled operations). -/
structure Attr where
  handle : Option Handle
  owner : Nat
  releasedAt : Option Nat
deriving DecidableEq, Repr

/-- `model.AllocationBlock` (fields used by the modelled operations). -/
structure Block where
  n : Nat
  allocs : List (Option Nat)
  unalloc : List Nat
  attrs : List Attr
  seq : Nat
  seqFor : List (Option Nat)
deriving DecidableEq, Repr

/-- `l[i] = v` for every `i ∈ idxs` (out-of-range indexes are ignored). -/
def setAll {α : Type} (l : List α) (idxs : List Nat) (v : α) : List α :=
  idxs.foldl (fun l i => l.set i v) l

/-- `GetSequenceNumberForOrdinal`. -/
def Block.getSeq (b : Block) (o : Nat) : Nat :=
  match b.seqFor[o]? with
  | some (some s) => s
  | _ => 0

/-- The attribute an ordinal points at (`b.Attributes[*b.Allocations[o]]`). -/
def Block.attrAt (b : Block) (o : Nat) : Option Attr :=
  match b.allocs[o]? with
  | some (some i) => b.attrs[i]?
  | _ => none

/-- `newBlock(cidr, rsvdAttr)`; `rsvd = some (start, end, handle, note)`. `seq0` stands for
`time.Now().UnixNano()`. -/
def newBlock (n seq0 : Nat) (rsvd : Option (Nat × Nat × Handle × Nat)) : Block :=
  match rsvd with
  | none =>
    { n := n, allocs := List.replicate n none, unalloc := List.range n, attrs := [],
      seq := seq0, seqFor := List.replicate n none }
  | some (s, e, h, note) =>
    { n := n
      allocs := setAll (List.replicate n none) ((List.range s) ++ (List.range e).map (fun i => n - (i + 1))) (some 0)
      unalloc := ((List.range n).take (n - e)).drop s
      attrs := [{ handle := some h, owner := note, releasedAt := none }]
      seq := seq0, seqFor := List.replicate n none }

/-- `findOrAddAttribute`: index of the first `DeepEqual` attribute, else append. -/
def findOrAdd (attrs : List Attr) (a : Attr) : List Attr × Nat :=
  match attrs.findIdx? (fun x => x == a) with
  | some i => (attrs, i)
  | none => (attrs ++ [a], attrs.length)

/-- The loop of `autoAssign` over `Unallocated`: returns (taken, kept). -/
def autoLoop (reserved : List Nat) : Nat → List Nat → List Nat × List Nat
  | _, [] => ([], [])
  | 0, us => ([], us)
  | k + 1, o :: us =>
    if reserved.contains o then
      let r := autoLoop reserved (k + 1) us
      (r.1, o :: r.2)
    else
      let r := autoLoop reserved k us
      (o :: r.1, r.2)

/-- `autoAssign(num, handleID, …, attrs, affinityCheck=false, reservations)`; returns the ordinals
handed out, in order. -/
def Block.autoAssign (b : Block) (num : Nat) (h : Option Handle) (owner : Nat) (reserved : List Nat) :
    Block × List Nat :=
  let r := autoLoop reserved num b.unalloc
  match r.1 with
  | [] => ({ b with unalloc := r.2 }, [])
  | taken =>
    let fa := findOrAdd b.attrs { handle := h, owner := owner, releasedAt := none }
    ({ b with attrs := fa.1, allocs := setAll b.allocs taken (some fa.2),
              seqFor := setAll b.seqFor taken (some b.seq), unalloc := r.2 }, taken)

inductive AssignRes | ok | range | exists
deriving DecidableEq, Repr

/-- `assign(affinityCheck=false, address, handleID, attrs, …)`. Note that the sequence number of
the ordinal is overwritten BEFORE the already-allocated check, as in the Go code. -/
def Block.assign (b : Block) (o : Nat) (h : Option Handle) (owner : Nat) : Block × AssignRes :=
  if o ≥ b.n then (b, .range) else
  let b1 := { b with seqFor := b.seqFor.set o (some b.seq) }
  match b1.allocs[o]? with
  | some (some _) => (b1, .exists)
  | _ =>
    let fa := findOrAdd b1.attrs { handle := h, owner := owner, releasedAt := none }
    ({ b1 with attrs := fa.1, allocs := b1.allocs.set o (some fa.2), unalloc := b1.unalloc.erase o }, .ok)

/-- `garbageCollect` phase 1 test: the ordinal is in cooldown and the cooldown has expired. -/
def Block.expired (b : Block) (cd : Int) (now : Nat) (o : Nat) : Bool :=
  match b.attrAt o with
  | some a =>
    match a.releasedAt with
    | some r => if cd ≥ 0 then decide ((r : Int) + cd ≤ (now : Int)) else true
    | none => false
  | none => false

/-- `garbageCollect` phase 2: keep the attributes with a `used` index (index of the head is `k`). -/
def compact (used : Nat → Bool) : List Attr → Nat → List Attr
  | [], _ => []
  | a :: as, k => if used k then a :: compact used as (k + 1) else compact used as (k + 1)

/-- New index of old attribute index `x`: number of used indexes below it. -/
def newIdx (used : Nat → Bool) (x : Nat) : Nat := ((List.range x).filter used).length

/-- `garbageCollect(ipCooldownSeconds)`; returns the block and the `changed` flag. -/
def Block.gc (b : Block) (cd : Int) (now : Nat) : Block × Bool :=
  let ds := (List.range b.n).filter (b.expired cd now)
  let allocs1 := setAll b.allocs ds none
  let used : Nat → Bool := fun i => allocs1.contains (some i)
  let newAttrs := compact used b.attrs 0
  let b1 := { b with allocs := allocs1, unalloc := b.unalloc ++ ds, seqFor := setAll b.seqFor ds none }
  if newAttrs.length != b.attrs.length then
    ({ b1 with attrs := newAttrs, allocs := allocs1.map (Option.map (newIdx used)) }, true)
  else (b1, !ds.isEmpty)

/-- `addCooldownAttribute`: append `{ReleasedAt: now}`, return its index. -/
def Block.addCooldown (b : Block) (now : Nat) : Block × Nat :=
  ({ b with attrs := b.attrs ++ [{ handle := none, owner := 0, releasedAt := some now }] }, b.attrs.length)

/-- `ReleaseOptions` with the address already converted to an ordinal (`ord ≥ n` = outside the
block); `handle = []` is the empty string (= "do not check"). -/
structure ROpt where
  ord : Nat
  seq : Option Nat
  handle : Handle
deriving DecidableEq, Repr

inductive RelErr | range | seq | handle
deriving DecidableEq, Repr

/-- `uniqueAddresses[opt.Address] = opt`: keep the LAST option of every address. -/
def dedupe : List ROpt → List ROpt
  | [] => []
  | x :: xs => if xs.any (fun y => y.ord == x.ord) then dedupe xs else x :: dedupe xs

/-- What the loop body of `release` decides for one option (the block is not mutated inside the loop). -/
inductive OptVerdict
  | err (e : RelErr)
  | skip                      -- not allocated, or in cooldown
  | rel (h : Handle)          -- to be released; `h` = sanitised stored handle ("" if none)
deriving DecidableEq, Repr

/-- The sanitised stored handle (`""` when the attribute has none). -/
def Attr.hid (a : Attr) : Handle := match a.handle with | some h => sanitize h | none => []

def Block.verdict2 (b : Block) (x : ROpt) : OptVerdict :=
  match b.attrAt x.ord with
  | none => .skip
  | some a =>
    if a.releasedAt.isSome then .skip else
    if x.handle != [] && a.hid != x.handle then .err .handle else .rel a.hid

def Block.verdict (b : Block) (x : ROpt) : OptVerdict :=
  if x.ord ≥ b.n then .err .range else
  match x.seq with
  | some s => if s != b.getSeq x.ord then .err .seq else b.verdict2 x
  | none => b.verdict2 x

inductive RelRes
  | err (e : Option RelErr)              -- `none`: several unique addresses, kind depends on Go map order
  | ok (skipped : List Nat) (released : List (Nat × Handle))
deriving DecidableEq, Repr

def OptVerdict.isErr : OptVerdict → Bool
  | .err _ => true
  | _ => false

def OptVerdict.errOf : OptVerdict → Option RelErr
  | .err e => some e
  | _ => none

/-- The verdict of every unique address of the request. -/
def Block.verdicts (b : Block) (opts : List ROpt) : List (ROpt × OptVerdict) :=
  (dedupe opts).map (fun x => (x, b.verdict x))

def skippedOf (vs : List (ROpt × OptVerdict)) : List Nat :=
  vs.filterMap (fun p => match p.2 with | .skip => some p.1.ord | _ => none)

def relsOf (vs : List (ROpt × OptVerdict)) : List (Nat × Handle) :=
  vs.filterMap (fun p => match p.2 with | .rel h => some (p.1.ord, h) | _ => none)

/-- `addCooldownAttribute` + redirecting `ords` to it (`release` also stamps the sequence number,
`releaseByHandle` does not). -/
def Block.markCooldown (b : Block) (now : Nat) (ords : List Nat) (stampSeq : Bool) : Block :=
  let (b1, idx) := b.addCooldown now
  { b1 with allocs := setAll b1.allocs ords (some idx),
            seqFor := if stampSeq then setAll b1.seqFor ords (some b1.seq) else b1.seqFor }

/-- `release(cfg, addresses)`. The Go loop iterates a map; the outcome is order independent
except for WHICH error is returned when several options are in error (→ `err none` unless there
is exactly one unique address). Errors are returned before anything is mutated. -/
def Block.release (b : Block) (cd : Int) (now : Nat) (opts : List ROpt) : Block × RelRes :=
  let vs := b.verdicts opts
  match vs.find? (fun p => p.2.isErr) with
  | some p => (b, .err (if vs.length == 1 then p.2.errOf else none))
  | none =>
    let ords := (relsOf vs).map (·.1)
    if ords.isEmpty then (b, .ok (skippedOf vs) (relsOf vs)) else
    (((b.markCooldown now ords true).gc cd now).1, .ok (skippedOf vs) (relsOf vs))

/-- `attributeIndexesByHandle`. -/
def Block.attrIdxsByHandle (b : Block) (h : Handle) : List Nat :=
  (List.range b.attrs.length).filter (fun i =>
    match b.attrs[i]? with
    | some a => (match a.handle with | some x => sanitize x == h | none => false)
    | none => false)

/-- The ordinals `releaseByHandle` redirects to the cooldown attribute. -/
def Block.relhOrds (b : Block) (h : Handle) (seq : Option Nat) : List Nat :=
  let idxs := b.attrIdxsByHandle h
  (List.range b.n).filter (fun o =>
    match b.allocs[o]? with
    | some (some i) => idxs.contains i && (match seq with | none => true | some s => s == b.getSeq o)
    | _ => false)

/-- `releaseByHandle(cfg, opts)`; returns the release count. -/
def Block.releaseByHandle (b : Block) (cd : Int) (now : Nat) (h : Handle) (seq : Option Nat) : Block × Nat :=
  if (b.attrIdxsByHandle h).isEmpty then (b, 0) else
  let ords := b.relhOrds h seq
  let b2 := if ords.isEmpty then b else b.markCooldown now ords false
  ((b2.gc cd now).1, ords.length)

/-- ASCII `strings.ToLower` on a byte list. -/
def lowerH (h : Handle) : Handle := h.map (fun c => if 65 ≤ c ∧ c ≤ 90 then c + 32 else c)

/-- `WindowsReservedHandle` = "windows-reserved-ipam-handle". -/
def windowsReservedHandle : Handle :=
  [119, 105, 110, 100, 111, 119, 115, 45, 114, 101, 115, 101, 114, 118, 101, 100, 45, 105, 112, 97, 109, 45, 104, 97, 110, 100, 108, 101]

/-- `empty()`: every allocation — live OR cooling down — belongs to the Windows reserved handle. It gates the
deletion of a block (releaseBlockAffinity, releaseIPsFromBlock / releaseByHandle on a non-affine block). -/
def Block.isEmpty (b : Block) : Bool :=
  b.allocs.all (fun a =>
    match a with
    | none => true
    | some i =>
      match b.attrs[i]? with
      | some att => (match att.handle with | some h => lowerH h == windowsReservedHandle | none => false)
      | none => true)

/-! ### Histories -/

inductive Op
  | bump                                    -- `SequenceNumber++` (updateBlock)
  | tick (d : Nat)                          -- wall clock advances by `d` seconds
  | gc (cd : Int)                           -- blockFromBackend / GarbageCollectColdIPs
  | auto (num : Nat) (h : Option Handle) (owner : Nat) (reserved : List Nat)
  | assign (o : Nat) (h : Option Handle) (owner : Nat)
  | release (cd : Int) (opts : List ROpt)
  | relh (cd : Int) (h : Handle) (seq : Option Nat)
deriving DecidableEq, Repr

structure St where
  blk : Block
  now : Nat
deriving DecidableEq, Repr

def step (s : St) : Op → St
  | .bump => { s with blk := { s.blk with seq := s.blk.seq + 1 } }
  | .tick d => { s with now := s.now + d }
  | .gc cd => { s with blk := (s.blk.gc cd s.now).1 }
  | .auto num h owner rsv => { s with blk := (s.blk.autoAssign num h owner rsv).1 }
  | .assign o h owner => { s with blk := (s.blk.assign o h owner).1 }
  | .release cd opts => { s with blk := (s.blk.release cd s.now opts).1 }
  | .relh cd h seq => { s with blk := (s.blk.releaseByHandle cd s.now h seq).1 }

def run (s : St) (ops : List Op) : St := ops.foldl step s

end CalicoVerif.C21
