/-
C23 — model of the IPAM garbage collector of kube-controllers
(kube-controllers/pkg/controllers/node/ipam.go, ipam_allocation.go).

Identifiers are `Nat` tokens: nodes (0 = "no node"; Calico node k and Kubernetes
node k have the same name), blocks, ordinals, handles, pods.  An address is
(block, ordinal).  Time is an explicit `now` (minutes), advanced only by `tick`.
The Go code's four indexes over the same `*allocation` objects
(allocationsByBlock, allocationState.allocationsByNode, handleTracker,
confirmedLeaks) are modelled as ONE store `allocs` plus the key set `leaks`; that
the Go indexes agree with the store is checked by the correspondence dump.
Go map iteration is modelled as ascending key order.

Modelled: handleBlockUpdate (onBlockUpdated / forgetBlock), handleNodeUpdate,
syncIPAM = checkAllocations; garbageCollectKnownLeaks; releaseUnusedBlocks;
releaseNodes, allocationIsValid for pod and tunnel addresses, markLeak /
markConfirmedLeak / markValid, blockReleaseTracker, dirty-node tracking.
Not modelled: metrics, pool manager, IP reservations, cold-IP GC (no block has
ReleasedAt), KubeVirt VM allocations, Flannel migration labels, datastoreReady,
client errors (the IPAM client always succeeds and releases what it is asked to).
Core Lean only.
-/
namespace CalicoVerif.C23

abbrev AMap (α : Type) := List (Nat × α)

def AMap.get {α : Type} : AMap α → Nat → Option α
  | [], _ => none
  | (k', v) :: r, k => if k' = k then some v else AMap.get r k

def AMap.del {α : Type} : AMap α → Nat → AMap α
  | [], _ => []
  | (k', v) :: r, k => if k' = k then AMap.del r k else (k', v) :: AMap.del r k

def AMap.set {α : Type} (m : AMap α) (k : Nat) (v : α) : AMap α := (k, v) :: m.del k

def sins (s : List Nat) (x : Nat) : List Nat := if s.contains x then s else x :: s

inductive Kind | pod | tunnel | unknown | winres
deriving DecidableEq, Repr, Inhabited

/-- (handle, block, ordinal) = `allocation.id()` = "handle/ip". -/
abbrev Id := Nat × Nat × Nat

/-- `allocation`. -/
structure Alloc where
  block : Nat
  ord : Nat
  handle : Nat
  kind : Kind
  node : Nat
  pod : Nat
  seq : Nat
  knode : Option Nat := none
  leakedAt : Option Nat := none
  confirmed : Bool := false
deriving DecidableEq, Repr, Inhabited

def Alloc.id (a : Alloc) : Id := (a.handle, a.block, a.ord)

/-- one allocated ordinal of a block as delivered by the syncer -/
structure Entry where
  ord : Nat
  handle : Option Nat
  kind : Kind
  node : Nat
  pod : Nat
  seq : Nat
deriving DecidableEq, Repr, Inhabited

/-- a Kubernetes pod as far as `allocationIsValid` looks at it -/
structure Pod where
  node : Nat
  ips : List (Nat × Nat)
  evicted : Bool
deriving DecidableEq, Repr, Inhabited

/-- the cluster facts the collector consults (they may change between any two steps) -/
structure Env where
  knodes : List Nat := []
  cache : AMap Pod := []
  api : AMap Pod := []
deriving Repr, Inhabited

structure St where
  grace : Option Nat := none
  now : Nat := 0
  inSync : Bool := false
  fullSync : Bool := false
  env : Env := {}
  /-- kubernetesNodesByCalicoName (= the Calico Node resources): `some k` = k8s orchRef, `none` = not a k8s node -/
  cnodes : AMap (Option Nat) := []
  allocs : List Alloc := []
  leaks : List Id := []
  dirty : List Nat := []
  nodesByBlock : AMap Nat := []
  blocksByNode : AMap (List Nat) := []
  emptyBlocks : AMap Nat := []
  tracker : AMap Nat := []
  allBlocks : List Nat := []
  /-- GHOST (not in the Go code): block → node of the latest host affinity the collector has SEEN for it -/
  seen : AMap Nat := []
  /-- environment: the next `ReleaseIPs` call fails (returns an error, releases nothing) -/
  failRel : Bool := false
deriving Repr, Inhabited

inductive Call
  | releaseIPs (batch : List (Nat × Nat × Nat × Nat))   -- (block, ord, handle, seq)
  | releaseBlockAffinity (block node : Nat)
  | releaseHostAffinities (node : Nat)
deriving DecidableEq, Repr, Inhabited

/-! ### small helpers -/

def markDirty (s : St) (n : Nat) : St := if n = 0 then s else { s with dirty := sins s.dirty n }
def markClean (s : St) (n : Nat) : St := { s with dirty := s.dirty.filter (· != n) }

/-- `blocksByNode[n][b] = true` -/
def bbnAdd (m : AMap (List Nat)) (n b : Nat) : AMap (List Nat) := m.set n (sins ((m.get n).getD []) b)

/-- `delete(blocksByNode[n], b)` + drop the node when empty -/
def bbnDel (m : AMap (List Nat)) (n b : Nat) : AMap (List Nat) :=
  match m.get n with
  | none => m
  | some bs => let bs' := bs.filter (· != b); if bs'.isEmpty then m.del n else m.set n bs'

/-- repaired `onBlockUpdated`: when a block's affinity moved straight from another host, the old
node no longer has this block -/
def dropOld (nbb : AMap Nat) (bbn : AMap (List Nat)) (b n : Nat) : AMap (List Nat) :=
  match nbb.get b with
  | some old => if old != n then bbnDel bbn old b else bbn
  | none => bbn

/-- `releaseAllocation` -/
def releaseAlloc (s : St) (a : Alloc) : St :=
  markDirty { s with allocs := s.allocs.filter (fun x => x.id != a.id), leaks := s.leaks.filter (· != a.id) } a.node

def releaseAll (s : St) (as : List Alloc) : St := as.foldl releaseAlloc s

/-- `markValid` -/
def Alloc.markValid (a : Alloc) : Alloc := { a with confirmed := false, leakedAt := none }

/-! ### handleBlockUpdate -/

/-- the allocation loop of `onBlockUpdated` for one entry with a handle -/
def upsert (s : St) (b : Nat) (e : Entry) (h : Nat) : St :=
  let id : Id := (h, b, e.ord)
  match s.allocs.find? (fun x => x.id == id) with
  | some ex =>
    if ex.seq != e.seq then
      { s with allocs := s.allocs.map (fun x => if x.id == id then
          { x with seq := e.seq, kind := e.kind, node := e.node, pod := e.pod }.markValid else x) }
    else s
  | none =>
    markDirty { s with allocs := s.allocs ++ [{ block := b, ord := e.ord, handle := h, kind := e.kind, node := e.node, pod := e.pod, seq := e.seq }] } e.node

def upsertAll (s : St) (b : Nat) : List Entry → St
  | [] => s
  | e :: es =>
    match e.handle with
    | none => upsertAll s b es
    | some h => upsertAll (upsert s b e h) b es

def currentIds (b : Nat) (es : List Entry) : List Id :=
  es.filterMap (fun e => e.handle.map (fun h => (h, b, e.ord)))

/-- affinity bookkeeping of `onBlockUpdated` -/
def affinityStage (s : St) (b : Nat) : Option Nat → St
  | some n => { s with nodesByBlock := s.nodesByBlock.set b n, blocksByNode := bbnAdd (dropOld s.nodesByBlock s.blocksByNode b n) n b }
  | none => match s.nodesByBlock.get b with
    | some n' => { s with nodesByBlock := s.nodesByBlock.del b, blocksByNode := bbnDel s.blocksByNode n' b }
    | none => s

/-- empty-block tracking of `onBlockUpdated` -/
def emptyStage (s : St) (b : Nat) (isEmpty : Bool) : Option Nat → St
  | some n => if isEmpty then { s with emptyBlocks := s.emptyBlocks.set b n }
              else { s with emptyBlocks := s.emptyBlocks.del b, tracker := s.tracker.del b }
  | none => { s with emptyBlocks := s.emptyBlocks.del b }

/-- `onBlockUpdated` -/
def onBlockUpdated (s : St) (b : Nat) (aff : Option Nat) (es : List Entry) : St :=
  let s3 := emptyStage (upsertAll (affinityStage s b aff) b es) b es.isEmpty aff
  -- allocations that disappeared from the block
  let s4 := releaseAll s3 (s3.allocs.filter (fun a => a.block == b && !(currentIds b es).contains a.id))
  { s4 with allBlocks := sins s4.allBlocks b }

/-- a block's affinity as the collector distinguishes it -/
inductive Aff | host (n : Nat) | none | other
deriving DecidableEq, Repr, Inhabited

def onBlock (s : St) (b : Nat) (aff : Aff) (es : List Entry) : St :=
  match aff with
  | .host n => { onBlockUpdated s b (some n) es with seen := s.seen.set b n }
  | .none => { onBlockUpdated s b none es with seen := s.seen.del b }
  -- repaired code (/repo 8ebf246): a non-`host:` affinity (e.g. `virtual:`) is handled like a removed one
  | .other => { onBlockUpdated s b none es with seen := s.seen.del b }

/-- `forgetBlock` -/
def forgetBlock (s : St) (b : Nat) : St :=
  let s1 := releaseAll s (s.allocs.filter (fun a => a.block == b))
  let bbn := match s1.nodesByBlock.get b with
    | some n => bbnDel s1.blocksByNode n b
    | none => s1.blocksByNode
  { s1 with blocksByNode := bbn, allBlocks := s1.allBlocks.filter (· != b), nodesByBlock := s1.nodesByBlock.del b,
            emptyBlocks := s1.emptyBlocks.del b, tracker := s1.tracker.del b, seen := s1.seen.del b }

/-! ### allocationIsValid -/

def podValid (p : Option Pod) (a : Alloc) : Bool :=
  match p with
  | none => false
  | some p =>
    if p.node != 0 && a.knode.isSome && a.knode != some p.node then false
    else if p.ips.isEmpty then true
    else if p.evicted then false
    else p.ips.contains (a.block, a.ord)

/-- `allocationIsValid(a, preferCache)` for tunnel and pod addresses -/
def isValid (env : Env) (a : Alloc) (preferCache : Bool) : Bool :=
  match a.kind with
  | .tunnel => a.knode.isSome
  | .pod => podValid ((if preferCache then env.cache else env.api).get a.pod) a
  | _ => true

/-! ### checkAllocations -/

/-- `markLeak(grace)` at time `now` -/
def Alloc.markLeak (a : Alloc) (now g : Nat) : Alloc :=
  let t := a.leakedAt.getD now
  let a1 := { a with leakedAt := some t }
  if now - t > g && !a1.confirmed && g > 0 then { a1 with confirmed := true } else a1

/-- result of examining one allocation of a node: the updated allocation, whether it blocks node clean-up,
and what to do with its `confirmedLeaks` entry (`none` = leave alone). -/
structure Verdict where
  a : Alloc
  blocks : Bool
  leak : Option Bool
  tunnel : Bool := false

def checkOne (s : St) (knode : Option Nat) (exists_ : Bool) (a0 : Alloc) : Verdict :=
  let a := { a0 with knode := knode }
  match a.kind with
  | .winres => { a := a, blocks := false, leak := none }
  | .unknown => { a := a, blocks := true, leak := none }
  | .tunnel => { a := a, blocks := false, leak := none, tunnel := true }
  | .pod =>
    if isValid s.env a true then { a := a.markValid, blocks := true, leak := none }
    else
      let a' := if !exists_ then { a with confirmed := true }
                else match s.grace with
                  | some g => a.markLeak s.now g
                  | none => a
      { a := a', blocks := false, leak := some a'.confirmed }

def applyVerdict (s : St) (v : Verdict) : St :=
  let s1 := { s with allocs := s.allocs.map (fun x => if x.id == v.a.id then v.a else x) }
  match v.leak with
  | none => s1
  | some true => { s1 with leaks := if s1.leaks.contains v.a.id then s1.leaks else s1.leaks ++ [v.a.id] }
  | some false => { s1 with leaks := s1.leaks.filter (· != v.a.id) }

/-- the body of the `for cnode, allocations := range nodesToCheck` loop; returns the new state and
whether the node is to be released -/
def checkNode (s : St) (cnode : Nat) : St × Bool :=
  match s.cnodes.get cnode with
  | some none => (markClean s cnode, false)          -- Calico node that is not a Kubernetes node: skipped
  | lookup =>
    let knode : Option Nat := match lookup with | some (some k) => some k | _ => none
    let exists_ := match knode with | some k => s.env.knodes.contains k | none => false
    let mine := s.allocs.filter (fun a => a.node == cnode)
    let vs := mine.map (checkOne s knode exists_)
    let s1 := vs.foldl applyVerdict s
    let canDelete := vs.all (fun v => !v.blocks)
    if !exists_ then
      if !canDelete then (markClean s1 cnode, false)
      else
        let ts := vs.filter (·.tunnel)
        let s2 := ts.foldl (fun s v => applyVerdict s { v with a := { v.a with confirmed := true }, leak := some true }) s1
        -- /repo f65adf3: the node is (kept) in the dirty set until releaseNodes succeeds
        (markDirty s2 cnode, true)
    else (markClean s1 cnode, false)

def insertSorted (x : Nat) : List Nat → List Nat
  | [] => [x]
  | y :: ys => if x < y then x :: y :: ys else if x = y then y :: ys else y :: insertSorted x ys

def sortDedup (xs : List Nat) : List Nat := xs.foldr insertSorted []

/-- the nodes `checkAllocations` looks at -/
def nodesToCheck (s : St) : List Nat :=
  if s.fullSync then sortDedup (s.nodesByBlock.map (·.2) ++ (s.allocs.filter (·.node != 0)).map (·.node))
  else sortDedup s.dirty

def checkNodes : St → List Nat → St × List Nat
  | s, [] => (s, [])
  | s, n :: ns =>
    let r := checkNode s n
    let r2 := checkNodes r.1 ns
    (r2.1, if r.2 then n :: r2.2 else r2.2)

def checkAllocations (s : St) : St × List Nat :=
  checkNodes { s with fullSync := false } (nodesToCheck s)

/-! ### garbageCollectKnownLeaks -/

/-- `handleTracker.isConfirmedLeak` -/
def handleConfirmed (s : St) (h : Nat) : Bool :=
  !s.allocs.isEmpty && (s.allocs.filter (·.handle == h)).all (·.confirmed)

/-- the selection loop: returns the state (resurrected leaks removed) and the allocations to release -/
def gcSelect : St → List Id → St × List Alloc
  | s, [] => (s, [])
  | s, id :: ids =>
    match s.allocs.find? (fun x => x.id == id) with
    | none => gcSelect s ids
    | some a =>
      if isValid s.env a a.knode.isNone then
        gcSelect { s with leaks := s.leaks.filter (· != id),
                          allocs := s.allocs.map (fun x => if x.id == id then x.markValid else x) } ids
      else if !handleConfirmed s a.handle then gcSelect s ids
      else
        let r := gcSelect s ids
        (r.1, a :: r.2)

def garbageCollectKnownLeaks (s : St) : St × List Call :=
  let r := gcSelect s s.leaks
  if r.2.isEmpty then (r.1, [])
  else (releaseAll r.1 r.2, [Call.releaseIPs (r.2.map (fun a => (a.block, a.ord, a.handle, a.seq)))])

/-! ### releaseUnusedBlocks -/

/-- `blockReleaseTracker.markEmpty` -/
def markEmpty (s : St) (b : Nat) : St × Bool :=
  match s.grace with
  | some g =>
    if g > 0 then
      match s.tracker.get b with
      | none => ({ s with tracker := s.tracker.set b s.now }, false)
      | some t => (s, s.now - t > g)
    else (s, false)
  | none => (s, false)

def releaseUnusedLoop : St → List (Nat × Nat) → St × List Call
  | s, [] => (s, [])
  | s, (b, node) :: rest =>
    -- entries forgotten earlier in this loop are gone from emptyBlocks
    if (s.emptyBlocks.get b).isNone then releaseUnusedLoop s rest
    else if ((s.blocksByNode.get node).getD []).length ≤ 1 then releaseUnusedLoop s rest
    else if s.cnodes.get node == some none then
      -- nodeIsBeingMigrated fails for a Calico node that is not a Kubernetes node: markInUse
      releaseUnusedLoop { s with tracker := s.tracker.del b } rest
    else
      let r := markEmpty s b
      if !r.2 then releaseUnusedLoop r.1 rest
      else if !r.1.allBlocks.contains b then releaseUnusedLoop r.1 rest
      else
        let r2 := releaseUnusedLoop (forgetBlock r.1 b) rest
        (r2.1, Call.releaseBlockAffinity b node :: r2.2)

def sortKV {α : Type} (m : AMap α) : AMap α := (sortDedup (m.map (·.1))).filterMap (fun k => (m.get k).map (fun v => (k, v)))

def releaseUnusedBlocks (s : St) : St × List Call := releaseUnusedLoop s (sortKV s.emptyBlocks)

/-! ### syncIPAM -/

/-- `syncIPAM`: the calls issued on the IPAM client, and whether it reports remaining work -/
def syncIPAM (s : St) : St × List Call × Bool :=
  if !s.inSync then (s, [], false)
  else
    let r1 := checkAllocations s
    let r2 := garbageCollectKnownLeaks r1.1
    let r3 := releaseUnusedBlocks r2.1
    let s4 := r1.2.foldl markClean r3.1
    (s4, r2.2 ++ r3.2 ++ r1.2.map Call.releaseHostAffinities, !s4.leaks.isEmpty)

/-- `syncIPAM` when `ReleaseIPs` returns an error: `garbageCollectKnownLeaks` has resurrected what its final check
found valid and issued the call, nothing is released, and `syncIPAM` returns the error at once (no block-affinity or
node clean-up; the nodes to release stay dirty). -/
def syncIPAMFail (s : St) : St × List Call × Bool :=
  let r1 := checkAllocations s
  let sel := gcSelect r1.1 r1.1.leaks
  ({ sel.1 with failRel := false }, [Call.releaseIPs (sel.2.map (fun a => (a.block, a.ord, a.handle, a.seq)))], true)

/-- one `syncIPAM`, with the injected client failure if one is pending and a `ReleaseIPs` call is made -/
def syncStep (s : St) : St × List Call × Bool :=
  if s.inSync && s.failRel && !(gcSelect (checkAllocations s).1 (checkAllocations s).1.leaks).2.isEmpty then syncIPAMFail s
  else syncIPAM s

inductive Op
  | failRel
  | inSync
  | block (b : Nat) (aff : Aff) (es : List Entry)
  | blockDel (b : Nat)
  | cnode (n : Nat) (k : Option Nat)
  | cnodeDel (n : Nat)
  | knode (n : Nat) (present : Bool)
  | pod (id : Nat) (inCache inApi : Bool) (p : Pod)
  | podDel (id : Nat) (fromCache fromApi : Bool)
  | dirty (n : Nat)
  | tick (d : Nat)
  | sync (full : Bool)
deriving Repr, Inhabited

def setEnv (s : St) (e : Env) : St := { s with env := e }

def step (s : St) : Op → St × List Call × Bool
  | .inSync => ({ s with inSync := true }, [], false)
  | .block b aff es => (onBlock s b aff es, [], false)
  | .blockDel b => (forgetBlock s b, [], false)
  | .cnode n k => ({ s with cnodes := s.cnodes.set n k }, [], false)
  | .cnodeDel n => ({ s with cnodes := s.cnodes.del n }, [], false)
  | .knode n present =>
    (setEnv s { s.env with knodes := if present then sins s.env.knodes n else s.env.knodes.filter (· != n) }, [], false)
  | .pod id c a p =>
    (setEnv s { s.env with cache := if c then s.env.cache.set id p else s.env.cache,
                            api := if a then s.env.api.set id p else s.env.api }, [], false)
  | .podDel id c a =>
    (setEnv s { s.env with cache := if c then s.env.cache.del id else s.env.cache,
                            api := if a then s.env.api.del id else s.env.api }, [], false)
  | .dirty n => (markDirty s n, [], false)
  | .tick d => ({ s with now := s.now + d }, [], false)
  | .sync full => syncStep (if full then { s with fullSync := true } else s)
  | .failRel => ({ s with failRel := true }, [], false)

end CalicoVerif.C23
