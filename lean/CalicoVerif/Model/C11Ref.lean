import CalicoVerif.Model.C11Interp
/-
C11 — a minimal REFERENCE verdict semantics for what a BPF policy program is
supposed to decide (tiers, pass/next-tier, end-of-tier action, profiles,
pre-DNAT / apply-on-forward / normal host policy, XDP untracked policy), written
independently of the instruction stream.

NOTE (to be unified): `Model/Policy.lean` (owner: a10) is meant to be the single
reference for C08–C12/C29/C30/C40.  This file exists so that C11/C12 do not wait
for it; it should be replaced by (or proved equivalent to) `Model/Policy` later.

The packet is described by the fields of `cali_tc_state` that policy may look
at, in the representation the state struct uses (addresses as the 32-bit words
one gets by loading the struct little-endian; ports host-order; ICMP type/code
aliased with the destination port as in the C union).  Core Lean only.
-/
namespace CalicoVerif.C11

/-- The policy-relevant view of `cali_tc_state`. -/
structure Pkt where
  src : List (BitVec 32)        -- 4 words (IPv4: word 0 only is meaningful)
  preDst : List (BitVec 32)     -- pre_nat_ip_dst
  postDst : List (BitVec 32)    -- post_nat_ip_dst
  sport : BitVec 16
  icmpW : BitVec 16             -- state->dport aliased with icmp_type (low byte) / icmp_code
  preDport : BitVec 16
  postDport : BitVec 16
  proto : Byte
  flags : BitVec 64
deriving Repr, Inhabited

/-- Decode the view from the state bytes (`none` if the value is too short). -/
def pktOf (st : List Byte) : Option Pkt :=
  let w (off : Nat) : Option (BitVec 32) := (getBytes st off 4).map (fun b => BitVec.ofNat 32 (leNat b))
  let h (off : Nat) : Option (BitVec 16) := (getBytes st off 2).map (fun b => BitVec.ofNat 16 (leNat b))
  let ws (off : Nat) : Option (List (BitVec 32)) := [w off, w (off + 4), w (off + 8), w (off + 12)].mapM id
  match ws 8, ws 40, ws 56, h 96, h 98, h 100, h 102, getBytes st 104 1, getBytes st 368 8 with
  | some s, some p, some d, some sp, some ic, some pd, some dd, some [pr], some fl =>
    some { src := s, preDst := p, postDst := d, sport := sp, icmpW := ic, preDport := pd,
           postDport := dd, proto := pr, flags := BitVec.ofNat 64 (leNat fl) }
  | _, _, _, _, _, _, _, _, _ => none

/-- Little-endian number stored in `n` bytes at `off`. -/
def fieldN (st : List Byte) (off n : Nat) : Nat := leNat ((st.drop off).take n)

/-- Total version of `pktOf` (equal to it on a full-size state value); the theorems use this one. -/
def pktOfD (st : List Byte) : Pkt :=
  let w (off : Nat) : BitVec 32 := BitVec.ofNat 32 (fieldN st off 4)
  let h (off : Nat) : BitVec 16 := BitVec.ofNat 16 (fieldN st off 2)
  { src := [w 8, w 12, w 16, w 20], preDst := [w 40, w 44, w 48, w 52], postDst := [w 56, w 60, w 64, w 68],
    sport := h 96, icmpW := h 98, preDport := h 100, postDport := h 102,
    proto := BitVec.ofNat 8 (fieldN st 104 1), flags := BitVec.ofNat 64 (fieldN st 368 8) }

def Pkt.addr (p : Pkt) : Leg → List (BitVec 32)
  | .source => p.src
  | .destPreNAT => p.preDst
  | .dest => p.postDst

def Pkt.port (p : Pkt) : Leg → BitVec 16
  | .source => p.sport
  | .destPreNAT => p.preDport
  | .dest => p.postDport

/-- IANA number of a protocol; names as the Calico API allows them. -/
def protoNumberRef : Proto → Option Nat
  | .num n => if 0 ≤ n ∧ n ≤ 255 then some n.toNat else none
  | .name s =>
    let l := asciiLower s
    if l == "tcp" then some 6 else if l == "udp" then some 17 else if l == "icmp" then some 1
    else if l == "sctp" then some 132 else if l == "icmpv6" then some 58
    else if l == "udplite" then some 136 else none

def protoIs (p : Pkt) (pr : Proto) : Bool :=
  match protoNumberRef pr with
  | some n => p.proto.toNat == n
  | none => false

/-- IPv4 CIDR membership: the address is word 0 (memory order), the CIDR is in
numeric (network) order. -/
def netContains4 (a : List (BitVec 32)) (n : Net) : Bool :=
  rev32bv (a.headD 0) &&& mask32bv n.pfx == BitVec.ofNat 32 n.addr &&& mask32bv n.pfx

/-- IPv6 CIDR membership, word by word. -/
def netContains6 (a : List (BitVec 32)) (n : Net) : Bool :=
  (List.range 4).all (fun w =>
    let m := BitVec.ofNat 32 (mask128Word n.pfx w)
    rev32bv (a.getD w 0) &&& m == BitVec.ofNat 32 (word128 n.addr w) &&& m)

def netContains (v6 : Bool) (a : List (BitVec 32)) (n : Net) : Bool :=
  if v6 then netContains6 a n else netContains4 a n

def portIn (p : BitVec 16) (r : PortRange) : Bool :=
  r.first ≤ (p.toNat : Int) && (p.toNat : Int) ≤ r.last

def icmpIs (p : Pkt) : Icmp → Bool
  | .none => true
  | .type t => (p.icmpW.toNat % 256 : Int) == t % 256
  | .typeCode t c => (p.icmpW.toNat % 256 : Int) == t % 256 && (p.icmpW.toNat / 256 : Int) == c % 256

/-- Address words the IP-set key carries for this IP version. -/
def keyAddr (v6 : Bool) (a : List (BitVec 32)) : List (BitVec 32) :=
  if v6 then a.take 4 else a.take 1

/-- Does the (already version-filtered) rule match the packet?  `destLeg` says
which destination (pre- or post-DNAT) the policy kind looks at. -/
def ruleMatch (env : Env) (p : Pkt) (destLeg : Leg) (r : Rule) : Bool :=
  let v6 := env.c.v6
  let mem (leg : Leg) (id : Nat) : Bool := env.member id (keyAddr v6 (p.addr leg)) (p.port leg) p.proto
  let ports (leg : Leg) (rs : List PortRange) (named : List Nat) : Bool :=
    rs.any (portIn (p.port leg)) || named.any (mem leg)
  (r.protocol.all (protoIs p)) && (r.notProtocol.all (fun x => !protoIs p x)) &&
  (r.srcNet.isEmpty || r.srcNet.any (netContains v6 p.src)) &&
  (r.notSrcNet.all (fun n => !netContains v6 p.src n)) &&
  (r.dstNet.isEmpty || r.dstNet.any (netContains v6 (p.addr destLeg))) &&
  (r.notDstNet.all (fun n => !netContains v6 (p.addr destLeg) n)) &&
  r.srcIpSetIds.all (mem .source) && r.notSrcIpSetIds.all (fun i => !mem .source i) &&
  (r.dstIpSetIds.isEmpty || r.dstIpSetIds.any (mem destLeg)) &&
  r.notDstIpSetIds.all (fun i => !mem destLeg i) &&
  r.dstIpPortSetIds.all (mem destLeg) &&
  ((r.srcPorts.isEmpty && r.srcNamedPortIpSetIds.isEmpty) || ports .source r.srcPorts r.srcNamedPortIpSetIds) &&
  !((!(r.notSrcPorts.isEmpty && r.notSrcNamedPortIpSetIds.isEmpty)) && ports .source r.notSrcPorts r.notSrcNamedPortIpSetIds) &&
  ((r.dstPorts.isEmpty && r.dstNamedPortIpSetIds.isEmpty) || ports destLeg r.dstPorts r.dstNamedPortIpSetIds) &&
  !((!(r.notDstPorts.isEmpty && r.notDstNamedPortIpSetIds.isEmpty)) && ports destLeg r.notDstPorts r.notDstNamedPortIpSetIds) &&
  icmpIs p r.icmp && (r.notIcmp == .none || !icmpIs p r.notIcmp)

/-- Outcome of evaluating a list of rules / tiers. -/
inductive Dec | allow | deny | pass | noMatch
deriving DecidableEq, Repr, Inhabited

/-- Normalised action of a rule. -/
inductive Act | allow | deny | pass | log | invalid
deriving DecidableEq, Repr, Inhabited

def actOf (a : String) : Act :=
  let l := asciiLower a
  if l == "allow" then .allow else if l == "deny" then .deny else if l == "log" then .log
  else if l == "pass" || l == "next-tier" then .pass else .invalid

/-- First matching non-log rule decides. Rules not applicable to the IP
version are skipped. -/
def evalRules (env : Env) (p : Pkt) (destLeg : Leg) : List Rule → Dec
  | [] => .noMatch
  | r :: rs =>
    match filterRule env.c.v6 r with
    | none => evalRules env p destLeg rs
    | some fr =>
      if ruleMatch env p destLeg fr then
        match actOf r.action with
        | .allow => .allow
        | .deny => .deny
        | .pass => .pass
        | .log => evalRules env p destLeg rs
        | .invalid => .deny
      else evalRules env p destLeg rs

def evalPolicies (env : Env) (p : Pkt) (destLeg : Leg) : List Policy → Dec
  | [] => .noMatch
  | pol :: ps =>
    match evalRules env p destLeg pol.rules with
    | .noMatch => evalPolicies env p destLeg ps
    | d => d

/-- Tiers in order: allow/deny decide; pass (or an end-of-tier pass) moves to the
next tier; a tier whose policies do not match applies its end action. `noMatch`
= fell out of the last tier. -/
def evalTiers (env : Env) (p : Pkt) (destLeg : Leg) : List Tier → Dec
  | [] => .noMatch
  | t :: ts =>
    match evalPolicies env p destLeg t.policies with
    | .allow => .allow
    | .deny => .deny
    | .pass => evalTiers env p destLeg ts
    | .noMatch =>
      match t.endAction with
      | .pass => evalTiers env p destLeg ts
      | _ => .deny

/-- Profiles: first matching rule decides; what a `pass` in a PROFILE means is
the open question of C12 — here it is a parameter (`passDeny = true`: deny,
as the BPF builder and the app-policy checker do; `false`: continue with the
next profile, as the iptables/nftables renderer does). No match: deny. -/
def evalProfiles (passDeny : Bool) (env : Env) (p : Pkt) : List Policy → Dec
  | [] => .deny
  | pr :: ps =>
    match evalRules env p .dest pr.rules with
    | .allow => .allow
    | .deny => .deny
    | .pass => if passDeny then .deny else evalProfiles passDeny env p ps
    | .noMatch => evalProfiles passDeny env p ps

inductive Verdict | allow | deny | xdpPass
deriving DecidableEq, Repr, Inhabited

def toOrFromHost (p : Pkt) : Bool := p.flags &&& 12 != 0

/-- The workload part (after host policy allowed the packet). -/
def workloadVerdict (env : Env) (r : Rules) (p : Pkt) : Verdict :=
  if r.forHostInterface then .allow
  else
    match evalTiers env p .dest r.tiers with
    | .allow => .allow
    | .deny => .deny
    | _ =>
      match evalProfiles true env p r.profiles with
      | .allow => .allow
      | _ => .deny

/-- The reference verdict of a policy program for `Rules`. -/
def verdict (env : Env) (r : Rules) (p : Pkt) : Verdict :=
  if r.forXDP then
    if r.suppressNormalHostPolicy then workloadVerdict env r p
    else
      match evalTiers env p .destPreNAT r.hostNormalTiers with
      | .allow => workloadVerdict env r p
      | .deny => .deny
      | _ => .xdpPass
  else
    match evalTiers env p .destPreNAT r.hostPreDnatTiers with
    | .allow => workloadVerdict env r p
    | .deny => .deny
    | _ =>
      if toOrFromHost p then
        if r.suppressNormalHostPolicy then workloadVerdict env r p
        else
          match evalTiers env p .dest r.hostNormalTiers with
          | .allow => workloadVerdict env r p
          | .deny => .deny
          | _ =>
            match evalProfiles true env p r.hostProfiles with
            | .allow => workloadVerdict env r p
            | _ => .deny
      else
        match evalTiers env p .dest r.hostForwardTiers with
        | .deny => .deny
        | _ => workloadVerdict env r p

/-- What the verdict must look like at program exit. -/
structure Obs where
  kind : String      -- "tail" | "exit"
  target : Nat       -- tail: jump-map index; exit: R0
  rc : Option Nat    -- pol_rc (none: unspecified)
deriving DecidableEq, Repr

def expectedObs (env : Env) (xdp : Bool) (v : Verdict) : Obs :=
  let shot : Nat := if xdp then 1 else 2
  match v with
  | .allow =>
    if env.tailOK then
      ⟨"tail", if env.c.useJmps then (BitVec.ofInt 32 env.c.allowJmp).toNat else env.cb0.toNat, some 1⟩
    else ⟨"exit", shot, some 10⟩
  | .deny =>
    if env.tailOK then
      ⟨"tail", if env.c.useJmps then (BitVec.ofInt 32 env.c.denyJmp).toNat else env.cb1.toNat, some 2⟩
    else ⟨"exit", shot, some 2⟩
  | .xdpPass => ⟨"exit", 2, none⟩

/-- What an outcome looks like from outside: how the program ended, the jump
index / return value, and `pol_rc`. -/
def Outcome.obs : Outcome → Option Obs
  | .exit r0 m => some ⟨"exit", r0.toNat, (getBytes m.st 92 4).map leNat⟩
  | .tail _ idx m => some ⟨"tail", idx.toNat, (getBytes m.st 92 4).map leNat⟩
  | .fault => none

/-- The observation `o` is what `e` demands (`e.rc = none`: `pol_rc` unspecified). -/
def Obs.agrees (e o : Obs) : Bool :=
  e.kind == o.kind && e.target == o.target && (e.rc.isNone || e.rc == o.rc)

end CalicoVerif.C11
