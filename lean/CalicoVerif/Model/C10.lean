import CalicoVerif.Model.Netfilter
/-!
C10 — model of `felix/rules/dispatch.go`:
`sortAndDivideEndpointNamesToPrefixTree`, `buildSingleDispatchChainTree`,
`buildSingleDispatchChainsVMAP`, `interfaceNameDispatchChains`,
`WorkloadDispatchChains`, `hostDispatchChains`, `DispatchMappings`.

Loops over Go maps are restructured: the `prefixToNames` map is modelled as
"filter the de-duplicated sorted names by their prefix" and `prefixes` as the
first occurrences of the prefixes (same content, same order).
-/
namespace CalicoVerif.C10
open CalicoVerif.Netfilter

/-- bytewise lexicographic `≤` (Go string comparison, as used by `sort.Strings`). -/
def bytesLe : Bytes → Bytes → Bool
  | [], _ => true
  | _ :: _, [] => false
  | a :: as, b :: bs => a < b || (a == b && bytesLe as bs)

def sortNames (names : List Bytes) : List Bytes := names.mergeSort bytesLe

/-- `stringutils.commonPrefixTwoStrings`. -/
def commonPrefix2 : Bytes → Bytes → Bytes
  | a :: as, b :: bs => if a = b then a :: commonPrefix2 as bs else []
  | _, _ => []

/-- `stringutils.CommonPrefix`. -/
def commonPrefix : List Bytes → Bytes
  | [] => []
  | s :: ss => ss.foldl commonPrefix2 s

/-- The `if name == lastName { continue }` filter of the sorted name loop. -/
def dedupAdj (last : Option Bytes) : List Bytes → List Bytes
  | [] => []
  | n :: ns => if some n = last then dedupAdj last ns else n :: dedupAdj (some n) ns

/-- `prefix := commonPrefix; if len(name) > len(commonPrefix) { prefix = name[:len(commonPrefix)+1] }`. -/
def prefixOf (cp name : Bytes) : Bytes :=
  if name.length > cp.length then name.take (cp.length + 1) else cp

/-- keep the first occurrence of every element, in order -/
def firstOccurrences : List Bytes → List Bytes → List Bytes
  | _, [] => []
  | seen, x :: xs => if seen.contains x then firstOccurrences seen xs else x :: firstOccurrences (x :: seen) xs

structure Tree where
  commonPrefix : Bytes
  /-- `(prefix, prefixToNames[prefix])` in the order of `prefixes` -/
  buckets : List (Bytes × List Bytes)
  deriving Repr

/-- `sortAndDivideEndpointNamesToPrefixTree`; `none` = `log.Panic` (empty interface name). -/
def sortAndDivide (names : List Bytes) : Option Tree :=
  let sorted := sortNames names
  if sorted.any (· == []) then none else
  let cp := commonPrefix sorted
  let uniq := dedupAdj none sorted
  let prefixes := firstOccurrences [] (uniq.map (prefixOf cp))
  some { commonPrefix := cp
         buckets := prefixes.map fun p => (p, uniq.filter fun n => prefixOf cp n == p) }

/-- `hash.GetLengthLimitedID(prefix, name, maxLen)` for names short enough not to be hashed
(interface names are at most 15 bytes, every prefix used here at most 10, limit 28/256). -/
def endpointChainName (pfx : String) (name : Bytes) : String :=
  if name = [] then pfx ++ "_" else pfx ++ escBytes name

inductive IfDir where
  | inp | out
  deriving DecidableEq, Repr

def ifaceClause : IfDir → Bytes → Clause
  | .inp, p => .inIface p
  | .out, p => .outIface p

def endpointRule (endpointPfx : String) (d : IfDir) (n : Bytes) : Rule :=
  { clauses := [ifaceClause d n], action := .goto (endpointChainName endpointPfx n) }

/-- `childChainName := fmt.Sprintf("%s%s-%s", chainName, infix, nextChar)` -/
def childChainName (chainName ifx : String) (cp pfx : Bytes) : String :=
  s!"{chainName}{ifx}-{escBytes (pfx.drop cp.length)}"

/-- the rule a bucket contributes to the root chain -/
def rootRule (dp : Dataplane) (chainName ifx endpointPfx : String) (d : IfDir) (cp : Bytes)
    (b : Bytes × List Bytes) : Rule :=
  match b.2 with
  | [single] => endpointRule endpointPfx d single
  | _ => { clauses := [ifaceClause d (b.1 ++ [wildcardByte dp])],
           action := .goto (childChainName chainName ifx cp b.1) }

/-- the child chain a bucket with more than one name gets -/
def childChain (chainName ifx endpointPfx : String) (d : IfDir) (cp : Bytes) (endRules : List Rule)
    (b : Bytes × List Bytes) : Option Chain :=
  match b.2 with
  | [_] => none
  | names => some { name := childChainName chainName ifx cp b.1,
                    rules := names.map (endpointRule endpointPfx d) ++ endRules }

/-- `buildSingleDispatchChainTree`: returns (child chains, root chain). -/
def buildTree (dp : Dataplane) (chainName : String) (t : Tree) (endpointPfx : String) (d : IfDir)
    (endRules : List Rule) (ifx : String) : List Chain × Chain :=
  (t.buckets.filterMap (childChain chainName ifx endpointPfx d t.commonPrefix endRules),
   { name := chainName,
     rules := t.buckets.map (rootRule dp chainName ifx endpointPfx d t.commonPrefix) ++ endRules })

def chainFromWl := "cali-from-wl-dispatch"
def chainToWl := "cali-to-wl-dispatch"
def pfxFromWl := "cali-fw-"
def pfxToWl := "cali-tw-"

/-- `buildSingleDispatchChainsVMAP` -/
def buildVmap (chainName : String) (d : IfDir) (endRules : List Rule) : Chain :=
  let m : Action := match d with
    | .inp => .vmap .src chainFromWl
    | .out => .vmap .dst chainToWl
  { name := chainName, rules := ({ action := m } : Rule) :: endRules }

/-- `buildSingleDispatchChains` -/
def buildSingle (dp : Dataplane) (chainName : String) (t : Tree) (endpointPfx : String) (d : IfDir)
    (endRules : List Rule) (ifx : String) : List Chain × Chain :=
  if dp = .nft ∧ (endpointPfx = pfxFromWl ∨ endpointPfx = pfxToWl) then
    ([], buildVmap chainName d endRules)
  else buildTree dp chainName t endpointPfx d endRules ifx

/-- `interfaceNameDispatchChains`; `none` = panic. -/
def interfaceNameDispatchChains (dp : Dataplane) (names : List Bytes)
    (fromPfx toPfx fromChain toChain : String) (fromEnd toEnd : List Rule) : Option (List Chain) :=
  match sortAndDivide names with
  | none => none
  | some t =>
    let a := if fromPfx ≠ "" then
        let (cs, root) := buildSingle dp fromChain t fromPfx .inp fromEnd ""
        cs ++ [root] else []
    let b := if toPfx ≠ "" then
        let (cs, root) := buildSingle dp toChain t toPfx .out toEnd ""
        cs ++ [root] else []
    some (a ++ b)

def denyAction (reject : Bool) : Action := if reject then .reject else .drop

def unknownIfaceRules (reject : Bool) : List Rule :=
  [{ action := denyAction reject, comments := ["Unknown interface"] }]

/-- `WorkloadDispatchChains` -/
def workloadDispatchChains (dp : Dataplane) (reject : Bool) (names : List Bytes) : Option (List Chain) :=
  interfaceNameDispatchChains dp names pfxFromWl pfxToWl chainFromWl chainToWl
    (unknownIfaceRules reject) (unknownIfaceRules reject)

/-- `DispatchMappings` as sorted association lists (from, to); the value is the chain of the
single `goto <chain>` member. -/
def dispatchMappings (names : List Bytes) : List (Bytes × String) × List (Bytes × String) :=
  let ks := dedupAdj none (sortNames names)
  (ks.map fun n => (n, endpointChainName pfxFromWl n),
   ks.map fun n => (n, endpointChainName pfxToWl n))

inductive Directions where
  | both | from | to
  deriving DecidableEq, Repr

def skipWorkloadRule (dp : Dataplane) (p : Bytes) : Rule :=
  { clauses := [.outIface (p ++ [wildcardByte dp])], action := .ret,
    comments := ["Skip egress WHEP policy for traffic to local workload"] }

/-- `hostDispatchChains` -/
def hostDispatchChains (dp : Dataplane) (names : List Bytes) (defaultIface : Bytes)
    (wlPrefixes : List Bytes) (dirs : Directions) (applyOnForward : Bool) : Option (List Chain) :=
  let hasDef := defaultIface ≠ []
  let gotoDef (pfx : String) : List Rule :=
    if hasDef then [{ action := .goto (endpointChainName pfx defaultIface) }] else []
  let fromEnd := gotoDef "cali-fh-"
  let fromEndFwd := gotoDef "cali-fhfw-"
  let skip : List Rule := if hasDef ∧ ¬ applyOnForward then
      wlPrefixes.map (skipWorkloadRule dp)
    else []
  let toEnd := skip ++ gotoDef "cali-th-"
  let toEndFwd := gotoDef "cali-thfw-"
  match dirs with
  | .from => interfaceNameDispatchChains dp names "cali-fh-" "" "cali-from-host-endpoint" "" fromEnd toEnd
  | .to => interfaceNameDispatchChains dp names "" "cali-th-" "" "cali-to-host-endpoint" fromEnd toEnd
  | .both =>
    let main := interfaceNameDispatchChains dp names "cali-fh-" "cali-th-" "cali-from-host-endpoint"
      "cali-to-host-endpoint" fromEnd toEnd
    if ¬ applyOnForward then main else
    match main, interfaceNameDispatchChains dp names "cali-fhfw-" "cali-thfw-" "cali-from-hep-forward"
      "cali-to-hep-forward" fromEndFwd toEndFwd with
    | some a, some b => some (a ++ b)
    | _, _ => none

/-! ### Evaluation helpers used by the driver and by the theorems -/

/-- verdict map contents for the nft workload dispatch -/
def vmapEnv (names : List Bytes) (mapName : String) (key : Bytes) : Option Action :=
  let (f, t) := dispatchMappings names
  let tbl := if mapName = chainFromWl then f else if mapName = chainToWl then t else []
  (tbl.find? fun kv => kv.1 == key).map fun kv => .goto kv.2

def mkEnv (dp : Dataplane) (names : List Bytes) : Env := { dp := dp, vmap := vmapEnv names }

/-! ### `felix/nftables/maps.go`: desired / dataplane tracking of one verdict map -/

/-- one verdict map element: interface name → chain of the `goto` verdict -/
abbrev Member := Bytes × String

/-- `Maps` restricted to one map: the members we were told about (`Desired()`) and the members
we believe are in the kernel (`Dataplane()`), both as sets. -/
structure MapState where
  desired : List Member := []
  dataplane : List Member := []
  deriving Repr, Inhabited

/-- `AddOrReplaceMap`: the desired member set becomes exactly the new one (members that are no
longer wanted are deleted from `Desired()`, new ones added) — also when the new set is empty. -/
def MapState.addOrReplace (s : MapState) (members : List Member) : MapState :=
  { s with desired := members }

/-- `MapUpdates().MembersToDel`: in the dataplane but not desired -/
def MapState.pendingDeletions (s : MapState) : List Member := s.dataplane.filter (fun m => !s.desired.contains m)
/-- `MapUpdates().MembersToAdd`: desired but not in the dataplane -/
def MapState.pendingAdds (s : MapState) : List Member := s.desired.filter (fun m => !s.dataplane.contains m)

/-- one successful `Apply()`: the transaction deletes `MembersToDel`, adds `MembersToAdd`, and
`FinishMapUpdates` records both in `Dataplane()` -/
def MapState.apply (s : MapState) : MapState :=
  { s with dataplane := s.dataplane.filter (fun m => !s.pendingDeletions.contains m) ++ s.pendingAdds }

/-- the kernel's verdict for a key -/
def MapState.verdict (s : MapState) (key : Bytes) : Option Action :=
  (s.dataplane.find? fun kv => kv.1 == key).map fun kv => .goto kv.2

/-- both workload dispatch maps -/
structure MapsState where
  fromWl : MapState := {}
  toWl : MapState := {}
  deriving Repr, Inhabited

/-- what the endpoint manager does for a new set of workload interfaces, followed by `Apply()` -/
def MapsState.setWorkloads (s : MapsState) (names : List Bytes) : MapsState :=
  let (f, t) := dispatchMappings names
  { fromWl := (s.fromWl.addOrReplace f).apply, toWl := (s.toWl.addOrReplace t).apply }

/-- the lookup environment given by the kernel state of the maps -/
def MapsState.env (s : MapsState) : Env :=
  { dp := .nft
    vmap := fun mapName key =>
      if mapName = chainFromWl then s.fromWl.verdict key
      else if mapName = chainToWl then s.toWl.verdict key else none }

/-! ### endpoint manager: which host interfaces are protected (`resolveHostEndpoints`, named HEPs) -/

/-- the host endpoints currently configured (`rawHostEndpoints`: id → interface name, `none` = the
all-interfaces `*` endpoint) and the host interfaces that currently exist (`hostIfaceToAddrs`) -/
structure EpmState where
  heps : List (String × Option Bytes) := []
  ifaces : List Bytes := []
  deriving Repr, Inhabited

def EpmState.setHep (s : EpmState) (id : String) (name : Option Bytes) : EpmState :=
  { s with heps := s.heps.filter (·.1 != id) ++ [(id, name)] }
def EpmState.rmHep (s : EpmState) (id : String) : EpmState := { s with heps := s.heps.filter (·.1 != id) }
def EpmState.setIface (s : EpmState) (n : Bytes) (present : Bool) : EpmState :=
  { s with ifaces := s.ifaces.filter (· != n) ++ (if present then [n] else []) }

/-- existing interfaces that some named host endpoint claims -/
def EpmState.names (s : EpmState) : List Bytes := s.ifaces.filter fun n => s.heps.any (·.2 == some n)
/-- is a wildcard host endpoint configured? -/
def EpmState.wild (s : EpmState) : Bool := s.heps.any (·.2 == none)
/-- the default chain's pseudo interface (canonical name `*`) -/
def EpmState.dflt (s : EpmState) : Bytes := if s.wild then [42] else []

/-- the filter-table host dispatch chains the endpoint manager must have programmed: a function of
the CURRENT host endpoints and interfaces only -/
def EpmState.filterDispatch (s : EpmState) : Option (List Chain) :=
  hostDispatchChains .ipt s.names s.dflt [[99, 97, 108, 105]] .both true
/-- the mangle-table egress dispatch (`ToHostDispatchChains`) -/
def EpmState.mangleDispatch (s : EpmState) : Option (List Chain) :=
  hostDispatchChains .ipt s.names s.dflt [[99, 97, 108, 105]] .to false

/-- Decidable side condition of the dispatch theorems: the rendered chain names are pairwise
distinct and none of the external targets (endpoint chains) is the name of a dispatch chain.
(Evaluated by the driver on every generated case and compared with the same check on the real
chains.) -/
def chainNamesOK (chains : List Chain) (ext : List String) : Bool :=
  decide ((chains.map (·.name)).Nodup) && ext.all (fun t => (lookupChain chains t).isNone)

def showResult : Result → String
  | .verdict .accept _ => "accept"
  | .verdict .drop _ => "drop"
  | .verdict .reject _ => "reject"
  | .returned _ => "return"
  | .missing c => "to:" ++ c
  | .outOfFuel => "out-of-fuel"

end CalicoVerif.C10
