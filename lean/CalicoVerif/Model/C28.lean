/-
C28 — model of the two halves of the cluster-route ownership decision.

confd/BIRD half (confd/pkg/backends/calico/bgp_processor.go):
  clusterRoutePolicyFromBGPConfig, clusterRoutePolicy.programsPool, poolUsesIPIP,
  poolUsesVXLAN, and the kernel-filter verdict of processIPPool (forProgrammingKernel = true).
Felix half (felix/config): how the raw ProgramClusterRoutes setting becomes the stored value
  (config parser: `none` → zero value, case-insensitive `oneof`, parse failure → default) and
  Config.ProgramIPIPClusterRoutes / ProgramNoEncapClusterRoutes.

The decision TABLES (`BgpTable`, `FelixTable`) are parameters here; `Gen/C28.lean` holds the
ones regenerated from the source on every run.  A setting is `Option Str` (`none` = absent);
strings are byte lists (`Str`) so that every finite fact is checkable by `decide`.
Core Lean only.
-/
namespace CalicoVerif.C28

abbrev Str := List Nat

/-- `encap.Mode` of an IP pool: `""` (Never), `"always"`, `"cross-subnet"`, anything else. -/
inductive Mode where
  | never | always | crossSubnet | other
deriving Repr, DecidableEq

def allModes : List Mode := [.never, .always, .crossSubnet, .other]

/-- `poolUsesIPIP` / `poolUsesVXLAN`: mode is Always or CrossSubnet. -/
def modeOn (m : Mode) : Bool := m == .always || m == .crossSubnet

/-- `clusterRoutePolicy`. -/
structure Policy where
  ipip : Bool
  noEncap : Bool
deriving Repr, DecidableEq

structure BgpTable where
  cases : List (Str × Policy)
  dflt : Policy

/-- `clusterRoutePolicyFromBGPConfig`: `none` = nil config or nil field. -/
def bgpPolicy (T : BgpTable) : Option Str → Policy
  | none => T.dflt
  | some s =>
    match T.cases.lookup s with
    | some p => p
    | none => T.dflt

/-- `clusterRoutePolicy.programsPool`. -/
def programsPool (p : Policy) (ipip vxlan : Mode) : Bool :=
  if modeOn vxlan then false
  else if modeOn ipip then p.ipip
  else p.noEncap

/-- `processIPPool(…, forProgrammingKernel = true, …)`: does the BIRD kernel filter `accept`
the pool's routes (BIRD programs them) — VXLAN pools are rejected first. -/
def birdPrograms (p : Policy) (ipip vxlan : Mode) : Bool :=
  if modeOn vxlan then false
  else if programsPool p ipip vxlan then true
  else false

structure FelixTable where
  oneof : List Str
  dflt : Str
  ipipSet : List Str
  noEncapSet : List Str

/-- ASCII `strings.ToLower` (inputs are assumed ASCII). -/
def lower (s : Str) : Str := s.map (fun b => if 65 ≤ b ∧ b ≤ 90 then b + 32 else b)

/-- "none" -/
def noneStr : Str := [110, 111, 110, 101]

/-- The value the Felix config parser stores in `Config.ProgramClusterRoutes` for a raw setting
from one source (Config.resolve): absent → default; `none` (any case) → zero value `""` (the
param is not NonZero); case-insensitive match of a `oneof` option → its canonical spelling;
anything else is a parse failure → default (the param is not DieOnParseFailure). -/
def felixValue (T : FelixTable) : Option Str → Str
  | none => T.dflt
  | some s =>
    if lower s = noneStr then []
    else match T.oneof.find? (fun o => lower o == lower s) with
      | some o => o
      | none => T.dflt

/-- `Config.ProgramIPIPClusterRoutes()` / `ProgramNoEncapClusterRoutes()` on the stored value. -/
def felixIPIP (T : FelixTable) (v : Str) : Bool := T.ipipSet.contains v
def felixNoEncap (T : FelixTable) (v : Str) : Bool := T.noEncapSet.contains v

/-- Does Felix program the pool's cluster routes: VXLAN always; IPIP / unencapsulated pools by
the two predicates (pool classes as in the confd half: VXLAN first, then IPIP). -/
def felixPrograms (T : FelixTable) (v : Str) (ipip vxlan : Mode) : Bool :=
  if modeOn vxlan then true
  else if modeOn ipip then felixIPIP T v
  else felixNoEncap T v

/-! ## Felix's consumers of the two booleans (dataplane side)

`FelixEnv` is what the consumers look at: the two booleans as plumbed by felix/dataplane/driver.go,
`Encapsulation.NoEncapNeeded/IPIPEnabled/VXLANEnabled` as computed by
calc.EncapsulationCalculator from the pools present, and the unrelated switches of the route
resolver gate.  `FelixGuards` are the guard conditions regenerated from the source. -/

/-- Felix's own pool classification (calc.EncapsulationCalculator.handleModelPool): a mode is "on"
iff it is not `encap.Never` — ANY other string counts, unlike confd's `modeOn`. -/
def modeOnFelix (m : Mode) : Bool := m != .never

/-- `felixPrograms` with Felix's own classification of the pool. -/
def felixProgramsOwnClass (T : FelixTable) (v : Str) (ipip vxlan : Mode) : Bool :=
  if modeOnFelix vxlan then true
  else if modeOnFelix ipip then felixIPIP T v
  else felixNoEncap T v

structure FelixEnv where
  progIPIP : Bool
  progNoEncap : Bool
  noEncapNeeded : Bool
  ipipEnabled : Bool
  vxlanEnabled : Bool
  vxlanEnabledV6 : Bool
  bpf : Bool
  wg : Bool
  wg6 : Bool

structure FelixGuards where
  /-- int_dataplane.go: the IPIP manager is started -/
  ipipMgr : FelixEnv → Bool
  /-- ipip_mgr.go: the manager hands routes to its route manager -/
  ipipRoutes : FelixEnv → Bool
  /-- int_dataplane.go: the noEncap manager (programs unencapsulated cluster routes) is started -/
  noEncapMgr : FelixEnv → Bool
  /-- int_dataplane.go: the VXLAN manager is started -/
  vxlanMgr : FelixEnv → Bool
  /-- calc_graph.go: the L3 route resolver (source of the RouteUpdates all three managers consume) is wired in -/
  resolver : FelixEnv → Bool

/-- Which pool classes exist in the cluster (IPv4), as EncapsulationCalculator.updatePool counts
them: a pool is "no-encap" iff neither mode is on. -/
structure Pools where
  ipip : Bool
  vxlan : Bool
  noEncap : Bool

/-- The environment Felix derives from the stored setting `v` and the pools present
(`NoEncapNeeded() = ProgramNoEncapClusterRoutes() && len(noEncapPools) > 0`; no
IpInIpEnabled/VXLANEnabled overrides). -/
def felixEnv (T : FelixTable) (v : Str) (ps : Pools) (vx6 bpf wg wg6 : Bool) : FelixEnv :=
  { progIPIP := felixIPIP T v, progNoEncap := felixNoEncap T v,
    noEncapNeeded := felixNoEncap T v && ps.noEncap,
    ipipEnabled := ps.ipip, vxlanEnabled := ps.vxlan, vxlanEnabledV6 := vx6, bpf := bpf, wg := wg, wg6 := wg6 }

inductive PoolClass where
  | vxlan | ipip | noEncap
deriving Repr, DecidableEq

/-- Does Felix's dataplane program the cluster routes of pool class `c`. -/
def felixDataplanePrograms (G : FelixGuards) (e : FelixEnv) : PoolClass → Bool
  | .vxlan => G.vxlanMgr e
  | .ipip => G.ipipMgr e && G.ipipRoutes e
  | .noEncap => G.noEncapMgr e

/-- Pool modes representing a class (for `felixPrograms` / `birdPrograms`). -/
def PoolClass.modes : PoolClass → Mode × Mode
  | .vxlan => (.never, .always)
  | .ipip => (.always, .never)
  | .noEncap => (.never, .never)

def Pools.has (ps : Pools) : PoolClass → Bool
  | .vxlan => ps.vxlan
  | .ipip => ps.ipip
  | .noEncap => ps.noEncap

/-! ## dynamic part: the route managers' per-destination bookkeeping (felix/dataplane/linux/route_mgr.go)

Felix's dataplane hands every `RouteUpdate` to all three managers; `routeManager.OnUpdate` of the
manager for pool type `ty` first forgets the destination (`m.deleteRoute(msg.Dst)`), then stores
the message again iff it is of its own pool type and qualifies (remote block / tunnel / borrowed
/ local block).  So per destination the LAST message wins, and a message of another pool type
removes the destination. -/

structure RMsg where
  dst : Nat
  poolType : PoolClass
  qualifies : Bool := true
deriving Repr, DecidableEq

/-- `routeManager.OnUpdate(*proto.RouteUpdate)` on the set of destinations the manager programs. -/
def rmUpdate (ty : PoolClass) (prog : List Nat) (m : RMsg) : List Nat :=
  let rest := prog.filter (fun d => d != m.dst)
  if m.poolType = ty ∧ m.qualifies = true then m.dst :: rest else rest

def rmRun (ty : PoolClass) (st : List Nat) (hist : List RMsg) : List Nat :=
  hist.foldl (rmUpdate ty) st

/-- The last message for destination `d` in a history (`acc` = last one seen so far). -/
def lastFor (d : Nat) : Option RMsg → List RMsg → Option RMsg
  | acc, [] => acc
  | acc, m :: t => lastFor d (if m.dst = d then some m else acc) t

/-- Pool `p` has a remote block (destination `2p`) and a local block (destination `2p+1`). -/
def poolMsgs (p : Nat) (c : PoolClass) : List RMsg := [⟨2 * p, c, true⟩, ⟨2 * p + 1, c, true⟩]

def Pools.ofClasses (cs : List PoolClass) : Pools :=
  ⟨cs.contains .ipip, cs.contains .vxlan, cs.contains .noEncap⟩

/-- State of a running Felix: pool classes, the environment its managers were started with, and
what each manager programs. -/
structure Dyn where
  classes : List PoolClass
  env : FelixEnv
  progIPIP : List Nat
  progVXLAN : List Nat
  progNoEncap : List Nat

/-- Feed messages to the three managers; a manager that is not started (or, for IPIP, does not hand
routes to its route manager) ignores them. -/
def Dyn.feed (G : FelixGuards) (s : Dyn) (ms : List RMsg) : Dyn :=
  { s with
    progIPIP := if felixDataplanePrograms G s.env .ipip then rmRun .ipip s.progIPIP ms else s.progIPIP,
    progVXLAN := if felixDataplanePrograms G s.env .vxlan then rmRun .vxlan s.progVXLAN ms else s.progVXLAN,
    progNoEncap := if felixDataplanePrograms G s.env .noEncap then rmRun .noEncap s.progNoEncap ms else s.progNoEncap }

def allPoolMsgs (cs : List PoolClass) : List RMsg :=
  cs.zipIdx.flatMap (fun x => poolMsgs x.2 x.1)

/-- Felix (re)start with the given pools. -/
def Dyn.start (T : FelixTable) (G : FelixGuards) (v : Str) (cs : List PoolClass) : Dyn :=
  let e := felixEnv T v (Pools.ofClasses cs) false false false false
  Dyn.feed G ⟨cs, e, [], [], []⟩ (allPoolMsgs cs)

def encapFlags (e : FelixEnv) : Bool × Bool × Bool := (e.ipipEnabled, e.vxlanEnabled, e.noEncapNeeded)

/-- Pool `p` changes class.  If the encapsulation flags change Felix restarts (fresh managers);
otherwise the resolver re-sends the pool's blocks with the new pool type.  Returns (state, restarted). -/
def Dyn.setClass (T : FelixTable) (G : FelixGuards) (v : Str) (s : Dyn) (p : Nat) (c : PoolClass) : Dyn × Bool :=
  let cs := s.classes.set p c
  let e := felixEnv T v (Pools.ofClasses cs) false false false false
  if encapFlags e ≠ encapFlags s.env then (Dyn.start T G v cs, true)
  else (Dyn.feed G { s with classes := cs } (poolMsgs p c), false)

/-- Does some Felix manager program destination `d`. -/
def Dyn.programs (s : Dyn) (d : Nat) : Bool :=
  s.progIPIP.contains d || s.progVXLAN.contains d || s.progNoEncap.contains d

/-! ## confd side dynamics (confd/pkg/backends/calico/client.go onUpdates → updateBGPConfigCache)

The client caches the CURRENT default BGPConfiguration (`c.globalBGPConfig = v3res`, `nil` on a
delete event); `processIPPools` reads the policy from that cache on every render.  A setting is
`Option Str` (`none` = field absent); the cached resource is `Option (Option Str)` (`none` = no
resource). -/

inductive BgpEvent where
  | set (v : Option Str)   -- KVNew / KVUpdated of BGPConfiguration "default"
  | del                    -- KVDeleted
deriving Repr, DecidableEq

def confdStep (_ : Option (Option Str)) : BgpEvent → Option (Option Str)
  | .set v => some v
  | .del => none

def confdRun (st : Option (Option Str)) (hist : List BgpEvent) : Option (Option Str) :=
  hist.foldl confdStep st

/-- The setting `clusterRoutePolicyFromBGPConfig` sees: no resource and absent field are alike. -/
def confdSetting : Option (Option Str) → Option Str
  | none => none
  | some v => v

/-- Verdict of the rendered IPv4 `calico_kernel_programming` filter for a pool: `processIPPools`
emits the per-pool statements only when the node's `network_v4` is known; with no statement the
template's final `accept;` applies. -/
def birdKernelV4 (hasSubnet : Bool) (p : Policy) (ipip vxlan : Mode) : Bool :=
  if hasSubnet then birdPrograms p ipip vxlan else true

/-! ## pool attributes that must NOT matter

An IP pool also has a `disabled` flag (closed to new assignments; it keeps its blocks and workloads,
the route resolver keeps emitting its routes, confd never looks at the flag).  The model carries it
only to state that ownership ignores it. -/

structure PoolSpec where
  cls : PoolClass
  disabled : Bool
deriving Repr, DecidableEq

def Dyn.startSpecs (T : FelixTable) (G : FelixGuards) (v : Str) (ps : List PoolSpec) : Dyn :=
  Dyn.start T G v (ps.map (·.cls))

def Dyn.setSpec (T : FelixTable) (G : FelixGuards) (v : Str) (s : Dyn) (p : Nat) (x : PoolSpec) : Dyn × Bool :=
  Dyn.setClass T G v s p x.cls

end CalicoVerif.C28
