/-
C15 — model of felix/iptables/table.go (`Table`, legacy iptables mode) and of
iptables-save / iptables-restore as Felix drives them (semantics of the repo's mock,
felix/iptables/testutils, made atomic: a failing transaction leaves the table unchanged).

* Rule hashes (`generictables.RuleHashes`, chained SHA-224) are NOT computed by the model: every
  desired rule arrives with the hash the real renderer computed for it (`DRule.hash`), i.e. the
  hash function is uninterpreted.
* A kernel rule is classified by its constructor: `felix h spec` carries the `cali:<h>` comment,
  `old spec` matches the old-insert regexp (a jump to a Calico chain without a hash comment),
  `foreign spec` matches neither.  That the real regexps classify the rendered text the same way
  is part of what the correspondence run checks.
* Timers (refresh interval, post-write back-off), the xtables lock and feature detection are not
  modelled; an out-of-date cache is an explicit `invalidate` op.
* Go map iteration order only affects the order of lines inside one atomic transaction; the model
  writes them in a canonical order and the harness canonicalises the real input the same way.
* The recursive incref/decref cascade is fuel-bounded (fuel 64 > any generated nesting).
Core Lean only (linked into the driver executable).
-/
namespace CalicoVerif.C15

abbrev Map (α : Type) := List (String × α)

namespace Map
variable {α : Type}
def get (m : Map α) (k : String) : Option α := List.lookup k m
def has (m : Map α) (k : String) : Bool := (m.get k).isSome
def erase (m : Map α) (k : String) : Map α := m.filter (fun p => p.1 != k)
def set (m : Map α) (k : String) (v : α) : Map α := (k, v) :: m.erase k
def keys (m : Map α) : List String := m.map (·.1)
end Map

def sAdd (s : List String) (x : String) : List String := if x ∈ s then s else s ++ [x]
def sErase (s : List String) (x : String) : List String := s.filter (· != x)
def sortS (l : List String) : List String := l.mergeSort (fun a b => a ≤ b)
def hasPrefix (s p : String) : Bool := p.toList.isPrefixOf s.toList

/-- A desired rule: hash computed by the real renderer, rendered match+action, referenced chain. -/
structure DRule where
  hash : String
  spec : String
  ref : Option String
deriving DecidableEq, Repr, Inhabited

/-- A rule in the kernel table. -/
inductive KRule where
  | felix (hash spec : String)
  | old (spec : String)
  | foreign (spec : String)
deriving DecidableEq, Repr, Inhabited

/-- The rule as iptables-save prints it after `-A <chain> `. -/
def KRule.text : KRule → String
  | .felix h s => "-m comment --comment \"cali:" ++ h ++ "\" " ++ s
  | .old s => s
  | .foreign s => s

/-- What `readHashesAndRulesFrom` records for the rule. -/
def KRule.hash : KRule → String
  | .felix h _ => h
  | .old _ => "OLD INSERT RULE"
  | .foreign _ => ""

def KRule.isForeign : KRule → Bool
  | .foreign _ => true
  | _ => false

def DRule.k (r : DRule) : KRule := .felix r.hash r.spec

abbrev Kernel := Map (List KRule)

/-- Entry of `chainToFullRules`. -/
inductive FR where
  | dash
  | a (c : String) (r : KRule)   -- "-A c <text>"
  | i (c : String) (r : KRule)   -- "-I c <text>" (left behind by applyUpdates)
deriving DecidableEq, Repr, Inhabited

def FR.text : FR → String
  | .dash => "-"
  | .a c r => "-A " ++ c ++ " " ++ r.text
  | .i c r => "-I " ++ c ++ " " ++ r.text

/-- One line of iptables-restore input. -/
inductive RLine where
  | fwd (c : String)
  | append (c : String) (r : KRule)
  | insert (c : String) (r : KRule)
  | replace (c : String) (n : Nat) (r : KRule)
  | delIdx (c : String) (n : Nat)
  | delVal (c : String) (r : KRule)
  | delChain (c : String)
  | bad (text : String)
deriving DecidableEq, Repr, Inhabited

def RLine.chain : RLine → String
  | .fwd c => c | .append c _ => c | .insert c _ => c | .replace c _ _ => c
  | .delIdx c _ => c | .delVal c _ => c | .delChain c => c | .bad _ => ""

def RLine.text : RLine → String
  | .fwd c => ":" ++ c ++ " - -"
  | .append c r => "-A " ++ c ++ " " ++ r.text
  | .insert c r => "-I " ++ c ++ " " ++ r.text
  | .replace c n r => "-R " ++ c ++ " " ++ toString n ++ " " ++ r.text
  | .delIdx c n => "-D " ++ c ++ " " ++ toString n
  | .delVal c r => "-D " ++ c ++ " " ++ r.text
  | .delChain c => "--delete-chain " ++ c
  | .bad t => t

/-- Effect of one restore line (`none` = the transaction fails). -/
def kline (K : Kernel) : RLine → Option Kernel
  | .fwd c => some (K.set c [])
  | .append c r => (K.get c).map (fun rs => K.set c (rs ++ [r]))
  | .insert c r => (K.get c).map (fun rs => K.set c (r :: rs))
  | .replace c n r =>
    match K.get c with
    | some rs => if 1 ≤ n ∧ n ≤ rs.length then some (K.set c (rs.set (n - 1) r)) else none
    | none => none
  | .delIdx c n =>
    match K.get c with
    | some rs => if 1 ≤ n ∧ n ≤ rs.length then some (K.set c (rs.eraseIdx (n - 1))) else none
    | none => none
  | .delVal c r =>
    match K.get c with
    | some rs => if rs.contains r then some (K.set c (rs.filter (· != r))) else none
    | none => none
  | .delChain c =>
    match K.get c with
    | some [] => some (K.erase c)
    | _ => none
  | .bad _ => none

/-- An atomic iptables-restore transaction. -/
def krestore (K : Kernel) : List RLine → Option Kernel
  | [] => some K
  | l :: ls => (kline K l).bind (fun K' => krestore K' ls)

structure Chain where
  rules : List DRule
  force : Bool
deriving DecidableEq, Repr, Inhabited

structure T where
  prefixes : List String          -- HistoricChainPrefixes (ourChainsRegexp)
  insertMode : Bool := true       -- true = "insert", false = "append"
  ins : Map (List DRule) := []    -- chainToInsertedRules
  app : Map (List DRule) := []    -- chainToAppendedRules
  dirtyIA : List String := []
  chains : Map Chain := []        -- chainNameToChain
  refc : Map Int := []            -- chainRefCounts
  dirty : List String := []       -- dirtyChains
  inSync : Bool := false
  dpHashes : Map (List String) := []   -- chainToDataplaneHashes
  fullRules : Map (List FR) := []      -- chainToFullRules
deriving Repr, Inhabited

def kernelChains : List String := ["INPUT", "FORWARD", "OUTPUT"]

/-- `NewTable` for the filter table. -/
def T.new (prefixes : List String) (insertMode : Bool) : T :=
  { prefixes := prefixes, insertMode := insertMode
    ins := kernelChains.map (fun c => (c, [])), app := kernelChains.map (fun c => (c, []))
    dirtyIA := kernelChains, refc := kernelChains.map (fun c => (c, 1)) }

def T.ours (t : T) (name : String) : Bool := t.prefixes.any (fun p => hasPrefix name p)
def T.refd (t : T) (name : String) : Bool := (t.refc.get name).getD 0 > 0
def T.invalidate (t : T) : T := { t with inSync := false }

def refsOf (rules : List DRule) : List String := rules.filterMap (·.ref)

/-- `increfChain` (with the recursive `maybeIncrefReferredChains`). -/
def T.incref : Nat → T → String → T
  | 0, t, _ => t
  | f + 1, t, n =>
    let c := (t.refc.get n).getD 0 + 1
    let t := { t with refc := t.refc.set n c }
    if c == 1 then
      let t := { t with dirty := sAdd t.dirty n }
      match t.chains.get n with
      | some ch => (refsOf ch.rules).foldl (fun t x => T.incref f t x) t
      | none => t
    else t

/-- `decrefChain` (with the recursive `maybeDecrefReferredChains`). -/
def T.decref : Nat → T → String → T
  | 0, t, _ => t
  | f + 1, t, n =>
    if (t.refc.get n).getD 0 == 1 then
      let t := match t.chains.get n with
        | some ch => (refsOf ch.rules).foldl (fun t x => T.decref f t x) t
        | none => t
      { t with refc := t.refc.erase n, dirty := sAdd t.dirty n }
    else { t with refc := t.refc.set n ((t.refc.get n).getD 0 - 1) }

def fuel : Nat := 64

/-- `maybeIncrefReferredChains`. -/
def T.maybeIncref (t : T) (name : String) (rules : List DRule) : T :=
  if t.refd name then (refsOf rules).foldl (fun t x => T.incref fuel t x) t else t
/-- `maybeDecrefReferredChains`. -/
def T.maybeDecref (t : T) (name : String) (rules : List DRule) : T :=
  if t.refd name then (refsOf rules).foldl (fun t x => T.decref fuel t x) t else t

/-- `UpdateChain` (order as repaired in /repo e60ddc3: the old chain's own force reference is dropped BEFORE references
are taken on behalf of the new rules). -/
def T.updateChain (t : T) (name : String) (ch : Chain) : T :=
  let t := if ch.force then T.incref fuel t name else t
  let old := t.chains.get name
  let t := match old with
    | some o => if o.force then T.decref fuel t name else t
    | none => t
  let t := t.maybeIncref name ch.rules
  let t := match old with
    | some o => t.maybeDecref name o.rules
    | none => t
  let t := { t with chains := t.chains.set name ch }
  if t.refd name then { t with dirty := sAdd t.dirty name }.invalidate else t

/-- `RemoveChainByName`. -/
def T.removeChain (t : T) (name : String) : T :=
  match t.chains.get name with
  | some old =>
    let t := if old.force then T.decref fuel t name else t
    let t := t.maybeDecref name old.rules
    let t := { t with chains := t.chains.erase name }
    if t.refd name then { t with dirty := sAdd t.dirty name }.invalidate else t
  | none => t

/-- `InsertOrAppendRules`. -/
def T.setInserts (t : T) (c : String) (rules : List DRule) : T :=
  let old := (t.ins.get c).getD []
  let t := { t with ins := t.ins.set c rules, dirtyIA := sAdd t.dirtyIA c }
  let t := t.maybeIncref c rules
  let t := t.maybeDecref c old
  t.invalidate

/-- `AppendRules`. -/
def T.setAppends (t : T) (c : String) (rules : List DRule) : T :=
  let old := (t.app.get c).getD []
  let t := { t with app := t.app.set c rules, dirtyIA := sAdd t.dirtyIA c }
  let t := t.maybeIncref c rules
  let t := t.maybeDecref c old
  t.invalidate

def numEmpty (hs : List String) : Nat := (hs.filter (· == "")).length

/-- `expectedHashesForInsertAppendChain` (first component). -/
def T.expectedIA (t : T) (c : String) (numForeign : Nat) : List String :=
  let i := ((t.ins.get c).getD []).map (·.hash)
  let a := ((t.app.get c).getD []).map (·.hash)
  if t.insertMode then i ++ List.replicate numForeign "" ++ a
  else List.replicate numForeign "" ++ i ++ a

/-- `desiredStateOfChain`. -/
def T.desiredChain (t : T) (name : String) : Option Chain :=
  if t.refd name then t.chains.get name else none

/-- iptables-save as parsed by `readHashesAndRulesFrom`. -/
def readHashes (K : Kernel) : Map (List String) := K.map (fun p => (p.1, p.2.map KRule.hash))

def readFull (t : T) (K : Kernel) : Map (List FR) :=
  (K.filter (fun p => !t.ours p.1 && p.2.any (fun r => !r.isForeign))).map (fun p =>
    (p.1, p.2.map (fun r => if r.isForeign then FR.dash else FR.a p.1 r)))

/-- One iteration of the first loop of `loadDataplaneState` (a chain we think we programmed). -/
def T.knownStep (dp : Map (List String)) (t : T) (c : String) : T :=
  if t.dirty.contains c || t.dirtyIA.contains c then t
  else
    if !t.ours c then
      if ((t.ins.get c).getD []).isEmpty && ((t.app.get c).getD []).isEmpty then
        if ((dp.get c).getD []).any (· != "") then { t with dirtyIA := sAdd t.dirtyIA c } else t
      else
        if dp.get c != some (t.expectedIA c (numEmpty ((dp.get c).getD []))) then { t with dirtyIA := sAdd t.dirtyIA c } else t
    else
      if dp.get c != some ((t.dpHashes.get c).getD []) then { t with dirty := sAdd t.dirty c } else t

/-- First loop of `loadDataplaneState`: chains we think we programmed. -/
def T.loadCheckKnown (t : T) (dp : Map (List String)) : T :=
  (sortS t.dpHashes.keys.eraseDups).foldl (T.knownStep dp) t

/-- One iteration of the second loop of `loadDataplaneState` (a chain found in the dataplane). -/
def T.unknownStep (dp : Map (List String)) (t : T) (c : String) : T :=
  if t.dirty.contains c || t.dirtyIA.contains c then t
  else if t.dpHashes.has c then t
  else if !t.ours c then
    if ((dp.get c).getD []).any (· != "") then { t with dirtyIA := sAdd t.dirtyIA c } else t
  else { t with dirty := sAdd t.dirty c }

/-- Second loop of `loadDataplaneState`: chains that should not be there. -/
def T.loadCheckUnknown (t : T) (dp : Map (List String)) : T :=
  (sortS dp.keys.eraseDups).foldl (T.unknownStep dp) t

/-- `loadDataplaneState` after a successful iptables-save. -/
def T.load (t : T) (K : Kernel) : T :=
  let dp := readHashes K
  let t := t.loadCheckKnown dp
  let t := t.loadCheckUnknown dp
  { t with dpHashes := dp, fullRules := readFull t K, inSync := true }

/-- The per-position diff of `applyUpdates` for one of our chains (`i` = 0-based position). -/
def diffLines (c : String) (curLen : Nat) : Nat → List String → List DRule → List RLine
  | _, [], [] => []
  | i, p :: ps, r :: rs =>
    if p == r.hash then diffLines c curLen (i + 1) ps rs
    else RLine.replace c (i + 1) r.k :: diffLines c curLen (i + 1) ps rs
  | i, _ :: ps, [] => RLine.delIdx c (curLen + 1) :: diffLines c curLen (i + 1) ps []
  | i, [], r :: rs => RLine.append c r.k :: diffLines c curLen (i + 1) [] rs

/-- Delete-by-value lines for all our rules in a shared chain (`renderDeleteByValueLine` for every
position with a non-empty hash); `none` = "rendering delete for nonexistent rule". -/
def delLines (c : String) : List String → List FR → Option (List RLine)
  | [], _ => some []
  | h :: hs, frs =>
    if h == "" then delLines c hs frs.tail
    else
      match frs with
      | [] => none
      | fr :: rest =>
        (delLines c hs rest).map (fun ls =>
          (match fr with
           | .a _ r => RLine.delVal c r
           | fr => RLine.bad fr.text) :: ls)

/-- Lines and new cached state for one dirty insert/append chain. `none` = delete rendering error. -/
def T.iaLines (t : T) (c : String) : Option (List RLine × Option (List String × List FR)) :=
  let prev := t.dpHashes.get c
  let prevL := prev.getD []
  let newH := t.expectedIA c (numEmpty prevL)
  if prev == some newH then some ([], none)
  else
    let oldFull := (t.fullRules.get c).getD []
    match delLines c prevL oldFull with
    | none => none
    | some dels =>
      let i := (t.ins.get c).getD []
      let a := (t.app.get c).getD []
      let insL := if t.insertMode then i.reverse.map (fun r => RLine.insert c r.k) else i.map (fun r => RLine.append c r.k)
      let newFull := if t.insertMode then i.map (fun r => FR.i c r.k) ++ oldFull else oldFull ++ i.map (fun r => FR.a c r.k)
      let appL := a.map (fun r => RLine.append c r.k)
      some (dels ++ insL ++ appL, some (newH, newFull ++ a.map (fun r => FR.a c r.k)))

def iaLinesOf (o : Option (List RLine × Option (List String × List FR))) : List RLine :=
  match o with
  | some (ls, _) => ls
  | none => []

def iaUpdOf (c : String) (o : Option (List RLine × Option (List String × List FR))) :
    Option (String × List String × List FR) :=
  match o with
  | some (_, some (h, f)) => some (c, h, f)
  | _ => none

/-- Everything `applyUpdates` writes (canonical order) and the cache updates on success.
`none` = the delete-rendering error. -/
def T.plan (t : T) : Option (List RLine × Map (Option (List String)) × Map (List FR)) :=
  let dirty := sortS t.dirty
  let fwd := dirty.filter (fun c => (t.desiredChain c).isNone || !t.dpHashes.has c)
  let upd := dirty.filterMap (fun c => (t.desiredChain c).map (fun ch => (c, ch)))
  let updLines := upd.flatMap (fun p =>
    diffLines p.1 p.2.rules.length 0 ((t.dpHashes.get p.1).getD []) p.2.rules)
  let newH1 : Map (Option (List String)) := upd.map (fun p => (p.1, some (p.2.rules.map (·.hash))))
  let ia := (sortS t.dirtyIA).map (fun c => (c, t.iaLines c))
  if ia.any (fun p => p.2.isNone) then none
  else
    let iaLines := ia.flatMap (fun p => iaLinesOf p.2)
    let iaUpd := ia.filterMap (fun p => iaUpdOf p.1 p.2)
    let dels := dirty.filter (fun c => (t.desiredChain c).isNone)
    let newH := newH1 ++ iaUpd.map (fun p => (p.1, some p.2.1)) ++ dels.map (fun c => (c, none))
    let newFull := iaUpd.foldl (fun m p => m.set p.1 p.2.2) t.fullRules
    some (fwd.map RLine.fwd ++ updLines ++ iaLines ++ dels.map RLine.delChain, newH, newFull)

/-- Cache update at the end of a successful `applyUpdates`. -/
def T.commit (t : T) (newH : Map (Option (List String))) (newFull : Map (List FR)) : T :=
  let dp := newH.foldl (fun m p => match p.2 with | some h => m.set p.1 h | none => m.erase p.1) t.dpHashes
  { t with dirty := [], dirtyIA := [], dpHashes := dp, fullRules := newFull }

/-! ## The world: Table + kernel + failure plan -/

structure W where
  t : T
  K : Kernel
  saveFails : List Bool := []      -- per iptables-save attempt: true = fails
  restoreFails : List Bool := []   -- per iptables-restore call: true = forced failure
  pre : Option (String × Nat) := none   -- out-of-band edit just before the first restore: delete rule #n of a chain
  trace : List String := []
  sleeps : Nat := 0
  dead : Bool := false
deriving Repr, Inhabited

def popB : List Bool → Bool × List Bool
  | [] => (false, [])
  | b :: r => (b, r)

/-- `getHashesAndRulesFromDataplane`: up to 4 attempts; `false` = Panic. -/
def W.save : Nat → W → W × Bool
  | 0, w => (w, false)
  | n + 1, w =>
    let p := popB w.saveFails
    let w := { w with saveFails := p.2 }
    if p.1 then
      let w := { w with trace := "S:f" :: w.trace }
      if n == 0 then (w, false) else W.save n { w with sleeps := w.sleeps + 1 }
    else ({ w with trace := "S:ok" :: w.trace }, true)

def W.applyPre (w : W) : W :=
  match w.pre with
  | none => w
  | some (c, n) =>
    let w := { w with pre := none }
    match w.K.get c with
    | some rs => if n < rs.length then { w with K := w.K.set c (rs.eraseIdx n) } else w
    | none => w

/-- `applyUpdates`; `true` = error. -/
def W.applyUpdates (w : W) : W × Bool :=
  match w.t.plan with
  | none => (w, true)
  | some (lines, newH, newFull) =>
    if lines.isEmpty then ({ w with t := w.t.commit newH newFull }, false)
    else
      let w := w.applyPre
      let p := popB w.restoreFails
      let w := { w with restoreFails := p.2 }
      let shown := "R[" ++ ";".intercalate (lines.map RLine.text) ++ "]"
      match (if p.1 then none else krestore w.K lines) with
      | none => ({ w with t := w.t.invalidate, trace := (shown ++ ":f") :: w.trace }, true)
      | some K' => ({ w with K := K', t := w.t.commit newH newFull, trace := (shown ++ ":ok") :: w.trace }, false)

/-- Start of one iteration of `Apply`'s loop: re-read the table if the cache is not in sync; `false` = Panic. -/
def W.ensureLoaded (w : W) : W × Bool :=
  if !w.t.inSync then
    let r := W.save 4 w
    if r.2 then ({ r.1 with t := r.1.t.load r.1.K }, true) else (r.1, false)
  else (w, true)

/-- The retry loop of `Apply`: `retries` left; `false` = Panic. -/
def W.applyLoop : Nat → W → W × Bool
  | 0, w => (w, false)
  | fuel + 1, w =>
    let l := w.ensureLoaded
    if !l.2 then (l.1, false)
    else
      let u := l.1.applyUpdates
      if u.2 then
        if fuel == 0 then (u.1, false) else W.applyLoop fuel { u.1 with sleeps := u.1.sleeps + 1 }
      else (u.1, true)

/-- `Apply` (11 attempts: the first plus 10 retries). -/
def W.apply (w : W) : W × Bool :=
  let (w, ok) := W.applyLoop 11 w
  if ok then (w, true) else ({ w with dead := true }, false)

/-! ### The operations the driver replays (the histories the theorems quantify over) -/

inductive Op where
  | restart (insertMode : Bool)                 -- Felix restarts: a new `Table`, same kernel
  | kchain (n : String) (rs : List KRule)       -- somebody else (re)writes a chain
  | kdelchain (n : String)                      -- somebody else deletes a chain
  | chain (n : String) (ch : Chain)             -- `UpdateChain`
  | rmchain (n : String)                        -- `RemoveChainByName`
  | ins (c : String) (rs : List DRule)          -- `InsertOrAppendRules`
  | app (c : String) (rs : List DRule)          -- `AppendRules`
  | invalidate                                  -- `InvalidateDataplaneCache` / refresh timer
  | apply (saveFails restoreFails : List Bool) (pre : Option (String × Nat))   -- `Apply` with injected failures
deriving Repr

/-- One operation; for `apply`, whether it returned (`false` = Panic, after which the process is dead). -/
def W.stepOp (w : W) : Op → W × Option Bool
  | .restart m => ({ w with t := T.new w.t.prefixes m, sleeps := 0 }, none)
  | .kchain n rs => ({ w with K := w.K.set n rs }, none)
  | .kdelchain n => ({ w with K := w.K.erase n }, none)
  | .chain n ch => ({ w with t := w.t.updateChain n ch }, none)
  | .rmchain n => ({ w with t := w.t.removeChain n }, none)
  | .ins c rs => ({ w with t := w.t.setInserts c rs }, none)
  | .app c rs => ({ w with t := w.t.setAppends c rs }, none)
  | .invalidate => ({ w with t := w.t.invalidate }, none)
  | .apply sf rf pre =>
    let r := ({ w with saveFails := sf, restoreFails := rf, pre := pre, trace := [] } : W).apply
    ({ r.1 with pre := none }, some r.2)

/-- A whole history (a dead process does nothing more). -/
def W.run (w : W) (ops : List Op) : W := ops.foldl (fun w o => if w.dead then w else (w.stepOp o).1) w

end CalicoVerif.C15
