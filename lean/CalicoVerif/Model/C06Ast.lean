import CalicoVerif.Model.C06Tokenizer
/-
C06 (shared Selector model, part 2/3) — model of
libcalico-go/lib/selector/parser/ast.go (nodes, `Evaluate`, `collectFragments`)
and parser/stringset.go (`StringSet`).

`uniquestr.Handle` is an interned string: handle equality is string equality,
so handles are modelled by the strings themselves.

Core Lean only.
-/
namespace CalicoVerif.C06

/-- Go's `<` on strings: byte-wise lexicographic, a proper prefix is smaller. -/
def strLt : Str → Str → Bool
  | [], [] => false
  | [], _ :: _ => true
  | _ :: _, [] => false
  | a :: as, b :: bs =>
    if a.toNat < b.toNat then true
    else if b.toNat < a.toNat then false
    else strLt as bs

/-! ### parser/stringset.go -/

/-- Insertion of one value into an ascending list (the `sort.Slice` call of
`ConvertToStringSetInPlace` is modelled as insertion sort: equal elements are
identical strings, so the instability of `sort.Slice` is unobservable). -/
def insertSorted (x : Str) : List Str → List Str
  | [] => [x]
  | y :: ys => if strLt y x then y :: insertSorted x ys else x :: y :: ys

def sortStrs : List Str → List Str
  | [] => []
  | x :: xs => insertSorted x (sortStrs xs)

/-- The de-duplication loop of `ConvertToStringSetInPlace` (drop an element
equal to the last one kept). -/
def dedupAdjacent : List Str → List Str
  | [] => []
  | [x] => [x]
  | x :: y :: rest => if x = y then dedupAdjacent (y :: rest) else x :: dedupAdjacent (y :: rest)

/-- `ConvertToStringSetInPlace`. -/
def convertToStringSet (s : List Str) : List Str :=
  if s.length ≤ 1 then s else dedupAdjacent (sortStrs s)

/-- `StringSet.Contains`: `sort.Search` returns the first index whose element is
`>= s` (binary search; on an ascending slice that is the first such index), then
the element there is compared with `s`. -/
def stringSetContains (ss : List Str) (s : Str) : Bool :=
  match ss.find? (fun v => !strLt v s) with
  | some v => v = s
  | none => false

/-! ### parser/ast.go -/

/-- The `Node` implementations of ast.go. -/
inductive Node
  | eq (label value : Str)           -- LabelEqValueNode
  | ne (label value : Str)           -- LabelNeValueNode
  | contains (label value : Str)     -- LabelContainsValueNode
  | startsWith (label value : Str)   -- LabelStartsWithValueNode
  | endsWith (label value : Str)     -- LabelEndsWithValueNode
  | inSet (label : Str) (values : List Str)     -- LabelInSetNode
  | notInSet (label : Str) (values : List Str)  -- LabelNotInSetNode
  | has (label : Str)                -- HasNode
  | all                              -- AllNode
  | global                           -- GlobalNode
  | not (operand : Node)             -- NotNode
  | and (operands : List Node)       -- AndNode
  | or (operands : List Node)        -- OrNode
deriving Repr

/-- `_, ok := n.(*NotNode)`. -/
def Node.isNot : Node → Bool
  | .not _ => true
  | _ => false

/-- The `Labels` interface: `GetHandle(name) (value, present)`. -/
abbrev Labels := Str → Option Str

/-- `MapAsLabels` over an association list (first binding wins; the harness
never sends duplicate keys). -/
def Labels.ofList (kvs : List (Str × Str)) : Labels :=
  fun k => (kvs.find? (fun kv => kv.1 = k)).map (·.2)

/-- `strings.Contains(hay, needle)`. -/
def strContains : (hay needle : Str) → Bool
  | [], needle => needle.isEmpty
  | c :: cs, needle => needle.isPrefixOf (c :: cs) || strContains cs needle

/-- `strings.HasPrefix` / `strings.HasSuffix`. -/
def strHasPrefix (s pre : Str) : Bool := pre.isPrefixOf s
def strHasSuffix (s suf : Str) : Bool := suf.reverse.isPrefixOf s.reverse

mutual
/-- `Node.Evaluate`. -/
def Node.eval (labels : Labels) : Node → Bool
  | .eq l v => match labels l with | some x => x = v | none => false
  | .ne l v => match labels l with | some x => x ≠ v | none => true
  | .contains l v => match labels l with | some x => strContains x v | none => false
  | .startsWith l v => match labels l with | some x => strHasPrefix x v | none => false
  | .endsWith l v => match labels l with | some x => strHasSuffix x v | none => false
  | .inSet l vs => match labels l with | some x => stringSetContains vs x | none => false
  | .notInSet l vs => match labels l with | some x => !stringSetContains vs x | none => true
  | .has l => (labels l).isSome
  | .all => true
  | .global => true
  | .not n => !n.eval labels
  | .and ns => Node.evalAll labels ns
  | .or ns => Node.evalAny labels ns
/-- The loop of `AndNode.Evaluate`. -/
def Node.evalAll (labels : Labels) : List Node → Bool
  | [] => true
  | n :: ns => n.eval labels && Node.evalAll labels ns
/-- The loop of `OrNode.Evaluate`. -/
def Node.evalAny (labels : Labels) : List Node → Bool
  | [] => false
  | n :: ns => n.eval labels || Node.evalAny labels ns
end

/-- The quote choice of `appendLabelOpAndQuotedString` / `collectInOpFragments`. -/
def quoteFor (s : Str) : Char := if s.contains '"' then '\'' else '"'

/-- quote ++ s ++ quote. -/
def quoted (s : Str) : Str := quoteFor s :: (s ++ [quoteFor s])

/-- The value loop of `collectInOpFragments` (", " between values). -/
def quotedTail : List Str → Str
  | [] => []
  | v :: vs => [',', ' '] ++ quoted v ++ quotedTail vs

def quotedList : List Str → Str
  | [] => []
  | v :: vs => quoted v ++ quotedTail vs

def opEq : Str := [' ', '=', '=', ' ']
def opNe : Str := [' ', '!', '=', ' ']
def opContains : Str := [' ', 'c','o','n','t','a','i','n','s', ' ']
def opStartsWith : Str := [' ', 's','t','a','r','t','s', ' ', 'w','i','t','h', ' ']
def opEndsWith : Str := [' ', 'e','n','d','s', ' ', 'w','i','t','h', ' ']
def opIn : Str := [' ', 'i','n', ' ', '{']
def opNotIn : Str := [' ', 'n','o','t', ' ', 'i','n', ' ', '{']
def sepAnd : Str := [' ', '&', '&', ' ']
def sepOr : Str := [' ', '|', '|', ' ']
def txtAll : Str := ['a','l','l','(',')']
def txtGlobal : Str := ['g','l','o','b','a','l','(',')']

mutual
/-- `strings.Join(node.collectFragments(nil), "")`: the canonical text.
(`AndNode`/`OrNode.collectFragments` index `Operands[0]` and would panic on an
empty operand list; the parser never builds one — here it prints `()`.) -/
def Node.text : Node → Str
  | .eq l v => l ++ opEq ++ quoted v
  | .ne l v => l ++ opNe ++ quoted v
  | .contains l v => l ++ opContains ++ quoted v
  | .startsWith l v => l ++ opStartsWith ++ quoted v
  | .endsWith l v => l ++ opEndsWith ++ quoted v
  | .inSet l vs => l ++ opIn ++ quotedList vs ++ ['}']
  | .notInSet l vs => l ++ opNotIn ++ quotedList vs ++ ['}']
  | .has l => kwHasP ++ l ++ [')']
  | .all => txtAll
  | .global => txtGlobal
  | .not n =>
    -- a directly nested negation keeps its parentheses (the parser folds a run of `!`)
    if n.isNot then '!' :: '(' :: (n.text ++ [')']) else '!' :: n.text
  | .and ns => '(' :: (Node.textJoin sepAnd ns ++ [')'])
  | .or ns => '(' :: (Node.textJoin sepOr ns ++ [')'])
/-- first operand, then `sep ++ operand` for the others. -/
def Node.textJoin (sep : Str) : List Node → Str
  | [] => []
  | n :: ns => n.text ++ Node.textTail sep ns
def Node.textTail (sep : Str) : List Node → Str
  | [] => []
  | n :: ns => sep ++ n.text ++ Node.textTail sep ns
end

/-- `Selector.UniqueID()` = `hash.MakeUniqueID("s", text)` =
`"s:" ++ base64(SHA-224("s:" ++ text))`; the hash is an uninterpreted `H`. -/
def Node.uniqueID (H : Str → Str) (n : Node) : Str :=
  's' :: ':' :: H ('s' :: ':' :: n.text)

end CalicoVerif.C06
