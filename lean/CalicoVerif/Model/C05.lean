/-
C05 — model of the profile path of felix/calc/active_rules_calculator.go
(ActiveRulesCalculator: endpointKeyToProfileIDs, profileIDToEndpointKeys,
allProfileRules, updateEndpointProfileIDs, sendProfileUpdate with DummyDropRules)
and of felix/calc/validation_filter.go (ValidationFilter.OnUpdates).

Abstracted:
  * rule contents are an opaque type `R` with decidable equality
    (`reflect.DeepEqual` no-op check); the deny stand-in is a distinguished output;
  * the v1/v3 validators and `validateWorkloadEndpoint` are trusted: an update carries
    the bit "this value passes validation" (the harness computes it with the real
    validators);
  * Go maps are association lists; `addedIDs` / `removedIDs` are iterated in first-
    occurrence order (each profile id is handled independently of the others, see
    `Props/C05.lean`);
  * the policy path (label index, policy activity) and the start-of-day `missingProfiles`
    logging set are not modelled (they do not touch the profile outputs).

Core Lean only.
-/
namespace CalicoVerif.C05

/-! ## association lists -/

def alGet {κ β : Type} [DecidableEq κ] (k : κ) : List (κ × β) → Option β
  | [] => none
  | (k', v) :: l => if k' = k then some v else alGet k l

def alErase {κ β : Type} [DecidableEq κ] (k : κ) (l : List (κ × β)) : List (κ × β) :=
  l.filter (fun p => p.1 ≠ k)

def alSet {κ β : Type} [DecidableEq κ] (k : κ) (v : β) (l : List (κ × β)) : List (κ × β) :=
  (k, v) :: alErase k l

/-! ## ActiveRulesCalculator, profile path -/

/-- What the rule scanner is told about a profile: `RuleScanner.OnProfileActive(key, rules)`
with either the real rules or `&DummyDropRules`, or `OnProfileInactive(key)`. -/
inductive OutRules (R : Type) where
  | dummyDrop
  | real (r : R)
deriving DecidableEq, Repr

inductive Event (R : Type) where
  | active (p : String) (r : OutRules R)
  | inactive (p : String)
deriving DecidableEq, Repr

structure Arc (R : Type) where
  /-- `allProfileRules` -/
  profiles : List (String × R)
  /-- `endpointKeyToProfileIDs` (an endpoint with no profile ids is absent) -/
  epProfiles : List (String × List String)
  /-- `profileIDToEndpointKeys` multidict as (profile id, endpoint key) pairs -/
  refs : List (String × String)
  /-- every `OnProfileActive` / `OnProfileInactive` call made so far -/
  out : List (Event R)

def Arc.new (R : Type) : Arc R := { profiles := [], epProfiles := [], refs := [], out := [] }

section
variable {R : Type} [DecidableEq R]

/-- `profileIDToEndpointKeys.ContainsKey(id)` -/
def isActive (st : Arc R) (p : String) : Bool := st.refs.any (fun x => x.1 == p)

/-- `sendProfileUpdate(profileID, rules)` -/
def sendProfileUpdate (p : String) (rules : Option R) (st : Arc R) : Arc R :=
  if isActive st p then
    match rules with
    | some r => { st with out := st.out ++ [.active p (.real r)] }
    | none => { st with out := st.out ++ [.active p .dummyDrop] }
  else { st with out := st.out ++ [.inactive p] }

/-- `EndpointKeyToProfileIDMap.Update`: (removedIDs, addedIDs) exactly as the Go loops compute
them (including their behaviour on duplicate ids), as duplicate-free lists. -/
def diffIDs (old new : List String) : List String × List String :=
  let step (acc : List String × List String) (id : String) : List String × List String :=
    if id ∈ acc.1 then (acc.1.filter (fun x => x ≠ id), acc.2)
    else (acc.1, if id ∈ acc.2 then acc.2 else acc.2 ++ [id])
  new.foldl step (old.eraseDups, [])

def putRef (p ep : String) (st : Arc R) : Arc R :=
  if (p, ep) ∈ st.refs then st else { st with refs := st.refs ++ [(p, ep)] }

def discardRef (p ep : String) (st : Arc R) : Arc R :=
  { st with refs := st.refs.filter (fun x => x ≠ (p, ep)) }

/-- body of the `addedIDs` loop -/
def addOne (ep : String) (st : Arc R) (id : String) : Arc R :=
  let wasActive := isActive st id
  let st1 := putRef id ep st
  if wasActive then st1 else sendProfileUpdate id (alGet id st1.profiles) st1

/-- body of the `removedIDs` loop -/
def removeOne (ep : String) (st : Arc R) (id : String) : Arc R :=
  let st1 := discardRef id ep st
  if isActive st1 id then st1 else sendProfileUpdate id (alGet id st1.profiles) st1

/-- `updateEndpointProfileIDs(key, profileIDs)` -/
def updateEndpointProfileIDs (ep : String) (ids : List String) (st : Arc R) : Arc R :=
  let old := (alGet ep st.epProfiles).getD []
  let d := diffIDs old ids
  let st1 := { st with epProfiles := if ids.isEmpty then alErase ep st.epProfiles else alSet ep ids st.epProfiles }
  let st2 := d.2.foldl (addOne ep) st1
  d.1.foldl (removeOne ep) st2

/-- `OnUpdate` for a `ProfileRulesKey`. -/
def updateProfileRules (p : String) (v : Option R) (st : Arc R) : Arc R :=
  match v with
  | some r =>
    if alGet p st.profiles = some r then st
    else
      let st1 := { st with profiles := alSet p r st.profiles }
      if isActive st1 p then sendProfileUpdate p (some r) st1 else st1
  | none =>
    let st1 := { st with profiles := alErase p st.profiles }
    if isActive st1 p then sendProfileUpdate p none st1 else st1

/-- Updates as the ARC sees them (after the validation filter): a local endpoint with its
profile ids (`none` = deleted) or a profile's rules (`none` = deleted). -/
inductive Upd (R : Type) where
  | endpoint (ep : String) (ids : Option (List String))
  | profileRules (p : String) (r : Option R)

/-- `ActiveRulesCalculator.OnUpdate` (endpoint deletion = empty profile list). -/
def step (st : Arc R) : Upd R → Arc R
  | .endpoint ep (some ids) => updateEndpointProfileIDs ep ids st
  | .endpoint ep none => updateEndpointProfileIDs ep [] st
  | .profileRules p r => updateProfileRules p r st

def run (st : Arc R) (us : List (Upd R)) : Arc R := us.foldl step st

/-! ## ValidationFilter -/

/-- A datastore update before validation: the value (if any) and whether it passes the
validators (`v1v.Validate` / `v3v.Validate` / `validateWorkloadEndpoint`). -/
inductive RawUpd (R : Type) where
  | endpoint (ep : String) (v : Option (List String × Bool))
  | profileRules (p : String) (v : Option (R × Bool))

/-- `ValidationFilter.OnUpdates` for one update: a value that fails validation is replaced
by nil, everything else passes through unchanged. -/
def filter : RawUpd R → Upd R
  | .endpoint ep (some (ids, valid)) => .endpoint ep (if valid then some ids else none)
  | .endpoint ep none => .endpoint ep none
  | .profileRules p (some (r, valid)) => .profileRules p (if valid then some r else none)
  | .profileRules p none => .profileRules p none

/-- the calc graph front: ValidationFilter, then the ARC -/
def runRaw (st : Arc R) (us : List (RawUpd R)) : Arc R := run st (us.map filter)

/-! ## the rule scanner's view -/

/-- active profiles and the rules they were last activated with -/
def applyEvent (d : List (String × OutRules R)) : Event R → List (String × OutRules R)
  | .active p r => alSet p r d
  | .inactive p => alErase p d

def view (es : List (Event R)) : List (String × OutRules R) := es.foldl applyEvent []

end


/-! ## Interface for composition (C01)

* **State**: `Arc R` (`Arc.new R` = `NewActiveRulesCalculator()`, profile path only); `R` is the
  opaque type of rule contents (`reflect.DeepEqual` is `=`).
* **Inputs**: `RawUpd R` — a datastore update for a local endpoint (profile-id list) or for a
  profile's rules, with the validators' verdict; `filter : RawUpd R → Upd R` is
  `ValidationFilter.OnUpdates` (invalid ⇒ deletion); `Upd R` is what the calculator sees.
* **Step**: `step : Arc R → Upd R → Arc R` (`ActiveRulesCalculator.OnUpdate`), `run`,
  `runRaw st us = run st (us.map filter)` (filter in front of the calculator).
* **Output**: `Event R` (`active p rules` = `RuleScanner.OnProfileActive(p, rules | &DummyDropRules)`,
  `inactive p` = `OnProfileInactive(p)`); `st.out` is the whole log; `view st.out` the rule
  scanner's resulting table (profile ↦ `dummyDrop` | `real r`).
* **Spec refined** (below): the table is a function of the CURRENT inputs only —
  `referenced st p` (some stored endpoint lists `p`; `st.epProfiles` / `st.profiles` are
  last-valid-writer-wins, `Props/C05.lean` `endpoint_table_after` / `profile_table_after`) and
  `outOf st p`.  `Props/C05.lean`: `missing_profile_denies`, `known_profile_real_rules`,
  `unreferenced_profile_inactive` (together: `alGet p (view out) = if referenced then some (outOf st p) else none`),
  `invalid_eq_absent`, `invalid_content_irrelevant`.
-/

section Spec
variable {R : Type} [DecidableEq R]

/-- what the rule scanner must hold for an active profile: its real rules if known, else the
deny stand-in -/
def outOf (st : Arc R) (p : String) : OutRules R :=
  match alGet p st.profiles with
  | some r => .real r
  | none => .dummyDrop

/-- some stored (valid, present) endpoint lists profile `p` -/
def referenced (st : Arc R) (p : String) : Prop :=
  ∃ ep ids, alGet ep st.epProfiles = some ids ∧ p ∈ ids

end Spec

end CalicoVerif.C05
