/-
C34 — model of AuthorizeTierOperation
(apiserver/pkg/registry/projectcalico/authorizer/authorizer.go).

Two layers:
* the decision: three queries to the underlying authorizer (GET on the tier; the verb on the
  tier-scoped resource under the request's name; the verb under `<tier>.*`), run by three
  goroutines that each store a decision into their own variable (the returned error goes into a
  goroutine-LOCAL `err` and is only logged); after the join the request is allowed iff
  `getTier = Allow ∧ (policy = Allow ∨ wildcard = Allow)`.  Goroutines are modelled as one
  atomic step each (sequentially consistent interleaving = an order of the three steps).
* the fork-join access structure (`Program`): per goroutine the captured variables written /
  read, what the main goroutine touches between the `go` statements, what is read after
  `wg.Wait()`.  `Gen/C34.lean` holds the instance regenerated from the source; `conflicts`
  lists the data races in the sense of the Go memory model (two unsynchronised accesses to one
  variable, at least one a write).
Core Lean only.
-/
namespace CalicoVerif.C34

/-- `k8s.io/apiserver/pkg/authorization/authorizer.Decision` (zero value is Deny). -/
inductive Decision where
  | deny | allow | noOpinion
deriving Repr, DecidableEq

structure Answer where
  d : Decision
  err : Bool
deriving Repr, DecidableEq

/-- The captured variables the goroutines store into. -/
structure Vars where
  getTier : Decision := .deny
  policy : Decision := .deny
  wildcard : Decision := .deny
deriving Repr, DecidableEq

/-- Goroutine `g` (0 = tier GET, 1 = policy name, 2 = tier wildcard), as one atomic step:
`var err error; decisionX, _, err = a.Authorize(ctx, attrs)` — `err` is local to the goroutine
and only logged, so the step's effect on the shared variables is the decision store. -/
def runG (ans : Nat → Answer) (g : Nat) (v : Vars) : Vars :=
  match g with
  | 0 => { v with getTier := (ans 0).d }
  | 1 => { v with policy := (ans 1).d }
  | 2 => { v with wildcard := (ans 2).d }
  | _ => v

/-- A schedule = the order in which the three stores happen. -/
def runSchedule (ans : Nat → Answer) (sched : List Nat) (v : Vars) : Vars :=
  sched.foldl (fun v g => runG ans g v) v

/-- The `if` after `wg.Wait()`. -/
def allowed (v : Vars) : Bool :=
  v.getTier == .allow && (v.policy == .allow || v.wildcard == .allow)

inductive Outcome where
  | allow            -- return nil
  | forbidden        -- k8serrors.NewForbidden, user can get the tier
  | forbiddenNoGet   -- … message has " (user cannot get tier)"
  | attrErr          -- GetAuthorizerAttributes failed: that error is returned
deriving Repr, DecidableEq

/-- `AuthorizeTierOperation`: nil authorizer → allow; attribute extraction error → error;
otherwise the three concurrent checks and the decision. -/
def authorizeTierOp (hasAuthorizer attrsOK : Bool) (ans : Nat → Answer) (sched : List Nat) : Outcome :=
  if !hasAuthorizer then .allow
  else if !attrsOK then .attrErr
  else
    let v := runSchedule ans sched {}
    if allowed v then .allow
    else if v.getTier == .allow then .forbidden else .forbiddenNoGet

/-- How a scripted authorizer that answers by ATTRIBUTES (not by call order) is consulted:
query 0 is `get tiers/<tier>`, query 1 is `<verb> tier.<resource>/<name>`, query 2 is
`<verb> tier.<resource>/<tier>.*`.  When the request's name is literally `<tier>.*` queries 1 and
2 carry identical attributes, so they get the same answer (the one scripted for the name). -/
def routeAnswers (name tier : String) (a0 a1 a2 : Answer) : Nat → Answer :=
  fun g => match g with
    | 0 => a0
    | 1 => a1
    | _ => if name == tier ++ ".*" then a1 else a2

/-! ## fork-join access structure -/

structure Accesses where
  writes : List Nat
  reads : List Nat
deriving Repr, DecidableEq

structure Program where
  goroutines : List Accesses
  /-- `mainBetween[k]`: what the main goroutine does after `go` #k+1 and before the next `go` / `wg.Wait()`. -/
  mainBetween : List Accesses
  afterJoinReads : List Nat
deriving Repr

/-- A data race: variable, and the two parties (goroutine index; `100 + k` = main segment k). -/
structure Conflict where
  var : Nat
  p : Nat
  q : Nat
deriving Repr, DecidableEq

def touches (a : Accesses) : List Nat := a.writes ++ a.reads

/-- Variables written by `a` that `b` touches, or written by `b` that `a` reads. -/
def racyVars (a b : Accesses) : List Nat :=
  (a.writes.filter (fun x => (touches b).contains x)) ++ (b.writes.filter (fun x => a.reads.contains x))

/-- All data races of the fork-join program: goroutine/goroutine pairs `i < j`, and main segment
`k` against the goroutines already started (indices `≤ k`).  Sync objects (`wg`) are never
assigned, so they do not show up as writes. -/
def conflicts (P : Program) : List Conflict :=
  let gs := P.goroutines.zipIdx
  let gg := gs.flatMap (fun x => gs.flatMap (fun y =>
    if x.2 < y.2 then (racyVars x.1 y.1).map (fun v => ⟨v, x.2, y.2⟩) else []))
  let mg := P.mainBetween.zipIdx.flatMap (fun m =>
    gs.flatMap (fun g => if g.2 ≤ m.2 then (racyVars m.1 g.1).map (fun v => ⟨v, 100 + m.2, g.2⟩) else []))
  gg ++ mg

def raceFree (P : Program) : Bool := (conflicts P).isEmpty

/-! ## semantics of arbitrary access programs (for the theorem "no conflicts ⇒ schedule-deterministic")

A goroutine is a list of atomic steps `target := f (values of deps)` (local computation is folded
into `f`; values are `Nat`, i.e. any encodable data).  A trace is a list of events (goroutine tag,
step); it is an interleaving of `progs` when its projection onto every goroutine is that
goroutine's step list (program order preserved). -/

structure Step where
  target : Nat
  deps : List Nat
  f : List Nat → Nat

abbrev Store := Nat → Nat

def Step.exec (s : Step) (σ : Store) : Store :=
  fun x => if x = s.target then s.f (s.deps.map σ) else σ x

abbrev Event := Nat × Step

def run (tr : List Event) (σ : Store) : Store := tr.foldl (fun σ e => e.2.exec σ) σ

def proj (g : Nat) : List Event → List Step
  | [] => []
  | e :: t => if e.1 = g then e.2 :: proj g t else proj g t

def IsInterleaving (progs : List (List Step)) (tr : List Event) : Prop :=
  ∀ g, proj g tr = progs.getD g []

/-- The variables a step list writes and reads. -/
def accessesOf (p : List Step) : Accesses := ⟨p.map (·.target), p.flatMap (·.deps)⟩

end CalicoVerif.C34
