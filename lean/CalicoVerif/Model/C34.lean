/-
C34 — model of AuthorizeTierOperation
(apiserver/pkg/registry/projectcalico/authorizer/authorizer.go).

Two layers:
* the decision: three queries to the underlying authorizer (GET on the tier; the verb on the
  tier-scoped resource under the request's name; the verb under `<tier>.*`), run by three
  goroutines that each store a decision into their own variable and ALL store the returned
  error into the shared `err`; after the join the request is allowed iff
  `getTier = Allow ∧ (policy = Allow ∨ wildcard = Allow)`.  Goroutines are modelled as one
  atomic step each (sequentially consistent interleaving = an order of the three steps).
* the fork-join access structure (`Program`): per goroutine the captured variables written /
  read, what the main goroutine touches between the `go` statements, what is read after
  `wg.Wait()`.  `Gen/C34.lean` holds the instance regenerated from the source; `conflicts`
  lists the data races in the sense of the Go memory model (two unsynchronised accesses to one
  variable, at least one a write).
Core Lean only.
-/
namespace CalicoVerif.C34

/-- `k8s.io/apiserver/pkg/authorization/authorizer.Decision` (zero value is Deny). -/
inductive Decision where
  | deny | allow | noOpinion
deriving Repr, DecidableEq

structure Answer where
  d : Decision
  err : Bool
deriving Repr, DecidableEq

/-- The captured variables the goroutines store into. -/
structure Vars where
  getTier : Decision := .deny
  policy : Decision := .deny
  wildcard : Decision := .deny
  err : Bool := false
deriving Repr, DecidableEq

/-- Goroutine `g` (0 = tier GET, 1 = policy name, 2 = tier wildcard), as one atomic step:
`decisionX, _, err = a.Authorize(ctx, attrs)`. -/
def runG (ans : Nat → Answer) (g : Nat) (v : Vars) : Vars :=
  match g with
  | 0 => { v with getTier := (ans 0).d, err := (ans 0).err }
  | 1 => { v with policy := (ans 1).d, err := (ans 1).err }
  | 2 => { v with wildcard := (ans 2).d, err := (ans 2).err }
  | _ => v

/-- A schedule = the order in which the three stores happen. -/
def runSchedule (ans : Nat → Answer) (sched : List Nat) (v : Vars) : Vars :=
  sched.foldl (fun v g => runG ans g v) v

/-- The `if` after `wg.Wait()`. -/
def allowed (v : Vars) : Bool :=
  v.getTier == .allow && (v.policy == .allow || v.wildcard == .allow)

inductive Outcome where
  | allow            -- return nil
  | forbidden        -- k8serrors.NewForbidden, user can get the tier
  | forbiddenNoGet   -- … message has " (user cannot get tier)"
  | attrErr          -- GetAuthorizerAttributes failed: that error is returned
deriving Repr, DecidableEq

/-- `AuthorizeTierOperation`: nil authorizer → allow; attribute extraction error → error;
otherwise the three concurrent checks and the decision. -/
def authorizeTierOp (hasAuthorizer attrsOK : Bool) (ans : Nat → Answer) (sched : List Nat) : Outcome :=
  if !hasAuthorizer then .allow
  else if !attrsOK then .attrErr
  else
    let v := runSchedule ans sched {}
    if allowed v then .allow
    else if v.getTier == .allow then .forbidden else .forbiddenNoGet

/-- How a scripted authorizer that answers by ATTRIBUTES (not by call order) is consulted:
query 0 is `get tiers/<tier>`, query 1 is `<verb> tier.<resource>/<name>`, query 2 is
`<verb> tier.<resource>/<tier>.*`.  When the request's name is literally `<tier>.*` queries 1 and
2 carry identical attributes, so they get the same answer (the one scripted for the name). -/
def routeAnswers (name tier : String) (a0 a1 a2 : Answer) : Nat → Answer :=
  fun g => match g with
    | 0 => a0
    | 1 => a1
    | _ => if name == tier ++ ".*" then a1 else a2

/-! ## fork-join access structure -/

structure Accesses where
  writes : List Nat
  reads : List Nat
deriving Repr, DecidableEq

structure Program where
  goroutines : List Accesses
  /-- `mainBetween[k]`: what the main goroutine does after `go` #k+1 and before the next `go` / `wg.Wait()`. -/
  mainBetween : List Accesses
  afterJoinReads : List Nat
deriving Repr

/-- A data race: variable, and the two parties (goroutine index; `100 + k` = main segment k). -/
structure Conflict where
  var : Nat
  p : Nat
  q : Nat
deriving Repr, DecidableEq

def touches (a : Accesses) : List Nat := a.writes ++ a.reads

/-- Variables written by `a` that `b` touches, or written by `b` that `a` reads. -/
def racyVars (a b : Accesses) : List Nat :=
  (a.writes.filter (fun x => (touches b).contains x)) ++ (b.writes.filter (fun x => a.reads.contains x))

def pairsOf : List (Nat × Accesses) → List ((Nat × Accesses) × (Nat × Accesses))
  | [] => []
  | x :: xs => xs.map (fun y => (x, y)) ++ pairsOf xs

/-- All data races of the fork-join program: goroutine/goroutine pairs, and main segment `k`
against the goroutines already started (indices `≤ k`). Sync objects (`wg`) are never assigned,
so they do not show up as writes. -/
def conflicts (P : Program) : List Conflict :=
  let gs := P.goroutines.zipIdx.map (fun (a, i) => (i, a))
  let gg := (pairsOf gs).flatMap (fun (x, y) => (racyVars x.2 y.2).map (fun v => ⟨v, x.1, y.1⟩))
  let mg := P.mainBetween.zipIdx.flatMap (fun (m, k) =>
    (gs.filter (fun g => g.1 ≤ k)).flatMap (fun g => (racyVars m g.2).map (fun v => ⟨v, 100 + k, g.1⟩)))
  gg ++ mg

def raceFree (P : Program) : Bool := (conflicts P).isEmpty

end CalicoVerif.C34
