import CalicoVerif.Model.C36
/-
C39 — model of kube-controllers/pkg/controllers/ippool/pool_controller.go:
`reconcile` = `reconcileConditions` (sort by category / creation time / name, walk the
pools with one CIDR trie per address family — the C36 model) followed by
`reconcileFinalizer` for every pool, plus the API server's rule that an object with a
deletion timestamp disappears when its last finalizer is removed.

Pool names are natural numbers printed as fixed-width `pNN`, for which Go's
`strings.Compare` is the numeric order.  `created` is the creation timestamp in seconds.
`reconcile` is the pass in which every API write succeeds; `reconcileF` (section "API write
failures") is the pass in which any subset of the `UpdateStatus` / finalizer `Update` calls
fails.  `ReleasePoolAffinities` and informer reads always succeed.
Core Lean only.
-/
namespace CalicoVerif.C39
open CalicoVerif.C36

/-- The `Allocatable` condition: status and reason. -/
structure Cond where
  status : Bool
  reason : String
deriving DecidableEq, Repr

/-- `v3.IPPool`, the fields the controller reads or writes. `cidr = none`: `Spec.CIDR`
does not parse; otherwise (isV6, prefix). -/
structure Pool where
  name : Nat
  cidr : Option (Bool × Pfx)
  created : Nat
  disabled : Bool          -- Spec.Disabled
  deleting : Bool          -- DeletionTimestamp != nil
  cond : Option Cond       -- Status.Conditions[type = Allocatable]
  fin : Bool               -- has projectcalico.org/ippool-finalizer
deriving DecidableEq, Repr

def width (v6 : Bool) : Nat := if v6 then 128 else 32

def Pool.WF (p : Pool) : Prop :=
  match p.cidr with
  | none => True
  | some (v6, c) => c.WF (width v6)

instance (p : Pool) : Decidable p.WF := by
  unfold Pool.WF; cases p.cidr <;> simp only <;> infer_instance

def Pool.allocTrue (p : Pool) : Bool := match p.cond with | some c => c.status | none => false
def Pool.allocFalse (p : Pool) : Bool := match p.cond with | some c => !c.status | none => false

/-- `poolSortCategory`. -/
def Pool.category (p : Pool) : Nat :=
  if p.allocTrue && !p.deleting then 0
  else if p.deleting then 1
  else if p.allocFalse then 2
  else 3

/-- `poolSortFunc(a, b) <= 0`: category, then creation time, then name. -/
def Pool.le (a b : Pool) : Bool :=
  decide (a.category < b.category) ||
  (decide (a.category = b.category) &&
    (decide (a.created < b.created) || (decide (a.created = b.created) && decide (a.name ≤ b.name))))

/-- `slices.SortFunc(pools, poolSortFunc)` (the comparator is a total order on pools with
distinct names, so the result does not depend on the sorting algorithm). -/
def sortPools (ps : List Pool) : List Pool := ps.mergeSort Pool.le

/-- Two pools share an address: same family and one CIDR covers the other (plain prefix arithmetic). -/
def overlapP (a b : Pool) : Bool :=
  match a.cidr, b.cidr with
  | some (f, c), some (g, d) => f == g && c.overlaps (width f) d
  | _, _ => false

inductive Verdict where
  | skipped      -- CIDR did not parse: `continue` before anything is written
  | disabled     -- Spec.Disabled
  | terminating  -- DeletionTimestamp set: condition False/Terminating, inserted in the trie
  | overlap      -- overlaps something in the trie: False/CIDROverlap
  | active       -- True/OK, inserted in the trie
deriving DecidableEq, Repr

/-- The two tries (`trie`, `triev6`); data = pool name. -/
structure Tries where
  t4 : Node Nat
  t6 : Node Nat

def Tries.get (ts : Tries) (v6 : Bool) : Node Nat := if v6 then ts.t6 else ts.t4
def Tries.set (ts : Tries) (v6 : Bool) (t : Node Nat) : Tries :=
  if v6 then { ts with t6 := t } else { ts with t4 := t }

/-- The overlap test of `reconcileConditions`: `t.Get(cidr) != nil || t.Intersects(cidr) || t.Covers(cidr)`. -/
def trieOverlap (W : Nat) (t : Node Nat) (c : Pfx) : Bool :=
  (t.get W c).isSome || t.intersects W c || t.covers W c

/-- The main loop of `reconcileConditions` over the sorted pools. -/
def loop (ts : Tries) : List Pool → List (Pool × Verdict)
  | [] => []
  | p :: ps =>
    match p.cidr with
    | none => (p, .skipped) :: loop ts ps
    | some (v6, c) =>
      if p.disabled then (p, .disabled) :: loop ts ps
      else if p.deleting then
        (p, .terminating) :: loop (ts.set v6 ((ts.get v6).update (width v6) c p.name)) ps
      else if trieOverlap (width v6) (ts.get v6) c then (p, .overlap) :: loop ts ps
      else (p, .active) :: loop (ts.set v6 ((ts.get v6).update (width v6) c p.name)) ps

/-- The same loop with the tries replaced by the plain list of pools inserted so far (SPEC). -/
def loopSpec (S : List Pool) : List Pool → List (Pool × Verdict)
  | [] => []
  | p :: ps =>
    match p.cidr with
    | none => (p, .skipped) :: loopSpec S ps
    | some _ =>
      if p.disabled then (p, .disabled) :: loopSpec S ps
      else if p.deleting then (p, .terminating) :: loopSpec (p :: S) ps
      else if S.any (fun q => overlapP q p) then (p, .overlap) :: loopSpec S ps
      else (p, .active) :: loopSpec (p :: S) ps

/-- `updateCondition` with the condition the verdict calls for. -/
def applyVerdict (p : Pool) : Verdict → Pool
  | .skipped => p
  | .disabled => { p with cond := some ⟨false, "Disabled"⟩ }
  | .terminating => { p with cond := some ⟨false, "Terminating"⟩ }
  | .overlap => { p with cond := some ⟨false, "CIDROverlap"⟩ }
  | .active => { p with cond := some ⟨true, "OK"⟩ }

/-- Verdicts of one `reconcileConditions` pass, in sorted order. -/
def verdicts (pools : List Pool) : List (Pool × Verdict) :=
  loop ⟨.nil, .nil⟩ (sortPools pools)

/-- `reconcileConditions`: the pools with the derived conditions applied. -/
def reconcileConditions (pools : List Pool) : List Pool :=
  (verdicts pools).map (fun pv => applyVerdict pv.1 pv.2)

/-- `blocksInPool`: some block's base address is inside the pool's CIDR (`net.IPNet.Contains`). -/
def blocksInPool (blocks : List (Bool × Pfx)) (v6 : Bool) (c : Pfx) : Bool :=
  blocks.any (fun b => b.1 == v6 && c.contains (width v6) b.2.addr)

/-- `reconcileFinalizer` on a pool that already carries this pass's condition. -/
def reconcileFinalizer (blocks : List (Bool × Pfx)) (p : Pool) : Pool :=
  if !p.deleting then
    if p.allocFalse then { p with fin := false } else { p with fin := true }
  else if !p.fin then p
  else
    match p.cidr with
    | none => p                                  -- ParseCIDR error: nothing written
    | some (v6, c) => if blocksInPool blocks v6 c then p else { p with fin := false }

/-- API server: an object with a deletion timestamp and no finalizer is gone. -/
def gc (pools : List Pool) : List Pool := pools.filter (fun p => !(p.deleting && !p.fin))

/-- One `reconcile()` followed by the API server's garbage collection. -/
def reconcile (blocks : List (Bool × Pfx)) (pools : List Pool) : List Pool :=
  gc ((reconcileConditions pools).map (reconcileFinalizer blocks))

/-! ### API write failures

Every `UpdateStatus` (condition) and every `Update` (finalizer) may fail (conflict, network…).
What the code does then: `updateCondition` has ALREADY applied the new condition to its
local copy (`setConditionOnPool` runs before the write), returns the error, the error is
collected and the pass goes on — in particular a terminating pool is inserted into the
trie whether or not its status write succeeded, so the verdicts do not depend on write
outcomes.  `reconcileFinalizer` then acts on the local copy (new condition), and its own
`Update` may fail too; status is a subresource, so that `Update` never carries the
condition to the API server.  A failed write leaves the API object unchanged. -/

/-- Which writes of one pass fail, by pool name. -/
structure Fails where
  status : Nat → Bool   -- UpdateStatus of this pool fails
  fin : Nat → Bool      -- Update (finalizers) of this pool fails

def Fails.none : Fails := ⟨fun _ => false, fun _ => false⟩

/-- The API object of one pool after a pass in which it got verdict `v`. -/
def passPool (F : Fails) (blocks : List (Bool × Pfx)) (p : Pool) (v : Verdict) : Pool :=
  let loc := applyVerdict p v                    -- the controller's local copy
  let locF := reconcileFinalizer blocks loc      -- finalizer decision taken on the local copy
  { p with cond := if F.status p.name then p.cond else loc.cond,
           fin := if F.fin p.name then p.fin else locF.fin }

/-- One `reconcile()` with write failures `F`, then the API server's garbage collection. -/
def reconcileF (F : Fails) (blocks : List (Bool × Pfx)) (pools : List Pool) : List Pool :=
  gc ((verdicts pools).map (fun pv => passPool F blocks pv.1 pv.2))

/-! ### Histories -/

structure State where
  pools : List Pool
  blocks : List (Bool × Pfx)

inductive Event where
  | create (name : Nat) (cidr : Option (Bool × Pfx)) (created : Nat)
  | setDisabled (name : Nat) (b : Bool)
  | delete (name : Nat)
  | addBlock (b : Bool × Pfx)
  | delBlock (b : Bool × Pfx)
  | reconcile
  | reconcileF (failStatus failFin : List Nat)   -- a pass in which the listed pools' writes fail
  -- arbitrary configurations (state left behind by another writer / an older controller)
  | setCond (name : Nat) (c : Option Cond)
  | setFin (name : Nat) (b : Bool)

def updPool (pools : List Pool) (name : Nat) (f : Pool → Pool) : List Pool :=
  pools.map (fun p => if p.name = name then f p else p)

def State.step (s : State) : Event → State
  | .create n c t =>
    if s.pools.any (fun p => p.name = n) then s
    else { s with pools := s.pools ++ [⟨n, c, t, false, false, none, false⟩] }
  | .setDisabled n b => { s with pools := updPool s.pools n (fun p => { p with disabled := b }) }
  | .delete n =>
    -- API server: no finalizer → removed at once, else deletion timestamp set
    { s with pools := gc (updPool s.pools n (fun p => { p with deleting := true })) }
  | .addBlock b => if s.blocks.contains b then s else { s with blocks := b :: s.blocks }  -- the informer cache is keyed by block
  | .delBlock b => { s with blocks := s.blocks.filter (· ≠ b) }
  | .reconcile => { s with pools := reconcile s.blocks s.pools }
  | .reconcileF fs ff => { s with pools := reconcileF ⟨fun n => fs.contains n, fun n => ff.contains n⟩ s.blocks s.pools }
  | .setCond n c => { s with pools := updPool s.pools n (fun p => { p with cond := c }) }
  | .setFin n b => { s with pools := gc (updPool s.pools n (fun p => { p with fin := b })) }

end CalicoVerif.C39
