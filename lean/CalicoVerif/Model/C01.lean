import CalicoVerif.Model.C02
import CalicoVerif.Model.C03
import CalicoVerif.Model.C04
import CalicoVerif.Model.C05
import CalicoVerif.Model.C07
/-
C01 — the policy path of Felix's calculation graph as a COMPOSITION of the node
models, wired as `calc.NewCalculationGraph` wires the real nodes:

  ValidationFilter (an invalid value arrives as a deletion: the `Upd` constructors
  carry `none`; the harness computes the verdict with the real filter)
  → AllUpdDispatcher / localEndpointDispatcher (hostname filter: the `local` bit)
  → ActiveRulesCalculator
        profile path  = `C05.Arc`   (model of another engineer, reused as is)
        policy path   = this file   (allPolicies, policyIDToEndpointKeys, sendPolicyUpdate)
                        over the label index `C07.Idx` (InheritIndex model)
  → RuleScanner       = this file   (rule → IP-set definitions, reference counts)
  → SelectorAndNamedPortIndex = `C04.Idx` (selectors are canonical texts, evaluated
                        with the C06 parser/evaluator)
  → PolicyResolver + PolicySorter = `C03.Resolver`
  → EventSequencer    = `C02.State`

Handler order per key type follows the registration order in NewCalculationGraph
(local endpoints: ARC, PolicyResolver, then the IP-set member index; policies: ARC,
then PolicyResolver; profile labels: ARC's label index, then the member index).

Identities: the label index is keyed by numbers (`C07.Idx`); every policy / local
endpoint update carries its number together with its real key, the graph keeps the
two tables (`polKeys`, `epKeys`).

UNMODELLED (named, see Props/C01): L3RouteResolver, VXLANResolver (routes / VTEPs),
service index, wireguard, BGP-peer, live-migration, Istio, config batching,
encapsulation resolver, profile decoder (service accounts / namespaces), lookup
caches, the Node / host-metadata half of DataplanePassthru, `PerformanceHints`
force-programming, endpoint computed data.  MODELLED as a generic "latest value per key"
pass-through (`Upd.passthru`): DataplanePassthru for IP pools (and any node of that shape).  Rule CONTENT is an opaque tag (the harness's content class of the emitted
proto) plus what the RuleScanner reads: selectors, named ports, protocol.

Core Lean only.
-/
namespace CalicoVerif.C01
open CalicoVerif

abbrev Str := C06.Str

/-! ### datastore values (after the ValidationFilter) -/

/-- The fields of `model.Rule` the RuleScanner reads (`""` = no selector). -/
structure RuleIn where
  proto : Option C04.PortProto
  srcSel : Str
  notSrcSel : Str
  dstSel : Str
  notDstSel : Str
  srcNamed : List String
  srcNumeric : Bool
  dstNamed : List String
  dstNumeric : Bool
  notSrcNamed : List String
  notSrcNumeric : Bool
  notDstNamed : List String
  notDstNumeric : Bool
deriving DecidableEq, Repr

/-- `model.ProfileRules` / the rule part of `model.Policy`: content class + rules. -/
structure RulesIn where
  tag : String
  inbound : List RuleIn
  outbound : List RuleIn
deriving DecidableEq, Repr

structure EpVal where
  tag : String
  labels : C04.Labels
  profiles : List String
  nets : List C04.Cidr
  ports : List C04.Port
deriving DecidableEq, Repr

structure NetSetVal where
  labels : C04.Labels
  profiles : List String
  nets : List C04.Cidr
deriving DecidableEq, Repr

structure PolVal where
  pmeta : C03.PolicyIn
  /-- `policy.Selector` (source text) -/
  sel : Str
  rules : RulesIn
deriving DecidableEq, Repr

/-- One datastore update as it leaves the ValidationFilter (`none` = deleted or invalid). -/
inductive Upd
  | endpoint (nid : Nat) (key : C02.EpKey) (isLocal : Bool) (v : Option EpVal)
  | netset (name : String) (v : Option NetSetVal)
  | profLabels (pid : String) (v : Option C04.Labels)
  | profRules (pid : String) (v : Option RulesIn)
  | tier (name : String) (v : Option (Option Int × String))
  | policy (nid : Nat) (key : C02.PolicyKey) (v : Option PolVal)
  /-- a resource handled by a pure "latest value per key" pass-through node (`DataplanePassthru` for IP pools
  / Kubernetes services, …): category, key, content class (`none` = deleted or invalid) -/
  | passthru (c : C02.GenCat) (key : String) (v : Option String)
  | other
deriving Repr

/-! ### RuleScanner (felix/calc/rule_scanner.go) -/

/-- `IPSetData` (selector / named-port sets only; services are not modelled):
canonical selector text, `NamedPortProtocol`, `NamedPort`. -/
structure IpSetDef where
  sel : Str
  proto : Nat
  port : String
deriving DecidableEq, Repr

/-- `selector.Parse(raw).String()`; `none` = the "should have been validated" panic. -/
def canonSel (raw : Str) : Option Str :=
  match C06.parse raw with
  | .ok n => some n.text
  | .error _ => none

/-- `combineMatchesIfPossible`: `"(%s) && (!(%s))"`. -/
def combine (pos neg : Str) : Str × Str :=
  if pos = [] then (pos, neg)
  else if neg ≠ [] then ('(' :: pos ++ [')', ' ', '&', '&', ' ', '(', '!', '('] ++ neg ++ [')', ')'], [])
  else (pos, neg)

/-- `parseAndAppendSelectorIfNonZero`. -/
def selList (raw : Str) : List Str :=
  if raw = [] then [] else
  match canonSel raw with
  | some t => [t]
  | none => []

def allText : Str := ['a', 'l', 'l', '(', ')']

/-- `namedPortsToIPSets`. -/
def namedPortSets (ports : List String) (pos : List Str) (proto : Nat) : List IpSetDef :=
  ports.map (fun p => ⟨pos.headD allText, proto, p⟩)

/-- `selectorsToIPSets`. -/
def selSets (sels : List Str) : List IpSetDef := sels.map (fun s => ⟨s, C04.protoNone, ""⟩)

/-- `ruleToParsedRule`: the IP sets one rule needs (`allIPSets`). -/
def ruleSets (r : RuleIn) : List IpSetDef :=
  let (srcRaw, notSrcRaw) := combine r.srcSel r.notSrcSel
  let (dstRaw, notDstRaw) := combine r.dstSel r.notDstSel
  let src := selList srcRaw
  let dst := selList dstRaw
  let notSrc := selList notSrcRaw
  let notDst := selList notDstRaw
  let proto := match r.proto with
    | none => C04.protoAny
    | some p => C04.protoFrom p
  let srcSelSets := if r.srcNumeric || r.srcNamed.isEmpty then selSets src else []
  let dstSelSets := if r.dstNumeric || r.dstNamed.isEmpty then selSets dst else []
  namedPortSets r.srcNamed src proto ++ namedPortSets r.dstNamed dst proto ++
  namedPortSets r.notSrcNamed src proto ++ namedPortSets r.notDstNamed dst proto ++
  srcSelSets ++ dstSelSets ++ selSets notSrc ++ selSets notDst

/-- the rule scanner's key type (`any`: a PolicyKey or a ProfileRulesKey). -/
inductive RulesId
  | pol (k : C02.PolicyKey)
  | prof (id : String)
deriving DecidableEq, Repr

/-- `IPSetData.UniqueID()` is a hash; the model takes the table from the real code. -/
abbrev IdFn := IpSetDef → String

/-- `currentUIDToIPSet`: uid ↦ definition, first occurrence order, later duplicates
of a uid overwrite (they denote the same set). -/
def currentSets (H : IdFn) (rules : RulesIn) : List (String × IpSetDef) :=
  ((rules.inbound ++ rules.outbound).flatMap ruleSets).foldl (fun m d => C02.mset (H d) d m) []

/-- the ids a policy / profile references, in a canonical order (what the model keeps of
the `…IPSetIDs` fields of the ParsedRules). -/
def refsOf (H : IdFn) (rules : RulesIn) : List String :=
  (C02.mkeys (currentSets H rules)).mergeSort (fun a b => decide (a ≤ b))

structure RuleScanner where
  /-- `rulesIDToUIDs` / `uidsToRulesIDs` (one relation, kept in both directions) -/
  refs : List (RulesId × String) := []
  /-- `ipSetsByUID` -/
  sets : List (String × IpSetDef) := []
deriving Repr

def RuleScanner.uidInUse (rs : RuleScanner) (uid : String) : Bool := rs.refs.any (fun p => p.2 = uid)

/-- What the rule scanner tells its two consumers. -/
inductive RsEvent
  | ipsetActive (uid : String) (d : IpSetDef)
  | ipsetInactive (uid : String)
deriving DecidableEq, Repr

/-- `updateRules(key, …)`: returns the new scanner and the OnIPSetActive / OnIPSetInactive events. -/
def RuleScanner.updateRules (rs : RuleScanner) (key : RulesId) (cur : List (String × IpSetDef)) :
    RuleScanner × List RsEvent :=
  let added := (C02.mkeys cur).filter (fun uid => decide ((key, uid) ∉ rs.refs))
  let removed := ((rs.refs.filter (fun p => p.1 = key)).map (·.2)).filter (fun uid => (C02.mget cur uid).isNone)
  let addOne (acc : RuleScanner × List RsEvent) (uid : String) : RuleScanner × List RsEvent :=
    let rs := acc.1
    match C02.mget cur uid with
    | none => acc
    | some d =>
      if !rs.uidInUse uid then
        ({ refs := rs.refs ++ [(key, uid)], sets := C02.mset uid d rs.sets }, acc.2 ++ [.ipsetActive uid d])
      else ({ rs with refs := rs.refs ++ [(key, uid)] }, acc.2)
  let delOne (acc : RuleScanner × List RsEvent) (uid : String) : RuleScanner × List RsEvent :=
    let rs := { acc.1 with refs := acc.1.refs.filter (fun p => p ≠ (key, uid)) }
    if !rs.uidInUse uid then ({ rs with sets := C02.mdel uid rs.sets }, acc.2 ++ [.ipsetInactive uid])
    else (rs, acc.2)
  removed.foldl delOne (added.foldl addOne (rs, []))

/-! ### the graph -/

/-- `matchSel` for the IP-set member index: evaluate the canonical selector text on
the effective labels (first binding of a key wins). -/
def labelsFn (ls : C04.Labels) : C06.Labels :=
  fun k => (ls.find? (fun kv => kv.1.toList = k)).map (·.2.toList)

def matchSel (t : Str) (ls : C04.Labels) : Bool :=
  match C06.parse t with
  | .ok n => n.eval (labelsFn ls)
  | .error _ => false

def strLabels (ls : C04.Labels) : List (Str × Str) := ls.map (fun kv => (kv.1.toList, kv.2.toList))

/-- decimal digits of `n`, least significant first (fuel `f` > number of digits) -/
def digitsLE : Nat → Nat → List Nat
  | 0, _ => []
  | f + 1, n => (n % 10) :: (if n / 10 = 0 then [] else digitsLE f (n / 10))

def digitChar (d : Nat) : Char := Char.ofNat (48 + d)

/-- decimal rendering of a number (own renderer: `showNat n = toString n`, checked by the correspondence
run; its injectivity is proved in `Proofs/C01Show`) -/
def showNatL (n : Nat) : List Char := ((digitsLE (n + 1) n).reverse).map digitChar

def showCidrL (c : C04.Cidr) : List Char :=
  (if c.v6 then '6' else '4') :: '/' :: (showNatL c.addr ++ '/' :: showNatL c.len)

/-- the member string as characters -/
def showMemberL : C04.Member → List Char
  | .cidr c => 'c' :: showCidrL c
  | .ipp v6 a po pr => 'p' :: (if v6 then '6' else '4') :: '/' :: (showNatL a ++ '/' :: (showNatL pr ++ '/' :: showNatL po))

def showCidr (c : C04.Cidr) : String := String.ofList (showCidrL c)

/-- the member string handed to the EventSequencer (the harness converts the real one
to the same number format): `c4/<addr>/<len>`, `p4/<addr>/<proto>/<port>`. -/
def showMember (m : C04.Member) : String := String.ofList (showMemberL m)

def epKeyStr : C02.EpKey → String
  | .wep id => "w:" ++ id
  | .hep id => "h:" ++ id

def setOrDel {κ β} [DecidableEq κ] (k : κ) (v : Option β) (m : List (κ × β)) : List (κ × β) :=
  match v with
  | some x => C02.mset k x m
  | none => C02.mdel k m

structure Graph where
  suppress : Bool
  arcProf : C05.Arc RulesIn := C05.Arc.new RulesIn
  lbl : C07.Idx := {}
  /-- `policyIDToEndpointKeys` (policy number, endpoint number) -/
  polEps : List (Nat × Nat) := []
  /-- ARC's `allPolicies` -/
  allPolicies : List (Nat × PolVal) := []
  polKeys : List (Nat × C02.PolicyKey) := []
  epKeys : List (Nat × C02.EpKey) := []
  rs : RuleScanner := {}
  idx : C04.Idx Str
  res : C03.Resolver := {}
  seq : C02.State := {}
  /-- a node hit one of its `Panic` paths (or the sequencer rejected a call) -/
  panicked : Bool := false
  /-- ghost: every call made on the EventSequencer so far, in order (no flush markers) -/
  calls : List C02.Call := []
  /-- ghost: the rules each policy / profile was last activated with (absent = inactive) -/
  active : List (RulesId × RulesIn) := []

def Graph.new (suppress : Bool) : Graph := { suppress := suppress, idx := C04.Idx.new Str suppress }

def Graph.polKey (g : Graph) (n : Nat) : C02.PolicyKey := (C02.mget g.polKeys n).getD default
def Graph.epKey (g : Graph) (n : Nat) : C02.EpKey := (C02.mget g.epKeys n).getD default

/-- calls on the EventSequencer (`callbacks`). -/
def Graph.emit (g : Graph) (cs : List C02.Call) : Graph :=
  match C02.applyCalls g.seq cs with
  | some s => { g with seq := s, calls := g.calls ++ cs }
  | none => { g with panicked := true, calls := g.calls ++ cs }

/-- the member index's callbacks → `OnIPSetMemberAdded/Removed`; `cleared` = the
`callbacks.OnIPSetRemoved` of the `OnIPSetInactive` closure. -/
def idxCall : C04.Event → Option C02.Call
  | .added s m => some (.memberAdded s (showMember m))
  | .removed s m => some (.memberRemoved s (showMember m))
  | .cleared _ => none     -- C04's marker for "the consumer is told OnIPSetRemoved": emitted by the closure below

def Graph.idxOp (g : Graph) (op : C04.Op Str) : Graph :=
  let (idx, evs) := C04.stepEvents matchSel g.idx op
  let g := { g with idx := idx, panicked := g.panicked || idx.panicked }
  g.emit (evs.filterMap idxCall)

/-- the `OnIPSetActive` / `OnIPSetInactive` closures of NewCalculationGraph. -/
def Graph.onRsEvent (g : Graph) : RsEvent → Graph
  | .ipsetActive uid d =>
    let g := g.emit [.ipsetAdded uid (if d.proto ≠ C04.protoNone then 1 else 0)]
    g.idxOp (.updateIPSet uid d.sel d.proto d.port)
  | .ipsetInactive uid => (g.idxOp (.deleteIPSet uid)).emit [.ipsetRemoved uid]

/-- `updateRules`: update the reference counts and deliver the OnIPSetActive/Inactive events. -/
def Graph.rsUpdate (H : IdFn) (g : Graph) (key : RulesId) (rules : Option RulesIn) : Graph :=
  let r := g.rs.updateRules key (match rules with
    | some r => currentSets H r
    | none => [])
  r.2.foldl Graph.onRsEvent { g with rs := r.1, active := setOrDel key rules g.active }

/-- the `RulesUpdateCallbacks` call that follows `updateRules`. -/
def rulesCall (H : IdFn) : RulesId → Option RulesIn → C02.Call
  | .pol k, some r => .policyActive k ⟨r.tag, refsOf H r⟩
  | .pol k, none => .policyInactive k
  | .prof p, some r => .profileActive p ⟨r.tag, refsOf H r⟩
  | .prof p, none => .profileInactive p

/-- `RuleScanner.OnPolicyActive/Inactive`, `OnProfileActive/Inactive`: update the reference
counts (events first), then tell the EventSequencer. -/
def Graph.scanRules (H : IdFn) (g : Graph) (key : RulesId) (rules : Option RulesIn) : Graph :=
  (g.rsUpdate H key rules).emit [rulesCall H key rules]

/-- `DummyDropRules`. -/
def dummyDropRules : RulesIn := ⟨"dummy-drop", [], []⟩

/-- forward the profile path's new `OnProfileActive/Inactive` events to the rule scanner. -/
def Graph.profEvents (H : IdFn) (g : Graph) (evs : List (C05.Event RulesIn)) : Graph :=
  evs.foldl (fun g e => match e with
    | .active p (.real r) => g.scanRules H (.prof p) (some r)
    | .active p .dummyDrop => g.scanRules H (.prof p) (some dummyDropRules)
    | .inactive p => g.scanRules H (.prof p) none) g

def Graph.arcProfStep (H : IdFn) (g : Graph) (u : C05.Upd RulesIn) : Graph :=
  let a := C05.step g.arcProf u
  let evs := a.out.drop g.arcProf.out.length
  Graph.profEvents H { g with arcProf := a } evs

def Graph.polActive (g : Graph) (n : Nat) : Bool := g.polEps.any (fun p => p.1 = n)

/-- `sendPolicyUpdate`. -/
def Graph.sendPolicyUpdate (H : IdFn) (g : Graph) (n : Nat) : Graph :=
  if g.polActive n then
    match C02.mget g.allPolicies n with
    | some pv => g.scanRules H (.pol (g.polKey n)) (some pv.rules)
    | none => { g with panicked := true }     -- "Unknown policy became active!"
  else g.scanRules H (.pol (g.polKey n)) none

/-- `onMatchStarted` / `onMatchStopped` (the label index's callbacks), including the
PolicyMatchListener (the PolicyResolver). -/
def Graph.onMatchEvent (H : IdFn) (g : Graph) : C07.Event → Graph
  | .started sel item =>
    let wasActive := g.polActive sel
    let g := { g with polEps := C02.sadd (sel, item) g.polEps }
    let g := if !wasActive then g.sendPolicyUpdate H sel else g
    { g with res := g.res.step (.matchStarted (g.polKey sel) (g.epKey item)) }
  | .stopped sel item =>
    let g := { g with polEps := C02.sdel (sel, item) g.polEps }
    let g := if !g.polActive sel then g.sendPolicyUpdate H sel else g
    { g with res := g.res.step (.matchStopped (g.polKey sel) (g.epKey item)) }

def Graph.lblStep (H : IdFn) (g : Graph) (r : C07.Idx × List C07.Event) : Graph :=
  r.2.foldl (Graph.onMatchEvent H) { g with lbl := r.1 }

def Graph.resStep (g : Graph) (e : C03.Event) : Graph := { g with res := g.res.step e }

/-- `ActiveRulesCalculator.OnUpdate` for a local endpoint: profile ids, then the label index. -/
def Graph.arcEndpoint (H : IdFn) (g : Graph) (nid : Nat) (key : C02.EpKey) (v : Option EpVal) : Graph :=
  let g := g.arcProfStep H (.endpoint (epKeyStr key) (v.map (·.profiles)))
  match v with
  | some e => g.lblStep H (C07.updateLabels g.lbl nid (strLabels e.labels) (e.profiles.map String.toList))
  | none => g.lblStep H (C07.deleteLabels g.lbl nid)

/-- the local endpoint dispatcher: ARC, then PolicyResolver. -/
def Graph.localEndpoint (H : IdFn) (g : Graph) (nid : Nat) (key : C02.EpKey) (v : Option EpVal) : Graph :=
  (g.arcEndpoint H nid key v).resStep (.endpoint key (v.map (fun e => ⟨e.tag, e.profiles⟩)))

/-- `SelectorAndNamedPortIndex.OnUpdate` for a workload / host endpoint. -/
def Graph.idxEndpoint (g : Graph) (key : C02.EpKey) (v : Option EpVal) : Graph :=
  match v with
  | some e => g.idxOp (.updateEndpoint (epKeyStr key) e.labels (C04.extractIPs e.nets) e.ports e.profiles)
  | none => g.idxOp (.deleteEndpoint (epKeyStr key))

/-- … for a network set. -/
def Graph.idxNetset (g : Graph) (name : String) (v : Option NetSetVal) : Graph :=
  match v with
  | some n => g.idxOp (.updateEndpoint ("n:" ++ name) n.labels (C04.extractNetSet n.nets) [] n.profiles)
  | none => g.idxOp (.deleteEndpoint ("n:" ++ name))

/-- profile `LabelsToApply`: ARC's label index, then the member index. -/
def Graph.profLabels (H : IdFn) (g : Graph) (pid : String) (v : Option C04.Labels) : Graph :=
  match v with
  | some ls =>
    (g.lblStep H (C07.updateParentLabels g.lbl pid.toList (strLabels ls))).idxOp (.updateParentLabels pid ls)
  | none =>
    (g.lblStep H (C07.deleteParentLabels g.lbl pid.toList)).idxOp (.deleteParentLabels pid)

/-- the tail of the `model.PolicyKey` case of `ActiveRulesCalculator.OnUpdate` for a changed value. -/
def Graph.arcPolicyChanged (H : IdFn) (g : Graph) (nid : Nat) (pv : PolVal) : Graph :=
  let g := { g with allPolicies := C02.mset nid pv g.allPolicies }
  match C06.parse pv.sel with
  | .error _ => { g with panicked := true }          -- "Failed to parse selector"
  | .ok sel =>
    let g := g.lblStep H (C07.updateSelector g.lbl nid sel)
    if g.polActive nid then g.sendPolicyUpdate H nid else g

/-- `ActiveRulesCalculator.OnUpdate` for a policy. -/
def Graph.arcPolicy (H : IdFn) (g : Graph) (nid : Nat) (v : Option PolVal) : Graph :=
  match v with
  | some pv =>
    if C02.mget g.allPolicies nid = some pv then g       -- reflect.DeepEqual: no-op
    else g.arcPolicyChanged H nid pv
  | none =>
    let g := { g with allPolicies := C02.mdel nid g.allPolicies }
    g.lblStep H (C07.deleteSelector g.lbl nid)

/-- the EventSequencer call a pass-through node makes: `On<Kind>Update(key, value)` / `On<Kind>Remove(key)` -/
def passthruCall (c : C02.GenCat) (key : String) : Option String → C02.Call
  | some t => .genUpdate c key t
  | none => .genRemove c key

/-- `AllUpdDispatcher.OnUpdate` for one (already validated) update. -/
def Graph.step (H : IdFn) (g : Graph) : Upd → Graph
  | .endpoint nid key isLocal v =>
    let g := { g with epKeys := C02.mset nid key g.epKeys }
    let g := if isLocal then g.localEndpoint H nid key v else g
    g.idxEndpoint key v
  | .netset name v => g.idxNetset name v
  | .profLabels pid v => g.profLabels H pid v
  | .profRules pid v => g.arcProfStep H (.profileRules pid v)
  | .tier name v => g.resStep (.tier name v)
  | .policy nid key v =>
    let g := { g with polKeys := C02.mset nid key g.polKeys }
    -- ARC, then PolicyResolver
    (g.arcPolicy H nid v).resStep (.policy key (v.map (·.pmeta)))
  | .passthru c key v => g.emit [passthruCall c key v]
  | .other => g

/-- `OnStatusUpdated(InSync)`. -/
def Graph.inSync (g : Graph) : Graph := { g with res := g.res.step (.status true) }

/-- `CalcGraph.Flush()` (= `PolicyResolver.Flush`) followed by `EventSequencer.Flush()`;
returns the emitted messages. -/
def Graph.flush (g : Graph) : Graph × List C02.Msg :=
  let g := match g.res.flush with
    | some (r, calls) => ({ g with res := r }).emit calls
    | none => { g with panicked := true }
  let (s, ms) := g.seq.flush
  ({ g with seq := s }, ms)

/-! ### histories -/

inductive HStep
  | upd (u : Upd)
  | inSync
  | flush
deriving Repr

/-- Run a history; collects every emitted message in order. -/
def run (H : IdFn) : Graph → List HStep → Graph × List C02.Msg
  | g, [] => (g, [])
  | g, .upd u :: t => run H (g.step H u) t
  | g, .inSync :: t => run H g.inSync t
  | g, .flush :: t =>
    let (g1, m1) := g.flush
    let (g2, m2) := run H g1 t
    (g2, m1 ++ m2)

/-! ### the specification: what a FRESH Felix emits for a datastore state

Written directly from the node contracts of felix/design/calc-graph.md, as a function of the
CURRENT datastore contents only (no bookkeeping, no history). -/

/-- The datastore as Felix sees it behind the ValidationFilter: last valid value per key. -/
structure DS where
  eps : List (Nat × (C02.EpKey × Bool × EpVal)) := []
  netsets : List (String × NetSetVal) := []
  profLabels : List (String × C04.Labels) := []
  profRules : List (String × RulesIn) := []
  tiers : List (String × (Option Int × String)) := []
  pols : List (Nat × (C02.PolicyKey × PolVal)) := []
  /-- pass-through resources: (category, key) ↦ content class -/
  gen : List ((C02.GenCat × String) × String) := []
deriving Repr

def DS.apply (ds : DS) : Upd → DS
  | .endpoint nid key isLocal v => { ds with eps := setOrDel nid (v.map (fun e => (key, isLocal, e))) ds.eps }
  | .netset name v => { ds with netsets := setOrDel name v ds.netsets }
  | .profLabels pid v => { ds with profLabels := setOrDel pid v ds.profLabels }
  | .profRules pid v => { ds with profRules := setOrDel pid v ds.profRules }
  | .tier name v => { ds with tiers := setOrDel name v ds.tiers }
  | .policy nid key v => { ds with pols := setOrDel nid (v.map (fun p => (key, p))) ds.pols }
  | .passthru c key v => { ds with gen := setOrDel (c, key) v ds.gen }
  | .other => ds

/-- the datastore state at the end of a history -/
def lastState (h : List HStep) : DS :=
  h.foldl (fun ds st => match st with
    | .upd u => ds.apply u
    | _ => ds) {}

/-- effective labels: own labels first, then the labels of the listed profiles in order
(first binding of a key wins). -/
def DS.effLabels (ds : DS) (labels : C04.Labels) (profiles : List String) : C04.Labels :=
  labels ++ profiles.flatMap (fun p => (C02.mget ds.profLabels p).getD [])

/-- a selector given by its SOURCE text matches a label list -/
def matchSrc (sel : Str) (ls : C04.Labels) : Bool :=
  match C06.parse sel with
  | .ok n => n.eval (labelsFn ls)
  | .error _ => false

def DS.localEps (ds : DS) : List (C02.EpKey × EpVal) :=
  ds.eps.filterMap (fun p => if p.2.2.1 then some (p.2.1, p.2.2.2) else none)

/-- policy ↔ local endpoint matches -/
def DS.matched (ds : DS) : List (C02.PolicyKey × C02.EpKey) :=
  ds.pols.flatMap (fun p => ds.localEps.filterMap (fun e =>
    if matchSrc p.2.2.sel (ds.effLabels e.2.labels e.2.profiles) then some (p.2.1, e.1) else none))

/-- policies that select at least one local endpoint -/
def DS.activePols (ds : DS) : List (C02.PolicyKey × PolVal) :=
  ds.pols.filterMap (fun p => if ds.matched.any (fun m => m.1 = p.2.1) then some p.2 else none)

/-- profiles listed by at least one local endpoint, with their rules (or the deny stand-in) -/
def DS.activeProfs (ds : DS) : List (String × RulesIn) :=
  ((ds.localEps.flatMap (fun e => e.2.profiles)).eraseDups).map (fun p =>
    (p, (C02.mget ds.profRules p).getD dummyDropRules))

/-- the IP sets referenced by the active policies and profiles -/
def DS.activeSets (H : IdFn) (ds : DS) : List (String × IpSetDef) :=
  ((ds.activePols.map (·.2.rules) ++ ds.activeProfs.map (·.2)).flatMap (currentSets H)).foldl
    (fun m p => if (C02.mget m p.1).isSome then m else m ++ [p]) []

/-- every labelled thing that can contribute members: all endpoints and network sets -/
def DS.contributors (ds : DS) : List C04.EpData :=
  ds.eps.map (fun p => ({ labels := p.2.2.2.labels, nets := C04.extractIPs p.2.2.2.nets, ports := p.2.2.2.ports,
                          parents := p.2.2.2.profiles, cached := [] } : C04.EpData)) ++
  ds.netsets.map (fun p => ({ labels := p.2.labels, nets := C04.extractNetSet p.2.nets, ports := [],
                              parents := p.2.profiles, cached := [] } : C04.EpData))

/-- the members of one IP set: contributions of everything its selector matches; with overlap
suppression, minus the CIDRs strictly inside another contributed CIDR. -/
def DS.members (suppress : Bool) (ds : DS) (d : IpSetDef) : List C04.Member :=
  let sd : C04.IpSetData Str := { sel := d.sel, proto := d.proto, port := d.port, refc := [] }
  let all := (ds.contributors.flatMap (fun e =>
    if matchSel d.sel (ds.effLabels e.labels e.parents) then C04.contrib e sd else [])).eraseDups
  if suppress then
    all.filter (fun m => match m with
      | .cidr c => !(all.any (fun m' => match m' with
          | .cidr c' => c'.sc c
          | _ => false))
      | _ => true)
  else all

/-- insertion sort with the PolicySorter's comparators (`btInsert` of C03) -/
def sortWith {α} (less : α → α → Bool) (l : List α) : List α := l.foldl (fun acc x => C03.btInsert less x acc) []

/-- metadata of the active policies (`ExtractPolicyMetadata`) -/
def DS.metas (ds : DS) : List C02.PolKV :=
  ds.activePols.map (fun p => (⟨p.1, C03.extractPolicyMetadata p.2.pmeta⟩ : C02.PolKV))

/-- every tier that exists or is named by an active policy (each once) -/
def DS.tierNames (ds : DS) : List String :=
  C03.addAll ((ds.tiers.map (·.1)) ++ ds.metas.map (·.val.tier)) []

/-- the PolicySorter's record for tier `n`: order / default action from the tier resource (absent: unset
order, no action, not valid), and the active policies naming it, ascending under `PolKVLess` -/
def DS.tierInfo (ds : DS) (n : String) : C02.TierInfo :=
  let t := C02.mget ds.tiers n
  { name := n, order := (t.map (·.1)).getD none, defaultAction := (t.map (·.2)).getD "", valid := t.isSome,
    policies := sortWith C03.polKVLess (ds.metas.filter (fun kv => kv.val.tier = n)) }

/-- `TierLess` on the sorter's records -/
def tierInfoLess (a b : C02.TierInfo) : Bool :=
  C03.tierLess ⟨a.name, a.valid, a.order⟩ ⟨b.name, b.valid, b.order⟩

/-- the PolicySorter's output: every tier that exists or holds an active policy, ascending under
`TierLess`; inside a tier the active policies ascending under `PolKVLess`. -/
def DS.sortedTiers (ds : DS) : List C02.TierInfo :=
  sortWith tierInfoLess (ds.tierNames.map ds.tierInfo)

/-- what a fresh Felix has told the dataplane once it is in sync and has flushed -/
structure Fresh where
  pols : List (C02.PolicyKey × C02.Rules)
  profs : List (String × C02.Rules)
  eps : List (C02.EpKey × C02.EpUpd)
  ipsets : List (String × Nat × List String)
  /-- pass-through objects: the datastore's own table -/
  gen : List ((C02.GenCat × String) × String)
deriving Repr

def fresh (H : IdFn) (suppress : Bool) (ds : DS) : Fresh :=
  { pols := ds.activePols.map (fun p => (p.1, ⟨p.2.rules.tag, refsOf H p.2.rules⟩))
    profs := ds.activeProfs.map (fun p => (p.1, ⟨p.2.tag, refsOf H p.2⟩))
    eps := ds.localEps.map (fun e =>
      (e.1, ⟨⟨e.2.tag, e.2.profiles⟩, C03.filterTiers ds.matched e.1 ds.sortedTiers⟩))
    ipsets := (ds.activeSets H).map (fun p =>
      (p.1, (if p.2.proto ≠ C04.protoNone then 1 else 0), (ds.members suppress p.2).map showMember))
    gen := ds.gen }

end CalicoVerif.C01
