/-
C18 — model of felix/deltatracker/delta_tracker.go (DeltaTracker[K,V]), which
also underlies delta_set.go (SetDeltaTracker = DeltaTracker[K,struct{}] with
valuesEqual ≡ true) and cachingmap/caching_map.go (valuesEqual ≡ `==`).

A Go `map[K]V` is an association list with at most one entry per key
(`set` removes the old entry first), iteration order = list order (the
theorems quantify over every visiting order).  `valuesEqual` is the explicit
parameter `eqv`; the argument order of every call is kept as in the Go code.

Restructuring that is NOT one-to-one with the Go text (said here once):
* `PendingUpdatesView.Iter` / `PendingDeletionsView.Iter`: the callback is
  modelled by its return value per key (`act`); the Go `break` under
  `case IterActionNoOpStopIteration` leaves the `switch`, not the `for`, so
  the action behaves exactly like `IterActionNoOp` — modelled as the code is.
* `IterBatched`: `applyFn` does not touch the tracker, so the loop is split
  into (1) the pure computation of the list of items that get applied
  (`batchedApplied`, same buffer/`count` arithmetic as the Go loops, batch size
  a parameter) and (2) folding "delete pending update; set inDataplaneAndDesired"
  over that list.  `applyFn` itself is the family `scan F lim` (fail at keys in
  `F`, apply at most `c` items per call): it always makes progress, which is
  what the Go loop needs to terminate.
* `ReplaceAllIter`: the iterator is the list of KVs it yields plus a flag
  saying whether it then returns an error.
Core Lean only (linked into the driver executable).
-/
namespace CalicoVerif.C18

variable {K V : Type} [DecidableEq K]

/-- A Go map. -/
abbrev GoMap (K V : Type) := List (K × V)

/-- `m[k]` with the comma-ok form. -/
def get : GoMap K V → K → Option V
  | [], _ => none
  | (k', v) :: r, k => if k' = k then some v else get r k

/-- `delete(m, k)`. -/
def del (m : GoMap K V) (k : K) : GoMap K V := m.filter (fun p => decide (p.1 ≠ k))

/-- `m[k] = v`. -/
def set (m : GoMap K V) (k : K) (v : V) : GoMap K V := (k, v) :: del m k

def keys (m : GoMap K V) : List K := m.map (·.1)

/-- The DeltaTracker struct. -/
structure Tracker (K V : Type) where
  dd : GoMap K V      -- inDataplaneAndDesired
  dn : GoMap K V      -- inDataplaneNotDesired
  du : GoMap K V      -- desiredUpdates
  dlen : Int          -- desiredLen

def Tracker.new : Tracker K V := { dd := [], dn := [], du := [], dlen := 0 }

/-- `DesiredView.Get`. -/
def desiredGet (t : Tracker K V) (k : K) : Option V :=
  match get t.du k with
  | some v => some v
  | none => get t.dd k

/-- `DataplaneView.Get`. -/
def dataplaneGet (t : Tracker K V) (k : K) : Option V :=
  match get t.dd k with
  | some v => some v
  | none => get t.dn k

/-- `DesiredView.Len`. -/
def Tracker.desiredLen (t : Tracker K V) : Int := t.dlen
/-- `DataplaneView.Len`. -/
def Tracker.dataplaneLen (t : Tracker K V) : Nat := t.dn.length + t.dd.length
/-- `PendingUpdatesView.Len`. -/
def Tracker.pendingUpdatesLen (t : Tracker K V) : Nat := t.du.length
/-- `PendingDeletionsView.Len`. -/
def Tracker.pendingDeletionsLen (t : Tracker K V) : Nat := t.dn.length
/-- `DeltaTracker.InSync`. -/
def Tracker.inSync (t : Tracker K V) : Bool := t.pendingDeletionsLen == 0 && t.pendingUpdatesLen == 0

/-- `DesiredView.Set`. -/
def dSet (eqv : V → V → Bool) (t : Tracker K V) (k : K) (v : V) : Tracker K V :=
  match get t.dn k with
  | some cur =>
    -- present in dataplane, previously not desired: move it over, desiredLen++
    let t1 : Tracker K V := { t with dd := set t.dd k cur, dn := del t.dn k, dlen := t.dlen + 1 }
    if eqv cur v then { t1 with du := del t1.du k } else { t1 with du := set t1.du k v }
  | none =>
    match get t.dd k with
    | some cur =>
      if eqv cur v then { t with du := del t.du k } else { t with du := set t.du k v }
    | none =>
      let t1 : Tracker K V := if (get t.du k).isNone then { t with dlen := t.dlen + 1 } else t
      { t1 with du := set t1.du k v }

/-- `DesiredView.Delete`. -/
def dDel (t : Tracker K V) (k : K) : Tracker K V :=
  let inU := (get t.du k).isSome
  let t1 : Tracker K V := if inU then { t with du := del t.du k } else t
  let (t2, inD) := match get t1.dd k with
    | some cur => (({ t1 with dn := set t1.dn k cur, dd := del t1.dd k } : Tracker K V), true)
    | none => (t1, false)
  if inU || inD then { t2 with dlen := t2.dlen - 1 } else t2

/-- `DesiredView.DeleteAll`: `Iter` (first the pending updates, then the
in-dataplane-and-desired keys that have no pending update) calling `Delete`. -/
def dDelAll (t : Tracker K V) : Tracker K V :=
  let t1 := (keys t.du).foldl dDel t
  ((keys t1.dd).filter (fun k => (get t1.du k).isNone)).foldl dDel t1

/-- `DataplaneView.Set`. -/
def pSet (eqv : V → V → Bool) (t : Tracker K V) (k : K) (v : V) : Tracker K V :=
  match desiredGet t k with
  | some dv =>
    let t1 : Tracker K V := { t with dd := set t.dd k v }
    if !eqv dv v then { t1 with du := set t1.du k dv } else { t1 with du := del t1.du k }
  | none => { t with dn := set t.dn k v }

/-- `DataplaneView.Delete`. -/
def pDel (t : Tracker K V) (k : K) : Tracker K V :=
  let des := desiredGet t k
  let t1 : Tracker K V := { t with dd := del t.dd k, dn := del t.dn k }
  match des with
  | some dv => { t1 with du := set t1.du k dv }
  | none => t1

/-- Loop state of `ReplaceAllIter` (the old maps are used as scratch space). -/
structure RState (K V : Type) where
  du : GoMap K V
  oldD : GoMap K V
  oldN : GoMap K V
  newD : GoMap K V
  newN : GoMap K V

/-- The closure passed to the iterator in `ReplaceAllIter`.  `Get(k)` reads
`desiredUpdates` and then `c.inDataplaneAndDesired`, which still IS `oldInDPDesired`. -/
def replVisit (eqv : V → V → Bool) (r : RState K V) (kv : K × V) : RState K V :=
  let k := kv.1
  let v := kv.2
  let des := match get r.du k with
    | some x => some x
    | none => get r.oldD k
  let r1 : RState K V := match des with
    | some dv =>
      if eqv dv v then { r with newD := set r.newD k v, du := del r.du k }
      else { r with newD := set r.newD k v, du := set r.du k dv }
    | none => { r with newN := set r.newN k v }
  { r1 with oldD := del r1.oldD k, oldN := del r1.oldN k }

/-- `maps.Copy(dst, src)`. -/
def copyInto (dst src : GoMap K V) : GoMap K V :=
  src.foldl (fun m kv => set m kv.1 kv.2) dst

/-- Final loop of `ReplaceAllIter` over what is left in `oldInDPDesired`. -/
def replMissing (du : GoMap K V) (kw : K × V) : GoMap K V :=
  match get du kw.1 with
  | some x => set du kw.1 x
  | none => set du kw.1 kw.2

/-- `DataplaneView.ReplaceAllIter`; returns the tracker and whether an error is returned. -/
def replaceAllIter (eqv : V → V → Bool) (t : Tracker K V) (items : List (K × V)) (fail : Bool) :
    Tracker K V × Bool :=
  let r := items.foldl (replVisit eqv) { du := t.du, oldD := t.dd, oldN := t.dn, newD := [], newN := [] }
  if fail then
    ({ t with du := r.du, dd := copyInto r.oldD r.newD, dn := copyInto r.oldN r.newN }, true)
  else
    ({ t with du := r.oldD.foldl replMissing r.du, dd := r.newD, dn := r.newN }, false)

/-- Iteration actions. -/
inductive Act | noop | update | stop
deriving DecidableEq, Repr

/-- The callback "apply unless the key is in `F`" (what cachingmap's callbacks and `IterBatched` amount to). -/
def batchAct (F : K → Bool) (k : K) : Act := if F k then .noop else .update

/-- Effect of `IterActionUpdateDataplane` on one pending update. -/
def applyUpd (t : Tracker K V) (kv : K × V) : Tracker K V :=
  { t with du := del t.du kv.1, dd := set t.dd kv.1 kv.2 }

/-- `PendingUpdatesView.Iter` visiting `ord` (the pending updates in map order). -/
def uIter (t : Tracker K V) (ord : List (K × V)) (act : K → Act) : Tracker K V :=
  ord.foldl (fun t kv => match act kv.1 with
    | .update => applyUpd t kv
    | .noop => t
    | .stop => t) t

/-- Effect of `IterActionUpdateDataplane` on one pending deletion. -/
def applyDel (t : Tracker K V) (k : K) : Tracker K V := { t with dn := del t.dn k }

/-- `PendingDeletionsView.Iter`. -/
def xIter (t : Tracker K V) (ord : List K) (act : K → Act) : Tracker K V :=
  ord.foldl (fun t k => match act k with
    | .update => applyDel t k
    | .noop => t
    | .stop => t) t

/-- One call of `applyFn` inside `IterBatched`, for the `applyFn` family "apply the
offered items in order, at most `lim` of them, and stop with an error at the first
key in `F`": returns (items applied, buffer left after `ks = ks[applied:]` where a
failing item is skipped by the Go code's `applied++`). -/
def scan {α : Type} (key : α → K) (F : K → Bool) : Nat → List α → List α × List α
  | 0, buf => ([], buf)
  | _ + 1, [] => ([], [])
  | n + 1, x :: r =>
    if F (key x) then ([], r)
    else
      let (ap, rest) := scan key F n r
      (x :: ap, rest)

/-- `c = 0`: no per-call limit. Returns (new buffer, items applied). -/
def batchCall {α : Type} (key : α → K) (F : K → Bool) (c : Nat) (buf : List α) : List α × List α :=
  let (ap, rest) := scan key F (if c = 0 then buf.length else c) buf
  (rest, ap)

/-- First loop of `IterBatched`: state = (buffer `ks`, applied so far). -/
def batchLoop {α : Type} (key : α → K) (B : Nat) (F : K → Bool) (c : Nat) :
    List α → List α → List α → List α × List α
  | [], buf, done => (buf, done)
  | kv :: rest, buf, done =>
    let buf := buf ++ [kv]
    if buf.length = B then
      let (buf', ap) := batchCall key F c buf
      batchLoop key B F c rest buf' (done ++ ap)
    else batchLoop key B F c rest buf done

/-- Second loop (`for count > 0`). -/
def batchTail {α : Type} (key : α → K) (F : K → Bool) (c : Nat) : Nat → List α → List α → List α
  | 0, _, done => done
  | fuel + 1, buf, done =>
    if buf.isEmpty then done
    else
      let (buf', ap) := batchCall key F c buf
      batchTail key F c fuel buf' (done ++ ap)

/-- The items `IterBatched` applies, in order, when the map is ranged in order `ord`. -/
def batchedApplied {α : Type} (key : α → K) (B : Nat) (F : K → Bool) (c : Nat) (ord : List α) : List α :=
  let (buf, done) := batchLoop key B F c ord [] []
  batchTail key F c buf.length buf done

/-- `PendingUpdatesView.IterBatched`. -/
def uBatched (t : Tracker K V) (B : Nat) (F : K → Bool) (c : Nat) (ord : List (K × V)) : Tracker K V :=
  (batchedApplied (fun p : K × V => p.1) B F c ord).foldl applyUpd t

/-- `PendingDeletionsView.IterBatched`. -/
def xBatched (t : Tracker K V) (B : Nat) (F : K → Bool) (c : Nat) (ord : List K) : Tracker K V :=
  (batchedApplied (fun k : K => k) B F c ord).foldl applyDel t

/-- The Go constant `batchSize`. -/
def batchSize : Nat := 128

/-- Operations of a history. -/
inductive Op (K V : Type)
  | dSet (k : K) (v : V)
  | dDel (k : K)
  | dDelAll
  | pSet (k : K) (v : V)
  | pDel (k : K)
  | repl (items : List (K × V)) (fail : Bool)
  | uIter (act : K → Act)
  | xIter (act : K → Act)
  | uBatched (F : K → Bool) (c : Nat)
  | xBatched (F : K → Bool) (c : Nat)

/-- One step; the iterating ops visit the maps in list order (any order gives
the same views: `Props.C18`). -/
def step (eqv : V → V → Bool) (t : Tracker K V) : Op K V → Tracker K V
  | .dSet k v => dSet eqv t k v
  | .dDel k => dDel t k
  | .dDelAll => dDelAll t
  | .pSet k v => pSet eqv t k v
  | .pDel k => pDel t k
  | .repl items fail => (replaceAllIter eqv t items fail).1
  | .uIter act => uIter t t.du act
  | .xIter act => xIter t (keys t.dn) act
  | .uBatched F c => uBatched t batchSize F c t.du
  | .xBatched F c => xBatched t batchSize F c (keys t.dn)

def run (eqv : V → V → Bool) (ops : List (Op K V)) : Tracker K V :=
  ops.foldl (step eqv) Tracker.new

end CalicoVerif.C18
