import CalicoVerif.Model.C18
/-
C18 (continued) — model of felix/cachingmap/caching_map.go (CachingMap) over the DeltaTracker model,
with the backing DataplaneMap modelled as the mock the harness uses: a Go map `real` whose `Update` /
`Delete` fail for the keys of a given set (`Delete` of an absent key returns the "not exists" error,
which CachingMap treats as success), whose `Load` may fail, and which optionally implements
DataplaneBatchedMap (`BatchUpdate`/`BatchDelete` apply the offered items in order up to the first
failing key) — then CachingMap uses `IterBatched`.  valuesEqual is `==`.  Core Lean only.
-/
namespace CalicoVerif.C18

variable {K V : Type} [DecidableEq K]

structure CM (K V : Type) where
  t : Tracker K V
  loaded : Bool          -- cacheLoaded
  real : GoMap K V       -- contents of the (mock) dataplane map
  batched : Bool         -- dpMap implements DataplaneBatchedMap

def CM.new (batched : Bool) : CM K V := { t := Tracker.new, loaded := false, real := [], batched := batched }

/-- `LoadCacheFromDataplane`; returns (state, err). -/
def CM.load (eqv : V → V → Bool) (c : CM K V) (loadFails : Bool) : CM K V × Bool :=
  if loadFails then (c, true)
  else ({ c with t := (replaceAllIter eqv c.t c.real false).1, loaded := true }, false)

/-- `maybeLoadCache`. -/
def CM.maybeLoad (eqv : V → V → Bool) (c : CM K V) (loadFails : Bool) : CM K V × Bool :=
  if c.loaded then (c, false) else c.load eqv loadFails

/-- what the successful `dpMap.Update` calls do to the backing map -/
def realAfterUpdates (real : GoMap K V) (du : GoMap K V) (F : K → Bool) : GoMap K V :=
  (du.filter (fun kv => !F kv.1)).foldl (fun r kv => set r kv.1 kv.2) real

/-- what the successful `dpMap.Delete` calls do to the backing map -/
def realAfterDeletes (real : GoMap K V) (ks : List K) (F : K → Bool) : GoMap K V :=
  (ks.filter (fun k => !F k)).foldl (fun r k => del r k) real

/-- `ApplyUpdatesOnly`; `F` = keys whose write fails. Returns (state, err). -/
def CM.applyUpdates (eqv : V → V → Bool) (c : CM K V) (loadFails : Bool) (F : K → Bool) : CM K V × Bool :=
  match c.maybeLoad eqv loadFails with
  | (c, true) => (c, true)
  | (c, false) =>
    let t' := if c.batched then uBatched c.t batchSize F 0 c.t.du else uIter c.t c.t.du (batchAct F)
    ({ c with t := t', real := realAfterUpdates c.real c.t.du F }, c.t.du.any (fun kv => F kv.1))

/-- `ApplyDeletionsOnly`. -/
def CM.applyDeletions (eqv : V → V → Bool) (c : CM K V) (loadFails : Bool) (F : K → Bool) : CM K V × Bool :=
  match c.maybeLoad eqv loadFails with
  | (c, true) => (c, true)
  | (c, false) =>
    let t' := if c.batched then xBatched c.t batchSize F 0 (keys c.t.dn) else xIter c.t (keys c.t.dn) (batchAct F)
    ({ c with t := t', real := realAfterDeletes c.real (keys c.t.dn) F }, (keys c.t.dn).any F)

/-- `ApplyAllChanges`: deletions, then updates; an error if either reports one. -/
def CM.applyAll (eqv : V → V → Bool) (c : CM K V) (loadFails : Bool) (Fd Fu : K → Bool) : CM K V × Bool :=
  let (c1, e1) := c.applyDeletions eqv loadFails Fd
  let (c2, e2) := c1.applyUpdates eqv loadFails Fu
  (c2, e1 || e2)

inductive CMOp (K V : Type)
  | dSet (k : K) (v : V)
  | dDel (k : K)
  | dDelAll
  | load (fails : Bool)
  | applyUpdates (loadFails : Bool) (F : K → Bool)
  | applyDeletions (loadFails : Bool) (F : K → Bool)
  | applyAll (loadFails : Bool) (Fd Fu : K → Bool)

def CM.step (eqv : V → V → Bool) (c : CM K V) : CMOp K V → CM K V × Bool
  | .dSet k v => ({ c with t := dSet eqv c.t k v }, false)
  | .dDel k => ({ c with t := dDel c.t k }, false)
  | .dDelAll => ({ c with t := dDelAll c.t }, false)
  | .load f => c.load eqv f
  | .applyUpdates lf F => c.applyUpdates eqv lf F
  | .applyDeletions lf F => c.applyDeletions eqv lf F
  | .applyAll lf Fd Fu => c.applyAll eqv lf Fd Fu

def cmRun (eqv : V → V → Bool) (batched : Bool) (ops : List (CMOp K V)) : CM K V :=
  ops.foldl (fun c op => (c.step eqv op).1) (CM.new batched)

end CalicoVerif.C18
