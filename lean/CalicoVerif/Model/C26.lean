/-
C26 — model of libcalico-go/lib/backend/watchersyncer: one `watcherCache`
(watchercache.go) as a deterministic machine over scripted List / Watch-create
outcomes and watch events, and the `watcherSyncer.processResult` status
aggregation (watchersyncer.go).

One model step `runCall` = one call of `resyncAndLoopReadingFromWatcher`:
`maybeResyncAndCreateWatcher` consuming List outcomes (`lists`, then the final
successful list `fin` for ever) and Watch-create outcomes (`watches`, then success),
followed by `loopReadingFromWatcher` over the events delivered on the watch
channel until an error event or the channel is closed.

Go → model: resources / oldResources (maps keyed by key string) → association
lists `res` / `old : Option`; currentWatchRevision (string) → `rev : Nat`
("0" ↔ 0); time: `time.Since(lastSuccessfulConnTime) > watchRetryTimeout` is
the input flag `elapsed` of the error outcomes, all sleep intervals are 0.
UpdateProcessor → a stateless function `conv` (none = no processor).  Map
iteration order (finishResync deletions, sendDeletionsForAllResources) → key
order (the harness canonicalises the real output the same way).
Not modelled: contexts/cancellation mid-call, goroutines, the results channel
(a list), logging, `resyncBlockedUntil`.
Core Lean only.
-/
namespace CalicoVerif.C26

abbrev stWait : Nat := 0
abbrev stResync : Nat := 1
abbrev stInSync : Nat := 2

abbrev utNew : Nat := 1
abbrev utUpdated : Nat := 2
abbrev utDeleted : Nat := 3

abbrev maxErrorsPerRevision : Nat := 5

/-- model.KVPair: `del` ⇔ `Value == nil`. -/
structure KV where
  key : Nat
  rev : Nat
  del : Bool
deriving DecidableEq, Repr

/-- api.Update (deletions carry no revision). -/
structure Upd where
  key : Nat
  rev : Nat
  ut : Nat
deriving DecidableEq, Repr

/-- What a cache puts on the results channel. -/
inductive Res where
  | status (s : Nat)
  | updates (us : List Upd)
  | convErr
  | backendErr
deriving DecidableEq, Repr

inductive ListOut where
  | ok (kvs : List KV) (rev : Nat)
  | notFound
  | expired
  | other (elapsed : Bool)
  /-- an empty List with an empty/zero revision after which the call is observed in its polling steady state (the
  harness cancels the context while the cache sleeps for WatchPollInterval) -/
  | pollStop
deriving Repr

def ListOut.isPollStop : ListOut → Bool
  | .pollStop => true
  | _ => false

inductive WatchOut where
  | ok
  | expired
  | connRefused (elapsed : Bool)
  | notSupported
  | other
deriving Repr

inductive Ev where
  | upsert (kv : KV)
  | delete (kv : KV)
  | bookmark (rev : Nat)
  | errExpired
  | errOther
  | unknown
deriving Repr

/-- Private state of an update processor (an arbitrary finite table; the conflict-resolving cache uses
name ↦ (v1 index, revision)). -/
abbrev PState := List (Nat × Nat × Nat)

/-- A `SyncerUpdateProcessor`: `OnSyncerStarting` resets the state to `[]`; `Process` is a function of the
state since the last reset and the KV, returning the new state, the converted KVs and whether it also
returned an error. -/
structure Proc where
  process : PState → KV → PState × List KV × Bool

structure WC where
  res : List (Nat × Nat)
  old : Option (List (Nat × Nat))
  rev : Nat
  errCount : Nat
  status : Nat
  crdInstalled : Bool
  listPolling : Bool
  watchPolling : Bool
  connected : Bool
  sendDeletesOnConnFail : Bool
  /-- `resourceType.UpdateProcessor` (none = nil) -/
  proc : Option Proc
  /-- the processor's private state since its last `OnSyncerStarting` -/
  pst : PState
  /-- number of `OnSyncerStarting` calls made during the current call -/
  resets : Nat
  /-- results emitted so far by the current call (oldest first) -/
  out : List Res

/-- `newWatcherCache`. -/
def WC.new (proc : Option Proc) (sendDeletes : Bool) : WC :=
  { res := [], old := none, rev := 0, errCount := 0, status := stWait, crdInstalled := true,
    listPolling := false, watchPolling := false, connected := false,
    sendDeletesOnConnFail := sendDeletes, proc := proc, pst := [], resets := 0, out := [] }

/-- The harness's stateless UpdateProcessor (mode 1): fan-out to two keys, the second one filtered to a deletion
for odd revisions; revisions divisible by 5 fail conversion (a deletion and an error). -/
def conv1 (kv : KV) : List KV × Bool :=
  if kv.rev % 5 = 0 then ([{ key := kv.key + 100, rev := kv.rev, del := true }], true)
  else ([{ key := kv.key + 100, rev := kv.rev, del := kv.del },
         { key := kv.key + 200, rev := kv.rev, del := kv.del || kv.rev % 2 = 1 }], false)

def proc1 : Proc := { process := fun st kv => (st, (conv1 kv).1, (conv1 kv).2) }

/-! Mode 2: `updateprocessors.NewConflictResolvingCacheUpdateProcessor` (as used for IPPools): v3 resources
indexed by name, v1 key derived from the value (here: `rev % 3`, the harness puts the CIDR accordingly); only the
resource with the lowest name of each v1 key is synced. -/

def crLookup (st : PState) (name : Nat) : Option (Nat × Nat) := (st.find? (fun e => e.1 == name)).map (·.2)
def crErase (st : PState) (name : Nat) : PState := st.filter (fun e => e.1 != name)

def insertSortedN (k : Nat) : List Nat → List Nat
  | [] => [k]
  | x :: xs => if k ≤ x then k :: x :: xs else x :: insertSortedN k xs

/-- `orderedNamesByV1Key[v1Key]`. -/
def crNames (st : PState) (g : Nat) : List Nat :=
  ((st.filter (fun e => e.2.1 == g)).map (·.1)).foldr insertSortedN []

/-- `conflictResolvingCache.delete(name)`. -/
def crDelete (st : PState) (name : Nat) : PState × List KV × Bool :=
  match crLookup st name with
  | none => (st, [], true)
  | some (g, _) =>
    let cns := crNames st g
    let resp : List KV :=
      if cns.head? == some name then
        match cns.tail with
        | [] => [{ key := 300 + g, rev := 0, del := true }]
        | n2 :: _ =>
          match crLookup st n2 with
          | some (_, r2) => [{ key := 300 + g, rev := r2, del := false }]
          | none => []
      else []
    (crErase st name, resp, false)

/-- `conflictResolvingCache.Process(kvp)` (conversion itself never fails in the harness). -/
def crProcess (st : PState) (kv : KV) : PState × List KV × Bool :=
  if kv.del then crDelete st kv.key
  else
    let g := kv.rev % 3
    let d : PState × List KV :=
      match crLookup st kv.key with
      | some (g0, _) => if g0 != g then ((crDelete st kv.key).1, (crDelete st kv.key).2.1) else (st, [])
      | none => (st, [])
    let st2 : PState := (kv.key, g, kv.rev) :: crErase d.1 kv.key
    let cns := crNames st2 g
    let resp := if cns.head? == some kv.key then d.2 ++ [{ key := 300 + g, rev := kv.rev, del := false }] else d.2
    (st2, resp, false)

def proc2 : Proc := { process := crProcess }

/-- The processors the driver / harness use. -/
def procOf : Nat → Option Proc
  | 0 => none
  | 1 => some proc1
  | _ => some proc2

def lookup (m : List (Nat × Nat)) (k : Nat) : Option Nat := (m.find? (fun p => p.1 == k)).map (·.2)
def erase (m : List (Nat × Nat)) (k : Nat) : List (Nat × Nat) := m.filter (fun p => p.1 != k)
def insert (m : List (Nat × Nat)) (k r : Nat) : List (Nat × Nat) := (k, r) :: erase m k

def insertSorted (k : Nat) : List Nat → List Nat
  | [] => [k]
  | x :: xs => if k ≤ x then k :: x :: xs else x :: insertSorted k xs

def sortKeys (l : List Nat) : List Nat := l.foldr insertSorted []

def keysOf (m : List (Nat × Nat)) : List Nat := m.map (fun p => p.1)

def delUpd (k : Nat) : Upd := { key := k, rev := 0, ut := utDeleted }

/-- `sendResult`: a status equal to the current one is swallowed. -/
def WC.send (wc : WC) (r : Res) : WC :=
  match r with
  | .status s => if s = wc.status then wc else { wc with status := s, out := wc.out ++ [r] }
  | _ => { wc with out := wc.out ++ [r] }

/-- `markAsValid`. -/
def WC.markAsValid (wc : WC) (k : Nat) : WC :=
  match wc.old with
  | none => wc
  | some o =>
    match lookup o k with
    | some r => { wc with res := insert wc.res k r, old := some (erase o k) }
    | none => wc

/-- `handleAddedOrModifiedUpdate`. -/
def WC.handleAddMod (wc : WC) (kv : KV) : WC :=
  let wc := wc.markAsValid kv.key
  match lookup wc.res kv.key with
  | some r =>
    if r = kv.rev then wc
    else { wc.send (.updates [{ key := kv.key, rev := kv.rev, ut := utUpdated }]) with res := insert wc.res kv.key kv.rev }
  | none =>
    { wc.send (.updates [{ key := kv.key, rev := kv.rev, ut := utNew }]) with res := insert wc.res kv.key kv.rev }

/-- `handleDeletedUpdate`. -/
def WC.handleDeleted (wc : WC) (k : Nat) : WC :=
  let wc := wc.markAsValid k
  match lookup wc.res k with
  | some _ => { wc.send (.updates [delUpd k]) with res := erase wc.res k }
  | none => wc

/-- `handleConvertedWatchEvent`. -/
def WC.handleConverted (wc : WC) (kv : KV) : WC :=
  if kv.del then wc.handleDeleted kv.key else wc.handleAddMod kv

/-- `UpdateProcessor.Process(kvp)` (identity when there is no processor). -/
def procRun (p : Option Proc) (st : PState) (kv : KV) : PState × List KV × Bool :=
  match p with
  | none => (st, [kv], false)
  | some P => P.process st kv

/-- `handleWatchListEvent`. -/
def WC.handleWatchListEvent (wc : WC) (kv : KV) : WC :=
  let wc := { wc with rev := kv.rev, errCount := 0 }
  let r := procRun wc.proc wc.pst kv
  let wc := { wc with pst := r.1 }
  let wc := r.2.1.foldl WC.handleConverted wc
  if r.2.2 then wc.send .convErr else wc

/-- "Notify the converter that we are resyncing": `UpdateProcessor.OnSyncerStarting()`, called before EVERY List
of a full resync (each iteration of the loop that has `performFullResync` set). -/
def WC.notifyConverter (wc : WC) : WC :=
  { wc with pst := [], resets := if wc.proc.isSome then wc.resets + 1 else wc.resets }

/-- "If the current status is WaitForDatastore, ensure that we transition to ResyncInProgress." -/
def WC.leaveWait (wc : WC) : WC := if wc.status = stWait then wc.send (.status stResync) else wc

/-- The sweep of `finishResync`: deletions for everything left in `oldResources`, then `oldResources = nil`. -/
def WC.sweep (wc : WC) : WC :=
  match wc.old with
  | some o =>
    if o.isEmpty then { wc with old := none }
    else { wc.send (.updates ((sortKeys (keysOf o)).map delUpd)) with old := none }
  | none => { wc with old := none }

/-- `finishResync`. -/
def WC.finishResync (wc : WC) : WC := (wc.leaveWait.sweep).send (.status stInSync)

/-- The status guard at the top of `sendDeletionsForAllResources`. -/
def WC.leaveWaitIfAny (wc : WC) : WC :=
  if !wc.res.isEmpty && wc.status = stWait then wc.send (.status stResync) else wc

/-- One deletion result per resource (key order). -/
def WC.sendDels (wc : WC) : WC :=
  (sortKeys (keysOf wc.res)).foldl (fun wc k => wc.send (.updates [delUpd k])) wc

/-- `clear(wc.resources)` + `resetWatchRevisionForFullResync`. -/
def WC.clearAll (wc : WC) : WC := { wc with res := [], rev := 0, errCount := 0 }

/-- `sendDeletionsForAllResources`. -/
def WC.sendDeletionsForAll (wc : WC) : WC := wc.leaveWaitIfAny.sendDels.clearAll

/-- Status signalling at the start of a full resync (polling / CRD-missing states stay sticky InSync). -/
def WC.beginFull (wc : WC) : WC :=
  let prevPolling := wc.listPolling || wc.watchPolling
  let wc := { wc with listPolling := false, watchPolling := false }
  if wc.crdInstalled && !prevPolling then
    (if wc.connected then wc.send (.status stResync) else wc.send (.status stWait))
  else wc

/-- List failed with NotFound: "backing API not installed". -/
def WC.onListNotFound (wc : WC) : WC :=
  let wc := wc.finishResync
  { wc with listPolling := false, watchPolling := false, crdInstalled := false, connected := true }

/-- List failed with ResourceExpired / too-large resource version. -/
def WC.onListExpired (wc : WC) : WC :=
  { wc with crdInstalled := true, rev := 0, errCount := 0, connected := true }

/-- List failed with another error; `elapsed` = no successful contact for longer than watchRetryTimeout. -/
def WC.onListOther (wc : WC) (elapsed : Bool) : WC :=
  let wc := { wc with crdInstalled := true }
  if elapsed then
    let wc := ({ wc with connected := false, listPolling := false, watchPolling := false }).send .backendErr
    if wc.sendDeletesOnConnFail then wc.sendDeletionsForAll else wc
  else wc

/-- `markConnected` + `markInstalled` after a successful List. -/
def WC.listSucceeded (wc : WC) : WC := { wc with connected := true, crdInstalled := true }

/-- "Move the current resources over to the oldResources". -/
def WC.startSweep (wc : WC) : WC := { wc with old := some wc.res, res := [] }

/-- A successful List: mark-and-sweep over the listed KVs, then `finishResync`. -/
def WC.processList (wc : WC) (kvs : List KV) : WC :=
  (kvs.foldl WC.handleWatchListEvent wc.listSucceeded.leaveWait.startSweep).finishResync

/-- The full-resync part of one loop iteration for the List outcome `lo`:
(new state, `performFullResync`, fall through to the Watch call?). -/
def listStep (wc : WC) (lo : ListOut) : WC × Bool × Bool :=
  let wc := wc.beginFull.notifyConverter
  match lo with
  | .notFound => (wc.onListNotFound, true, false)
  | .expired => (wc.onListExpired, true, false)
  | .other elapsed => (wc.onListOther elapsed, true, false)
  | .ok kvs lrev =>
    let wc := wc.processList kvs
    if lrev = 0 then
      -- empty list with a zero revision: poll (items with a zero revision make the real code panic;
      -- the harness never scripts that)
      ({ wc with listPolling := true, watchPolling := false, rev := 0 }, true, false)
    else ({ wc with rev := lrev, errCount := 0 }, false, true)
  | .pollStop =>
    ({ wc.processList [] with listPolling := true, watchPolling := false, rev := 0 }, true, false)

/-- The Watch-create part of one loop iteration for the outcome `wo`:
(new state, `performFullResync`, watch created?). -/
def watchStep (wc : WC) (full : Bool) (wo : WatchOut) : WC × Bool × Bool :=
  match wo with
  | .ok => (wc, full, true)
  | .expired =>
    ({ wc with rev := 0, errCount := 0, connected := true, listPolling := false, watchPolling := false }, full, false)
  | .connRefused elapsed =>
    (if elapsed then
        { wc with rev := 0, errCount := 0, connected := false, listPolling := false, watchPolling := false }
      else wc, full, false)
  | .notSupported => ({ wc with watchPolling := true, listPolling := false }, true, false)
  | .other =>
    let wc := { wc with errCount := wc.errCount + 1 }
    (wc, full || wc.errCount ≥ maxErrorsPerRevision, false)

/-- The loop of `maybeResyncAndCreateWatcher`; `full` is `performFullResync`.  `some` = the watch was
created; `none` = out of fuel (never, for the fuel `runCall` passes: every iteration consumes a scripted
outcome or ends, and the final list `fin` has a non-zero revision). -/
def resyncLoop (fin : List KV × Nat) : Nat → WC → Bool → List ListOut → List WatchOut → Option WC
  | 0, _, _, _, _ => none
  | fuel + 1, wc, full, lists, watches =>
    let full := full || wc.rev = 0
    let lo := lists.headD (ListOut.ok fin.1 fin.2)
    let r : WC × Bool × Bool := if full then listStep wc lo else (wc, false, true)
    let lists := if full then lists.tail else lists
    if full && lo.isPollStop then some r.1
    else if !r.2.2 then resyncLoop fin fuel r.1 r.2.1 lists watches
    else
      let w := watchStep r.1 r.2.1 (watches.headD WatchOut.ok)
      if w.2.2 then some w.1 else resyncLoop fin fuel w.1 w.2.1 lists watches.tail

/-- `loopReadingFromWatcher` over the events on the channel (then the channel is closed). -/
def eventLoop : WC → List Ev → WC
  | wc, [] => wc
  | wc, ev :: evs =>
    match ev with
    | .upsert kv => eventLoop (wc.handleWatchListEvent kv) evs
    | .delete kv => eventLoop (wc.handleWatchListEvent { kv with del := true }) evs
    | .bookmark r => eventLoop { wc with rev := r, errCount := 0 } evs
    | .errExpired => { wc with rev := 0, errCount := 0 }
    | .errOther =>
      let wc := { wc with errCount := wc.errCount + 1 }
      if wc.errCount ≥ maxErrorsPerRevision then { wc with rev := 0, errCount := 0 } else wc
    | .unknown => eventLoop wc evs

/-- One call of `resyncAndLoopReadingFromWatcher` with the scripted outcomes.  (A call that ends with `pollStop`
has no watch, hence no events: scripts combine `pollStop` only with `evs = []`.) -/
def runCall (wc : WC) (lists : List ListOut) (watches : List WatchOut) (fin : List KV × Nat) (evs : List Ev) : WC :=
  let wc := { wc with out := [], resets := 0 }
  let wc := (resyncLoop fin (lists.length + watches.length + 2) wc false lists watches).getD wc
  eventLoop wc evs

/-! ### watcherSyncer: status aggregation and update consolidation -/

/-- What the syncer calls on its callbacks. -/
inductive Cb where
  | status (s : Nat)
  | updates (us : List Upd)
  | syncFailed
deriving DecidableEq, Repr

structure WS where
  status : Nat
  cacheStatuses : List Nat
  /-- the `updates` slice being consolidated -/
  pending : List Upd
  cbs : List Cb
deriving Repr

def WS.new (n : Nat) : WS :=
  { status := stWait, cacheStatuses := List.replicate n stWait, pending := [], cbs := [Cb.status stWait] }

/-- `sendUpdates`. -/
def WS.flush (ws : WS) : WS :=
  if ws.pending.isEmpty then ws else { ws with pending := [], cbs := ws.cbs ++ [Cb.updates ws.pending] }

/-- The aggregate of the per-cache statuses. -/
def aggregate (l : List Nat) : Nat :=
  if l.all (· == stInSync) then stInSync
  else if l.all (· == stWait) then stWait
  else stResync

/-- `processResult`. -/
def WS.processResult (ws : WS) (cacheID : Nat) : Res → WS
  | .updates us => { ws with pending := ws.pending ++ us }
  | .convErr => ws.flush
  | .backendErr => let ws := ws.flush; { ws with cbs := ws.cbs ++ [Cb.syncFailed] }
  | .status s =>
    let ws := { ws with cacheStatuses := ws.cacheStatuses.set cacheID s }
    let ns := aggregate ws.cacheStatuses
    if ns != ws.status then
      let ws := ws.flush
      { ws with status := ns, cbs := ws.cbs ++ [Cb.status ns] }
    else ws

/-- One consolidation batch: all results of one cache call, then `sendUpdates`. -/
def WS.processBatch (ws : WS) (cacheID : Nat) (rs : List Res) : WS :=
  (rs.foldl (fun ws r => ws.processResult cacheID r) ws).flush

end CalicoVerif.C26
