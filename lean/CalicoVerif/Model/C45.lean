/-
C45 — model of lib/datastructures/hashring/hashring.go (Ring[V]).

* Keys are Go strings = byte sequences: `Key := List Nat` (bytes), compared
  bytewise-lexicographically like `cmp.Compare` on strings.
* The byte-slice hasher (`Hash`, default XXH3-64) is a PARAMETER `H` of every
  definition (uninterpreted `bytes → uint64`); `saltedHash` builds the same
  byte string as the Go code (`key ++ [0] ++ LE32(uint32(i))`).
* `uint64` hashes are `Nat`s below 2^64; the wrap-around subtraction
  `entries[idx].hash - probe` is `(h + 2^64 - p) % 2^64`.
* Go maps `members` / `deletedKeys` are association lists / lists used as sets
  (the model never depends on their order: see `Props/C45.lean`).
* `slices.SortFunc` is modelled by `List.mergeSort` under the same comparator
  and `slices.BinarySearchFunc` by "index of the first entry with hash ≥ probe"
  (their library contracts; the Go runtime is in the trusted base).
* An out-of-range `r.entries[idx]` (a Go panic) is modelled as `Res.panic`.
Core Lean only (linked into the driver executable).
-/
namespace CalicoVerif.C45

abbrev Key := List Nat

structure Entry where
  hash : Nat
  key : Key
deriving DecidableEq, Repr

/-- Comparator of `slices.SortFunc` in `Lookup`: by hash, then by key. -/
def Entry.le (a b : Entry) : Bool :=
  decide (a.hash < b.hash) || (decide (a.hash = b.hash) && decide (a.key ≤ b.key))

/-- `binary.LittleEndian.PutUint32(idx, uint32(i))`. -/
def le32 (i : Nat) : List Nat :=
  [i % 256, i / 256 % 256, i / 65536 % 256, i / 16777216 % 256]

/-- `saltedHash(key, i)`; result reduced to a uint64. -/
def saltedHash (H : List Nat → Nat) (key : Key) (i : Nat) : Nat :=
  H (key ++ [0] ++ le32 i) % 2 ^ 64

structure Ring (V : Type) where
  replicas : Nat
  probes : Nat
  members : List (Key × V)
  deleted : List Key
  entries : List Entry
  sorted : Bool
deriving Repr

/-- `New` with explicit replicas/probes; `none` = the constructor panics. -/
def Ring.new {V : Type} (replicas probes : Int) : Option (Ring V) :=
  if replicas < 1 ∨ probes < 1 then none
  else some { replicas := replicas.toNat, probes := probes.toNat, members := [], deleted := [],
              entries := [], sorted := false }

/-- Go map read `m[k]`. -/
def mget {V : Type} (m : List (Key × V)) (k : Key) : Option V :=
  match m with
  | [] => none
  | (k', v) :: rest => if k' = k then some v else mget rest k

/-- Go map write `m[k] = v`. -/
def mset {V : Type} (m : List (Key × V)) (k : Key) (v : V) : List (Key × V) :=
  match m with
  | [] => [(k, v)]
  | (k', v') :: rest => if k' = k then (k, v) :: rest else (k', v') :: mset rest k v

/-- The virtual nodes appended by `Insert` for a new key. -/
def replicaEntries (H : List Nat → Nat) (replicas : Nat) (key : Key) : List Entry :=
  (List.range replicas).map (fun i => { hash := saltedHash H key i, key := key })

/-- `Insert(key, value)`. -/
def Ring.insert {V : Type} (H : List Nat → Nat) (r : Ring V) (key : Key) (value : V) : Ring V :=
  if key ∈ r.deleted then
    { r with deleted := r.deleted.filter (· ≠ key), members := mset r.members key value }
  else if (mget r.members key).isSome then
    { r with members := mset r.members key value }
  else
    { r with members := mset r.members key value,
             entries := r.entries ++ replicaEntries H r.replicas key,
             sorted := false }

/-- `Remove(key)`. -/
def Ring.remove {V : Type} (r : Ring V) (key : Key) : Ring V :=
  if (mget r.members key).isNone then r
  else if key ∈ r.deleted then r
  else { r with deleted := key :: r.deleted }

/-- `Len()` (Go `int` arithmetic). -/
def Ring.len {V : Type} (r : Ring V) : Int :=
  (r.members.length : Int) - (r.deleted.length : Int)

/-- Result of `Lookup`. -/
inductive Res (V : Type) where
  | absent                 -- `(zero, false)`
  | owner (v : Option V)   -- `(members[key], true)`; `none` = key missing from the map (zero value)
  | panic                  -- index out of range
deriving Repr, DecidableEq

/-- `slices.BinarySearchFunc(entries, probe, cmp on hash)` on a list sorted by
hash: smallest index whose hash is ≥ probe (`len` if none). -/
def searchIdx (entries : List Entry) (probe : Nat) : Nat :=
  match entries with
  | [] => 0
  | e :: rest => if e.hash ≥ probe then 0 else searchIdx rest probe + 1

/-- One iteration of the probe loop: state `(bestDist, bestIdx)`; `none` = panic. -/
def probeStep (H : List Nat → Nat) (entries : List Entry) (key : Key)
    (st : Option (Nat × Nat)) (i : Nat) : Option (Nat × Nat) :=
  match st with
  | none => none
  | some (bestDist, bestIdx) =>
    let probe := saltedHash H key i
    let idx0 := searchIdx entries probe
    let idx := if idx0 = entries.length then 0 else idx0
    match entries[idx]? with
    | none => none
    | some e =>
      let dist := (e.hash + 2 ^ 64 - probe) % 2 ^ 64
      if dist < bestDist then some (dist, idx) else some (bestDist, bestIdx)

/-- The sweep at the top of `Lookup`. -/
def Ring.sweep {V : Type} (r : Ring V) : Ring V :=
  if r.deleted.length > 0 then
    { r with entries := r.entries.filter (fun e => !(r.deleted.contains e.key)),
             members := r.members.filter (fun kv => !(r.deleted.contains kv.1)),
             deleted := [] }
  else r

/-- The sort in `Lookup`. -/
def Ring.sort {V : Type} (r : Ring V) : Ring V :=
  if !r.sorted then { r with entries := r.entries.mergeSort Entry.le, sorted := true } else r

/-- The part of `Lookup` after the sweep and the sort: the probe loop over the
entry table `E` with `P` probes, then the member-map read `mg`. -/
def lookupRes {V : Type} (H : List Nat → Nat) (E : List Entry) (P : Nat) (mg : Key → Option V)
    (q : Key) : Res V :=
  match (List.range P).foldl (probeStep H E q) (some (2 ^ 64 - 1, 0)) with
  | none => .panic
  | some (_, bestIdx) =>
    match E[bestIdx]? with
    | none => .panic
    | some e => .owner (mg e.key)

/-- `Lookup(key)`: returns the mutated ring (sweep + sort) and the result. -/
def Ring.lookup {V : Type} (H : List Nat → Nat) (r : Ring V) (key : Key) : Ring V × Res V :=
  if r.len = 0 then (r, .absent)
  else
    (r.sweep.sort,
      lookupRes H r.sweep.sort.entries r.sweep.sort.probes (mget r.sweep.sort.members) key)

/-! ### Histories -/

inductive Op (V : Type) where
  | insert (key : Key) (value : V)
  | remove (key : Key)
  | lookup (key : Key)
deriving Repr

def Ring.step {V : Type} (H : List Nat → Nat) (r : Ring V) : Op V → Ring V
  | .insert k v => r.insert H k v
  | .remove k => r.remove k
  | .lookup k => (r.lookup H k).1

def Ring.run {V : Type} (H : List Nat → Nat) (r : Ring V) (ops : List (Op V)) : Ring V :=
  ops.foldl (Ring.step H) r

/-- The live member map: what `Len`/`Lookup` regard as the current members. -/
def Ring.live {V : Type} (r : Ring V) (k : Key) : Option V :=
  if k ∈ r.deleted then none else mget r.members k


/-! ### Specification of "the current member set"

Independent of the ring's internals: `Insert` sets, `Remove` deletes, `Lookup`
does not change the member set. -/

def Op.apply {V : Type} (m : Key → Option V) : Op V → Key → Option V
  | .insert k v => fun k' => if k' = k then some v else m k'
  | .remove k => fun k' => if k' = k then none else m k'
  | .lookup _ => m

/-- The member set (key ↦ value) after a history, starting from no members. -/
def memberMap {V : Type} (ops : List (Op V)) : Key → Option V :=
  ops.foldl Op.apply (fun _ => none)

/-- The history that builds a ring from a list of members, in list order. -/
def insertAll {V : Type} (kvs : List (Key × V)) : List (Op V) :=
  kvs.map (fun kv => Op.insert kv.1 kv.2)

end CalicoVerif.C45
