import CalicoVerif.Model.C02
/-
C03 — model of felix/calc/policy_sorter.go (PolicySorter, TierLess, PolKVLess,
ExtractPolicyMetadata) and felix/calc/policy_resolver.go (PolicyResolver).

 * `google/btree` is modelled as a list kept sorted under the same comparator
   (`btInsert` = ReplaceOrInsert, `btDelete` = Delete: both locate an item by the
   comparator only, exactly as the btree does).
 * `float64` orders are modelled as `Int` (the harness scales a decimal grid);
   the default policy order `+Inf` and an unset tier order (`nil`) are `none`.
   NaN / ±Inf given explicitly as an order are out of the model.
 * Which endpoints a policy matched is an INPUT (`onPolicyMatch` /
   `onPolicyMatchStopped`, called by the ActiveRulesCalculator).
 * The resolver's output is a list of `C02.Call.endpointUpdate`, i.e. exactly the
   calls it makes on the EventSequencer (`OnEndpointTierUpdate`).
 * not modelled: endpointComputedData, endpointBGPPeerData (opaque pass-through),
   prometheus gauges.
Core Lean only.
-/
namespace CalicoVerif.C03
open CalicoVerif.C02

/-! ### btree as a sorted list -/

/-- `ReplaceOrInsert`. -/
def btInsert {α} (less : α → α → Bool) (x : α) : List α → List α
  | [] => [x]
  | h :: t => if less x h then x :: h :: t else if less h x then h :: btInsert less x t else x :: t

/-- `Delete`. -/
def btDelete {α} (less : α → α → Bool) (x : α) : List α → List α
  | [] => []
  | h :: t => if less x h then h :: t else if less h x then h :: btDelete less x t else t

/-! ### comparators -/

structure TierKey where
  name : String
  valid : Bool
  order : Option Int
deriving DecidableEq, Repr, Inhabited

/-- `TierLess`. -/
def tierLess (i j : TierKey) : Bool :=
  if !i.valid && j.valid then false
  else if i.valid && !j.valid then true
  else match i.order, j.order with
    | none, some _ => false
    | some _, none => true
    | none, none => decide (i.name < j.name)
    | some a, some b => if a = b then decide (i.name < j.name) else decide (a < b)

/-- The tie-break string of `PolKVLess`: `fmt.Sprintf("%s/%s/%s", Name, Namespace, Kind)`. -/
def tieStr (k : PolicyKey) : String := k.name ++ "/" ++ k.ns ++ "/" ++ k.kind

/-- `float64` `<` on orders with `none` = +Inf. -/
def orderLt : Option Int → Option Int → Bool
  | some a, some b => decide (a < b)
  | some _, none => true
  | none, _ => false

/-- `PolKVLess`. -/
def polKVLess (i j : PolKV) : Bool :=
  if i.val.order = j.val.order then decide (tieStr i.key < tieStr j.key)
  else orderLt i.val.order j.val.order

/-! ### ExtractPolicyMetadata -/

/-- The fields of `model.Policy` that `ExtractPolicyMetadata` reads. -/
structure PolicyIn where
  tier : String
  order : Option Int
  doNotTrack : Bool
  preDNAT : Bool
  applyOnForward : Bool
  types : List String
deriving DecidableEq, Repr, Inhabited

/-- `strings.EqualFold` restricted to ASCII input. -/
def equalFoldAscii (a b : String) : Bool := a.toLower == b.toLower

/-- `ExtractPolicyMetadata`. -/
def extractPolicyMetadata (p : PolicyIn) : PolMeta :=
  { tier := if p.tier = "" then "default" else p.tier
    order := p.order
    doNotTrack := p.doNotTrack
    preDNAT := p.preDNAT
    applyOnForward := p.applyOnForward
    ingress := p.types.isEmpty || p.types.any (fun t => equalFoldAscii t "ingress")
    egress := p.types.isEmpty || p.types.any (fun t => equalFoldAscii t "egress") }

/-! ### PolicySorter -/

/-- `TierInfo` inside the sorter (Policies map + SortedPolicies btree). -/
structure TierSt where
  name : String
  valid : Bool := false
  order : Option Int := none
  defaultAction : String := ""
  policies : List (PolicyKey × PolMeta) := []
  sorted : List PolKV := []
deriving Repr, DecidableEq, Inhabited

def TierSt.key (t : TierSt) : TierKey := ⟨t.name, t.valid, t.order⟩

structure Sorter where
  tiers : List (String × TierSt) := []
  sortedTiers : List TierKey := []
deriving Repr, DecidableEq, Inhabited

/-- `tierForPolicy(key, nil)`: the tier whose Policies map holds the key. -/
def Sorter.tierHolding (s : Sorter) (k : PolicyKey) : Option TierSt :=
  (s.tiers.find? (fun p => (mget p.2.policies k).isSome)).map (·.2)

/-- `HasPolicy`. -/
def Sorter.hasPolicy (s : Sorter) (k : PolicyKey) : Bool := (s.tierHolding k).isSome

/-- Remove `k` (with metadata `old`) from tier `t`; drop the tier if it is now empty and invalid.
Shared tail of both removal paths of `UpdatePolicy`. -/
def Sorter.removeFrom (s : Sorter) (t : TierSt) (k : PolicyKey) (old : PolMeta) : Sorter :=
  let t' := { t with sorted := btDelete polKVLess ⟨k, old⟩ t.sorted, policies := mdel k t.policies }
  if t'.policies.isEmpty && !t'.valid then
    { tiers := mdel t.name s.tiers, sortedTiers := btDelete tierLess t.key s.sortedTiers }
  else { s with tiers := mset t.name t' s.tiers }

/-- Second half of `UpdatePolicy` for `newPolicy != nil` ("Now add to new tier"): create the tier
placeholder if needed, replace the policy's entry in the tier's btree and map. -/
def Sorter.insertPolicy (s : Sorter) (k : PolicyKey) (np : PolMeta) (dirty : Bool) : Sorter × Bool :=
  let (s, t) : Sorter × TierSt := match mget s.tiers np.tier with
    | some t => (s, t)
    | none =>
      -- tierInfo = NewTierInfo(tierName); poc.tiers[tierName] = tierInfo; poc.sortedTiers.ReplaceOrInsert(tiKey)
      let t : TierSt := { name := np.tier }
      ({ tiers := mset np.tier t s.tiers, sortedTiers := btInsert tierLess t.key s.sortedTiers }, t)
  let oldPolicy := mget t.policies k
  let dirty := dirty || (oldPolicy ≠ some np)
  let sorted := match oldPolicy with
    | some op => btDelete polKVLess ⟨k, op⟩ t.sorted
    | none => t.sorted
  let t' := { t with sorted := btInsert polKVLess ⟨k, np⟩ sorted, policies := mset k np t.policies }
  ({ s with tiers := mset t.name t' s.tiers }, dirty)

/-- `UpdatePolicy(key, newPolicy)`; returns the new sorter and `dirty`.

`oldTierInfo != tierInfo` (pointer comparison of the tier that holds the key with `tiers[meta.Tier]`,
nil if absent) is `oldTier.name ≠ meta.Tier`; for `newPolicy == nil` both are the same tier. -/
def Sorter.updatePolicy (s : Sorter) (k : PolicyKey) : Option PolMeta → Sorter × Bool
  | none =>
    match s.tierHolding k with
    | some t =>
      match mget t.policies k with
      | some op => (s.removeFrom t k op, true)
      | none => (s, false)
    | none => (s, false)
  | some np =>
    -- If the tier has changed, remove from old tier first.
    let (s1, moved) : Sorter × Bool := match s.tierHolding k with
      | some ot =>
        if ot.name ≠ np.tier then
          match mget ot.policies k with
          | some oldPolicy => (s.removeFrom ot k oldPolicy, true)
          | none => (s, true)
        else (s, false)
      | none => (s, false)
    s1.insertPolicy k np moved

/-- `OnUpdate` for a `model.TierKey`: `some (order, defaultAction)` = update, `none` = deletion. -/
def Sorter.onTierUpdate (s : Sorter) (name : String) (v : Option (Option Int × String)) : Sorter × Bool :=
  match v with
  | some (order, act) =>
    match mget s.tiers name with
    | none =>
      let t : TierSt := { name := name, valid := true, order := order, defaultAction := act }
      -- NewTierInfo, then Order/DefaultAction/Valid set, then ReplaceOrInsert(newKey)
      ({ tiers := mset name t s.tiers, sortedTiers := btInsert tierLess t.key s.sortedTiers }, true)
    | some t =>
      let st := btDelete tierLess t.key s.sortedTiers
      let dirty := decide (t.order ≠ order) || decide (t.defaultAction ≠ act)
      let t' := { t with order := order, defaultAction := act, valid := true }
      ({ tiers := mset name t' s.tiers, sortedTiers := btInsert tierLess t'.key st }, dirty)
  | none =>
    match mget s.tiers name with
    | none => (s, false)
    | some t =>
      let st := btDelete tierLess t.key s.sortedTiers
      let t' := { t with valid := false, order := none, defaultAction := "" }
      if t.policies.isEmpty then ({ tiers := mdel name s.tiers, sortedTiers := st }, true)
      else ({ tiers := mset name t' s.tiers, sortedTiers := btInsert tierLess t'.key st }, true)

/-- `Sorted()`. `none` = the "tier present in tree but not in map" panic. -/
def Sorter.sortedOut (s : Sorter) : Option (List TierInfo) :=
  s.sortedTiers.mapM (fun tk => (mget s.tiers tk.name).map
    (fun t => ({ name := t.name, order := t.order, defaultAction := t.defaultAction, valid := t.valid,
                 policies := t.sorted } : TierInfo)))

/-! ### PolicyResolver -/

structure Resolver where
  /-- policyIDToEndpointIDs / endpointIDToPolicyIDs (one relation, kept in both directions by the code) -/
  matched : List (PolicyKey × EpKey) := []
  allPolicies : List (PolicyKey × PolMeta) := []
  sorter : Sorter := {}
  endpoints : List (EpKey × EpData) := []
  dirty : List EpKey := []
  inSync : Bool := false
  pending : List PolicyKey := []
deriving Repr, DecidableEq, Inhabited

def Resolver.polHasMatch (r : Resolver) (k : PolicyKey) : Bool := r.matched.any (fun p => p.1 = k)
def Resolver.matchingEps (r : Resolver) (k : PolicyKey) : List EpKey := (r.matched.filter (fun p => p.1 = k)).map (·.2)
def Resolver.matchedEps (r : Resolver) : List EpKey := (r.matched.map (·.2)).eraseDups

def addAll {α} [DecidableEq α] (xs : List α) (s : List α) : List α := xs.foldl (fun s x => sadd x s) s

inductive Event
  | endpoint (k : EpKey) (v : Option EpData)
  | policy (k : PolicyKey) (v : Option PolicyIn)
  | tier (name : String) (v : Option (Option Int × String))
  | status (inSync : Bool)
  | matchStarted (p : PolicyKey) (e : EpKey)
  | matchStopped (p : PolicyKey) (e : EpKey)
deriving Repr, DecidableEq

/-- `OnUpdate(PolicyKey)`, first part: `allPolicies` / `pendingPolicyUpdates` bookkeeping. -/
def Resolver.recordPolicy (r : Resolver) (k : PolicyKey) : Option PolicyIn → Resolver
  | none => { r with allPolicies := mdel k r.allPolicies, pending := sdel k r.pending }
  | some p => { r with allPolicies := mset k (extractPolicyMetadata p) r.allPolicies }

/-- `OnUpdate(PolicyKey)`, second part: unmatched policies are not forwarded to the sorter; for a
matched one the sorter is updated and, if it reports a change, the matching endpoints become dirty. -/
def Resolver.applyPolicy (r : Resolver) (k : PolicyKey) (m : Option PolMeta) : Resolver :=
  if !r.polHasMatch k then r
  else
    let (s, dirty) := r.sorter.updatePolicy k m
    let r := { r with sorter := s }
    if dirty then { r with dirty := addAll (r.matchingEps k) r.dirty } else r

/-- `OnUpdate`, `OnDatamodelStatus`, `OnPolicyMatch`, `OnPolicyMatchStopped`. -/
def Resolver.step (r : Resolver) : Event → Resolver
  | .endpoint k (some v) => { r with endpoints := mset k v r.endpoints, dirty := sadd k r.dirty }
  | .endpoint k none => { r with endpoints := mdel k r.endpoints, dirty := sadd k r.dirty }
  | .policy k v => (r.recordPolicy k v).applyPolicy k (v.map extractPolicyMetadata)
  | .tier name v =>
    let (s, _) := r.sorter.onTierUpdate name v
    { r with sorter := s, dirty := addAll r.matchedEps r.dirty }
  | .status inSync => if inSync && !r.inSync then { r with inSync := true } else r
  | .matchStarted p e =>
    let r := if !r.sorter.hasPolicy p then { r with pending := sadd p r.pending } else r
    { r with matched := sadd (p, e) r.matched, dirty := sadd e r.dirty }
  | .matchStopped p e =>
    let r := { r with matched := sdel (p, e) r.matched }
    -- last match stopped: drop from the sorter and drop any update still waiting for the next flush
    let r := if !r.polHasMatch p then
        { r with sorter := (r.sorter.updatePolicy p none).1, pending := sdel p r.pending } else r
    { r with dirty := sadd e r.dirty }

/-- The tier list `sendEndpointUpdate` builds for one endpoint from `sortedTierData`. -/
def filterTiers (matched : List (PolicyKey × EpKey)) (e : EpKey) : List TierInfo → List TierInfo
  | [] => []
  | t :: ts =>
    let ps := t.policies.filter (fun kv => decide ((kv.key, e) ∈ matched))
    if ps.isEmpty then filterTiers matched e ts
    else { name := t.name, order := t.order, defaultAction := t.defaultAction, valid := true, policies := ps }
          :: filterTiers matched e ts

/-- `sendEndpointUpdate`: the call made on the EventSequencer. -/
def Resolver.sendEndpointUpdate (r : Resolver) (sorted : List TierInfo) (e : EpKey) : Call :=
  match mget r.endpoints e with
  | none => .endpointUpdate e none
  | some ep => .endpointUpdate e (some ⟨ep, filterTiers r.matched e sorted⟩)

/-- Body of the `pendingPolicyUpdates.Iter` loop in `Flush`. -/
def Sorter.resolvePending (all : List (PolicyKey × PolMeta)) (s : Sorter) (k : PolicyKey) : Sorter :=
  match mget all k with
  | some m => (s.updatePolicy k (some m)).1
  | none => s

/-- `Flush`. `none` = panic inside `Sorted()`. -/
def Resolver.flush (r : Resolver) : Option (Resolver × List Call) :=
  if !r.inSync then some (r, [])
  else
    -- resolve pending policy updates whose metadata is known; the others stay pending
    let known := r.pending.filter (fun k => (mget r.allPolicies k).isSome)
    let s := known.foldl (Sorter.resolvePending r.allPolicies) r.sorter
    let r := { r with sorter := s, pending := r.pending.filter (fun k => (mget r.allPolicies k).isNone) }
    match r.sorter.sortedOut with
    | none => none
    | some sorted => some ({ r with dirty := [] }, r.dirty.map (r.sendEndpointUpdate sorted))

end CalicoVerif.C03
