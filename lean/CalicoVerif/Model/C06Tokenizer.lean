/-
C06 (shared Selector model, part 1/3) — model of
libcalico-go/lib/selector/tokenizer/tokenizer.go.

A Go `string` is a byte sequence.  It is modelled as `Str = List Char` where a
byte `b` is the character with code `b` (0..255); the tokenizer only ever looks
at ASCII bytes, every other byte is opaque to it, so the model is in fact
defined (and the theorems proved) for arbitrary characters.

The Go `for` loop of `AppendTokens` is the recursion `tokenizeFrom`; its fuel
is `len(input)+1` and can never run out because the Go code's own progress
check (`len(input) >= startLen` ⇒ "infinite loop detected") is modelled too.

Core Lean only (linked into the driver executable).
-/
namespace CalicoVerif.C06

/-- A Go string (byte sequence). -/
abbrev Str := List Char

/-- `tokenizer.MaxLabelLength`. -/
def maxLabelLength : Nat := 512

/-- Error kinds: the distinct `errors.New`/`fmt.Errorf` sites of tokenizer.go and
parser.go (`fuel` is the model's own totalisation; `Props/C06` proves it is never
returned by `parse`/`tokenize`). -/
inductive Err
  | unterminated      -- "unterminated string"
  | expectedEqEq      -- "expected =="
  | expectedAndAnd    -- "expected &&"
  | expectedOrOr      -- "expected ||"
  | expectedOperator  -- "expected operator after label …"
  | expectedIdent     -- "expected identifier"
  | labelTooLong      -- "label too long: …"
  | noCloseHas        -- "no closing ')' after has("
  | noCloseAll        -- "no closing ')' after all("
  | noCloseGlobal     -- "no closing ')' after global("
  | infiniteLoop      -- "infinite loop detected in tokenizer"
  | unexpectedEOF     -- parser.ErrUnexpectedEOF
  | expectedRParen    -- parser.ErrExpectedRParen
  | expectedRBrace    -- parser.ErrExpectedRBrace
  | expectedString    -- parser.ErrExpectedString
  | expectedSetLit    -- parser.ErrExpectedSetLit
  | expectedOp        -- "expected == or != not: …"
  | unexpectedToken   -- "unexpected token: …"
  | trailing          -- "unexpected content at end of selector …"
  | fuel              -- model only
deriving DecidableEq, Repr

def Err.name : Err → String
  | .unterminated => "unterminated" | .expectedEqEq => "expected-eqeq"
  | .expectedAndAnd => "expected-andand" | .expectedOrOr => "expected-oror"
  | .expectedOperator => "expected-operator" | .expectedIdent => "expected-ident"
  | .labelTooLong => "label-too-long" | .noCloseHas => "no-close-has"
  | .noCloseAll => "no-close-all" | .noCloseGlobal => "no-close-global"
  | .infiniteLoop => "infinite-loop" | .unexpectedEOF => "unexpected-eof"
  | .expectedRParen => "expected-rparen" | .expectedRBrace => "expected-rbrace"
  | .expectedString => "expected-string" | .expectedSetLit => "expected-setlit"
  | .expectedOp => "expected-op" | .unexpectedToken => "unexpected-token"
  | .trailing => "trailing" | .fuel => "fuel"

/-- `tokenizer.Token`: the kinds that carry a `Value` have it as payload; all
other kinds have `Value == ""` in Go. -/
inductive Token
  | label (name : Str)        -- TokLabel
  | str (value : Str)         -- TokStringLiteral
  | lBrace | rBrace | comma
  | eq | ne | «in» | not | notIn | contains | startsWith | endsWith
  | all
  | has (name : Str)          -- TokHas
  | lParen | rParen | and | or | global | eof
deriving DecidableEq, Repr

/-- `lastTokKind == TokLabel`. -/
def Token.isLabel : Token → Bool
  | .label _ => true
  | _ => false

/-- The blank test inside `trimWhitespace`. -/
def isWs (c : Char) : Bool := c = ' ' || c = '\t'

/-- `trimWhitespace`. -/
def trimWhitespace : Str → Str
  | [] => []
  | c :: cs => if isWs c then trimWhitespace cs else c :: cs

/-- `identifierChar`. -/
def identifierChar (c : Char) : Bool :=
  (97 ≤ c.toNat && c.toNat ≤ 122) ||   -- a..z
  (65 ≤ c.toNat && c.toNat ≤ 90) ||    -- A..Z
  (48 ≤ c.toNat && c.toNat ≤ 57) ||    -- 0..9
  c = '_' || c = '.' || c = '/' || c = '-'

/-- `strings.CutPrefix(input, pre)`; `none` = not found. -/
def cutPrefix : (pre : Str) → (input : Str) → Option Str
  | [], s => some s
  | _ :: _, [] => none
  | p :: ps, c :: cs => if p = c then cutPrefix ps cs else none

/-- `isWordBoundary`. -/
def isWordBoundary : Str → Bool
  | [] => true
  | c :: _ => !identifierChar c

/-- `cutPrefixCheckBreak`. -/
def cutPrefixCheckBreak (input pre : Str) : Option Str :=
  match cutPrefix pre input with
  | none => none
  | some r => if isWordBoundary r then some r else none

/-- The loop of `cutMultiWordPrefixCheckBreak`. -/
def cutWords : List Str → Str → Option Str
  | [], r => some r
  | w :: ws, r =>
    match cutPrefix w r with
    | none => none
    | some r' => cutWords ws (trimWhitespace r')

/-- `cutMultiWordPrefixCheckBreak`. -/
def cutMultiWordPrefixCheckBreak (input : Str) (words : List Str) : Option Str :=
  match cutWords words input with
  | none => none
  | some r => if isWordBoundary r then some r else none

/-- `cutIdentifier` (including the deferred length checks, in the Go order). -/
def cutIdentifier (s : Str) : Except Err (Str × Str) :=
  let ident := s.takeWhile identifierChar
  let rest := s.dropWhile identifierChar
  if ident.length > maxLabelLength then .error .labelTooLong
  else if ident.length = 0 then .error .expectedIdent
  else .ok (ident, rest)

/-- `tokenizer.ValidLabel`. -/
def validLabel (s : Str) : Bool :=
  match cutIdentifier s with
  | .ok (_, []) => true
  | _ => false

/-- The quoted-string branches: `input` is what follows the opening quote `q`. -/
def cutQuoted (q : Char) (input : Str) : Except Err (Str × Str) :=
  match input.dropWhile (· ≠ q) with
  | [] => .error .unterminated                           -- strings.Index == -1
  | _ :: rest => .ok (input.takeWhile (· ≠ q), rest)

-- keyword spellings
def kwContains : Str := ['c','o','n','t','a','i','n','s']
def kwStarts : Str := ['s','t','a','r','t','s']
def kwEnds : Str := ['e','n','d','s']
def kwWith : Str := ['w','i','t','h']
def kwNot : Str := ['n','o','t']
def kwIn : Str := ['i','n']
def kwHasP : Str := ['h','a','s','(']
def kwAllP : Str := ['a','l','l','(']
def kwGlobalP : Str := ['g','l','o','b','a','l','(']

/-- The operator search after a label (`lastTokKind == TokLabel`). -/
def nextOperator (input : Str) : Except Err (Token × Str) :=
  match cutPrefixCheckBreak input kwContains with
  | some r => .ok (.contains, r)
  | none =>
  match cutMultiWordPrefixCheckBreak input [kwStarts, kwWith] with
  | some r => .ok (.startsWith, r)
  | none =>
  match cutMultiWordPrefixCheckBreak input [kwEnds, kwWith] with
  | some r => .ok (.endsWith, r)
  | none =>
  match cutMultiWordPrefixCheckBreak input [kwNot, kwIn] with
  | some r => .ok (.notIn, r)
  | none =>
  match cutPrefixCheckBreak input kwIn with
  | some r => .ok (.in, r)
  | none => .error .expectedOperator

/-- The `has(` / `all(` / `global(` / identifier search (`lastTokKind != TokLabel`). -/
def nextWord (input : Str) : Except Err (Token × Str) :=
  match cutPrefix kwHasP input with
  | some r =>
    match cutIdentifier (trimWhitespace r) with
    | .error e => .error e
    | .ok (ident, r') =>
      match cutPrefix [')'] (trimWhitespace r') with
      | some r'' => .ok (.has ident, r'')
      | none => .error .noCloseHas
  | none =>
  match cutPrefix kwAllP input with
  | some r =>
    match cutPrefix [')'] (trimWhitespace r) with
    | some r' => .ok (.all, r')
    | none => .error .noCloseAll
  | none =>
  match cutPrefix kwGlobalP input with
  | some r =>
    match cutPrefix [')'] (trimWhitespace r) with
    | some r' => .ok (.global, r')
    | none => .error .noCloseGlobal
  | none =>
  match cutIdentifier input with
  | .ok (ident, r) => .ok (.label ident, r)
  | .error e => .error e

/-- One iteration of the `switch input[0]` in `AppendTokens`; `c :: cs` is the
whitespace-trimmed, non-empty input; `lastLabel` is `lastTokKind == TokLabel`. -/
def nextToken (lastLabel : Bool) (c : Char) (cs : Str) : Except Err (Token × Str) :=
  if c = '(' then .ok (.lParen, cs)
  else if c = ')' then .ok (.rParen, cs)
  else if c = '"' then (cutQuoted '"' cs).map (fun (v, r) => (.str v, r))
  else if c = '\'' then (cutQuoted '\'' cs).map (fun (v, r) => (.str v, r))
  else if c = '{' then .ok (.lBrace, cs)
  else if c = '}' then .ok (.rBrace, cs)
  else if c = ',' then .ok (.comma, cs)
  else if c = '=' then
    match cs with
    | '=' :: r => .ok (.eq, r)
    | _ => .error .expectedEqEq
  else if c = '!' then
    match cs with
    | '=' :: r => .ok (.ne, r)
    | _ => .ok (.not, cs)
  else if c = '&' then
    match cs with
    | '&' :: r => .ok (.and, r)
    | _ => .error .expectedAndAnd
  else if c = '|' then
    match cs with
    | '|' :: r => .ok (.or, r)
    | _ => .error .expectedOrOr
  else if lastLabel then nextOperator (c :: cs)
  else nextWord (c :: cs)

/-- The `for` loop of `AppendTokens`, returning the tokens produced from
`input` on (the Go slice `tokens` only matters through its last kind,
`lastLabel`). -/
def tokenizeFrom : (fuel : Nat) → (lastLabel : Bool) → (input : Str) → Except Err (List Token)
  | 0, _, _ => .error .fuel
  | fuel + 1, lastLabel, input =>
    match trimWhitespace input with
    | [] => .ok [.eof]
    | c :: cs =>
      match nextToken lastLabel c cs with
      | .error e => .error e
      | .ok (tok, rest) =>
        if rest.length ≥ input.length then .error .infiniteLoop
        else
          match tokenizeFrom fuel tok.isLabel rest with
          | .error e => .error e
          | .ok toks => .ok (tok :: toks)

/-- `tokenizer.Tokenize`. -/
def tokenize (input : Str) : Except Err (List Token) :=
  tokenizeFrom (input.length + 1) false input

end CalicoVerif.C06
