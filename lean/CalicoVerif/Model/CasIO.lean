import CalicoVerif.Model.Cas
import CalicoVerif.Util.Proto
/-!
Line protocol of the IPAM step-admissibility drivers (C19, C22, C20, C38):
parsing of the harness' op lines into `Cas.Ev`, rendering of outcomes and
abstract values.  Core Lean only.
-/
namespace CalicoVerif.Cas
open CalicoVerif.Proto

def kvOf (ws : List String) (k : String) : Option String :=
  match ws.find? (fun w => w.startsWith (k ++ "=")) with
  | some w => some ((w.drop (k.length + 1)).toString)
  | none => none

def parseNats (s : String) : Option (List Nat) :=
  if s == "-" || s == "" then some [] else (s.splitOn ",").mapM (·.toNat?)

def kvNat (ws : List String) (k : String) : Option Nat := (kvOf ws k).bind (·.toNat?)
def kvNats (ws : List String) (k : String) : Option (List Nat) := (kvOf ws k).bind parseNats

def parseFault : String → Option Fault
  | "none" => some .none
  | "conflict" => some .conflict
  | "err" => some .err
  | "crashbefore" => some .crashBefore
  | "crashafter" => some .crashAfter
  | _ => none

def parseVerb : String → Option Verb
  | "create" => some .create
  | "update" => some .update
  | "delete" => some .delete
  | "get" => some .get
  | "list" => some .list
  | _ => none

def parseAffSt : String → Option AffSt
  | "pending" => some .pending
  | "confirmed" => some .confirmed
  | "pendingDeletion" => some .pendingDeletion
  | "none" => some .legacy
  | _ => none

def AffSt.render : AffSt → String
  | .pending => "pending"
  | .confirmed => "confirmed"
  | .pendingDeletion => "pendingDeletion"
  | .legacy => "none"

/-- `ev=<kind> k=v …` tokens of a successful block update / delete. -/
def parseBOp (kind : String) (ws : List String) : Option BOp :=
  match kind with
  | "assign" => do some (.assign (← kvNat ws "h") (← kvNat ws "k") (← kvNats ws "rv"))
  | "assignip" => do some (.assignIP (← kvNat ws "h") (← kvNat ws "o"))
  | "release" => do some (.release (← kvNat ws "h") (← kvNats ws "ords"))
  | "relh" => do some (.relh (← kvNat ws "h"))
  | "clearaff" => some .clearAff
  | "bump" => some .bump
  | _ => none

def parsePayload (verb : Verb) (key : Key) (ws : List String) : Option Payload :=
  match kvOf ws "ev" with
  | none => some .noev
  | some "-" => some .noev
  | some kind =>
    match key with
    | .blk _ =>
      if kind == "create" then do some (.blkCreate (← kvNat ws "a") (← kvNat ws "n"))
      else do
        let g1 ← kvNats ws "g1"
        let g2 ← kvNats ws "g2"
        if verb == .delete then
          if kind == "delete" then some (.blkDelete g1 none g2)
          else some (.blkDelete g1 (some (← parseBOp kind ws)) g2)
        else some (.blkRmw g1 (← parseBOp kind ws) g2)
    | .hdl _ =>
      if kind == "inc" then do some (.hInc (← kvNat ws "b") (← kvNat ws "n"))
      else if kind == "dec" then do some (.hDec (← kvNat ws "b") (← kvNat ws "n"))
      else none
    | .aff _ _ =>
      if kind == "del" then some .affDel
      else if kind == "st" then
        -- "ev=st <state>": the state is the token after ev=st
        match ws.dropWhile (· != "ev=st") with
        | _ :: st :: _ => (parseAffSt st).map .affSt
        | _ => none
      else none
    | .other => some .noev

/-- `step <tid> <fault> <verb> <key…> rev=<r|-> [ev=…]` -/
def parseStep (ws : List String) : Option Call :=
  match ws with
  | "step" :: t :: f :: v :: rest => do
    let t ← t.toNat?
    let f ← parseFault f
    let v ← parseVerb v
    let (key, rest) ← (match rest with
      | "blk" :: b :: r => b.toNat?.map (fun b => (Key.blk b, r))
      | "hdl" :: h :: r => h.toNat?.map (fun h => (Key.hdl h, r))
      | "aff" :: x :: b :: r => do some (Key.aff (← x.toNat?) (← b.toNat?), r)
      | "list" :: _ :: r => some (Key.other, r)
      | "cfg" :: r => some (Key.other, r)
      | "res" :: _ :: r => some (Key.other, r)
      | "other" :: r => some (Key.other, r)
      | _ => none)
    let rev ← (match kvOf rest "rev" with
      | some "-" => some none
      | some r => r.toNat?.map some
      | none => none)
    let pl ← parsePayload v key rest
    let own ← (match kvOf rest "own" with
      | none => some none
      | some "-" => some none
      | some x => x.toNat?.map some)
    some { t := t, fault := f, verb := v, key := key, rev := rev, pl := pl, own := own }
  | _ => none

def parseAddrs (s : String) : Option (List (Nat × Nat)) :=
  if s == "-" || s == "" then some []
  else (s.splitOn ",").mapM (fun p => match p.splitOn ":" with
    | [b, o] => do some (← b.toNat?, ← o.toNat?)
    | _ => none)

def Slot.render : Slot → String
  | .free => "."
  | .cool => "c"
  | .live h => s!"L{h}"

def renderNats (xs : List Nat) : String :=
  if xs.isEmpty then "-" else joinWith "," (xs.map toString)

def Blk.render (b : Blk) : String :=
  let a := match b.aff with | some x => toString x | none => "-"
  let s := if b.slots.isEmpty then "-" else joinWith "," (b.slots.map Slot.render)
  s!"a={a} s={s} u={renderNats b.unalloc}"

def renderKey (s : St) : Key → String
  | .blk b => match s.blk b with | some (_, v) => v.render | none => "absent"
  | .hdl h => match s.hdl h with
    | some (_, m) =>
      let ps := ((List.range m.length).filter (fun b => cnt m b != 0)).map (fun b => s!"{b}:{cnt m b}")
      if ps.isEmpty then "h=-" else "h=" ++ joinWith "," ps
    | none => "absent"
  | .aff x b => match s.aff x b with | some (_, st) => "st=" ++ st.render | none => "absent"
  | .other => "v"

def Outcome.render : Outcome → String
  | .ok => "ok" | .exists_ => "exists" | .notfound => "notfound" | .conflict => "conflict"
  | .error => "error" | .crashed => "crashed" | .badreq => "badreq"

/-- Execute a call on the model and render the line the harness printed for the real store. -/
def execCall (s : St) (c : Call) : St × String :=
  let o := casOutcome (s.curRev c.key) c.verb c.rev c.fault
  match step s (.call c) with
  | none => (s, "inadmissible")
  | some s' =>
    let os := o.render ++ (if c.fault == .crashAfter then "+crashed" else "")
    if o == .ok && c.verb.isWrite then (s', os ++ " " ++ renderKey s' c.key) else (s', os)

/-- Generic driver step shared by the IPAM drivers; `chk` renders the invariant verdict. -/
def driverStep (chk : St → String) (s : St) (line : String) : St × String :=
  let ws := words line
  match ws with
  | "new" :: rest =>
    match kvNat rest "nb", kvNat rest "rev0" with
    | some nb, some r0 => (St.init r0 nb, "ok")
    | _, _ => (s, "bad-op")
  | ["begin", t, _] | "begin" :: t :: _ :: _ =>
    match t.toNat? with
    | some t => match step s (.begin t) with
      | some s' => (s', "ok")
      | none => (s, "inadmissible")
    | none => (s, "bad-op")
  | "step" :: _ =>
    match parseStep ws with
    | some c =>
      let (s', out) := execCall s c
      let v := chk s'
      (s', if v == "" then out else out ++ " INV:" ++ v)
    | none => (s, "bad-op")
  | "end" :: t :: _ :: rest =>
    match t.toNat?, (kvOf rest "addrs").bind parseAddrs with
    | some t, some as => match step s (.endOp t as) with
      | some s' => (s', "ok")
      | none => (s, "unrecorded")
    | _, _ => (s, "bad-op")
  | ["age"] => (s, "ok")
  | ["quiesce"] => (s, "ok")
  | _ => (s, "bad-op")

end CalicoVerif.Cas
