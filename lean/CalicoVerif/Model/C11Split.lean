import CalicoVerif.Model.C11Builder
/-
C11 — model of the parts of the builder/assembler that depend on how much has
been emitted so far: `Builder.maybeSplitProgram` (program splitting with
landing pads and a trampoline in the next program) and
`Block.maybeWriteTrampoline/writeTrampoline` (long-jump trampolines).

`expand` walks the builder's event list keeping the `Block` bookkeeping that
those two functions read (`len(b.insns)`, `NumJumps`, the keys of `fixUps`,
reachability of the next instruction) and produces, per program, a plain
event list (`List Ev`) that `asmGo` then assembles.  Core Lean only.
-/
namespace CalicoVerif.C11

/-- Bookkeeping of the current `asm.Block`. -/
structure BlockSt where
  out : List Ev := []              -- events of this block so far, REVERSED
  len : Nat := 0                   -- len(b.insns)
  last : Option Insn := none
  pend : List Label := []          -- insnIdxToLabels[len(b.insns)]
  use : List Label := []           -- inUseJumpTargets
  fix : List Label := []           -- keys of fixUps (targets with an unresolved jump)
  numJumps : Nat := 0
  trampEnabled : Bool := true
  trampIdx : Nat := 0
  lastTrampAddr : Nat := 0
deriving Inhabited

/-- `addInsnWithOffsetFixupNoTrampoline` / `LabelNextInsn` bookkeeping. -/
def BlockSt.raw (b : BlockSt) : Ev → BlockSt
  | .label l => { b with out := .label l :: b.out, pend := l :: b.pend, fix := b.fix.filter (· != l) }
  | .ins i =>
    if reachable b.last b.pend b.use then
      { b with out := .ins i :: b.out, len := b.len + 1, last := some i, pend := [],
               numJumps := b.numJumps + (if i.isJumpClass then 1 else 0) }
    else { b with out := .ins i :: b.out, pend := [] }
  | .jmp i l =>
    if reachable b.last b.pend b.use then
      { b with out := .jmp i l :: b.out, len := b.len + 1, last := some i, pend := [],
               use := l :: b.use, fix := if b.fix.contains l then b.fix else l :: b.fix,
               numJumps := b.numJumps + (if i.isJumpClass then 1 else 0) }
    else { b with out := .jmp i l :: b.out, pend := [] }

/-- Insertion sort of labels by their Go string (`sort.Strings`). -/
def insertLabel (l : Label) : List Label → List Label
  | [] => [l]
  | x :: xs => if l.str ≤ x.str then l :: x :: xs else x :: insertLabel l xs

def sortLabels (ls : List Label) : List Label := ls.foldr insertLabel []

def jumpA (l : Label) : Ev := .jmp ⟨opJumpA, 0, 0, 0, 0⟩ l

/-- `writeTrampoline` as the events it feeds back into the block. -/
def trampolineEvs (idx : Nat) (fix : List Label) : List Ev :=
  jumpA (.skipTrampoline idx) :: (sortLabels fix).flatMap (fun l => [.label l, jumpA l]) ++
    [.label (.skipTrampoline idx)]

def evOp : Ev → Option Nat
  | .ins i => some i.op
  | .jmp i _ => some i.op
  | .label _ => none

/-- `addInsnWithOffsetFixup` (instructions) / `LabelNextInsn` (labels):
`maybeWriteTrampoline` first, then the raw add. -/
def BlockSt.add (stride : Nat) (b : BlockSt) (e : Ev) : BlockSt :=
  match evOp e with
  | none => b.raw e
  | some op =>
    if b.trampEnabled && b.len - b.lastTrampAddr ≥ stride && op != opLoadImm64Pt2 then
      let b1 := { b with lastTrampAddr := b.len }
      if b1.fix.isEmpty then b1.raw e
      else
        let b2 := (trampolineEvs b1.trampIdx b1.fix).foldl BlockSt.raw { b1 with trampIdx := b1.trampIdx + 1 }
        b2.raw e
    else b.raw e

structure SplitSt where
  done : List (List Ev) := []      -- finished blocks, REVERSED
  cur : BlockSt := {}
deriving Inhabited

def SplitSt.addAll (stride : Nat) (s : SplitSt) (es : List Ev) : SplitSt :=
  { s with cur := es.foldl (BlockSt.add stride) s.cur }

/-- The landing pads of `maybeSplitProgram`. -/
def landingPads : List Label → Nat → List Ev
  | [], _ => []
  | [t], i => [.label t, movImm64 R0 (i + 1)]
  | t :: ts, i => [.label t, movImm64 R0 (i + 1), jump .nextProgram] ++ landingPads ts (i + 1)

def trampolineJumps : List Label → Nat → List Ev
  | [], _ => []
  | t :: ts, i => jumpEqImm64 R0 (i + 1) t :: trampolineJumps ts (i + 1)

/-- `maybeSplitProgram`. -/
def SplitSt.maybeSplit (c : Cfg) (xdp : Bool) (s : SplitSt) (reload : List Ev) : SplitSt :=
  if s.cur.numJumps < c.maxJumps then s
  else if c.policyMapStride == 0 then s
  else
    let ts := c.trampolineStride
    let s1 := { s with cur := { s.cur with trampEnabled := false } }
    let s2 := s1.addAll ts ([movImm64 R0 0, jump .nextProgram] ++ footerEvs c xdp)
    let targets := (sortLabels s2.cur.fix).filter (· != .nextProgram)
    let jumpIdx : Int := c.policyMapIndex + ((s.done.length + 1 : Nat) : Int) * c.policyMapStride
    let s3 := s2.addAll ts (landingPads targets 0 ++
      [.label .nextProgram, store32 R9 R0 stateOffPolResult, mov64 R1 R6] ++
      loadMapFD R2 c.policyJumpMapFD ++ [movImm64 R3 jumpIdx, call helperTailCall] ++ exitTargetEvs xdp)
    let s4 : SplitSt := { done := s3.cur.out.reverse :: s3.done, cur := {} }
    s4.addAll ts (headerEvs c ++
      [load32 R0 R9 stateOffPolResult, movImm32 R1 0, store32 R9 R1 stateOffPolResult] ++
      trampolineJumps targets 0 ++ reload)

def SplitSt.step (c : Cfg) (xdp : Bool) (s : SplitSt) : BEv → SplitSt
  | .ev e => { s with cur := s.cur.add c.trampolineStride e }
  | .maybeSplit reload => s.maybeSplit c xdp reload

/-- All blocks of the builder, as plain event lists in order. -/
def expand (c : Cfg) (xdp : Bool) (bevs : List BEv) : List (List Ev) :=
  let s := bevs.foldl (SplitSt.step c xdp) {}
  (s.cur.out.reverse :: s.done).reverse

/-- `Builder.Instructions`: `none` = panic, `some none` = `Assemble` error,
`some (some progs)` = the programs. -/
def instructions (c : Cfg) (r : Rules) : Option (Option (List (List Insn))) :=
  if !noPanic c r then none
  else some ((expand c r.forXDP (compile c r)).mapM assemble)

end CalicoVerif.C11
