/-
C30 — Windows rule flattening preserves policy verdicts for supported rules.

Executable model (core Lean only) of felix/dataplane/windows/policysets/policysets.go:
  protoRuleToHnsRules (checks, filterNets, action, DstIpPortSetIds expansion, protocol,
  address/IP-set combination incl. iputils.IntersectCIDRs, SplitIPList/SplitPortList chunking and the
  four nested loops), protoRulesToHnsRules / convertPolicyToRules (skip on error),
  GetPolicySetRules (direction filter, priority bumping on action change, end-of-tier rule),
  getIPSetAddresses, protocolNameToNumber, NewRule;
plus two small semantics written for this property only (to be unified with Model/Policy.lean):
  * `hnsActions`  — HNS ACL evaluation: among the rules matching the packet, those with the
    numerically lowest priority decide; if several share that priority the tie-break is HNS's own
    (unknown), so ALL their actions are returned and the theorems show they agree;
  * `tierVerdict` — Calico: first matching rule of the tier's policies in order, else the
    end-of-tier action.
Only IPv4 (policysets' `ipVersion` constant is 4).  Static rules (static-rules.json) are not modelled.
-/
namespace CalicoVerif.C30

/-! ## Addresses and ports -/

/-- An address/CIDR string as it appears in a proto rule or an IP set, with its parsed value.
`text` is what the Go code passes through verbatim; `addr/len` is `ip.MustParseCIDROrIP(text)`. -/
structure Addr where
  text : String
  v6 : Bool        -- `strings.Contains(text, ":")`
  addr : Nat       -- IPv4 address as a number (meaningless for v6)
  len : Nat        -- prefix length (32 for a bare IP)
deriving Repr, DecidableEq

def Addr.contains (a : Addr) (ip : Nat) : Bool :=
  !a.v6 && (a.addr >>> (32 - a.len)) == (ip >>> (32 - a.len))

def dotted (a : Nat) : String :=
  toString (a >>> 24 % 256) ++ "." ++ toString (a >>> 16 % 256) ++ "." ++ toString (a >>> 8 % 256) ++ "." ++
    toString (a % 256)

/-- `ip.CIDR.String()` of the parsed (masked) CIDR. -/
def Addr.canon (a : Addr) : Addr :=
  let m := (a.addr >>> (32 - a.len)) <<< (32 - a.len)
  { text := dotted m ++ "/" ++ toString a.len, v6 := false, addr := m, len := a.len }

structure PortRange where
  first : Nat
  last : Nat
deriving Repr, DecidableEq

def PortRange.contains (r : PortRange) (p : Nat) : Bool := r.first ≤ p && p ≤ r.last

/-- protoPortToHCSPort -/
def PortRange.render (r : PortRange) : String :=
  if r.first = r.last then toString r.first else toString r.first ++ "-" ++ toString r.last

/-! ## proto.Rule (the fields policysets looks at) -/

inductive ProtoSpec
  | name (s : String)
  | num (n : Nat)
deriving Repr

structure Rule where
  action : String
  ipVersion : Nat := 0
  proto : Option ProtoSpec := none
  srcNet : List Addr := []
  dstNet : List Addr := []
  notSrcNet : List Addr := []
  notDstNet : List Addr := []
  srcPorts : List PortRange := []
  dstPorts : List PortRange := []
  srcSets : List String := []
  dstSets : List String := []
  dstIpPortSets : List String := []
  /-- any of NotSrcPorts/NotDstPorts/Not*IpSetIds/Not*NamedPortIpSetIds/NotProtocol/NotIcmp -/
  otherNeg : Bool := false
  icmp : Bool := false
  namedPortSets : Bool := false
  ruleId : String := ""
deriving Repr

/-! ## hns.ACLPolicy -/

inductive Action | allow | block | pass
deriving DecidableEq, Repr

structure HRule where
  action : Action
  inbound : Bool
  proto : Nat                 -- 256 = any
  lAddrs : List Addr := []    -- [] = "" = any
  rAddrs : List Addr := []
  lPorts : List PortRange := []
  rPorts : List PortRange := []
  prio : Nat
  id : String := ""
deriving Repr, DecidableEq

inductive Err | notSupported | noOp | missingIPSet
deriving DecidableEq, Repr

/-- One IP-port set member `"<ip>,<proto>:<port>"`. -/
structure IPPort where
  addr : Addr
  proto : String
  port : Nat
deriving Repr

/-- The IP set cache (IPSetCache.GetIPSetMembers): `none` = nil.  The real cache
(windows/ipsets.GetIPSetMembers) returns nil for an unknown AND for an empty set. -/
structure IPSets where
  addrs : List (String × List Addr)
  ipports : List (String × List IPPort)

def IPSets.get (s : IPSets) (id : String) : Option (List Addr) := List.lookup id s.addrs
def IPSets.getIPPort (s : IPSets) (id : String) : Option (List IPPort) := List.lookup id s.ipports

def policyRuleBasePriority : Nat := 1000

def lowerAscii (s : String) : String := String.ofList (s.toList.map Char.toLower)

/-- protocolNameToNumber -/
def protocolNameToNumber (n : String) : Nat :=
  let l := lowerAscii n
  if l = "tcp" then 6 else if l = "udp" then 17 else if l = "icmp" then 1 else if l = "icmpv6" then 58
  else if l = "sctp" then 132 else if l = "udplite" then 136 else 256

/-- filterNets(nets, 4): (filtered, filteredAll) -/
def filterNets (nets : List Addr) : List Addr × Bool :=
  if nets.isEmpty then ([], false)
  else
    let f := nets.filter (fun a => !a.v6)
    (f, f.isEmpty)

/-- getIPSetAddresses over address sets: `none` = ErrMissingIPSet. -/
def getIPSetAddresses (s : IPSets) : List String → Option (List Addr)
  | [] => some []
  | id :: rest =>
    match s.get id with
    | none => none
    | some m => (getIPSetAddresses s rest).map (m ++ ·)

def getIPPortMembers (s : IPSets) : List String → Option (List IPPort)
  | [] => some []
  | id :: rest =>
    match s.getIPPort id with
    | none => none
    | some m => (getIPPortMembers s rest).map (m ++ ·)

/-- The pairwise step of iputils.IntersectCIDRs (on parsed, masked CIDRs). -/
def intersectPair (a b : Addr) : Option Addr :=
  let a := a.canon
  let b := b.canon
  if a.len = b.len then (if a.addr = b.addr then some a else none)
  else if a.len < b.len then (if a.contains b.addr then some b else none)
  else (if b.contains a.addr then some a else none)

def strLe (a b : String) : Bool := decide (a ≤ b)

/-- iputils.IntersectCIDRs: set of pairwise intersections, printed, sorted as strings. -/
def intersectCIDRs (as bs : List Addr) : List Addr :=
  let all := as.flatMap fun a => bs.filterMap fun b => intersectPair a b
  (all.eraseDups).mergeSort (fun x y => strLe x.text y.text)

/-- SplitIPList / SplitPortList body: chunks of size `n` (fuel = length). -/
def chunksAux {α : Type} (n : Nat) : Nat → List α → List (List α)
  | 0, _ => []
  | fuel + 1, l => if l.isEmpty then [] else l.take n :: chunksAux n fuel (l.drop n)

def splitList {α : Type} (l : List α) (n : Nat) : List (List α) :=
  if l.isEmpty then [[]] else chunksAux n l.length l

/-- Source (or destination) networks combined with IP sets. -/
def sideAddrs (s : IPSets) (nets : List Addr) (setIds : List String) : Except Err (List Addr) :=
  if setIds.isEmpty then .ok nets
  else match getIPSetAddresses s setIds with
    | none => .error .missingIPSet
    | some m =>
      if !nets.isEmpty then
        let i := intersectCIDRs nets m
        if i.isEmpty then .error .noOp else .ok i
      else .ok m

def actionOf (a : String) : Option Action :=
  let l := lowerAscii a
  if l = "" ∨ l = "allow" then some .allow
  else if l = "deny" then some .block
  else if l = "next-tier" ∨ l = "pass" then some .pass
  else none   -- "log" → ErrNotSupported (anything else panics in Go; never generated)

/-- Order-preserving grouping of IP-port members by (proto number, port). -/
def groupIPPorts : List IPPort → List (Nat × Nat × List Addr)
  | [] => []
  | m :: rest =>
    let g := groupIPPorts rest
    let key := (protocolNameToNumber m.proto, m.port)
    -- the member `m` comes first: its group moves to the front position it had in first-seen order
    match g.find? (fun x => x.1 == key.1 && x.2.1 == key.2) with
    | some x => (key.1, key.2, m.addr :: x.2.2) :: g.filter (fun y => !(y.1 == key.1 && y.2.1 == key.2))
    | none => (key.1, key.2, [m.addr]) :: g

def mkId (policyId ruleId : String) (i : Nat) : String := policyId ++ "-" ++ ruleId ++ "-" ++ toString i

/-- The four nested loops of protoRuleToHnsRules with the running sub-rule index. -/
def expand (base : HRule) (policyId ruleId : String) (lA : List (List Addr)) (lP : List (List PortRange))
    (rA : List (List Addr)) (rP : List (List PortRange)) : List HRule :=
  let combos := lA.flatMap fun la => lP.flatMap fun lp => rA.flatMap fun ra => rP.map fun rp => (la, lp, ra, rp)
  combos.zipIdx.map fun (c, i) =>
    { base with lAddrs := c.1, lPorts := c.2.1, rAddrs := c.2.2.1, rPorts := c.2.2.2, id := mkId policyId ruleId i }

/-- `s.NewRule(isInbound, PolicyRuleBasePriority)` with the rule's action. -/
def baseRule (act : Action) (inbound : Bool) : HRule :=
  { action := act, inbound := inbound, proto := 256, prio := policyRuleBasePriority }

/-- The "Protocol" step of protoRuleToHnsRules. -/
def withProto (base : HRule) : Option ProtoSpec → HRule
  | none => base
  | some (.name nm) => { base with proto := protocolNameToNumber nm }
  | some (.num k) => { base with proto := k % 65536 }

/-- protoRuleToHnsRules(policyId, rule, isInbound, ipPortsPerRule) with AclRuleId supported. -/
def protoRuleToHnsRules (s : IPSets) (policyId : String) (r : Rule) (inbound : Bool) (n : Nat) :
    Except Err (List HRule) :=
  if r.ipVersion ≠ 0 ∧ r.ipVersion ≠ 4 then .error .notSupported
  else if !r.notSrcNet.isEmpty || !r.notDstNet.isEmpty || r.otherNeg then .error .notSupported
  else if r.icmp then .error .notSupported
  else if r.namedPortSets then .error .notSupported
  else
    let (srcNet, fa1) := filterNets r.srcNet
    if fa1 then .error .noOp else
    let (dstNet, fa2) := filterNets r.dstNet
    if fa2 then .error .noOp else
    match actionOf r.action with
    | none => .error .notSupported
    | some act =>
      let base : HRule := baseRule act inbound
      if !r.dstIpPortSets.isEmpty then
        match getIPPortMembers s r.dstIpPortSets with
        | none => .error .missingIPSet
        | some ms =>
          -- (commit 44f8f9c) the rule's protocol filters the members, its source ports become LocalPorts
          let ruleProtocol := (withProto base r.proto).proto
          let groups := (groupIPPorts ms).filter fun g => ruleProtocol == 256 || g.1 == ruleProtocol
          let combos := groups.flatMap fun g => (splitList r.srcPorts n).map fun sp => (g, sp)
          .ok (combos.zipIdx.map fun (c, i) =>
            { base with rAddrs := c.1.2.2, rPorts := [⟨c.1.2.1, c.1.2.1⟩], proto := c.1.1, lPorts := c.2,
                        id := mkId policyId r.ruleId i })
      else
        let base := withProto base r.proto
        match sideAddrs s srcNet r.srcSets with
        | .error e => .error e
        | .ok srcA =>
          match sideAddrs s dstNet r.dstSets with
          | .error e => .error e
          | .ok dstA =>
            let (localA, remoteA) := if inbound then (dstA, srcA) else (srcA, dstA)
            let (localP, remoteP) := if inbound then (r.dstPorts, r.srcPorts) else (r.srcPorts, r.dstPorts)
            .ok (expand base policyId r.ruleId (splitList localA n) (splitList localP n)
              (splitList remoteA n) (splitList remoteP n))

def ipPortsPerRule : Nat := 4000

/-- protoRulesToHnsRules: rules that fail to convert are skipped. -/
def protoRulesToHnsRules (s : IPSets) (policyId : String) (rs : List Rule) (inbound : Bool) (n : Nat) : List HRule :=
  rs.flatMap fun r =>
    match protoRuleToHnsRules s policyId r inbound n with
    | .ok hs => hs
    | .error _ => []

/-- A policy set as stored by AddOrReplacePolicySet: `Members` = inbound rules then outbound rules. -/
structure PolicySet where
  inRules : List Rule
  outRules : List Rule
deriving Repr

def PolicySet.members (s : IPSets) (id : String) (p : PolicySet) (n : Nat) : List HRule :=
  protoRulesToHnsRules s id p.inRules true n ++ protoRulesToHnsRules s id p.outRules false n

/-- The loop over set ids: stop at the first unknown set (`break`). -/
def gatherMembers (inbound : Bool) : List (Option (List HRule)) → List HRule
  | [] => []
  | none :: _ => []
  | some ms :: rest => ms.filter (fun m => m.inbound == inbound) ++ gatherMembers inbound rest

/-- Priority assignment of GetPolicySetRules: bump when the action differs from the previous rule's. -/
def bump : Nat → Option Action → List HRule → List HRule × Nat
  | cur, _, [] => ([], cur)
  | cur, last, m :: ms =>
    let cur' := match last with
      | some a => if a ≠ m.action then cur + 1 else cur
      | none => cur
    let (rs, c) := bump cur' (some m.action) ms
    ({ m with prio := cur' } :: rs, c)

/-- The default block-or-pass rule appended at the end of the tier (NewRule + Action override). -/
def eotRule (inbound eotDrop : Bool) (prio : Nat) : HRule :=
  { action := if eotDrop then .block else .pass, inbound := inbound, proto := 256, prio := prio }

/-- GetPolicySetRules(setIds, isInbound, endOfTierDrop) given the looked-up sets' members. -/
def getPolicySetRules (sets : List (Option (List HRule))) (inbound eotDrop : Bool) : List HRule :=
  let (rs, cur) := bump policyRuleBasePriority none (gatherMembers inbound sets)
  rs ++ [eotRule inbound eotDrop (cur + 1)]

/-! ## Semantics -/

structure Pkt where
  proto : Nat
  src : Nat
  sport : Nat
  dst : Nat
  dport : Nat
deriving Repr

def addrsOK (l : List Addr) (ip : Nat) : Bool := l.isEmpty || l.any (fun a => a.contains ip)
def portsOK (l : List PortRange) (p : Nat) : Bool := l.isEmpty || l.any (fun r => r.contains p)

/-- Does an HNS ACL rule match a packet seen at the endpoint's port in the rule's direction. -/
def HRule.matches (h : HRule) (p : Pkt) : Bool :=
  let (lip, lport, rip, rport) := if h.inbound then (p.dst, p.dport, p.src, p.sport) else (p.src, p.sport, p.dst, p.dport)
  (h.proto == 256 || h.proto == p.proto) && addrsOK h.lAddrs lip && addrsOK h.rAddrs rip &&
    portsOK h.lPorts lport && portsOK h.rPorts rport

/-- A matching rule is decisive if no matching rule has a strictly lower priority number. -/
def decisive (rules : List HRule) (p : Pkt) (h : HRule) : Bool :=
  h.matches p && rules.all (fun g => !g.matches p || h.prio ≤ g.prio)

/-- Actions of all matching rules that have the lowest priority number. -/
def hnsActions (rules : List HRule) (p : Pkt) : List Action :=
  (rules.filter (decisive rules p)).map (·.action)

def protoOK (ps : Option ProtoSpec) (p : Pkt) : Bool :=
  match ps with
  | none => true
  | some (.name nm) => protocolNameToNumber nm == p.proto
  | some (.num k) => k == p.proto

def inSet (s : IPSets) (id : String) (ip : Nat) : Bool :=
  match s.get id with
  | some m => m.any (fun a => a.contains ip)
  | none => false

def inIPPortSet (s : IPSets) (id : String) (p : Pkt) : Bool :=
  match s.getIPPort id with
  | some m => m.any (fun x => x.addr.contains p.dst && protocolNameToNumber x.proto == p.proto && x.port == p.dport)
  | none => false

/-- Calico meaning of a (supported) rule: every stated criterion must hold; a packet must be in
EVERY listed IP set. -/
def Rule.matches (s : IPSets) (r : Rule) (p : Pkt) : Bool :=
  protoOK r.proto p &&
  addrsOK r.srcNet p.src && addrsOK r.dstNet p.dst &&
  r.srcSets.all (fun id => inSet s id p.src) && r.dstSets.all (fun id => inSet s id p.dst) &&
  portsOK r.srcPorts p.sport && portsOK r.dstPorts p.dport &&
  r.dstIpPortSets.all (fun id => inIPPortSet s id p)

/-- First matching rule of the tier's policies (in order) in one direction, else end-of-tier. -/
def tierVerdict (s : IPSets) (sets : List PolicySet) (inbound eotDrop : Bool) (p : Pkt) : Action :=
  let rules := sets.flatMap fun ps => if inbound then ps.inRules else ps.outRules
  match rules.find? (fun r => r.matches s p) with
  | some r => (actionOf r.action).getD .block
  | none => if eotDrop then .block else .pass

/-! ## Rendering -/

def Action.render : Action → String
  | .allow => "Allow"
  | .block => "Block"
  | .pass => "pass"

def HRule.render (h : HRule) : String :=
  h.action.render ++ "|" ++ (if h.inbound then "In" else "Out") ++ "|" ++ toString h.proto ++ "|" ++
  ",".intercalate (h.lAddrs.map (·.text)) ++ "|" ++ ",".intercalate (h.lPorts.map PortRange.render) ++ "|" ++
  ",".intercalate (h.rAddrs.map (·.text)) ++ "|" ++ ",".intercalate (h.rPorts.map PortRange.render) ++ "|" ++
  toString h.prio ++ "|" ++ h.id

def Err.render : Err → String
  | .notSupported => "err:notsupported"
  | .noOp => "err:noop"
  | .missingIPSet => "err:missingipset"

end CalicoVerif.C30
