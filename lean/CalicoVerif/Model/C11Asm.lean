/-
C11 — model of felix/bpf/asm/asm.go (`Block`: the label-resolving assembler the
BPF policy-program builder writes into).  Core Lean only.

Representation.  The builder's calls into a `Block` are reified as a list of
events (`Ev`): `ins` = `Block.add`, `jmp` = `Block.addWithOffsetFixup`, `label`
= `Block.LabelNextInsn`.  `asmGo` models what `Block` does with them:

* `addInsnWithOffsetFixupNoTrampoline` drops an instruction when
  `nextInsnReachable()` is false, i.e. the last emitted instruction is `JumpA`
  or `Exit` and none of the labels attached to the current index is in
  `inUseJumpTargets`; the labels attached to the dropped index are forgotten.
  (`reachable`, and the `pend`/`use` parameters of `asmGo`).
* `LabelNextInsn` applies the outstanding fix-ups for the label eagerly, so a
  jump is resolved to the FIRST definition of its label that follows it
  (`dist`); `Assemble` fails with "missing label" when there is none
  (backward jumps, which the policy builder never emits, are not modelled:
  the model answers `none` for them).
* offsets outside int16 are an `Assemble` error (`none`).

`Block.NumJumps`, `UnresolvedJumpTargets`, and the trampoline machinery are
modelled in `C11Split.lean` (`expand`), which rewrites the event list before it
is handed to `asmGo`.
-/
namespace CalicoVerif.C11

/-- One 8-byte eBPF instruction (`asm.Insn`): opcode byte, dst/src nibbles,
int16 offset, int32 immediate. -/
structure Insn where
  op : Nat
  dst : Nat
  src : Nat
  off : Int
  imm : Int
deriving DecidableEq, Repr, Inhabited

/-- Jump targets used by `polprog.Builder` and `asm.Block` (Go: strings). -/
inductive Label
  | start | policy | exit | deny | allow | xdpPass | toOrFromHost | allowedByHostPolicy | log
  | endOfTier (n : Nat)
  | ruleNoMatch (rule : Nat)
  | rulePart (rule part : Nat)
  | cidrEnd (rule cidr : Nat)
  | nextProgram
  | skipTrampoline (n : Nat)
  | none                     -- the empty label "" (builder panics on it)
deriving DecidableEq, Repr, Inhabited

/-- The Go string of a label (needed because `UnresolvedJumpTargets` and
`writeTrampoline` sort label names). -/
def Label.str : Label → String
  | .start => "start" | .policy => "policy" | .exit => "exit" | .deny => "deny"
  | .allow => "allow" | .xdpPass => "xdp_pass" | .toOrFromHost => "to_or_from_host"
  | .allowedByHostPolicy => "allowed_by_host_policy" | .log => "log"
  | .endOfTier n => s!"end_of_tier_{n}"
  | .ruleNoMatch r => s!"rule_{r}_no_match"
  | .rulePart r p => s!"rule_{r}_part_{p}"
  | .cidrEnd r c => s!"rule_{r}_cidr_{c}_end"
  | .nextProgram => "next-program"
  | .skipTrampoline n => s!"skip-trampoline-{n}"
  | .none => ""

/-- A call of the builder into the current `Block`. -/
inductive Ev
  | ins (i : Insn)
  | jmp (i : Insn) (l : Label)
  | label (l : Label)
deriving DecidableEq, Repr, Inhabited

/-! ### Opcodes (values of the constants in asm.go) -/
def opMov64 : Nat := 0xbf
def opMovImm64 : Nat := 0xb7
def opMovImm32 : Nat := 0xb4
def opAddImm64 : Nat := 0x07
def opAdd64 : Nat := 0x0f
def opAndImm64 : Nat := 0x57
def opAnd32 : Nat := 0x5c
def opOrImm64 : Nat := 0x47
def opShiftLImm64 : Nat := 0x67
def opLoadImm64 : Nat := 0x18
def opLoadImm64Pt2 : Nat := 0x00
def opLoadReg8 : Nat := 0x71
def opLoadReg16 : Nat := 0x69
def opLoadReg32 : Nat := 0x61
def opLoadReg64 : Nat := 0x79
def opStoreReg8 : Nat := 0x73
def opStoreReg16 : Nat := 0x6b
def opStoreReg32 : Nat := 0x63
def opStoreReg64 : Nat := 0x7b
def opJumpA : Nat := 0x05
def opCall : Nat := 0x85
def opExit : Nat := 0x95
def opJumpEqImm64 : Nat := 0x15
def opJumpNEImm64 : Nat := 0x55
def opJumpGEImm64 : Nat := 0x35
def opJumpLTImm64 : Nat := 0xa5
def opJumpLEImm64 : Nat := 0xb5
def opJumpEqImm32 : Nat := 0x16
def opJumpNEImm32 : Nat := 0x56

/-- `insn.OpClass() == OpClassJump64 || OpClassJump32` (counts towards `NumJumps`;
note that `Call` and `Exit` are in class Jump64). -/
def Insn.isJumpClass (i : Insn) : Bool := i.op % 8 == 5 || i.op % 8 == 6

/-- Last emitted opcode is `JumpA` or `Exit`: the next instruction is not
reached by falling through. -/
def stops (last : Option Insn) : Bool :=
  match last with
  | none => false
  | some i => i.op == opJumpA || i.op == opExit

/-- `Block.nextInsnReachable`. `last` = last emitted instruction (none: block
is empty), `pend` = labels attached to the current index, `use` =
`inUseJumpTargets`. -/
def reachable (last : Option Insn) (pend use : List Label) : Bool :=
  !stops last || pend.any (fun l => use.contains l)

/-- Number of instructions that will be emitted before the first definition of
`l` in `evs` (what the eager fix-up in `LabelNextInsn` computes as
`labelIdx - origInsnIdx - 1`). `none`: the label is never defined. -/
def dist (l : Label) : List Ev → Option Insn → List Label → List Label → Option Nat
  | [], _, _, _ => none
  | .label l' :: r, last, pend, use =>
    if l' = l then some 0 else dist l r last (l' :: pend) use
  | .ins i :: r, last, pend, use =>
    if reachable last pend use then (dist l r (some i) [] use).map (· + 1)
    else dist l r last [] use
  | .jmp i l' :: r, last, pend, use =>
    if reachable last pend use then (dist l r (some i) [] (l' :: use)).map (· + 1)
    else dist l r last [] use

def maxInt16 : Nat := 32767

/-- `Block` fed with the events, then `Assemble()`: the emitted instructions with
resolved jump offsets, or `none` on an assembly error. -/
def asmGo : List Ev → Option Insn → List Label → List Label → Option (List Insn)
  | [], _, _, _ => some []
  | .label l :: r, last, pend, use => asmGo r last (l :: pend) use
  | .ins i :: r, last, pend, use =>
    if reachable last pend use then (asmGo r (some i) [] use).map (i :: ·)
    else asmGo r last [] use
  | .jmp i l :: r, last, pend, use =>
    if reachable last pend use then
      match dist l r (some i) [] (l :: use) with
      | none => none
      | some d =>
        if d > maxInt16 then none
        else (asmGo r (some i) [] (l :: use)).map ({ i with off := (d : Int) } :: ·)
    else asmGo r last [] use

/-- A fresh `Block` fed with `evs`, then `Assemble()`. -/
def assemble (evs : List Ev) : Option (List Insn) := asmGo evs none [] []

end CalicoVerif.C11
