import CalicoVerif.Model.C03
/-
C05, policy and tier kinds — the ValidationFilter (felix/calc/validation_filter.go) in front of the
PolicyResolver / PolicySorter (model: `CalicoVerif.Model.C03`, imported read-only).

What an endpoint is told about a missing / deleted / invalid TIER or POLICY is decided by
 * `ValidationFilter.OnUpdates`: a policy / tier / endpoint value that fails validation becomes a
   deletion (`filterEv`);
 * `PolicySorter.OnUpdate` / `UpdatePolicy` (C03 model): a tier that is only named by a policy, or was
   deleted while policies still name it, is an invalid placeholder `TierInfo{Valid: false, Order: nil,
   DefaultAction: ""}`; a deleted policy leaves the sorter when its last match stops;
 * `PolicyResolver.sendEndpointUpdate` (C03 model): the endpoint's tier list carries the placeholder's
   attributes.
Which endpoints a policy matches (the ActiveRulesCalculator's label index) is an input:
`matchStarted` / `matchStopped`, issued by the real ARC in the harness.

The validators are trusted: a raw update carries the bit "passes validation".  (`model.Tier` has no
validation constraints in the v1 validator, so on the real code a tier value is always valid; the bit
is kept for uniformity.)

## Interface for composition
* input `RawEvent`, `filterEv : RawEvent → C03.Event`, `Resolver.stepRaw r e = r.step (filterEv e)`;
* state / flush / output: `C03.Resolver`, `Resolver.flush`, `C02.Call.endpointUpdate`;
* spec refined: `Props/C05.lean` (`dangling_tier_fails_closed`, `invalid_policy_not_listed`, …).
Core Lean only.
-/
namespace CalicoVerif.C05
open CalicoVerif.C02 CalicoVerif.C03

/-- a value that passed validation, `none` for a deletion or a value that failed -/
def validated {α : Type} : Option (α × Bool) → Option α
  | some (a, true) => some a
  | _ => none

/-- what reaches the calc graph, before the ValidationFilter -/
inductive RawEvent where
  | endpoint (k : EpKey) (v : Option (EpData × Bool))
  | policy (k : PolicyKey) (v : Option (PolicyIn × Bool))
  | tier (name : String) (v : Option ((Option Int × String) × Bool))
  | status (inSync : Bool)
  | matchStarted (p : PolicyKey) (e : EpKey)
  | matchStopped (p : PolicyKey) (e : EpKey)
deriving Repr, DecidableEq

/-- `ValidationFilter.OnUpdates` for one update (status and the ARC's match calls pass through). -/
def filterEv : RawEvent → C03.Event
  | .endpoint k v => .endpoint k (validated v)
  | .policy k v => .policy k (validated v)
  | .tier n v => .tier n (validated v)
  | .status s => .status s
  | .matchStarted p e => .matchStarted p e
  | .matchStopped p e => .matchStopped p e

/-- filter, then the resolver -/
def stepRaw (r : Resolver) (e : RawEvent) : Resolver := r.step (filterEv e)

/-- the same update with an invalid value replaced by a deletion of the key -/
def asDeleteEv : RawEvent → RawEvent
  | .endpoint k (some (_, false)) => .endpoint k none
  | .policy k (some (_, false)) => .policy k none
  | .tier n (some (_, false)) => .tier n none
  | e => e

end CalicoVerif.C05
