/-
C31 — model of felix/policysync/processor.go (`Processor`) with ipset.go,
policy.go, profile.go.

All identifiers (workloads, policies, profiles, IP sets, members, service
accounts, namespaces, tiers) are `Nat` tokens; the harness maps them to the
repo's ID types.  Go maps are association lists; the ORDER of a Go map
iteration is not modelled (both sides sort every maximal run of same-kind
messages on a channel before comparing).  A Go panic (nil dereference,
`close(nil)`, `log.Panic`) is `none`: the process dies.

Output channels: every `join` brings a fresh channel, numbered by the number
of joins so far (`nextCh`).  An event is `(channel, some msg)` for a send and
`(channel, none)` for `close(channel)`.

Not modelled: splitting of IP set messages above `MaxMembersPerMessage`
(82200) members; `ipsets.CanonicaliseMember` (identity on the canonical member
strings the harness uses); an IP set ID changing its type (type = id % 3).
Core Lean only.
-/
namespace CalicoVerif.C31

/-! ### association lists -/

abbrev AMap (α : Type) := List (Nat × α)

def AMap.get {α : Type} : AMap α → Nat → Option α
  | [], _ => none
  | (k', v) :: r, k => if k' = k then some v else AMap.get r k

def AMap.del {α : Type} : AMap α → Nat → AMap α
  | [], _ => []
  | (k', v) :: r, k => if k' = k then AMap.del r k else (k', v) :: AMap.del r k

def AMap.set {α : Type} (m : AMap α) (k : Nat) (v : α) : AMap α := (k, v) :: m.del k

def AMap.keys {α : Type} (m : AMap α) : List Nat := m.map (·.1)

/-- set-insert on a duplicate-free list -/
def sins (s : List Nat) (x : Nat) : List Nat := if s.contains x then s else x :: s

def dedup : List Nat → List Nat
  | [] => []
  | x :: xs => if xs.contains x then dedup xs else x :: dedup xs

/-! ### data -/

/-- proto.Rule: only the nine IP-set reference fields matter to the Processor
(`AddIPSetsRule`); `refs` = (field index 0..8, IP set id); `tag` stands for
everything else in the rule (it distinguishes versions). -/
structure Rule where
  tag : Nat
  refs : List (Nat × Nat)
deriving DecidableEq, Repr, Inhabited

/-- proto.Policy / proto.Profile: inbound and outbound rules. -/
structure Rules where
  inb : List Rule
  outb : List Rule
deriving DecidableEq, Repr, Inhabited

/-- `computeRefs` / `addIPSetsRuleList`: every IP set id named by any rule. -/
def Rules.refs (r : Rules) : List Nat :=
  (r.inb ++ r.outb).flatMap (fun ru => ru.refs.map (·.2))

structure Tier where
  name : Nat
  ing : List Nat
  eg : List Nat
deriving DecidableEq, Repr, Inhabited

/-- proto.WorkloadEndpoint (what the Processor reads: tiers and profile ids);
`ver` stands for the rest. -/
structure Endpoint where
  ver : Nat
  tiers : List Tier
  profs : List Nat
deriving DecidableEq, Repr, Inhabited

inductive Msg
  | inSync
  | epUpd (w : Nat) (e : Endpoint)
  | epRm (w : Nat)
  | polUpd (id : Nat) (p : Rules)
  | polRm (id : Nat)
  | profUpd (id : Nat) (p : Rules)
  | profRm (id : Nat)
  | saUpd (id : Nat) (v : Nat)
  | saRm (id : Nat)
  | nsUpd (id : Nat) (v : Nat)
  | nsRm (id : Nat)
  | ipUpd (id : Nat) (members : List Nat)
  | ipDelta (id : Nat) (adds dels : List Nat)
  | ipRm (id : Nat)
deriving DecidableEq, Repr, Inhabited

/-- (channel, some msg) = send; (channel, none) = close. -/
abbrev Ev := Nat × Option Msg

/-- `EndpointInfo`. `output` is the channel number. nil maps are empty lists. -/
structure EpInfo where
  output : Option Nat
  joinUID : Nat
  ep : Option Endpoint
  syncedPol : List Nat
  syncedProf : List Nat
  syncedIP : List Nat
deriving DecidableEq, Repr, Inhabited

structure Proc where
  eps : AMap EpInfo
  pols : AMap Rules
  profs : AMap Rules
  sas : AMap Nat
  nss : AMap Nat
  ipsets : AMap (List Nat)
  inSync : Bool
  nextCh : Nat
deriving Repr, Inhabited

def Proc.init : Proc :=
  { eps := [], pols := [], profs := [], sas := [], nss := [], ipsets := [], inSync := false, nextCh := 0 }

/-! ### iteration over an endpoint's policies / profiles -/

/-- egress loop of `iteratePolicies`: emit unseen ids, marking them seen. -/
def egFilter : List Nat → List Nat → List Nat × List Nat
  | seen, [] => ([], seen)
  | seen, p :: ps =>
    if seen.contains p then egFilter seen ps
    else
      let r := egFilter (p :: seen) ps
      (p :: r.1, r.2)

/-- `iteratePolicies`: ingress ids are always visited (and marked seen), egress
ids only when not seen before. -/
def iterTiers : List Nat → List Tier → List Nat
  | _, [] => []
  | seen, t :: ts =>
    let r := egFilter (t.ing.reverse ++ seen) t.eg
    t.ing ++ r.1 ++ iterTiers r.2 ts

def Endpoint.pols (e : Endpoint) : List Nat := iterTiers [] e.tiers

def epPols : Option Endpoint → List Nat
  | none => []
  | some e => e.pols

/-- `iterateProfiles` (nil endpoint: nothing). -/
def epProfs : Option Endpoint → List Nat
  | none => []
  | some e => e.profs

/-! ### IP set sync -/

/-- refs of every listed policy/profile; `none` = nil dereference of a missing one. -/
def refsOf (m : AMap Rules) : List Nat → Option (List Nat)
  | [] => some []
  | id :: ids =>
    match m.get id, refsOf m ids with
    | some r, some rest => some (r.refs ++ rest)
    | _, _ => none

/-- `newS` of `getIPSetsSync`. -/
def wantedIP (p : Proc) (e : Option Endpoint) : Option (List Nat) :=
  match refsOf p.profs (epProfs e), refsOf p.pols (epPols e) with
  | some a, some b => some (dedup (a ++ b))
  | _, _ => none

/-- `sendIPSetUpdate` for each id of `toAdd`. -/
def ipAddMsgs (p : Proc) : List Nat → Option (List Msg)
  | [] => some []
  | id :: ids =>
    match p.ipsets.get id, ipAddMsgs p ids with
    | some ms, some rest => some (Msg.ipUpd id ms :: rest)
    | _, _ => none

/-- `getIPSetsSync`: (ei with syncedIPSets := newS, doAdd messages, doDel messages);
toAdd = newS minus the synced sets, toDel = the synced sets minus newS. -/
def ipSync (p : Proc) (ei : EpInfo) : Option (EpInfo × List Msg × List Msg) :=
  match wantedIP p ei.ep with
  | none => none
  | some newS =>
    match ipAddMsgs p (newS.filter (fun x => !ei.syncedIP.contains x)) with
    | none => none
    | some adds =>
      some ({ ei with syncedIP := newS }, adds, (ei.syncedIP.filter (fun x => !newS.contains x)).map Msg.ipRm)

/-! ### syncAdded* / syncRemoved* -/

/-- `syncAddedPolicies` / `syncAddedProfiles` over the iteration list:
returns (synced', messages). -/
def syncAdded (m : AMap Rules) (mk : Nat → Rules → Msg) : List Nat → List Nat → Option (List Nat × List Msg)
  | [], synced => some (synced, [])
  | id :: ids, synced =>
    if synced.contains id then syncAdded m mk ids synced
    else
      match m.get id with
      | none => none
      | some r =>
        match syncAdded m mk ids (id :: synced) with
        | none => none
        | some (s', ms) => some (s', mk id r :: ms)

/-- loop of `syncRemovedPolicies` / `syncRemovedProfiles`: (old, new) sets;
`none` = the "syncing removed … before all … are added" panic (an id listed
twice, or not synced). -/
def syncRemovedLoop : List Nat → List Nat → List Nat → Option (List Nat × List Nat)
  | [], old, new => some (old, new)
  | id :: ids, old, new =>
    if old.contains id then syncRemovedLoop ids (old.filter (· != id)) (id :: new)
    else none

/-- `maybeSyncEndpoint`. -/
def maybeSync (p : Proc) (w : Nat) (ei : EpInfo) : Option (EpInfo × List Msg) :=
  match ei.ep, ei.output with
  | none, _ => some (ei, [])
  | _, none => some (ei, [])
  | some e, some _ =>
    match ipSync p ei with
    | none => none
    | some (ei1, adds, dels) =>
      match syncAdded p.pols Msg.polUpd e.pols ei1.syncedPol with
      | none => none
      | some (sp, polMsgs) =>
        match syncAdded p.profs Msg.profUpd e.profs ei1.syncedProf with
        | none => none
        | some (sf, profMsgs) =>
          match syncRemovedLoop e.pols sp [], syncRemovedLoop e.profs sf [] with
          | some (oldP, newP), some (oldF, newF) =>
            some ({ ei1 with syncedPol := newP, syncedProf := newF },
              adds ++ polMsgs ++ profMsgs ++ [Msg.epUpd w e] ++ oldP.map Msg.polRm ++ oldF.map Msg.profRm ++ dels)
          | _, _ => none

/-! ### loops over updateable endpoints -/

def tag (c : Nat) (ms : List Msg) : List Ev := ms.map (fun m => (c, some m))

/-- `for _, ei := range p.updateableEndpoints() { f ei }`. -/
def eachUpdateable (f : EpInfo → Option (EpInfo × List Msg)) : AMap EpInfo → Option (AMap EpInfo × List Ev)
  | [] => some ([], [])
  | (w, ei) :: r =>
    match ei.output with
    | none =>
      match eachUpdateable f r with
      | none => none
      | some (r', evs) => some ((w, ei) :: r', evs)
    | some c =>
      match f ei, eachUpdateable f r with
      | some (ei', ms), some (r', evs) => some ((w, ei') :: r', tag c ms ++ evs)
      | _, _ => none

def broadcast (m : Msg) (eps : AMap EpInfo) : List Ev :=
  eps.filterMap (fun kv => kv.2.output.map (fun c => (c, some m)))

/-! ### handlers -/

/-- `handleInSync`. -/
def handleInSync (p : Proc) : Proc × List Ev :=
  if p.inSync then (p, []) else ({ p with inSync := true }, broadcast Msg.inSync p.eps)

def evsFor : Option Nat → List Msg → List Ev
  | some c, ms => tag c ms
  | none, _ => []

def closeEv : Option Nat → List Ev
  | some c => [(c, none)]
  | none => []

/-- the `EndpointInfo` that `handleWorkloadEndpointUpdate` syncs: a fresh one, or the existing one with the new update. -/
def epForUpdate (p : Proc) (w : Nat) (e : Endpoint) : EpInfo :=
  match p.eps.get w with
  | none => { output := none, joinUID := 0, ep := some e, syncedPol := [], syncedProf := [], syncedIP := [] }
  | some ei => { ei with ep := some e }

/-- `handleWorkloadEndpointUpdate`. -/
def handleEpUpdate (p : Proc) (w : Nat) (e : Endpoint) : Option (Proc × List Ev) :=
  match maybeSync p w (epForUpdate p w e) with
  | none => none
  | some (ei', ms) => some ({ p with eps := p.eps.set w ei' }, evsFor ei'.output ms)

/-- `handleWorkloadEndpointRemove`. -/
def handleEpRemove (p : Proc) (w : Nat) : Option (Proc × List Ev) :=
  match p.eps.get w with
  | none => none
  | some ei => some ({ p with eps := p.eps.del w }, evsFor ei.output [Msg.epRm w] ++ closeEv ei.output)

def epList (isPol : Bool) (e : Option Endpoint) : List Nat := if isPol then epPols e else epProfs e

def markSynced (isPol : Bool) (ei : EpInfo) (id : Nat) : EpInfo :=
  if isPol then { ei with syncedPol := sins ei.syncedPol id } else { ei with syncedProf := sins ei.syncedProf id }

/-- the per-endpoint action of `handleActivePolicyUpdate` / `handleActiveProfileUpdate`. -/
def refreshOne (p : Proc) (isPol : Bool) (id : Nat) (m : Msg) (ei : EpInfo) : Option (EpInfo × List Msg) :=
  if (epList isPol ei.ep).contains id then
    match ipSync p ei with
    | none => none
    | some (ei1, adds, dels) => some (markSynced isPol ei1 id, adds ++ [m] ++ dels)
  else some (ei, [])

/-- `handleActivePolicyUpdate`. -/
def handlePolUpdate (p : Proc) (id : Nat) (r : Rules) : Option (Proc × List Ev) :=
  let p1 := { p with pols := p.pols.set id r }
  match eachUpdateable (refreshOne p1 true id (Msg.polUpd id r)) p1.eps with
  | none => none
  | some (eps', evs) => some ({ p1 with eps := eps' }, evs)

/-- `handleActiveProfileUpdate`. -/
def handleProfUpdate (p : Proc) (id : Nat) (r : Rules) : Option (Proc × List Ev) :=
  let p1 := { p with profs := p.profs.set id r }
  match eachUpdateable (refreshOne p1 false id (Msg.profUpd id r)) p1.eps with
  | none => none
  | some (eps', evs) => some ({ p1 with eps := eps' }, evs)

/-- first-match scan of `referencesIPSet` over one id list; `none` = nil dereference. -/
def scanRefs (m : AMap Rules) (x : Nat) : List Nat → Option Bool
  | [] => some false
  | id :: ids =>
    match m.get id with
    | none => none
    | some r => if r.refs.contains x then some true else scanRefs m x ids

/-- `referencesIPSet`: profiles first, then policies. -/
def referencesIP (p : Proc) (ei : EpInfo) (x : Nat) : Option Bool :=
  match scanRefs p.profs x (epProfs ei.ep) with
  | none => none
  | some true => some true
  | some false => scanRefs p.pols x (epPols ei.ep)

/-- per-endpoint body of the loop of `handleIPSetUpdate`. -/
def ipUpdOne (p1 : Proc) (id : Nat) (ms : List Nat) (ei : EpInfo) : Option (EpInfo × List Msg) :=
  match referencesIP p1 ei id with
  | none => none
  | some true => some ({ ei with syncedIP := sins ei.syncedIP id }, [Msg.ipUpd id ms])
  | some false => some (ei, [])

/-- per-endpoint body of the loop of `handleIPSetDeltaUpdate`. -/
def ipDeltaOne (p1 : Proc) (id : Nat) (adds dels : List Nat) (ei : EpInfo) : Option (EpInfo × List Msg) :=
  match referencesIP p1 ei id with
  | none => none
  | some true => some (ei, [Msg.ipDelta id adds dels])
  | some false => some (ei, [])

/-- `handleIPSetUpdate`. Members are stored as a duplicate-free list. -/
def handleIPUpdate (p : Proc) (id : Nat) (ms : List Nat) : Option (Proc × List Ev) :=
  match p.ipsets.get id with
  | none => some ({ p with ipsets := p.ipsets.set id (dedup ms) }, [])
  | some _ =>
    match eachUpdateable (ipUpdOne { p with ipsets := p.ipsets.set id (dedup ms) } id ms) p.eps with
    | none => none
    | some (eps', evs) => some ({ p with ipsets := p.ipsets.set id (dedup ms), eps := eps' }, evs)

/-- `ipSetInfo.deltaUpdate`: adds first, then removes. -/
def applyDelta (cur adds dels : List Nat) : List Nat :=
  (dedup (cur ++ adds)).filter (fun x => !dels.contains x)

/-- `handleIPSetDeltaUpdate`. An unknown set is a nil dereference unless the
delta is empty. -/
def deltaStore (p : Proc) (id : Nat) (adds dels : List Nat) : Option Proc :=
  match p.ipsets.get id with
  | none => if adds.isEmpty && dels.isEmpty then some p else none
  | some cur => some { p with ipsets := p.ipsets.set id (applyDelta cur adds dels) }

def handleIPDelta (p : Proc) (id : Nat) (adds dels : List Nat) : Option (Proc × List Ev) :=
  match deltaStore p id adds dels with
  | none => none
  | some p1 =>
    match eachUpdateable (ipDeltaOne p1 id adds dels) p1.eps with
    | none => none
    | some (eps', evs) => some ({ p1 with eps := eps' }, evs)

/-- the `EndpointInfo` a join starts from (pre-created when unknown). -/
def joinOld (p : Proc) (w : Nat) : EpInfo :=
  match p.eps.get w with
  | none => { output := none, joinUID := 0, ep := none, syncedPol := [], syncedProf := [], syncedIP := [] }
  | some ei => ei

/-- `handleJoin`: close the old channel if any, reset the synced sets, sync, then send every
service account and namespace and the in-sync marker. -/
def handleJoin (p : Proc) (w uid : Nat) : Option (Proc × List Ev) :=
  match maybeSync p w { joinOld p w with joinUID := uid, output := some p.nextCh, syncedPol := [], syncedProf := [], syncedIP := [] } with
  | none => none
  | some (ei', ms) =>
    some ({ p with eps := p.eps.set w ei', nextCh := p.nextCh + 1 },
      closeEv (joinOld p w).output ++
        tag p.nextCh (ms ++ p.sas.map (fun kv => Msg.saUpd kv.1 kv.2) ++ p.nss.map (fun kv => Msg.nsUpd kv.1 kv.2) ++
          (if p.inSync then [Msg.inSync] else [])))

/-- condition of the deferred clean-up of `handleLeave`. -/
def cleanupCond (ei : EpInfo) : Bool := ei.output.isNone && ei.joinUID == 0 && ei.ep.isNone

/-- `handleLeave`. `close(nil)` panics. -/
def handleLeave (p : Proc) (w uid : Nat) : Option (Proc × List Ev) :=
  match p.eps.get w with
  | none => some (p, [])
  | some ei =>
    if ei.joinUID != uid then
      some (if cleanupCond ei then { p with eps := p.eps.del w } else p, [])
    else
      match ei.output with
      | none => none
      | some c =>
        let ei' := { ei with output := none, joinUID := 0 }
        some (if cleanupCond ei' then { p with eps := p.eps.del w } else { p with eps := p.eps.set w ei' },
          [(c, none)])

/-! ### operations (= messages the Processor's loop can receive) -/

inductive Op
  | inSync
  | ep (w : Nat) (e : Endpoint)
  | epRm (w : Nat)
  | pol (id : Nat) (r : Rules)
  | polRm (id : Nat)
  | prof (id : Nat) (r : Rules)
  | profRm (id : Nat)
  | sa (id v : Nat)
  | saRm (id : Nat)
  | ns (id v : Nat)
  | nsRm (id : Nat)
  | ipset (id : Nat) (ms : List Nat)
  | ipDelta (id : Nat) (adds dels : List Nat)
  | ipRm (id : Nat)
  | join (w uid : Nat)
  | leave (w uid : Nat)
deriving Repr, Inhabited

/-- One iteration of `Processor.loop` (`handleDataplane` / `handleJoin` / `handleLeave`). -/
def step (p : Proc) : Op → Option (Proc × List Ev)
  | .inSync => some (handleInSync p)
  | .ep w e => handleEpUpdate p w e
  | .epRm w => handleEpRemove p w
  | .pol id r => handlePolUpdate p id r
  | .polRm id => some ({ p with pols := p.pols.del id }, [])
  | .prof id r => handleProfUpdate p id r
  | .profRm id => some ({ p with profs := p.profs.del id }, [])
  | .sa id v => some ({ p with sas := p.sas.set id v }, broadcast (Msg.saUpd id v) p.eps)
  | .saRm id => some ({ p with sas := p.sas.del id }, broadcast (Msg.saRm id) p.eps)
  | .ns id v => some ({ p with nss := p.nss.set id v }, broadcast (Msg.nsUpd id v) p.eps)
  | .nsRm id => some ({ p with nss := p.nss.del id }, broadcast (Msg.nsRm id) p.eps)
  | .ipset id ms => handleIPUpdate p id ms
  | .ipDelta id adds dels => handleIPDelta p id adds dels
  | .ipRm id => some ({ p with ipsets := p.ipsets.del id }, [])
  | .join w uid => handleJoin p w uid
  | .leave w uid => handleLeave p w uid

/-- A whole history; `none` as soon as a step panics. Events are accumulated in order. -/
def run : Proc → List Op → Option (Proc × List Ev)
  | p, [] => some (p, [])
  | p, op :: ops =>
    match step p op with
    | none => none
    | some (p', evs) =>
      match run p' ops with
      | none => none
      | some (p'', evs') => some (p'', evs ++ evs')

end CalicoVerif.C31
