/-
C16 — model of felix/ipsets/ipsets.go (`IPSets`), felix/ipsets/resync_queue.go and of
the `ipset` command as Felix drives it (`ipset restore`, `ipset list`, `ipset destroy`).

* The two delta trackers (`setNameToProgrammedMetadata`, `mainSetNameToMembers[..]`)
  are modelled directly as a desired map/set and a dataplane map/set; pending
  updates/deletions are computed from them (that this is what the real
  `deltatracker` maintains incrementally is property C18).
* Go map iteration order: wherever the order in which the real code visits a map
  is observable (order of the per-set groups inside one `ipset restore`, order of
  `ipset destroy` attempts) the model takes the order as an explicit input
  (`hintR`, `hintD`) and checks it is a legal order (a permutation of what the
  model itself computes).  Member order inside a group is `ord` (the driver uses
  a sort; the theorems quantify over it).
* IP set members are opaque canonical strings (member canonicalisation and the
  IP-version filter are not modelled).
* `BackgroundResyncTimeBudget`: modelled with a clock that does not advance
  (every queued background resync is drained in the same `ApplyUpdates`).
Core Lean only (linked into the driver executable).
-/
namespace CalicoVerif.C16

/-! ## Finite maps keyed by strings (association lists, first binding wins) -/

abbrev Map (α : Type) := List (String × α)

namespace Map
variable {α : Type}
def get (m : Map α) (k : String) : Option α := List.lookup k m
def has (m : Map α) (k : String) : Bool := (m.get k).isSome
def erase (m : Map α) (k : String) : Map α := m.filter (fun p => p.1 != k)
def set (m : Map α) (k : String) (v : α) : Map α := (k, v) :: m.erase k
def keys (m : Map α) : List String := m.map (·.1)
end Map

/-- `set.Set[string]` / member sets as duplicate-free lists. -/
def sAdd (s : List String) (x : String) : List String := if x ∈ s then s else s ++ [x]
def sErase (s : List String) (x : String) : List String := s.filter (· != x)

/-! ## Configuration (`IPVersionConfig`) -/

structure Cfg where
  /-- alternatives of `ourNamePrefixesRegexp` (all anchored prefixes) -/
  prefixes : List String
  mainPfx : String
  tempPfx : String
deriving Repr

/-- `strings.HasPrefix(s, p)` / an anchored-literal regexp alternative. -/
def hasPrefix (s p : String) : Bool := p.toList.isPrefixOf s.toList

/-- `IPVersionConfig.OwnsIPSet`. -/
def Cfg.owns (c : Cfg) (name : String) : Bool := c.prefixes.any (fun p => hasPrefix name p)
/-- `IPVersionConfig.IsTempIPSetName`. -/
def Cfg.isTemp (c : Cfg) (name : String) : Bool := hasPrefix name c.tempPfx
/-- `combineAndTrunc(mainSetNamePrefix, setID, MaxIPSetNameLength)` (ASCII names). -/
def Cfg.mainName (c : Cfg) (setID : String) : String :=
  String.ofList ((c.mainPfx ++ setID).toList.take 31)
/-- `IPVersionConfig.NameForTempIPSet`. -/
def Cfg.tempName (c : Cfg) (n : Nat) : String := c.tempPfx ++ toString n

/-! ## Metadata and kernel sets -/

/-- `dataplaneMetadata`. -/
structure Meta where
  type : String
  maxSize : Nat
  rangeMin : Nat
  rangeMax : Nat
  deleteFailed : Bool
  listFailed : Bool
deriving DecidableEq, Repr, Inhabited

def Meta.zero : Meta := ⟨"", 0, 0, 0, false, false⟩

/-- One IP set in the kernel.  `listFails`: `ipset list <name>` fails without output
(userspace/kernel revision skew); `busy`: referenced by something (destroy refused). -/
structure KSet where
  type : String
  maxSize : Nat
  rangeMin : Nat
  rangeMax : Nat
  members : List String
  listFails : Bool
  busy : Bool
deriving DecidableEq, Repr, Inhabited

/-- What `resyncIPSet` parses from the `Type:`/`Header:` lines of a successful listing. -/
def parseMeta (k : KSet) : Meta :=
  if k.type == "bitmap:port" then ⟨k.type, 0, k.rangeMin, k.rangeMax, false, false⟩
  else ⟨k.type, k.maxSize, 0, 0, false, false⟩

/-- One line of `ipset restore` input as written by `writeUpdates`. -/
inductive Line where
  | create (name type : String) (maxSize rangeMin rangeMax : Nat)
  | add (name m : String)
  | del (name m : String)
  | swap (a b : String)
deriving DecidableEq, Repr

abbrev Kernel := Map KSet

/-- Syntactic kind of a member string (what set type can hold it). -/
def memberKind (m : String) : String :=
  let cs := m.toList
  if cs.contains ',' && cs.contains '/' then "hash:net,net"
  else if cs.contains ',' then "hash:ip,port"
  else if cs.contains '/' then "hash:net"
  else if cs.contains '.' then "hash:ip"
  else if !cs.isEmpty && cs.all Char.isDigit then "bitmap:port"
  else "raw"

def validTypes : List String := ["hash:ip", "hash:ip,port", "hash:net", "bitmap:port", "hash:net,net"]

/-- Does the kernel accept member `m` in a set of type `t`?  (A real kernel rejects an element whose
syntax does not fit the set type; sets of types Felix does not know accept anything here.) -/
def memberFits (t m : String) : Bool := !(validTypes.contains t) || memberKind m == t

/-- The kernel's reaction to one restore line; `none` = the line fails (and
`ipset restore` aborts there, keeping everything done so far). -/
def kstep (K : Kernel) : Line → Option Kernel
  | .create name type maxSize rmin rmax =>
    if K.has name then none
    else
      if type == "bitmap:port" then some (K.set name ⟨type, 0, rmin, rmax, [], false, false⟩)
      else some (K.set name ⟨type, maxSize, 0, 0, [], false, false⟩)
  | .add name m =>
    match K.get name with
    | none => none
    | some s =>
      if m ∈ s.members || !memberFits s.type m then none
      else some (K.set name { s with members := s.members ++ [m] })
  | .del name m =>
    match K.get name with
    | none => none
    | some s => some (K.set name { s with members := sErase s.members m })
  | .swap a b =>
    match K.get a, K.get b with
    | some sa, some sb => some ((K.set a sb).set b sa)
    | _, _ => none

/-- Run restore lines until the first failing one.  Returns the kernel and the
number of lines applied. -/
def krun (K : Kernel) : List Line → Kernel × Nat × Bool
  | [] => (K, 0, true)
  | l :: ls =>
    match kstep K l with
    | none => (K, 0, false)
    | some K' => let (K'', n, ok) := krun K' ls; (K'', n + 1, ok)

/-- Every intermediate kernel state while running lines (for the per-line theorems). -/
def kstates (K : Kernel) : List Line → List Kernel
  | [] => [K]
  | l :: ls =>
    match kstep K l with
    | none => [K]
    | some K' => K :: kstates K' ls

/-! ## Felix's in-memory state (`IPSets`) -/

/-- One `SetDeltaTracker[IPSetMember]`. -/
structure MT where
  des : List String
  dp : List String
deriving DecidableEq, Repr, Inhabited

/-- `PendingUpdates()` of a member tracker. -/
def MT.pendingAdd (t : MT) : List String := (t.des.filter (fun x => !(t.dp.contains x))).eraseDups
/-- `PendingDeletions()` of a member tracker. -/
def MT.pendingDel (t : MT) : List String := (t.dp.filter (fun x => !(t.des.contains x))).eraseDups
def MT.inSync (t : MT) : Bool := t.pendingAdd.isEmpty && t.pendingDel.isEmpty

structure Felix where
  allMeta : Map Meta := []
  /-- `setNameToProgrammedMetadata.Desired()` -/
  desired : Map Meta := []
  /-- `setNameToProgrammedMetadata.Dataplane()` -/
  dp : Map Meta := []
  members : Map MT := []
  nextTemp : Nat := 0
  dirty : List String := []
  qMust : List String := []
  qBg : List String := []
  bgReq : Bool := false
  fullReq : Bool := true
  filter : Option (List String) := none
deriving Repr, Inhabited

def Felix.needed (F : Felix) (name : String) : Bool :=
  match F.filter with
  | none => true
  | some ns => ns.contains name

/-- `updateDirtiness`. -/
def Felix.updateDirtiness (F : Felix) (name : String) : Felix :=
  match F.members.get name with
  | none => { F with dirty := sErase F.dirty name }
  | some t =>
    if !F.needed name then { F with dirty := sErase F.dirty name }
    else if t.inSync then { F with dirty := sErase F.dirty name }
    else { F with dirty := sAdd F.dirty name }

/-- `resyncQueue.Add`. -/
def Felix.qAdd (F : Felix) (name : String) (must : Bool) : Felix :=
  if F.qMust.contains name then F
  else if F.qBg.contains name then
    if must then { F with qBg := sErase F.qBg name, qMust := F.qMust ++ [name] } else F
  else if must then { F with qMust := F.qMust ++ [name] } else { F with qBg := F.qBg ++ [name] }

/-- `resyncQueue.Remove`. -/
def Felix.qRemove (F : Felix) (name : String) : Felix :=
  { F with qMust := sErase F.qMust name, qBg := sErase F.qBg name }

def Felix.qLen (F : Felix) : Nat := F.qMust.length + F.qBg.length

def Felix.tracker (F : Felix) (name : String) : MT := (F.members.get name).getD ⟨[], []⟩

/-- `AddOrReplaceIPSet` (members already canonical and of the right IP version). -/
def Felix.addOrReplace (c : Cfg) (F : Felix) (setID : String) (m : Meta) (ms : List String) : Felix :=
  let name := c.mainName setID
  let F := { F with allMeta := F.allMeta.set name m }
  let F := if F.needed name then { F with desired := F.desired.set name m } else F
  let t := F.tracker name
  let F := { F with members := F.members.set name { t with des := ms.eraseDups } }
  F.updateDirtiness name

/-- `RemoveIPSet`.  `none` = the real code dereferences a nil tracker (panics). -/
def Felix.remove (c : Cfg) (F : Felix) (setID : String) : Option Felix :=
  let name := c.mainName setID
  let F := { F with allMeta := F.allMeta.erase name, desired := F.desired.erase name }
  if F.dp.has name then
    match F.members.get name with
    | none => none
    | some t => some ({ F with members := F.members.set name { t with des := [] } }.updateDirtiness name)
  else
    some ({ F with members := F.members.erase name }.updateDirtiness name)

/-- `AddMembers`; `none` = Panic("AddMembers called for nonexistent IP set"). -/
def Felix.addMembers (c : Cfg) (F : Felix) (setID : String) (ms : List String) : Option Felix :=
  let name := c.mainName setID
  if !F.allMeta.has name then none
  else if ms.isEmpty then some F
  else
    match F.members.get name with
    | none => none
    | some t => some ({ F with members := F.members.set name { t with des := ms.foldl sAdd t.des } }.updateDirtiness name)

/-- `RemoveMembers`. -/
def Felix.removeMembers (c : Cfg) (F : Felix) (setID : String) (ms : List String) : Option Felix :=
  let name := c.mainName setID
  if !F.allMeta.has name then none
  else if ms.isEmpty then some F
  else
    match F.members.get name with
    | none => none
    | some t => some ({ F with members := F.members.set name { t with des := ms.foldl sErase t.des } }.updateDirtiness name)

/-- `SetFilter`. -/
def Felix.setFilter (F : Felix) (f : Option (List String)) : Felix :=
  if F.filter.isNone && f.isNone then F
  else
    let F := { F with filter := f }
    F.allMeta.foldl (fun F (p : String × Meta) =>
      let F := if F.needed p.1 then { F with desired := F.desired.set p.1 p.2 }
               else { F with desired := F.desired.erase p.1 }
      F.updateDirtiness p.1) F

/-- `onIPSetMissingFromDataplane`. -/
def Felix.onMissing (F : Felix) (name : String) : Felix :=
  let F := { F with dp := F.dp.erase name }
  let F := match F.members.get name with
    | none => F
    | some t =>
      if !F.allMeta.has name then { F with members := F.members.erase name }
      else { F with members := F.members.set name { t with dp := [] } }
  (F.updateDirtiness name).qRemove name

/-- `sweepIPSetsMissingFromDataplane`. -/
def Felix.sweep (F : Felix) (listed : List String) : Felix :=
  let cands := (F.members.keys ++ F.dp.keys ++ F.desired.keys).eraseDups
  (cands.filter (fun n => !(listed.contains n))).foldl Felix.onMissing F

/-- `setNameToProgrammedMetadata.PendingDeletions()` as a list of names. -/
def Felix.pendingDeletions (F : Felix) : List String :=
  (F.dp.keys.filter (fun n => !(F.desired.has n))).eraseDups

/-- `setNameToProgrammedMetadata.PendingUpdates()` as a list of names. -/
def Felix.pendingUpdates (F : Felix) : List String :=
  (F.desired.filter (fun p => F.dp.get p.1 != some p.2)).map (·.1) |>.eraseDups

/-- `dirtyIPSetsForUpdate` (as a set; the visiting order is an input of `tryUpdates`). -/
def Felix.dirtyForUpdate (F : Felix) : List String :=
  let a := F.dirty.filter (fun n => F.desired.has n)
  a ++ (F.pendingUpdates.filter (fun n => !(F.dirty.contains n)))

/-- `nextFreeTempIPSetName`. -/
def Felix.nextFreeTemp (c : Cfg) (F : Felix) : Nat → Felix × String
  | 0 => ({ F with nextTemp := F.nextTemp + 1 }, c.tempName F.nextTemp)
  | fuel + 1 =>
    let cand := c.tempName F.nextTemp
    let F := { F with nextTemp := F.nextTemp + 1 }
    if F.dp.has cand then Felix.nextFreeTemp c F fuel else (F, cand)

def createLine (target : String) (m : Meta) : Line :=
  if m.type == "bitmap:port" then .create target m.type 0 m.rangeMin m.rangeMax
  else .create target m.type m.maxSize 0 0

/-- `needTempIPSet := dpExists && dpMeta != desiredMeta`. -/
def needTemp (dpm : Option Meta) (dm : Meta) : Bool :=
  match dpm with
  | some x => x != dm
  | none => false

/-- `writeUpdates` for one set (write errors cannot happen in the model: the
whole input is accepted and the *process* fails).  `ord` = visiting order of the
member iterations.  Returns the new in-memory state and the lines written;
`none` = one of the two Panics. -/
def Felix.writeUpdates (c : Cfg) (ord : List String → List String) (F : Felix) (name : String) :
    Option (Felix × List Line) :=
  match F.desired.get name, F.members.get name with
  | some dm, some t =>
    let dpm := F.dp.get name
    if needTemp dpm dm then
      -- metadata change: build a temporary set with the full desired contents, swap it in
      let p := Felix.nextFreeTemp c F (F.dp.length + 1)
      let adds := ord ({ t with dp := [] } : MT).pendingAdd
      let F1 := { p.1 with members := p.1.members.set name { t with dp := adds.foldl sAdd [] } }
      let F1 := { F1 with dp := (F1.dp.set p.2 (dpm.getD Meta.zero)).set name dm }
      some (F1, [createLine p.2 dm] ++ adds.map (Line.add p.2) ++ [Line.swap name p.2])
    else
      -- in place: create if missing, then member deltas
      let dels := ord t.pendingDel
      let adds := ord t.pendingAdd
      let F1 := { F with members := F.members.set name { t with dp := adds.foldl sAdd (dels.foldl sErase t.dp) } }
      let F1 := if dpm.isNone then { F1 with dp := F1.dp.set name dm } else F1
      some (F1, (if dpm.isNone then [createLine name dm] else []) ++ dels.map (Line.del name) ++ adds.map (Line.add name))
  | _, _ => none

/-! ## The world: Felix + kernel + failure plan + order hints + command trace -/

inductive RPlan where
  | ok
  | failAt (k : Nat)   -- the restore process applies k lines, then dies
  | startFail           -- cmd.Start() fails
deriving DecidableEq, Repr

structure Plan where
  restores : List RPlan := []
  names : List Bool := []           -- per `ipset list -name` call: true = fails
  lists : List (String × Int) := []  -- one-shot failures of `ipset list <name>`: (name, j): dies after j members (j<0: no output)
  destroys : List Bool := []        -- per `ipset destroy` call: true = fails
deriving Repr

structure W where
  cfg : Cfg
  F : Felix
  K : Kernel
  plan : Plan := {}
  hintR : List (List String) := []
  hintD : List String := []
  trace : List String := []   -- newest first
  sleeps : Nat := 0
  badHint : Bool := false
  dead : Bool := false         -- the real code panicked
deriving Repr

def sortS (l : List String) : List String := l.mergeSort (fun a b => a ≤ b)

def sameSet (a b : List String) : Bool := a.all (b.contains ·) && b.all (a.contains ·) && a.length == b.length

/-- `ipset list -name` filtered by `OwnsIPSet` (`CalicoIPSets`). -/
def W.listNames (w : W) : W × Option (List String) :=
  let (fail, rest) := match w.plan.names with
    | [] => (false, [])
    | b :: r => (b, r)
  let w := { w with plan := { w.plan with names := rest } }
  if fail then ({ w with trace := "N:f" :: w.trace }, none)
  else ({ w with trace := "N:ok" :: w.trace }, some (w.K.keys.filter w.cfg.owns))

inductive LR where
  | notFound
  | failNoOutput
  | listed (m : Meta) (members : List String) (failed : Bool)

def popList (name : String) : List (String × Int) → Option Int × List (String × Int)
  | [] => (none, [])
  | (n, j) :: r =>
    if n == name then (some j, r) else let (x, r') := popList name r; (x, (n, j) :: r')

/-- `ipset list <name>` as seen by `resyncIPSet`. -/
def W.listSet (w : W) (name : String) : W × LR :=
  match w.K.get name with
  | none => ({ w with trace := ("L:" ++ name ++ ":nf") :: w.trace }, .notFound)
  | some k =>
    if k.listFails then ({ w with trace := ("L:" ++ name ++ ":f") :: w.trace }, .failNoOutput)
    else
      let (x, rest) := popList name w.plan.lists
      let w := { w with plan := { w.plan with lists := rest } }
      match x with
      | none => ({ w with trace := ("L:" ++ name ++ ":ok") :: w.trace }, .listed (parseMeta k) k.members false)
      | some j =>
        if j < 0 then ({ w with trace := ("L:" ++ name ++ ":f") :: w.trace }, .failNoOutput)
        else ({ w with trace := ("L:" ++ name ++ ":p" ++ toString j) :: w.trace },
              .listed (parseMeta k) ((sortS k.members).take j.toNat) true)

/-- What `resyncIPSet` does with the outcome of `ipset list <name>`; `true` = it returns an error. -/
def Felix.applyList (c : Cfg) (F : Felix) (name : String) : LR → Felix × Bool
  | .notFound => (F.onMissing name, false)
  | .failNoOutput => ({ F with dp := F.dp.set name { Meta.zero with listFailed := true } }, true)
  | .listed m ms failed =>
    let F1 := if c.isTemp name then F
      else ({ F with members := F.members.set name { F.tracker name with dp := ms.eraseDups } }).updateDirtiness name
    ({ F1 with dp := F1.dp.set name { m with listFailed := failed } }, failed)

/-- `resyncIPSet`; returns `true` when it returns an error. -/
def W.resyncIPSet (w : W) (name : String) : W × Bool :=
  let p := w.listSet name
  let q := p.1.F.applyList p.1.cfg name p.2
  ({ p.1 with F := q.1 }, q.2)

/-- One iteration of the loops of `drainResyncQueue`: re-list one set; a failure for a set that is
desired is recorded and the set is re-queued at "must". -/
def W.drainStep (acc : W × Bool) (name : String) : W × Bool :=
  let r := acc.1.resyncIPSet name
  if r.2 && r.1.F.desired.has name then ({ r.1 with F := r.1.F.qAdd name true }, true) else (r.1, acc.2)

/-- `drainResyncQueue` with a clock that does not advance. -/
def W.drain (w : W) : W × Bool :=
  let r := (sortS w.F.qMust).foldl W.drainStep ({ w with F := { w.F with qMust := [] } }, false)
  if r.1.F.fullReq then r
  else
    -- background tier: popped one at a time; a failure re-queues at "must", so the loop
    -- only ever sees the entries that were in the tier at the start.
    (sortS r.1.F.qBg).foldl W.drainStep ({ r.1 with F := { r.1.F with qBg := [] } }, r.2)

/-- What `beginFullResync` / `beginBackgroundResync` do with a successful listing. -/
def Felix.afterListing (F : Felix) (listed : List String) (full : Bool) : Felix :=
  if full then
    let F := (sortS listed).foldl (fun F n => F.qAdd n true) F
    let F := F.sweep listed
    { F with bgReq := false }
  else
    let F := F.sweep listed
    let F := (sortS listed).foldl (fun F n => F.qAdd n false) F
    { F with bgReq := false }

/-- `beginFullResync` (`full = true`) / `beginBackgroundResync`; `true` = the listing failed. -/
def W.beginResync (w : W) (full : Bool) : W × Bool :=
  let w0 : W := if full then { w with F := { w.F with qMust := [], qBg := [], dp := [] } } else w
  match w0.listNames with
  | (w1, none) => (w1, true)
  | (w1, some listed) => ({ w1 with F := w1.F.afterListing listed full }, false)

/-- `tryResync`. -/
def W.tryResync (w : W) : W × Bool :=
  if w.F.fullReq || w.F.bgReq then
    match w.beginResync w.F.fullReq with
    | (w1, true) => (w1, true)
    | (w1, false) => w1.drain
  else w.drain

def popBool : List Bool → Bool × List Bool
  | [] => (false, [])
  | b :: r => (b, r)

/-- Would `ipset destroy <name>` succeed now? -/
def W.destroyOk (w : W) (name : String) : Bool :=
  !(popBool w.plan.destroys).1 && (match w.K.get name with | some k => !k.busy | none => false)

/-- `ipset destroy <name>` (`deleteIPSet`); `true` = success. -/
def W.destroy (w : W) (name : String) : W × Bool :=
  ({ w with
      plan := { w.plan with destroys := (popBool w.plan.destroys).2 }
      K := if w.destroyOk name then w.K.erase name else w.K
      trace := ("D:" ++ name ++ (if w.destroyOk name then ":ok" else ":f")) :: w.trace },
   w.destroyOk name)

/-- The next destroy target named by the hint, if it is one of the candidates. -/
def pickHint (h : Option String) (cands : List String) : Option String :=
  match h with
  | some x => if cands.contains x then some x else none
  | none => none

/-- Bookkeeping of `ApplyDeletions` after a successful destroy. -/
def Felix.afterDestroy (F : Felix) (n : String) : Felix :=
  let F := F.qRemove n
  let F := if !F.allMeta.has n then { F with members := F.members.erase n }
    else { F with members := F.members.set n { F.tracker n with dp := [] } }
  { F with dp := F.dp.erase n }

/-- Bookkeeping of `ApplyDeletions` after a failed destroy. -/
def Felix.markDeleteFailed (F : Felix) (n : String) : Felix :=
  { F with dp := F.dp.set n { ((F.dp.get n).getD Meta.zero) with deleteFailed := true } }

def popHintD (w : W) : W × Option String :=
  match w.hintD with
  | [] => (w, none)
  | h :: r => ({ w with hintD := r }, some h)

/-- `tryTempIPSetDeletions`: the candidates are visited in hint order until one
destroy succeeds (`MaxIPSetDeletionsPerIteration = 1`). -/
def W.tryTempDeletions (w : W) : W :=
  let cands := w.F.pendingDeletions.filter (fun n =>
    w.cfg.isTemp n && !((w.F.dp.get n).getD Meta.zero).deleteFailed)
  let rec go : Nat → List String → W → W
    | 0, _, w => w
    | _, [], w => w
    | fuel + 1, cands, w =>
      let (w, h) := popHintD w
      match pickHint h cands with
      | none => { w with badHint := true }
      | some n =>
        let (w, ok) := w.destroy n
        if ok then { w with F := { (w.F.qRemove n) with dp := w.F.dp.erase n } }
        else go fuel (sErase cands n) w
  go cands.length cands w

/-- `ApplyDeletions`; returns the reschedule flag. -/
def W.applyDeletions (w : W) : W × Bool :=
  let cands := w.F.pendingDeletions.filter (fun n => !((w.F.dp.get n).getD Meta.zero).deleteFailed)
  let rec go : Nat → List String → W → W × Nat
    | 0, _, w => (w, 0)
    | _, [], w => (w, 0)
    | fuel + 1, cands, w =>
      let (w, h) := popHintD w
      match pickHint h cands with
      | none => ({ w with badHint := true }, 0)
      | some n =>
        let (w, ok) := w.destroy n
        if ok then ({ w with F := w.F.afterDestroy n }, 1)
        else go fuel (sErase cands n) { w with F := w.F.markDeleteFailed n }
  let (w, numDel) := go cands.length cands w
  if w.F.qLen > 0 then (w, true)
  else if numDel == 0 then (w, false)
  else (w, !w.F.pendingDeletions.isEmpty)

def showLine : Line → String
  | .create n t ms a b =>
    if t == "bitmap:port" then s!"create_{n}_{t}_range_{a}-{b}" else s!"create_{n}_{t}_family_inet_maxelem_{ms}"
  | .add n m => s!"add_{n}_{m}"
  | .del n m => s!"del_{n}_{m}_--exist"
  | .swap a b => s!"swap_{a}_{b}"

/-- Write all groups in the given order. -/
def writeAll (c : Cfg) (ord : List String → List String) : Felix → List String → Option (Felix × List Line)
  | F, [] => some (F, [])
  | F, n :: ns =>
    match F.writeUpdates c ord n with
    | none => none
    | some (F, ls) =>
      match writeAll c ord F ns with
      | none => none
      | some (F, ls') => some (F, ls ++ ls')

def popRPlan : List RPlan → RPlan × List RPlan
  | [] => (RPlan.ok, [])
  | r :: rs => (r, rs)

/-- The order in which the dirty sets are written: the hint if it is a permutation of
`dirty`, else a sorted order (and the hint is flagged). -/
def W.pickOrder (w : W) (dirty : List String) : List String × W :=
  match w.hintR with
  | [] => (sortS dirty, { w with badHint := true })
  | h :: r =>
    if sameSet h dirty then (h, { w with hintR := r })
    else (sortS dirty, { w with hintR := r, badHint := true })

def linesToRun (rp : RPlan) (lines : List Line) : List Line :=
  match rp with
  | .failAt k => lines.take k
  | _ => lines

/-- One `ipset restore` session: write every group, let the kernel run the lines. -/
def W.runRestore (w : W) (rp : RPlan) (order : List String) : W × Bool :=
  match writeAll w.cfg sortS w.F order with
  | none => ({ w with dead := true }, true)
  | some (F, lines) =>
    let r := krun w.K (linesToRun rp lines)
    let success := r.2.2 && rp == RPlan.ok
    let tr := "R[" ++ ";".intercalate (lines.map showLine) ++ "]" ++ (if success then "ok" else s!"f{r.2.1}")
    if success then ({ w with K := r.1, F := { F with dirty := [] }, trace := tr :: w.trace }, false)
    else ({ w with K := r.1, F := order.foldl (fun F n => F.qAdd n true) F, trace := tr :: w.trace }, true)

/-- `tryUpdates`; returns `true` on error. -/
def W.tryUpdates (w : W) (dirty : List String) : W × Bool :=
  if dirty.isEmpty then (w, false)
  else
    let rp := (popRPlan w.plan.restores).1
    let w := { w with plan := { w.plan with restores := (popRPlan w.plan.restores).2 } }
    if rp == RPlan.startFail then ({ w with trace := "S" :: w.trace }, true)
    else (w.pickOrder dirty).2.runRestore rp (w.pickOrder dirty).1

/-- The retry loop of `ApplyUpdates`.  `fuel` = attempts left, `att` = attempt number. -/
def W.applyLoop : Nat → Nat → Bool → W → W × Bool
  | 0, _, _, w => (w, false)
  | fuel + 1, att, rerr, w =>
    let transient := att < 5
    let doResync := w.F.fullReq || w.F.bgReq || w.F.qLen > 0
    let (w, rerr) := if doResync then w.tryResync else (w, rerr)
    if doResync && rerr && transient then
      W.applyLoop fuel (att + 1) rerr { w with sleeps := w.sleeps + 1 }
    else
      let w := w.tryTempDeletions
      let dirty := w.F.dirtyForUpdate
      let (w, uerr) := w.tryUpdates dirty
      if w.dead then (w, false)
      else
        let w := if uerr && !transient then { w with F := { w.F with fullReq := true } } else w
        if rerr || uerr then W.applyLoop fuel (att + 1) rerr { w with sleeps := w.sleeps + 1 }
        else ({ w with F := { w.F with fullReq := false } }, true)

/-- `ApplyUpdates`: `false` = Panic("Failed to update IP sets after multiple retries"). -/
def W.applyUpdates (w : W) : W × Bool :=
  let (w, ok) := W.applyLoop 10 0 false w
  if ok then (w, true) else ({ w with dead := true }, false)

/-! ## Operations (the public API of `IPSets`, restart, and out-of-band kernel edits) -/

inductive Op where
  | add (setID type : String) (maxSize rangeMin rangeMax : Nat) (members : List String)
  | rm (setID : String)
  | addm (setID : String) (members : List String)
  | delm (setID : String) (members : List String)
  | filter (f : Option (List String))
  | qresync
  | restart
  | apply (plan : Plan) (hintR : List (List String)) (hintD : List String)
  | applydel (plan : Plan) (hintD : List String)
  | kset (name : String) (k : KSet)
  | kdel (name : String)
  | kdrop (name : String) (k : Nat)

def orDead (w : W) (F : Option Felix) : W :=
  match F with
  | some F => { w with F := F }
  | none => { w with dead := true }

/-- One operation; the Boolean is the operation's own result (`ApplyUpdates` succeeded /
`ApplyDeletions` asks to be rescheduled; `true` otherwise). -/
def W.stepOp (w : W) : Op → W × Bool
  | .add id t ms a b mem => ({ w with F := w.F.addOrReplace w.cfg id ⟨t, ms, a, b, false, false⟩ mem }, true)
  | .rm id => (orDead w (w.F.remove w.cfg id), true)
  | .addm id mem => (orDead w (w.F.addMembers w.cfg id mem), true)
  | .delm id mem => (orDead w (w.F.removeMembers w.cfg id mem), true)
  | .filter f => ({ w with F := w.F.setFilter f }, true)
  | .qresync => ({ w with F := { w.F with bgReq := true } }, true)
  | .restart => ({ w with F := {}, sleeps := 0 }, true)
  | .apply plan hr hd => ({ w with plan := plan, hintR := hr, hintD := hd, trace := [] } : W).applyUpdates
  | .applydel plan hd => ({ w with plan := plan, hintR := [], hintD := hd, trace := [] } : W).applyDeletions
  | .kset n k => ({ w with K := w.K.set n { k with members := k.members.eraseDups } }, true)
  | .kdel n => ({ w with K := w.K.erase n }, true)
  | .kdrop n k =>
    match w.K.get n with
    | some ks =>
      let ms := sortS ks.members.eraseDups
      if ms.isEmpty then (w, true)
      else ({ w with K := w.K.set n { ks with members := sErase ks.members (ms.getD (k % ms.length) "") } }, true)
    | none => (w, true)

end CalicoVerif.C16
