import CalicoVerif.Model.C11Asm
/-
C11 — model of felix/bpf/polprog/pol_prog_builder.go (`Builder.Instructions`
and everything it calls), producing the list of calls into `asm.Block` (`BEv`).
`maybeSplitProgram` call sites are reified as `BEv.maybeSplit` markers (with
the register reload that `writePortsMatch` performs when a split happened);
`C11Split.expand` interprets them.  Core Lean only.

Not modelled: comments/annotations (`policyDebugEnabled` changes no
instruction except that it also switches on rule-hit recording, which IS
modelled through `Cfg.record`).
-/
namespace CalicoVerif.C11

/-! ### Inputs (`polprog.Rules`, `proto.Rule`) -/

/-- `proto.Protocol`: a name or a number. -/
inductive Proto
  | name (s : String)
  | num (n : Int)
deriving DecidableEq, Repr, Inhabited

/-- A CIDR string of a `proto.Rule` (after `ip.MustParseCIDROrIP`, before
masking): family, address as a number, prefix length. -/
structure Net where
  v6 : Bool
  addr : Nat
  pfx : Nat
deriving DecidableEq, Repr, Inhabited

structure PortRange where
  first : Int
  last : Int
deriving DecidableEq, Repr, Inhabited

/-- `Rule.Icmp` / `Rule.NotIcmp` oneof. -/
inductive Icmp
  | none
  | type (t : Int)
  | typeCode (t c : Int)
deriving DecidableEq, Repr, Inhabited

structure Rule where
  action : String := "allow"
  matchID : Nat := 0
  ipVersion : Nat := 0           -- proto.IPVersion: 0 any, 4, 6
  protocol : Option Proto := none
  notProtocol : Option Proto := none
  srcNet : List Net := []
  notSrcNet : List Net := []
  dstNet : List Net := []
  notDstNet : List Net := []
  srcIpSetIds : List Nat := []   -- result of ipSetIDProvider.GetNoAlloc (0 = unknown set)
  notSrcIpSetIds : List Nat := []
  dstIpSetIds : List Nat := []
  notDstIpSetIds : List Nat := []
  dstIpPortSetIds : List Nat := []
  srcPorts : List PortRange := []
  srcNamedPortIpSetIds : List Nat := []
  notSrcPorts : List PortRange := []
  notSrcNamedPortIpSetIds : List Nat := []
  dstPorts : List PortRange := []
  dstNamedPortIpSetIds : List Nat := []
  notDstPorts : List PortRange := []
  notDstNamedPortIpSetIds : List Nat := []
  icmp : Icmp := .none
  notIcmp : Icmp := .none
deriving Repr, Inhabited

structure Policy where
  rules : List Rule
deriving Repr, Inhabited

/-- `TierEndAction`. -/
inductive EndAction | undef | deny | pass
deriving DecidableEq, Repr, Inhabited

structure Tier where
  endAction : EndAction
  endRuleID : Nat
  policies : List Policy
deriving Repr, Inhabited

structure Rules where
  forHostInterface : Bool := false
  suppressNormalHostPolicy : Bool := false
  tiers : List Tier := []
  profiles : List Policy := []
  noProfileMatchID : Nat := 0
  hostPreDnatTiers : List Tier := []
  hostForwardTiers : List Tier := []
  hostNormalTiers : List Tier := []
  hostProfiles : List Policy := []
  forXDP : Bool := false
deriving Repr, Inhabited

/-- The `Builder`'s own parameters (`NewBuilder` arguments and options). -/
structure Cfg where
  v6 : Bool := false                 -- WithIPv6
  record : Bool := false             -- flowLogsEnabled || policyDebugEnabled
  useJmps : Bool := false            -- WithAllowDenyJumps
  allowJmp : Int := 0
  denyJmp : Int := 0
  policyMapIndex : Int := 0          -- WithPolicyMapIndexAndStride
  policyMapStride : Int := 0
  maxJumps : Nat := 7992             -- defaultPerProgramJumpLimit
  trampolineStride : Nat := 32667    -- Block.trampolineStride after SetTrampolineStride
  ipSetMapFD : Int := 0
  stateMapFD : Int := 0
  staticJumpMapFD : Int := 0
  policyJumpMapFD : Int := 0
deriving Repr, Inhabited

/-! ### Registers, offsets (pol_prog_builder.go `var (...)` block) -/
def R0 : Nat := 0
def R1 : Nat := 1
def R2 : Nat := 2
def R3 : Nat := 3
def R6 : Nat := 6
def R9 : Nat := 9
def R10 : Nat := 10

def offStateKey : Int := -4
def offSrcIPSetKey : Int := -36
def offDstIPSetKey : Int := -68
def stateEventHdrSize : Int := 8
def stateOffIPSrc : Int := stateEventHdrSize + 0
def stateOffPreNATIPDst : Int := stateEventHdrSize + 32
def stateOffPostNATIPDst : Int := stateEventHdrSize + 48
def stateOffPolResult : Int := stateEventHdrSize + 84
def stateOffSrcPort : Int := stateEventHdrSize + 88
def stateOffICMPType : Int := stateEventHdrSize + 90
def stateOffPreNATDstPort : Int := stateEventHdrSize + 92
def stateOffPostNATDstPort : Int := stateEventHdrSize + 94
def stateOffIPProto : Int := stateEventHdrSize + 96
def stateOffRulesHit : Int := stateEventHdrSize + 100
def stateOffRuleIDs : Int := stateEventHdrSize + 104
def stateOffFlags : Int := stateEventHdrSize + 360
def skbCb0 : Int := 48
def skbCb1 : Int := 52
def ipsKeyPrefix : Int := 0
def ipsKeyID : Int := 4
def ipsKeyAddr : Int := 12
def ipsKeyPort : Int := 16
def ipsKeyProto : Int := 18
def ipsKeyPad : Int := 19
def flagHostBits : Int := 12      -- FlagDestIsHost|FlagSrcIsHost
def flagLogPacket : Int := 1024
def policyAllow : Int := 1
def policyDeny : Int := 2
def policyTailCallFailed : Int := 10
def maxRuleIDs : Int := 32
def helperMapLookupElem : Int := 1
def helperTailCall : Int := 12

/-- Go `int32(x)` of a non-negative number (two's complement truncation). -/
def toInt32 (n : Nat) : Int := (BitVec.ofNat 32 n).toInt

/-- Go `uint8(x)` of an int32. -/
def toUint8 (n : Int) : Int := n % 256

/-! ### Builder output events -/
inductive BEv
  | ev (e : Ev)
  /-- `p.maybeSplitProgram()`; `reload` is emitted only when a split happened. -/
  | maybeSplit (reload : List Ev)
deriving Repr, Inhabited

/-! ### Instruction helpers (the `Block` methods used by the builder) -/
def mk (op dst src : Nat) (off imm : Int) : Ev := .ins ⟨op, dst, src, off, imm⟩
def mkJ (op dst : Nat) (imm : Int) (l : Label) : Ev := .jmp ⟨op, dst, 0, 0, imm⟩ l

def mov64 (d s : Nat) : Ev := mk opMov64 d s 0 0
def movImm64 (d : Nat) (imm : Int) : Ev := mk opMovImm64 d 0 0 imm
def movImm32 (d : Nat) (imm : Int) : Ev := mk opMovImm32 d 0 0 imm
def addImm64 (d : Nat) (imm : Int) : Ev := mk opAddImm64 d 0 0 imm
def add64 (d s : Nat) : Ev := mk opAdd64 d s 0 0
def andImm64 (d : Nat) (imm : Int) : Ev := mk opAndImm64 d 0 0 imm
def and32 (d s : Nat) : Ev := mk opAnd32 d s 0 0
def orImm64 (d : Nat) (imm : Int) : Ev := mk opOrImm64 d 0 0 imm
def shiftLImm64 (d : Nat) (imm : Int) : Ev := mk opShiftLImm64 d 0 0 imm
/-- `Block.Load8(dst, ptrReg, fo)` etc. -/
def load8 (d p : Nat) (off : Int) : Ev := mk opLoadReg8 d p off 0
def load16 (d p : Nat) (off : Int) : Ev := mk opLoadReg16 d p off 0
def load32 (d p : Nat) (off : Int) : Ev := mk opLoadReg32 d p off 0
def load64 (d p : Nat) (off : Int) : Ev := mk opLoadReg64 d p off 0
/-- `Block.Store8(dst, ptrReg, fo)`: `*(u8*)(dst + off) = ptrReg` (sic: the Go
parameter called `ptrReg` is the VALUE register; encoded as src). -/
def store8 (d v : Nat) (off : Int) : Ev := mk opStoreReg8 d v off 0
def store32 (d v : Nat) (off : Int) : Ev := mk opStoreReg32 d v off 0
def store64 (d v : Nat) (off : Int) : Ev := mk opStoreReg64 d v off 0
def storeStack8 (v : Nat) (off : Int) : Ev := mk opStoreReg8 R10 v off 0
def storeStack16 (v : Nat) (off : Int) : Ev := mk opStoreReg16 R10 v off 0
def storeStack32 (v : Nat) (off : Int) : Ev := mk opStoreReg32 R10 v off 0
def storeStack64 (v : Nat) (off : Int) : Ev := mk opStoreReg64 R10 v off 0
/-- `LoadMapFD`: two instructions. -/
def loadMapFD (d : Nat) (fd : Int) : List Ev := [mk opLoadImm64 d 1 0 fd, mk opLoadImm64Pt2 0 0 0 0]
/-- `LoadImm64(dst, imm)` with `imm` given as an unsigned 64-bit number. -/
def loadImm64 (d : Nat) (v : Nat) : List Ev :=
  [mk opLoadImm64 d 0 0 (toInt32 v), mk opLoadImm64Pt2 0 0 0 (toInt32 (v / 4294967296))]
def call (h : Int) : Ev := mk opCall 0 0 0 h
def exitI : Ev := mk opExit 0 0 0 0
def jump (l : Label) : Ev := mkJ opJumpA 0 0 l
def jumpEqImm64 (r : Nat) (imm : Int) (l : Label) : Ev := mkJ opJumpEqImm64 r imm l
def jumpNEImm64 (r : Nat) (imm : Int) (l : Label) : Ev := mkJ opJumpNEImm64 r imm l
def jumpGEImm64 (r : Nat) (imm : Int) (l : Label) : Ev := mkJ opJumpGEImm64 r imm l
def jumpLTImm64 (r : Nat) (imm : Int) (l : Label) : Ev := mkJ opJumpLTImm64 r imm l
def jumpLEImm64 (r : Nat) (imm : Int) (l : Label) : Ev := mkJ opJumpLEImm64 r imm l
def jumpEqImm32 (r : Nat) (imm : Int) (l : Label) : Ev := mkJ opJumpEqImm32 r imm l
def jumpNEImm32 (r : Nat) (imm : Int) (l : Label) : Ev := mkJ opJumpNEImm32 r imm l

/-! ### Header / footer -/

/-- `writeProgramHeader`. -/
def headerEvs (c : Cfg) : List Ev :=
  [.label .start, mov64 R6 R1, movImm64 R1 0, storeStack32 R1 offStateKey, mov64 R2 R10,
   addImm64 R2 offStateKey] ++ loadMapFD R1 c.stateMapFD ++
  [call helperMapLookupElem, jumpEqImm64 R0 0 .exit, mov64 R9 R0, .label .policy]

/-- `writeExitTarget`. -/
def exitTargetEvs (xdp : Bool) : List Ev :=
  [.label .exit, movImm64 R0 (if xdp then 1 else 2), exitI]

/-- `writeProgramFooter`.  The `if p.b.TargetIsUsed("allow")` guard is not
reified: when "allow" is not an in-use target the block that follows is
dropped instruction by instruction by `Block` anyway (it follows an `Exit` and
carries only the unused label) — the correspondence run checks the outputs
agree. -/
def footerEvs (c : Cfg) (xdp : Bool) : List Ev :=
  [.label .deny, movImm32 R1 policyDeny, store32 R9 R1 stateOffPolResult, mov64 R1 R6] ++
  loadMapFD R2 c.staticJumpMapFD ++
  [if c.useJmps then movImm32 R3 c.denyJmp else load32 R3 R6 skbCb1, call helperTailCall] ++
  exitTargetEvs xdp ++
  (if xdp then [.label .xdpPass, movImm64 R0 2, exitI] else []) ++
  [.label .allow, movImm32 R1 policyAllow, store32 R9 R1 stateOffPolResult, mov64 R1 R6] ++
  loadMapFD R2 c.staticJumpMapFD ++
  [if c.useJmps then movImm32 R3 c.allowJmp else load32 R3 R6 skbCb0, call helperTailCall,
   movImm32 R1 policyTailCallFailed, store32 R9 R1 stateOffPolResult,
   movImm64 R0 (if xdp then 1 else 2), exitI]

/-- `writeJumpIfToOrFromHost`. -/
def jumpIfToOrFromHost (l : Label) : List Ev :=
  [load64 R1 R9 stateOffFlags, andImm64 R1 flagHostBits, jumpNEImm64 R1 0 l]

/-! ### Rule filtering (`rules.FilterRuleToIPVersion`) -/

/-- `filterNets`: (filtered, filteredAll). -/
def filterNets (nets : List Net) (v6 : Bool) (negated : Bool) : List Net × Bool :=
  if nets.isEmpty then ([], false)
  else
    let go := nets.foldl (fun (acc : List Net × Bool × Bool) n =>
      -- acc = (filtered, filteredAll, aborted)
      if acc.2.2 then acc
      else if n.v6 != v6 then acc
      else if negated && n.addr == 0 && n.pfx == 0 then ([], true, true)
      else (acc.1 ++ [n], false, false)) ([], true, false)
    (go.1, go.2.1)

/-- `FilterRuleToIPVersion`; `none` = rule skipped for this IP version. -/
def filterRule (v6 : Bool) (r : Rule) : Option Rule :=
  if r.ipVersion != 0 && r.ipVersion != (if v6 then 6 else 4) then none
  else
    let (s, a) := filterNets r.srcNet v6 false
    if a then none else
    let (ns, a) := filterNets r.notSrcNet v6 true
    if a then none else
    let (d, a) := filterNets r.dstNet v6 false
    if a then none else
    let (nd, a) := filterNets r.notDstNet v6 true
    if a then none else
    some { r with srcNet := s, notSrcNet := ns, dstNet := d, notDstNet := nd }

/-! ### Match fragments -/

inductive Leg | source | dest | destPreNAT
deriving DecidableEq, Repr, Inhabited

def Leg.ipOff : Leg → Int
  | .source => stateOffIPSrc
  | .destPreNAT => stateOffPreNATIPDst
  | .dest => stateOffPostNATIPDst

def Leg.portOff : Leg → Int
  | .source => stateOffSrcPort
  | .destPreNAT => stateOffPreNATDstPort
  | .dest => stateOffPostNATDstPort

def Leg.keyOff : Leg → Int
  | .source => offSrcIPSetKey
  | _ => offDstIPSetKey

def asciiLower (s : String) : String :=
  String.ofList (s.toList.map (fun c => if 'A' ≤ c ∧ c ≤ 'Z' then Char.ofNat (c.toNat + 32) else c))

/-- `protocolToNumber`. -/
def protocolToNumber : Proto → Int
  | .name s =>
    let l := asciiLower s
    if l == "tcp" then 6 else if l == "udp" then 17 else if l == "icmp" then 1
    else if l == "sctp" then 132 else if l == "icmpv6" then 58 else if l == "udplite" then 136 else 0
  | .num n => toUint8 n

/-- `writeProtoMatch`. -/
def protoMatch (rid : Nat) (negate : Bool) (p : Proto) : List Ev :=
  [load8 R1 R9 stateOffIPProto,
   if negate then jumpEqImm64 R1 (protocolToNumber p) (.ruleNoMatch rid)
   else jumpNEImm64 R1 (protocolToNumber p) (.ruleNoMatch rid)]

/-- `writeICMPTypeMatch`. -/
def icmpTypeMatch (rid : Nat) (negate : Bool) (t : Int) : List Ev :=
  [load8 R1 R9 stateOffICMPType,
   if negate then jumpEqImm64 R1 t (.ruleNoMatch rid) else jumpNEImm64 R1 t (.ruleNoMatch rid)]

/-- `writeICMPTypeCodeMatch`. -/
def icmpTypeCodeMatch (rid : Nat) (negate : Bool) (t c : Int) : List Ev :=
  [load16 R1 R9 stateOffICMPType,
   if negate then jumpEqImm64 R1 (c * 256 + t) (.ruleNoMatch rid)
   else jumpNEImm64 R1 (c * 256 + t) (.ruleNoMatch rid)]

def icmpMatch (rid : Nat) (negate : Bool) : Icmp → List Ev
  | .none => []
  | .type t => icmpTypeMatch rid negate (toUint8 t)
  | .typeCode t c => icmpTypeCodeMatch rid negate (toUint8 t) (toUint8 c)

/-- `bits.ReverseBytes32`. -/
def rev32bv (x : BitVec 32) : BitVec 32 :=
  x.extractLsb' 0 8 ++ x.extractLsb' 8 8 ++ x.extractLsb' 16 8 ++ x.extractLsb' 24 8

def rev32 (n : Nat) : Nat := (rev32bv (BitVec.ofNat 32 n)).toNat

/-- The 32-bit network mask of a prefix length (`MaxUint32 << (32 - p)` in uint32). -/
def mask32bv (p : Nat) : BitVec 32 := BitVec.allOnes 32 <<< (32 - p)

def mask32 (p : Nat) : Nat := (mask32bv p).toNat

/-- Mask of 32-bit word `w` (0 = most significant) of a 128-bit prefix mask. -/
def mask128Word (p w : Nat) : Nat :=
  if p ≥ 32 * (w + 1) then 4294967295 else if p ≤ 32 * w then 0 else mask32 (p - 32 * w)

/-- Word `w` (0 = most significant) of a 128-bit number. -/
def word128 (a w : Nat) : Nat := a / 2 ^ (32 * (3 - w)) % 4294967296

/-- Per-CIDR instructions of `writeCIDRSMatch`, IPv4 branch. The address is
masked first (`ip.CIDRFromIPNet` canonicalises). -/
def cidrV4 (leg : Leg) (onMatch : Label) (n : Net) : List Ev :=
  let m := mask32bv n.pfx
  let a := BitVec.ofNat 32 n.addr &&& m
  [load32 R1 R9 leg.ipOff, movImm32 R2 (rev32bv m).toInt, and32 R2 R1,
   jumpEqImm32 R2 (rev32bv a).toInt onMatch]

/-- The section loop of `writeCIDRSMatch`, IPv6 branch: sections `s..3`. -/
def cidrV6Sections (leg : Leg) (rid idx : Nat) (a p : Nat) : Nat → Nat → List Ev × Nat
  | 0, last => ([], last)
  | fuel + 1, last =>
    let s := 4 - (fuel + 1)
    let m := mask128Word p s
    if s > 0 && m == 0 then ([], last)
    else
      let addr := rev32 (Nat.land (word128 a s) m)
      let here := [load32 R1 R9 (leg.ipOff + 4 * s), movImm32 R2 (toInt32 (rev32 m)), and32 R2 R1] ++
        (if s != 3 then [jumpNEImm32 R2 (toInt32 addr) (.cidrEnd rid idx)] else [])
      let (rest, last') := cidrV6Sections leg rid idx a p fuel addr
      (here ++ rest, last')

def cidrV6 (leg : Leg) (rid idx : Nat) (onMatch : Label) (n : Net) : List Ev :=
  let a0 := rev32 (Nat.land (word128 n.addr 0) (mask128Word n.pfx 0))
  let (evs, last) := cidrV6Sections leg rid idx n.addr n.pfx 4 a0
  evs ++ [jumpEqImm32 R2 (toInt32 last) onMatch, .label (.cidrEnd rid idx)]

def cidrLoop (v6 : Bool) (leg : Leg) (rid : Nat) (onMatch : Label) : List Net → Nat → List BEv
  | [], _ => []
  | n :: ns, idx =>
    .maybeSplit [] ::
      ((if v6 then cidrV6 leg rid idx onMatch n else cidrV4 leg onMatch n).map .ev ++
        cidrLoop v6 leg rid onMatch ns (idx + 1))

/-- `writeCIDRSMatch`; returns the events and the new `rulePartID`. -/
def cidrsMatch (v6 : Bool) (rid part : Nat) (negate : Bool) (leg : Leg) (nets : List Net) :
    List BEv × Nat :=
  if negate then (cidrLoop v6 leg rid (.ruleNoMatch rid) nets 0, part)
  else
    (cidrLoop v6 leg rid (.rulePart rid part) nets 0 ++
      [.ev (jump (.ruleNoMatch rid)), .ev (.label (.rulePart rid part))], part + 1)

/-- Go `bits.ReverseBytes64`. -/
def rev64bv (x : BitVec 64) : BitVec 64 :=
  rev32bv (x.extractLsb' 0 32) ++ rev32bv (x.extractLsb' 32 32)

def rev64 (n : Nat) : Nat := (rev64bv (BitVec.ofNat 64 n)).toNat

/-- `setUpIPSetKey` followed by the map lookup call (common to all IP-set matches). -/
def ipSetLookup (c : Cfg) (id : Nat) (leg : Leg) : List Ev :=
  let key := leg.keyOff
  let adj : Int := if c.v6 then 12 else 0
  let be := rev64 id
  [movImm64 R1 0, storeStack8 R1 (key + ipsKeyPad + adj),
   movImm64 R1 (if c.v6 then 224 else 128), storeStack32 R1 (key + ipsKeyPrefix)] ++
  (if !c.v6 then [load32 R1 R9 leg.ipOff, storeStack32 R1 (key + ipsKeyAddr)]
   else [load64 R1 R9 leg.ipOff, storeStack64 R1 (key + ipsKeyAddr),
         load64 R1 R9 (leg.ipOff + 8), storeStack64 R1 (key + ipsKeyAddr + 8)]) ++
  [load16 R1 R9 leg.portOff, storeStack16 R1 (key + ipsKeyPort + adj),
   load8 R1 R9 stateOffIPProto, storeStack8 R1 (key + ipsKeyProto + adj),
   movImm32 R1 (toInt32 be), storeStack32 R1 (key + ipsKeyID),
   movImm32 R1 (toInt32 (be / 4294967296)), storeStack32 R1 (key + ipsKeyID + 4)] ++
  loadMapFD R1 c.ipSetMapFD ++
  [mov64 R2 R10, addImm64 R2 key, call helperMapLookupElem]

/-- `writeIPSetMatch`: every set is an independent criterion. -/
def ipSetMatch (c : Cfg) (rid : Nat) (negate : Bool) (leg : Leg) (ids : List Nat) : List Ev :=
  ids.flatMap (fun id => ipSetLookup c id leg ++
    [if negate then jumpNEImm64 R0 0 (.ruleNoMatch rid) else jumpEqImm64 R0 0 (.ruleNoMatch rid)])

/-- `writeIPSetOrMatch`. -/
def ipSetOrMatch (c : Cfg) (rid part : Nat) (leg : Leg) (ids : List Nat) : List Ev × Nat :=
  (ids.flatMap (fun id => ipSetLookup c id leg ++ [jumpNEImm64 R0 0 (.rulePart rid part)]) ++
    [jump (.ruleNoMatch rid), .label (.rulePart rid part)], part + 1)

/-- The numeric-port loop of `writePortsMatch`. -/
def portLoop (rid : Nat) (leg : Leg) (onMatch : Label) : List PortRange → Nat → List BEv × Nat
  | [], part => ([], part)
  | pr :: rest, part =>
    let (here, part') : List Ev × Nat :=
      if pr.first = pr.last then ([jumpEqImm64 R1 pr.first onMatch], part)
      else if pr.first > 0 then
        ([jumpLTImm64 R1 pr.first (.rulePart rid part), jumpLEImm64 R1 pr.last onMatch,
          .label (.rulePart rid part)], part + 1)
      else ([jumpLEImm64 R1 pr.last onMatch], part)
    let (more, part'') := portLoop rid leg onMatch rest part'
    (here.map .ev ++ [.maybeSplit [load16 R1 R9 leg.portOff]] ++ more, part'')

/-- `writePortsMatch`. -/
def portsMatch (c : Cfg) (rid part : Nat) (negate : Bool) (leg : Leg)
    (ports : List PortRange) (named : List Nat) : List BEv × Nat :=
  let onMatch := if negate then Label.ruleNoMatch rid else Label.rulePart rid part
  let part1 := if negate then part else part + 1
  let (nums, part2) := portLoop rid leg onMatch ports part1
  let namedEvs : List BEv := named.flatMap (fun id =>
    .maybeSplit [] :: (ipSetLookup c id leg ++ [jumpNEImm64 R0 0 onMatch]).map .ev)
  let tail : List BEv :=
    if negate then [] else [.ev (jump (.ruleNoMatch rid)), .ev (.label onMatch)]
  (.ev (load16 R1 R9 leg.portOff) :: nums ++ namedEvs ++ tail, part2)

/-- `writeRecordRuleID`. -/
def recordRuleID (id : Nat) (skip : Label) : List Ev :=
  [load8 R1 R9 stateOffRulesHit, jumpGEImm64 R1 maxRuleIDs skip, mov64 R2 R1, addImm64 R2 1,
   store8 R9 R2 stateOffRulesHit, shiftLImm64 R1 3, addImm64 R1 stateOffRuleIDs] ++
  loadImm64 R2 id ++ [add64 R1 R9, store64 R1 R2 0]

/-- `writeEndOfRule`. -/
def endOfRule (c : Cfg) (rid : Nat) (matchID : Nat) (actionLabel : Label) : List Ev :=
  (if actionLabel = .log then
    [load64 R1 R9 stateOffFlags, orImm64 R1 flagLogPacket, store64 R9 R1 stateOffFlags]
   else (if c.record then recordRuleID matchID actionLabel else []) ++ [jump actionLabel]) ++
  [.label (.ruleNoMatch rid)]

def optList {α β : Type} (o : Option α) (f : α → List β) : List β :=
  match o with
  | none => []
  | some a => f a

/-- The match part of `writeRule` for an already filtered rule. -/
def ruleMatches (c : Cfg) (rid : Nat) (r : Rule) (destLeg : Leg) : List BEv :=
  let e1 := (optList r.protocol (protoMatch rid false) ++ optList r.notProtocol (protoMatch rid true)).map BEv.ev
  let (e2, p) := if r.srcNet.isEmpty then ([], 0) else cidrsMatch c.v6 rid 0 false .source r.srcNet
  let (e3, p) := if r.notSrcNet.isEmpty then ([], p) else cidrsMatch c.v6 rid p true .source r.notSrcNet
  let (e4, p) := if r.dstNet.isEmpty then ([], p) else cidrsMatch c.v6 rid p false destLeg r.dstNet
  let (e5, p) := if r.notDstNet.isEmpty then ([], p) else cidrsMatch c.v6 rid p true destLeg r.notDstNet
  let e6 := (ipSetMatch c rid false .source r.srcIpSetIds ++ ipSetMatch c rid true .source r.notSrcIpSetIds).map BEv.ev
  let (e7, p) := if r.dstIpSetIds.isEmpty then ([], p) else ipSetOrMatch c rid p destLeg r.dstIpSetIds
  let e8 := (ipSetMatch c rid true destLeg r.notDstIpSetIds ++ ipSetMatch c rid false destLeg r.dstIpPortSetIds).map BEv.ev
  let (e9, p) := if r.srcPorts.isEmpty && r.srcNamedPortIpSetIds.isEmpty then ([], p)
    else portsMatch c rid p false .source r.srcPorts r.srcNamedPortIpSetIds
  let (e10, p) := if r.notSrcPorts.isEmpty && r.notSrcNamedPortIpSetIds.isEmpty then ([], p)
    else portsMatch c rid p true .source r.notSrcPorts r.notSrcNamedPortIpSetIds
  let (e11, p) := if r.dstPorts.isEmpty && r.dstNamedPortIpSetIds.isEmpty then ([], p)
    else portsMatch c rid p false destLeg r.dstPorts r.dstNamedPortIpSetIds
  let (e12, _) := if r.notDstPorts.isEmpty && r.notDstNamedPortIpSetIds.isEmpty then ([], p)
    else portsMatch c rid p true destLeg r.notDstPorts r.notDstNamedPortIpSetIds
  let e13 := (icmpMatch rid false r.icmp ++ icmpMatch rid true r.notIcmp).map BEv.ev
  e1 ++ e2 ++ e3 ++ e4 ++ e5 ++ e6 ++ e7.map .ev ++ e8 ++ e9 ++ e10 ++ e11 ++ e12 ++ e13

/-- `writeRule`; returns events and the new `ruleID`. -/
def writeRule (c : Cfg) (rid : Nat) (r : Rule) (actionLabel : Label) (destLeg : Leg) : List BEv × Nat :=
  match filterRule c.v6 r with
  | none => ([.maybeSplit []], rid)
  | some fr =>
    (.maybeSplit [] :: (ruleMatches c rid fr destLeg ++ (endOfRule c rid r.matchID actionLabel).map .ev),
     rid + 1)

/-- Action-label maps of `writeTiers` (`tierID` fixed) and `writeProfile`
(`none` = the Go map has no entry: empty label, builder panics). -/
def tierActionLabel (allowLabel : Label) (tierID : Nat) (action : String) : Label :=
  let a := asciiLower action
  if a == "allow" then allowLabel else if a == "deny" then .deny else if a == "log" then .log
  else if a == "pass" || a == "next-tier" then .endOfTier tierID else .none

def profileActionLabel (allowLabel : Label) (action : String) : Label :=
  let a := asciiLower action
  if a == "allow" then allowLabel else if a == "deny" || a == "pass" || a == "next-tier" then .deny
  else if a == "log" then .log else .none

/-- `writePolicyRules`. -/
def writePolicyRules (c : Cfg) (lab : String → Label) (destLeg : Leg) :
    List Rule → Nat → List BEv × Nat
  | [], rid => ([], rid)
  | r :: rs, rid =>
    let (e, rid') := writeRule c rid r (lab r.action) destLeg
    let (es, rid'') := writePolicyRules c lab destLeg rs rid'
    (e ++ es, rid'')

def writePolicies (c : Cfg) (lab : String → Label) (destLeg : Leg) :
    List Policy → Nat → List BEv × Nat
  | [], rid => ([], rid)
  | p :: ps, rid =>
    let (e, rid') := writePolicyRules c lab destLeg p.rules rid
    let (es, rid'') := writePolicies c lab destLeg ps rid'
    (e ++ es, rid'')

/-- `writeTiers`; state = (ruleID, tierID). -/
def writeTiers (c : Cfg) (destLeg : Leg) (allowLabel : Label) :
    List Tier → Nat → Nat → List BEv × Nat × Nat
  | [], rid, tid => ([], rid, tid)
  | t :: ts, rid, tid =>
    let lab := tierActionLabel allowLabel tid
    let (e, rid1) := writePolicies c lab destLeg t.policies rid
    let endLab := match t.endAction with
      | .pass => Label.endOfTier tid
      | _ => Label.deny
    let (e2, rid2) := writeRule c rid1 { action := "", matchID := t.endRuleID } endLab destLeg
    let (es, rid3, tid') := writeTiers c destLeg allowLabel ts rid2 (tid + 1)
    (e ++ e2 ++ [.ev (.label (.endOfTier tid))] ++ es, rid3, tid')

/-- `writeProfiles`. -/
def writeProfiles (c : Cfg) (allowLabel : Label) (profiles : List Policy) (noMatchID : Nat)
    (rid : Nat) : List BEv × Nat :=
  let (e, rid1) := writePolicies c (profileActionLabel allowLabel) .dest profiles rid
  let (e2, rid2) := writeRule c rid1 { action := "", matchID := noMatchID } .deny .dest
  (e ++ e2, rid2)

/-- The host-policy part of `Builder.Instructions` (everything between the
header and the `allowed_by_host_policy` label, inclusive); returns the events
and the (ruleID, tierID) counters. -/
def hostPart (c : Cfg) (r : Rules) : List BEv × Nat × Nat :=
  if r.forXDP then
    -- `goto normalPolicy`
    if !r.suppressNormalHostPolicy then
      let (e, rid, tid) := writeTiers c .destPreNAT .allowedByHostPolicy r.hostNormalTiers 0 0
      ([.ev (.label .toOrFromHost)] ++ e ++ [.ev (jump .xdpPass), .ev (.label .allowedByHostPolicy)], rid, tid)
    else ([.ev (.label .allowedByHostPolicy)], 0, 0)
  else
    let (e1, rid1, tid1) := writeTiers c .destPreNAT .allowedByHostPolicy r.hostPreDnatTiers 0 0
    let e2 := (jumpIfToOrFromHost
      (if r.suppressNormalHostPolicy then .allowedByHostPolicy else .toOrFromHost)).map BEv.ev
    let (e3, rid3, tid3) := writeTiers c .dest .allowedByHostPolicy r.hostForwardTiers rid1 tid1
    let e4 := [BEv.ev (jump .allowedByHostPolicy)]
    if !r.suppressNormalHostPolicy then
      let (e5, rid5, tid5) := writeTiers c .dest .allowedByHostPolicy r.hostNormalTiers rid3 tid3
      let (e6, rid6) := writeProfiles c .allowedByHostPolicy r.hostProfiles r.noProfileMatchID rid5
      (e1 ++ e2 ++ e3 ++ e4 ++ [.ev (.label .toOrFromHost)] ++ e5 ++ e6 ++
        [.ev (.label .allowedByHostPolicy)], rid6, tid5)
    else (e1 ++ e2 ++ e3 ++ e4 ++ [.ev (.label .allowedByHostPolicy)], rid3, tid3)

/-- The workload-policy part. -/
def workloadPart (c : Cfg) (r : Rules) (rid tid : Nat) : List BEv :=
  if r.forHostInterface then [.ev (jump .allow)]
  else
    let (e, rid', _) := writeTiers c .dest .allow r.tiers rid tid
    let (p, _) := writeProfiles c .allow r.profiles r.noProfileMatchID rid'
    e ++ p

/-- `Builder.Instructions` up to (not including) splitting and assembly. -/
def compile (c : Cfg) (r : Rules) : List BEv :=
  let (h, rid, tid) := hostPart c r
  (headerEvs c).map BEv.ev ++ h ++ workloadPart c r rid tid ++ (footerEvs c r.forXDP).map .ev

/-! ### Panics of the builder (`log.Panic`) -/

def Rule.ipSetIDs (r : Rule) : List Nat :=
  r.srcIpSetIds ++ r.notSrcIpSetIds ++ r.dstIpSetIds ++ r.notDstIpSetIds ++ r.dstIpPortSetIds ++
  r.srcNamedPortIpSetIds ++ r.notSrcNamedPortIpSetIds ++ r.dstNamedPortIpSetIds ++
  r.notDstNamedPortIpSetIds

/-- `writeRule` does not panic on this rule with this action label. -/
def ruleOK (c : Cfg) (lab : Label) (r : Rule) : Bool :=
  lab != .none &&
  (match filterRule c.v6 r with
   | none => true
   | some fr => fr.dstIpSetIds.length ≤ 1 && fr.ipSetIDs.all (· != 0))

def tiersOK (c : Cfg) (allowLabel : Label) : List Tier → Nat → Bool
  | [], _ => true
  | t :: ts, tid =>
    t.policies.all (fun p => p.rules.all (fun r => ruleOK c (tierActionLabel allowLabel tid r.action) r)) &&
    tiersOK c allowLabel ts (tid + 1)

def profilesOK (c : Cfg) (ps : List Policy) : Bool :=
  ps.all (fun p => p.rules.all (fun r => ruleOK c (profileActionLabel .allow r.action) r))

/-- `Builder.Instructions` does not panic. (Label identity does not matter for
`ruleOK`, only whether it is empty, so `allow`/tier numbers are arbitrary.) -/
def noPanic (c : Cfg) (r : Rules) : Bool :=
  if r.forXDP then
    (r.suppressNormalHostPolicy || tiersOK c .allow r.hostNormalTiers 0) &&
    (r.forHostInterface || (tiersOK c .allow r.tiers 0 && profilesOK c r.profiles))
  else
    tiersOK c .allow r.hostPreDnatTiers 0 && tiersOK c .allow r.hostForwardTiers 0 &&
    (r.suppressNormalHostPolicy || (tiersOK c .allow r.hostNormalTiers 0 && profilesOK c r.hostProfiles)) &&
    (r.forHostInterface || (tiersOK c .allow r.tiers 0 && profilesOK c r.profiles))

end CalicoVerif.C11
