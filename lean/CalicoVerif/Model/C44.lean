import CalicoVerif.Model.C18
/-
C44 — model of resolveWorkloadEndpoints in felix/dataplane/linux/endpoint_mgr.go
(the pending / active / shadowed maps, the shadowing decision by wlIdsAscending,
the interface-rename path, removal and promotion of a shadowed endpoint) together
with what it programs per interface name: the per-endpoint filter chains
(`filterTable.UpdateChains/RemoveChains`) and the routes (`routeTable.SetRoutes`).

Endpoint ids are `Nat`s ordered by `<` (the harness maps them to real ids whose
wlIdsAscending order is the numeric order); interface names are `Nat`s; an endpoint
is (iface name, admin up, data) where `data` stands for everything else that is
rendered (profile ids, addresses).  One `resolve` processes ONE pending update (the
harness completes deferred work after every update, which makes the Go map
iteration order over pendingWlEpUpdates irrelevant) plus the updates that the
processing itself queues (promotion of a shadowed endpoint).
Go maps are the association lists of `CalicoVerif.C18`.  Core Lean only.
-/
namespace CalicoVerif.C44
open CalicoVerif.C18 (GoMap get set del)

structure Ep where
  name : Nat
  up : Bool      -- State == "active"
  data : Nat
deriving DecidableEq, Repr

/-- What the filter table holds for an interface: the chains rendered for endpoint `id`'s
version `data`, admin up or down. -/
structure Chains where
  id : Nat
  up : Bool
  data : Nat
deriving DecidableEq, Repr

structure Mgr where
  active : GoMap Nat Ep        -- activeWlEndpoints
  ifaceToID : GoMap Nat Nat    -- activeWlIfaceNameToID
  shadowed : GoMap Nat Ep      -- shadowedWlEndpoints
  chainsOf : GoMap Nat Nat     -- activeWlIDToChains: id ↦ iface name its chains were rendered for
  chains : GoMap Nat Chains    -- mock filter table: iface name ↦ chains
  routes : GoMap Nat (Nat × Nat) -- mock route table: iface name ↦ (id, data) whose routes are set (absent = no routes)

def Mgr.new : Mgr := { active := [], ifaceToID := [], shadowed := [], chainsOf := [], chains := [], routes := [] }

/-- `filterTable.RemoveChains(m.activeWlIDToChains[id])`. -/
def Mgr.removeChainsOf (m : Mgr) (id : Nat) : Mgr :=
  match get m.chainsOf id with
  | some n => { m with chains := del m.chains n }
  | none => m

/-- The `removeActiveWorkload` closure. -/
def Mgr.removeActiveWorkload (m : Mgr) (old : Option Ep) (id : Nat) : Mgr :=
  let m := m.removeChainsOf id
  let m := { m with chainsOf := del m.chainsOf id }
  let m := match old with
    | some o => { m with routes := del m.routes o.name, ifaceToID := del m.ifaceToID o.name }
    | none => m
  { m with active := del m.active id }

/-- `pendingWlEpUpdates`: one entry per id, `none` = removal. -/
abbrev Pending := GoMap Nat (Option Ep)

/-- `wlIdsAscending(&sId, &best)` scan over the shadowed map for the best endpoint waiting on `name`. -/
def bestShadowed (sh : GoMap Nat Ep) (name : Nat) : Option Nat :=
  sh.foldl (fun best p =>
    if p.2.name = name then
      match best with
      | none => some p.1
      | some b => if p.1 < b then some p.1 else some b
    else best) none

/-- "Updating per-endpoint chains" … `delete(m.pendingWlEpUpdates, id)`. -/
def Mgr.activate (m : Mgr) (id : Nat) (old : Option Ep) (w : Ep) : Mgr :=
  let m := match old with
    | some o =>
      if o.name ≠ w.name then
        -- interface name changed, cleaning up old state
        let m := m.removeChainsOf id
        { m with routes := del m.routes o.name, ifaceToID := del m.ifaceToID o.name }
      else m
    | none => m
  { m with
    chains := set m.chains w.name ⟨id, w.up, w.data⟩,
    chainsOf := set m.chainsOf id w.name,
    routes := if w.up then set m.routes w.name (id, w.data) else del m.routes w.name,
    active := set m.active id w,
    ifaceToID := set m.ifaceToID w.name id,
    -- "The endpoint is active now; drop any copy left from when it was shadowed"
    shadowed := del m.shadowed id }

/-- Body of the loop for one pending entry; `pend` = the OTHER entries still pending (the Go code has
already done `delete(m.pendingWlEpUpdates, id)` when it scans for a shadowed endpoint to promote, and
skips shadowed endpoints that have their own update or removal pending).  Returns the new state and the
update it queued (if any). -/
def Mgr.process (m : Mgr) (pend : Pending) (id : Nat) (w : Option Ep) : Mgr × Option (Nat × Ep) :=
  let old := get m.active id
  match w with
  | some w =>
    match (match get m.ifaceToID w.name with
      | some e => if e ≠ id then some e else none
      | none => none) with
    | some existing =>
      if existing < id then
        -- existing endpoint takes preference
        ({ m with shadowed := set m.shadowed id w }, none)
      else
        -- new endpoint takes preference; remove existing
        let m := { m with shadowed := match get m.active existing with
          | some e => set m.shadowed existing e
          | none => m.shadowed }
        let m := m.removeActiveWorkload (get m.active existing) existing
        (m.activate id old w, none)
    | none => (m.activate id old w, none)
  | none =>
    let m := m.removeActiveWorkload old id
    let m := { m with shadowed := del m.shadowed id }
    match old with
    | some o =>
      match bestShadowed (m.shadowed.filter (fun p => (get pend p.1).isNone)) o.name with
      | some b =>
        match get m.shadowed b with
        | some e => ({ m with shadowed := del m.shadowed b }, some (b, e))
        | none => (m, none)
      | none => (m, none)
    | none => (m, none)

/-- `resolveWorkloadEndpoints` for one pending update (a promotion queues one more; a promoted
update is never a removal, so it queues nothing further). -/
def Mgr.resolve (m : Mgr) (id : Nat) (w : Option Ep) : Mgr :=
  match m.process [] id w with
  | (m', some (b, e)) => (m'.process [] b (some e)).1
  | (m', none) => m'

/-- Every state `resolveWorkloadEndpoints` can end in when SEVERAL updates are pending, whatever order the
Go map range yields them: at each step any pending entry may be the next one; a promotion queues
`pendingWlEpUpdates[best] = shadowed[best]` (`best` never has a pending entry of its own: the scan skips those). -/
def Mgr.resolveAll : Nat → Mgr → Pending → List Mgr
  | 0, m, _ => [m]
  | _ + 1, m, [] => [m]
  | fuel + 1, m, p :: ps =>
    (p :: ps).flatMap (fun q =>
      let pend := del (p :: ps) q.1
      let r := m.process pend q.1 q.2
      let pend := match r.2 with
        | some (b, e) => set pend b (some e)
        | none => pend
      Mgr.resolveAll fuel r.1 pend)

/-- `OnUpdate` for a batch of messages: later messages for the same id overwrite earlier ones. -/
def mkPending (us : List (Nat × Option Ep)) : Pending :=
  us.foldl (fun p u => set p u.1 u.2) []

/-- All outcomes of one `CompleteDeferredWork` after the batch `us`. -/
def Mgr.batch (m : Mgr) (us : List (Nat × Option Ep)) : List Mgr :=
  let p := mkPending us
  m.resolveAll (2 * p.length + 2) p

inductive Op
  | update (id : Nat) (w : Ep)
  | remove (id : Nat)
deriving Repr

def Mgr.step (m : Mgr) : Op → Mgr
  | .update id w => m.resolve id (some w)
  | .remove id => m.resolve id none

def run (ops : List Op) : Mgr := ops.foldl Mgr.step Mgr.new

/-! ### Specification -/

def liveStep (l : GoMap Nat Ep) : Op → GoMap Nat Ep
  | .update id w => set l id w
  | .remove id => del l id

/-- The live endpoints after a history: last update not followed by a removal. -/
def live (ops : List Op) : GoMap Nat Ep := ops.foldl liveStep []

/-- No live endpoint ever changes its interface name (starting from live endpoints `l`). -/
def NoRenameFrom : GoMap Nat Ep → List Op → Prop
  | _, [] => True
  | l, .update id w :: r => (∀ e, get l id = some e → e.name = w.name) ∧ NoRenameFrom (set l id w) r
  | l, .remove id :: r => NoRenameFrom (del l id) r

def NoRename (ops : List Op) : Prop := NoRenameFrom [] ops

/-! ### Histories of batches (several updates, one CompleteDeferredWork) -/

abbrev Batch := List (Nat × Option Ep)

def applyEntry (l : GoMap Nat Ep) (p : Nat × Option Ep) : GoMap Nat Ep :=
  match p.2 with
  | some w => set l p.1 w
  | none => del l p.1

/-- The live endpoints after a batch: the last message of every id is applied. -/
def liveB (l : GoMap Nat Ep) (us : Batch) : GoMap Nat Ep := (mkPending us).foldl applyEntry l

def liveBs (bs : List Batch) : GoMap Nat Ep := bs.foldl liveB []

/-- `m'` can be reached from `m` by the batches `bs` (each batch processed in ANY order). -/
def ReachFrom : Mgr → List Batch → Mgr → Prop
  | m, [], m' => m' = m
  | m, us :: r, m' => ∃ m1, m1 ∈ m.batch us ∧ ReachFrom m1 r m'

/-- No batch renames an endpoint that is live when the batch starts (the manager only sees the last
message of every id, so "delete + re-create under another interface name" inside one batch counts). -/
def NoRenameBsFrom : GoMap Nat Ep → List Batch → Prop
  | _, [] => True
  | l, us :: r =>
    (∀ id w, get (mkPending us) id = some (some w) → ∀ e, get l id = some e → e.name = w.name) ∧
    NoRenameBsFrom (liveB l us) r

def Op.toBatch : Op → Batch
  | .update id w => [(id, some w)]
  | .remove id => [(id, none)]

/-- The preferred endpoint for interface `name`: the smallest live id claiming it (the same
minimum scan as `bestShadowed`, over the live endpoints). -/
def preferred (l : GoMap Nat Ep) (name : Nat) : Option (Nat × Ep) :=
  (bestShadowed l name).bind (fun i => (get l i).map (fun e => (i, e)))

/-- What interface `name` must carry: chains of the preferred endpoint, routes iff it is admin up. -/
def specChains (l : GoMap Nat Ep) (name : Nat) : Option Chains :=
  (preferred l name).map (fun p => ⟨p.1, p.2.up, p.2.data⟩)
def specRoutes (l : GoMap Nat Ep) (name : Nat) : Option (Nat × Nat) :=
  (preferred l name).bind (fun p => if p.2.up then some (p.1, p.2.data) else none)

end CalicoVerif.C44
