import CalicoVerif.Model.C18
/-
C44 — model of resolveWorkloadEndpoints in felix/dataplane/linux/endpoint_mgr.go
(the pending / active / shadowed maps, the shadowing decision by wlIdsAscending,
the interface-rename path, removal and promotion of a shadowed endpoint) together
with what it programs per interface name: the per-endpoint filter chains
(`filterTable.UpdateChains/RemoveChains`) and the routes (`routeTable.SetRoutes`).

Endpoint ids are `Nat`s ordered by `<` (the harness maps them to real ids whose
wlIdsAscending order is the numeric order); interface names are `Nat`s; an endpoint
is (iface name, admin up, data) where `data` stands for everything else that is
rendered (profile ids, addresses).  One `resolve` processes ONE pending update (the
harness completes deferred work after every update, which makes the Go map
iteration order over pendingWlEpUpdates irrelevant) plus the updates that the
processing itself queues (promotion of a shadowed endpoint).
Go maps are the association lists of `CalicoVerif.C18`.  Core Lean only.
-/
namespace CalicoVerif.C44
open CalicoVerif.C18 (GoMap get set del)

structure Ep where
  name : Nat
  up : Bool      -- State == "active"
  data : Nat
deriving DecidableEq, Repr

/-- What the filter table holds for an interface: the chains rendered for endpoint `id`'s
version `data`, admin up or down. -/
structure Chains where
  id : Nat
  up : Bool
  data : Nat
deriving DecidableEq, Repr

structure Mgr where
  active : GoMap Nat Ep        -- activeWlEndpoints
  ifaceToID : GoMap Nat Nat    -- activeWlIfaceNameToID
  shadowed : GoMap Nat Ep      -- shadowedWlEndpoints
  chainsOf : GoMap Nat Nat     -- activeWlIDToChains: id ↦ iface name its chains were rendered for
  chains : GoMap Nat Chains    -- mock filter table: iface name ↦ chains
  routes : GoMap Nat (Nat × Nat) -- mock route table: iface name ↦ (id, data) whose routes are set (absent = no routes)

def Mgr.new : Mgr := { active := [], ifaceToID := [], shadowed := [], chainsOf := [], chains := [], routes := [] }

/-- `filterTable.RemoveChains(m.activeWlIDToChains[id])`. -/
def Mgr.removeChainsOf (m : Mgr) (id : Nat) : Mgr :=
  match get m.chainsOf id with
  | some n => { m with chains := del m.chains n }
  | none => m

/-- The `removeActiveWorkload` closure. -/
def Mgr.removeActiveWorkload (m : Mgr) (old : Option Ep) (id : Nat) : Mgr :=
  let m := m.removeChainsOf id
  let m := { m with chainsOf := del m.chainsOf id }
  let m := match old with
    | some o => { m with routes := del m.routes o.name, ifaceToID := del m.ifaceToID o.name }
    | none => m
  { m with active := del m.active id }

/-- `pendingWlEpUpdates`: one entry per id, `none` = removal. -/
abbrev Pending := GoMap Nat (Option Ep)

/-- `wlIdsAscending(&sId, &best)` scan over the shadowed map for the best endpoint waiting on `name`. -/
def bestShadowed (sh : GoMap Nat Ep) (name : Nat) : Option Nat :=
  sh.foldl (fun best p =>
    if p.2.name = name then
      match best with
      | none => some p.1
      | some b => if p.1 < b then some p.1 else some b
    else best) none

/-- The `promoteShadowedWorkload` closure: the interface `name` has just been released by its active
endpoint; queue the smallest endpoint shadowed on it that has no update/removal of its own pending
(`pend` = the entries that are in `pendingWlEpUpdates` when the scan runs). -/
def Mgr.promote (m : Mgr) (pend : Pending) (name : Nat) : Mgr × Option (Nat × Ep) :=
  match bestShadowed (m.shadowed.filter (fun p => (get pend p.1).isNone)) name with
  | some b =>
    match get m.shadowed b with
    | some e => ({ m with shadowed := del m.shadowed b }, some (b, e))
    | none => (m, none)
  | none => (m, none)

/-- "Updating per-endpoint chains" … `delete(m.shadowedWlEndpoints, id)`: program `w` for `id`. -/
def Mgr.activate (m : Mgr) (id : Nat) (w : Ep) : Mgr :=
  { m with
    chains := set m.chains w.name ⟨id, w.up, w.data⟩,
    chainsOf := set m.chainsOf id w.name,
    routes := if w.up then set m.routes w.name (id, w.data) else del m.routes w.name,
    active := set m.active id w,
    ifaceToID := set m.ifaceToID w.name id,
    -- "The endpoint is active now; drop any copy left from when it was shadowed"
    shadowed := del m.shadowed id }

/-- The endpoint takes (or keeps) its interface: if its interface name changed, the old name's state is
cleaned up first and an endpoint shadowed on the old name is promoted. -/
def Mgr.claim (m : Mgr) (pendU : Pending) (id : Nat) (old : Option Ep) (w : Ep) : Mgr × Option (Nat × Ep) :=
  let r : Mgr × Option (Nat × Ep) := match old with
    | some o =>
      if o.name ≠ w.name then
        -- interface name changed, cleaning up old state
        let m := m.removeChainsOf id
        ({ m with routes := del m.routes o.name, ifaceToID := del m.ifaceToID o.name } : Mgr).promote pendU o.name
      else (m, none)
    | none => (m, none)
  (r.1.activate id w, r.2)

/-- Body of the loop for one pending entry; `pend` = the OTHER entries still pending.  In the update
branch the Go code deletes the entry itself from `pendingWlEpUpdates` only at the end, so the scans there
see `pend` plus the entry (`pendU`); in the removal branch it is deleted before the scan.  Returns the
new state and the update it queued (if any). -/
def Mgr.process (m : Mgr) (pend : Pending) (id : Nat) (w : Option Ep) : Mgr × Option (Nat × Ep) :=
  let old := get m.active id
  match w with
  | some w =>
    let pendU := set pend id (some w)
    match (match get m.ifaceToID w.name with
      | some e => if e ≠ id then some e else none
      | none => none) with
    | some existing =>
      if existing < id then
        -- existing endpoint takes preference; if this endpoint is active under its previous interface
        -- name it releases that name (and an endpoint shadowed there takes over)
        let r : Mgr × Option (Nat × Ep) := match old with
          | some o => (m.removeActiveWorkload (some o) id).promote pendU o.name
          | none => (m, none)
        ({ r.1 with shadowed := set r.1.shadowed id w }, r.2)
      else
        -- new endpoint takes preference; remove existing
        let m := { m with shadowed := match get m.active existing with
          | some e => set m.shadowed existing e
          | none => m.shadowed }
        let m := m.removeActiveWorkload (get m.active existing) existing
        m.claim pendU id old w
    | none => m.claim pendU id old w
  | none =>
    let m := m.removeActiveWorkload old id
    let m := { m with shadowed := del m.shadowed id }
    match old with
    | some o => m.promote pend o.name
    | none => (m, none)

/-- Deterministic processing of the pending map, first entry first (used when ONE update is pending: then
there is never more than one entry). -/
def Mgr.resolveLoop : Nat → Mgr → Pending → Mgr
  | 0, m, _ => m
  | _ + 1, m, [] => m
  | fuel + 1, m, q :: ps =>
    let pend := del (q :: ps) q.1
    let r := m.process pend q.1 q.2
    let pend := match r.2 with
      | some (b, e) => set pend b (some e)
      | none => pend
    Mgr.resolveLoop fuel r.1 pend

/-- `resolveWorkloadEndpoints` for one pending update (plus the promotion it may queue). -/
def Mgr.resolve (m : Mgr) (id : Nat) (w : Option Ep) : Mgr := m.resolveLoop 4 [(id, w)]

/-- Every state `resolveWorkloadEndpoints` can end in when SEVERAL updates are pending, whatever order the
Go map range yields them: at each step any pending entry may be the next one; a promotion queues
`pendingWlEpUpdates[best] = shadowed[best]` (`best` never has a pending entry of its own: the scan skips those). -/
def Mgr.resolveAll : Nat → Mgr → Pending → List Mgr
  | 0, m, _ => [m]
  | _ + 1, m, [] => [m]
  | fuel + 1, m, p :: ps =>
    (p :: ps).flatMap (fun q =>
      let pend := del (p :: ps) q.1
      let r := m.process pend q.1 q.2
      let pend := match r.2 with
        | some (b, e) => set pend b (some e)
        | none => pend
      Mgr.resolveAll fuel r.1 pend)

/-- `OnUpdate` for a batch of messages: later messages for the same id overwrite earlier ones. -/
def mkPending (us : List (Nat × Option Ep)) : Pending :=
  us.foldl (fun p u => set p u.1 u.2) []

/-- All outcomes of one `CompleteDeferredWork` after the batch `us`. -/
def Mgr.batch (m : Mgr) (us : List (Nat × Option Ep)) : List Mgr :=
  let p := mkPending us
  m.resolveAll (2 * p.length + 2) p

inductive Op
  | update (id : Nat) (w : Ep)
  | remove (id : Nat)
deriving Repr

def Mgr.step (m : Mgr) : Op → Mgr
  | .update id w => m.resolve id (some w)
  | .remove id => m.resolve id none

def run (ops : List Op) : Mgr := ops.foldl Mgr.step Mgr.new

/-! ### Specification -/

def liveStep (l : GoMap Nat Ep) : Op → GoMap Nat Ep
  | .update id w => set l id w
  | .remove id => del l id

/-- The live endpoints after a history: last update not followed by a removal. -/
def live (ops : List Op) : GoMap Nat Ep := ops.foldl liveStep []

/-! ### Histories of batches (several updates, one CompleteDeferredWork) -/

abbrev Batch := List (Nat × Option Ep)

def applyEntry (l : GoMap Nat Ep) (p : Nat × Option Ep) : GoMap Nat Ep :=
  match p.2 with
  | some w => set l p.1 w
  | none => del l p.1

/-- The live endpoints after a batch: the last message of every id is applied. -/
def liveB (l : GoMap Nat Ep) (us : Batch) : GoMap Nat Ep := (mkPending us).foldl applyEntry l

def liveBs (bs : List Batch) : GoMap Nat Ep := bs.foldl liveB []

/-- `m'` can be reached from `m` by the batches `bs` (each batch processed in ANY order). -/
def ReachFrom : Mgr → List Batch → Mgr → Prop
  | m, [], m' => m' = m
  | m, us :: r, m' => ∃ m1, m1 ∈ m.batch us ∧ ReachFrom m1 r m'

def Op.toBatch : Op → Batch
  | .update id w => [(id, some w)]
  | .remove id => [(id, none)]

/-- The preferred endpoint for interface `name`: the smallest live id claiming it (the same
minimum scan as `bestShadowed`, over the live endpoints). -/
def preferred (l : GoMap Nat Ep) (name : Nat) : Option (Nat × Ep) :=
  (bestShadowed l name).bind (fun i => (get l i).map (fun e => (i, e)))

/-- What interface `name` must carry: chains of the preferred endpoint, routes iff it is admin up. -/
def specChains (l : GoMap Nat Ep) (name : Nat) : Option Chains :=
  (preferred l name).map (fun p => ⟨p.1, p.2.up, p.2.data⟩)
def specRoutes (l : GoMap Nat Ep) (name : Nat) : Option (Nat × Nat) :=
  (preferred l name).bind (fun p => if p.2.up then some (p.1, p.2.data) else none)

end CalicoVerif.C44
