/-
C27 — model of felix/config/config_params.go: `Config.resolve`, `Config.UpdateFrom`,
`Config.UpdateFromConfigUpdate` (source priority resolution of Felix configuration).

What is modelled (mirrors the code THAT EXISTS, including its quirks):
* `Source`, `Source.Local`, `SourcesInDescendingOrder`  → `Src`, `Src.isLocal`, `descending`
  (re-extracted from the source by the translator and proved equal in `Gen/C27.lean`).
* `knownParams[lowerCaseName]` + `Metadata{Name,Local,DieOnParseFailure,NonZero}` → `Ctx.known`
  (the table is regenerated from the struct tags by the translator).
* `param.Parse(raw)` is abstracted to its graph `Ctx.parse : Meta → String → Option Tok`
  (`none` = error; `some tok` = canonical rendering of the parsed value). The harness supplies
  the graph of the REAL parsers on the values it uses.
* `strings.ToLower` → `Ctx.lower` (the driver instantiates it with ASCII lower-casing).
* The Go map `sourceToRawConfig[source]` is a key list in ARBITRARY order; `resolve` visits the keys
  in sorted order of the raw names (`slices.Sorted(maps.Keys(rawConfig))`): `sortKeys` (merge sort by
  `Ctx.keyLe`, which the driver instantiates with the byte-wise string order Go uses).
* Field values are abstract: `Val.parsed tok | Val.zero | Val.dflt`; a field that no source set is
  absent from `St.fields` (it keeps what `applyDefaults` wrote).
* A key of a source below the one that already set the parameter is skipped BEFORE it is parsed
  (commit be6f163); `resolve` returns early on a fatal value of a key that is not skipped: `none`.

Core Lean only (linked into the driver executable).
-/
namespace CalicoVerif.C27

/-- `config.Source` without `Default` (never a key of `sourceToRawConfig`). -/
inductive Src where
  | global | selector | host | file | env | override
deriving DecidableEq, Repr

/-- Numeric value of the Go constant (`Default` = 0). -/
def Src.prio : Src → Nat
  | .global => 1 | .selector => 2 | .host => 3 | .file => 4 | .env => 5 | .override => 6

/-- `Source.Local()`. -/
def Src.isLocal : Src → Bool
  | .file | .env | .override => true
  | _ => false

/-- `SourcesInDescendingOrder`. -/
def descending : List Src := [.override, .env, .file, .host, .selector, .global]

def Src.ofNat? : Nat → Option Src
  | 1 => some .global | 2 => some .selector | 3 => some .host
  | 4 => some .file | 5 => some .env | 6 => some .override
  | _ => none

/-- The part of `config.Metadata` that `resolve` reads. -/
structure Meta where
  name : String
  local_ : Bool
  die : Bool
  nonZero : Bool
deriving DecidableEq, Repr

/-- Abstract field value written by `resolve`. -/
inductive Val where
  | parsed (tok : String)   -- `param.Parse(raw)` succeeded; `tok` is the canonical rendering of the result
  | zero                    -- `metadata.ZeroValue` (raw value `none`)
  | dflt                    -- `metadata.Default` (invalid value of a non-fatal parameter)
deriving DecidableEq, Repr

structure Ctx where
  lower : String → String
  known : String → Option Meta
  parse : Meta → String → Option String
  /-- order of raw key names used by `slices.Sorted` (Go: byte-wise `<=` on strings) -/
  keyLe : String → String → Bool

abbrev KV := String × String
abbrev Sources := Src → List KV

/-- Loop state of `resolve`: the fields set so far (keyed by lower-case name, newest binding first),
`newRawValues`, `nameToSource`. -/
structure St where
  fields : List (String × Val)
  raws : List (String × String)
  nts : List (String × Nat)
deriving Repr

def St.empty : St := ⟨[], [], []⟩

/-- `nameToSource[lowerCaseName]` (Go zero value `Default` = 0 when absent). -/
def St.cur (s : St) (l : String) : Nat := (s.nts.lookup l).getD 0

/-- The value `resolve` computes for a raw value of a known parameter; `none` = fatal
(`non-zero field cannot be set to none`, or parse failure of a die-on-parse-failure parameter). -/
def valOf (c : Ctx) (m : Meta) (raw : String) : Option Val :=
  if c.lower raw == "none" then
    if m.nonZero then none else some .zero
  else
    match c.parse m raw with
    | some t => some (.parsed t)
    | none => if m.die then none else some .dflt

/-- One iteration of `valueLoop` for key `(rawName, rawValue)` of `source`. -/
def step (c : Ctx) (s : St) (t : Src × KV) : Option St :=
  let src := t.1
  let rawName := t.2.1
  let rawValue := t.2.2
  let l := c.lower rawName
  match c.known l with
  | none =>
    if src.prio ≥ s.cur l then
      some { s with raws := (rawName, rawValue) :: s.raws, nts := (l, src.prio) :: s.nts }
    else some s
  | some m =>
    if m.local_ && !src.isLocal then some s
    else if src.prio < s.cur l then some s   -- shadowed: skipped before parsing
    else
      match valOf c m rawValue with
      | none => none
      | some v =>
        some { fields := (l, v) :: s.fields, raws := (m.name, rawValue) :: s.raws,
               nts := (l, src.prio) :: s.nts }

/-- `slices.Sorted(maps.Keys(rawConfig))`: the keys of one source in sorted order. -/
def sortKeys (c : Ctx) (kvs : List KV) : List KV := kvs.mergeSort (fun a b => c.keyLe a.1 b.1)

/-- The key sequence `resolve` walks: sources in descending order, each source's keys in sorted
order. -/
def flat (c : Ctx) (srcs : Sources) : List (Src × KV) :=
  descending.flatMap (fun s => (sortKeys c (srcs s)).map (fun kv => (s, kv)))

/-- `Config.resolve` up to (not including) the changed-fields computation. `none` = returned early
with `config.Err` set. -/
def resolve (c : Ctx) (srcs : Sources) : Option St :=
  (flat c srcs).foldlM (step c) St.empty

/-- `resolve` together with the loop state it leaves behind when it returns early (the fields
written so far stay written; since the walk order is deterministic, so is that state). -/
def stepP (c : Ctx) (acc : St × Bool) (t : Src × KV) : St × Bool :=
  if acc.2 then acc
  else match step c acc.1 t with
    | none => (acc.1, true)
    | some s => (s, false)

def resolveP (c : Ctx) (srcs : Sources) : St × Bool :=
  (flat c srcs).foldl (stepP c) (St.empty, false)

/-! ### Config object: `UpdateFrom`, `UpdateFromConfigUpdate`, sticky `Err`, changed fields -/

def setSrc (srcs : Sources) (s : Src) (kvs : List KV) : Sources :=
  fun s' => if s' = s then kvs else srcs s'

/-- `Config` as far as resolution is concerned.
`fields`: current field values by lower-case name (absent = what `applyDefaults` leaves; after a
failed `resolve`: the fields written before it returned); `err`: `config.Err != nil` (never reset). -/
structure Cfg where
  srcs : Sources
  fields : List (String × Val)
  rawValues : List (String × String)
  err : Bool

def Cfg.new : Cfg := ⟨fun _ => [], [], [], false⟩

inductive Changed where
  | yes | no | failed
deriving DecidableEq, Repr

/-- De-duplicated (newest binding wins) view of an association list, in first-occurrence order. -/
def dedup {β : Type} : List (String × β) → List (String × β)
  | [] => []
  | (k, v) :: rest => (k, v) :: (dedup rest).filter (fun p => p.1 != k)

/-- Field names whose rendered value differs (the `changedFields` loop, restricted to the fields
either state mentions; all other fields hold their defaults in both). `render l none` is the
rendering of what `applyDefaults` leaves in the field. -/
def changedNames (render : String → Option Val → String)
    (old new : List (String × Val)) : List String :=
  let names := ((dedup old).map (·.1) ++ (dedup new).map (·.1)).eraseDups
  names.filter (fun l => render l (old.lookup l) != render l (new.lookup l))

/-- Common tail of `UpdateFrom`/`UpdateFromConfigUpdate`: run `resolve`, update the object.
On failure the fields written so far stay, `rawValues` keeps its old value and `Err` is set. -/
def Cfg.reresolve (c : Ctx) (render : String → Option Val → String) (cfg : Cfg) (srcs : Sources) :
    Cfg × Changed × List String :=
  let r := resolveP c srcs
  if r.2 then
    ({ srcs := srcs, fields := dedup r.1.fields, rawValues := cfg.rawValues, err := true }, .failed, [])
  else
    let ch := changedNames render cfg.fields r.1.fields
    ({ srcs := srcs, fields := dedup r.1.fields, rawValues := dedup r.1.raws, err := cfg.err },
      if ch.isEmpty then .no else .yes, ch)

/-- `Config.UpdateFrom(rawData, source)`: empty values are dropped, the source's map is replaced. -/
def Cfg.updateFrom (c : Ctx) (render : String → Option Val → String) (cfg : Cfg) (s : Src)
    (kvs : List KV) : Cfg × Changed × List String :=
  cfg.reresolve c render (setSrc cfg.srcs s (kvs.filter (fun kv => kv.2 != "")))

/-- `Config.UpdateFromConfigUpdate`: all sources replaced at once, nothing filtered. -/
def Cfg.updateAll (c : Ctx) (render : String → Option Val → String) (cfg : Cfg)
    (all : List (Src × List KV)) : Cfg × Changed × List String :=
  cfg.reresolve c render (fun s => (all.lookup s).getD [])

end CalicoVerif.C27
