/-
C40Nf — the minimal abstract netfilter (iptables) semantics C40 needs: packets, match criteria,
targets, and the evaluation of a chain graph (first matching terminating rule wins; MARK / NOTRACK
continue; `--jump` returns to the caller at RETURN / end of chain, `--goto` does not).

NOTE (to be unified later): `Model/Netfilter.lean` (owner: C10/C08) is the shared, richer version of
this file; C40 was built in parallel against this private slice.  The kernel's behaviour is trusted
semantics: it is what this file says it is.  Core Lean only.
-/
namespace CalicoVerif.C40

/-- what a rule can look at. -/
structure Pkt where
  proto : Nat              -- IP protocol number
  sport : Nat
  dport : Nat
  src : Nat
  dst : Nat
  inIf : String
  outIf : String
  ct : Nat                 -- conntrack state: 0 NEW, 1 RELATED/ESTABLISHED, 2 INVALID
  mark : Nat
  dstLocal : Bool          -- addrtype --dst-type LOCAL
  srcSets : List String    -- IP sets that contain the source address
  dstSets : List String := []   -- IP sets that contain the destination address
  srcLocal : Bool := false      -- addrtype --src-type LOCAL
  rpfFail : Bool := false       -- the reverse-path check (rpfilter --invert) fails
  dnat : Bool := false          -- conntrack status DNAT
  icmpType : Nat := 0           -- ICMPv6 type (BPF-mode IPv6 FORWARD rules)
deriving Repr, DecidableEq

def lastIsPlus : List Char → Bool
  | [] => false
  | [c] => c == '+'
  | _ :: cs => lastIsPlus cs

/-- `--in-interface cali+` : a trailing `+` is the iptables wildcard (prefix match). -/
def ifaceMatches (pat name : String) : Bool :=
  let p := pat.toList
  if lastIsPlus p then p.dropLast.isPrefixOf name.toList else pat == name

def inNet (addr netAddr len : Nat) : Bool := addr / 2 ^ (32 - len) == netAddr / 2 ^ (32 - len)

inductive Crit where
  | protoName (name : String) (num : Nat)      -- `-p tcp`
  | protoNum (num : Nat)                        -- `-p 4`
  | dports (p : Nat)                            -- `-m multiport --destination-ports p`
  | sports (p : Nat)                            -- `-m multiport --source-ports p`
  | srcNet (text : String) (addr len : Nat)     -- `--source 10.0.0.0/8`
  | dstNet (text : String) (addr len : Nat)     -- `--destination …`
  | inIf (pat : String)
  | outIf (pat : String)
  | markSet (m : Nat)                           -- `-m mark --mark m/m`
  | markClear (m : Nat)                         -- `-m mark --mark 0/m`
  | ctEstablished                               -- `-m conntrack --ctstate RELATED,ESTABLISHED`
  | ctInvalid                                   -- `-m conntrack --ctstate INVALID`
  | srcSet (name : String)                      -- `-m set --match-set name src`
  | dstLocal                                    -- `-m addrtype --dst-type LOCAL`
  | dport1 (p : Nat)                            -- `--dport p` (after `-p udp`)
  | dstSet (name : String)                      -- `-m set --match-set name dst`
  | srcLocal                                    -- `-m addrtype --src-type LOCAL`
  | rpfFailed                                   -- `-m rpfilter --invert --validmark`
  | notCtDNAT                                   -- `-m conntrack ! --ctstate DNAT`
  | markNotSet (m : Nat)                        -- `-m mark ! --mark m/m`
  | ctEstRel                                    -- `-m conntrack --ctstate ESTABLISHED,RELATED` (BPF-mode spelling)
  | icmp6Type (t : Nat)                         -- `-m icmp6 --icmpv6-type t`
deriving Repr, DecidableEq

def Crit.holds (p : Pkt) : Crit → Bool
  | .protoName _ n => p.proto == n
  | .protoNum n => p.proto == n
  | .dports d => p.dport == d
  | .sports s => p.sport == s
  | .srcNet _ a l => inNet p.src a l
  | .dstNet _ a l => inNet p.dst a l
  | .inIf pat => ifaceMatches pat p.inIf
  | .outIf pat => ifaceMatches pat p.outIf
  | .markSet m => p.mark &&& m == m
  | .markClear m => p.mark &&& m == 0
  | .ctEstablished => p.ct == 1
  | .ctInvalid => p.ct == 2
  | .srcSet s => p.srcSets.contains s
  | .dstLocal => p.dstLocal
  | .dport1 d => p.dport == d
  | .dstSet s => p.dstSets.contains s
  | .srcLocal => p.srcLocal
  | .rpfFailed => p.rpfFail
  | .notCtDNAT => !p.dnat
  | .markNotSet m => !(p.mark &&& m == m)
  | .ctEstRel => p.ct == 1
  | .icmp6Type t => p.icmpType == t

inductive Action where
  | accept | drop | ret
  | jump (chain : String)
  | goto (chain : String)
  | setMark (m : Nat)       -- `--jump MARK --set-mark m/m`
  | clearMark (m : Nat)     -- `--jump MARK --set-mark 0/m`
  | notrack
  | rejectRst               -- `--jump REJECT --reject-with tcp-reset`: the packet does not pass
  | setMarkMasked (m : Nat) -- `--jump MARK --set-mark m/m` built by SetMaskedMark (same kernel effect as setMark)
deriving Repr, DecidableEq

structure Rule where
  comment : Option String := none
  moreComments : List String := []   -- further comment fragments (a Go rule's Comment is a list)
  crits : List Crit := []
  action : Action
deriving Repr, DecidableEq

def Rule.matches (r : Rule) (p : Pkt) : Bool := r.crits.all (·.holds p)

/-- Result of running a chain: a terminal verdict, or falling off the end / RETURN with the
(possibly re-marked) packet. -/
inductive Res where
  | accept
  | drop
  | fall (p : Pkt)
deriving Repr, DecidableEq

abbrev Chains := String → Option (List Rule)

/-- bit-clear on marks. -/
def clearBits (mark m : Nat) : Nat := mark ^^^ (mark &&& m)

/-- run a rule list, given how to run a callee chain. -/
def runRulesWith (call : String → Pkt → Res) : List Rule → Pkt → Res
  | [], p => .fall p
  | r :: rs, p =>
    if r.matches p then
      match r.action with
      | .accept => .accept
      | .drop => .drop
      | .ret => .fall p
      | .setMark m => runRulesWith call rs { p with mark := p.mark ||| m }
      | .clearMark m => runRulesWith call rs { p with mark := clearBits p.mark m }
      | .notrack => runRulesWith call rs p
      | .rejectRst => .drop
      | .setMarkMasked m => runRulesWith call rs { p with mark := p.mark ||| m }
      | .jump c =>
        match call c p with
        | .fall p' => runRulesWith call rs p'
        | v => v
      | .goto c => call c p
    else runRulesWith call rs p

/-- run a named chain; `fuel` bounds the call depth (the chain graph is acyclic).  An unknown chain
behaves as empty (iptables-restore would have refused the reference). -/
def runChain (cs : Chains) : Nat → String → Pkt → Res
  | 0, _, p => .fall p
  | fuel + 1, c, p =>
    match cs c with
    | some rs => runRulesWith (runChain cs fuel) rs p
    | none => .fall p

/-- run the rest of a rule list at call depth `fuel`. -/
def runRules (cs : Chains) (fuel : Nat) (rs : List Rule) (p : Pkt) : Res :=
  runRulesWith (runChain cs fuel) rs p

/-! ## iptables text (what `iptablesRenderer.RenderAppend` prints) -/

def hex (n : Nat) : String := "0x" ++ String.ofList (Nat.toDigits 16 n)

def Crit.render : Crit → String
  | .protoName n _ => s!"-p {n}"
  | .protoNum n => s!"-p {n}"
  | .dports d => s!"-m multiport --destination-ports {d}"
  | .sports s => s!"-m multiport --source-ports {s}"
  | .srcNet t _ _ => s!"--source {t}"
  | .dstNet t _ _ => s!"--destination {t}"
  | .inIf pat => s!"--in-interface {pat}"
  | .outIf pat => s!"--out-interface {pat}"
  | .markSet m => s!"-m mark --mark {hex m}/{hex m}"
  | .markClear m => s!"-m mark --mark 0/{hex m}"
  | .ctEstablished => "-m conntrack --ctstate RELATED,ESTABLISHED"
  | .ctInvalid => "-m conntrack --ctstate INVALID"
  | .srcSet s => s!"-m set --match-set {s} src"
  | .dstLocal => "-m addrtype --dst-type LOCAL"
  | .dport1 d => s!"--dport {d}"
  | .dstSet s => s!"-m set --match-set {s} dst"
  | .srcLocal => "-m addrtype --src-type LOCAL"
  | .rpfFailed => "-m rpfilter --invert --validmark"
  | .notCtDNAT => "-m conntrack ! --ctstate DNAT"
  | .markNotSet m => s!"-m mark ! --mark {hex m}/{hex m}"
  | .ctEstRel => "-m conntrack --ctstate ESTABLISHED,RELATED"
  | .icmp6Type t => s!"-m icmp6 --icmpv6-type {t}"

def Action.render : Action → String
  | .accept => "--jump ACCEPT"
  | .drop => "--jump DROP"
  | .ret => "--jump RETURN"
  | .jump c => s!"--jump {c}"
  | .goto c => s!"--goto {c}"
  | .setMark m => s!"--jump MARK --set-mark {hex m}/{hex m}"
  | .clearMark m => s!"--jump MARK --set-mark 0/{hex m}"
  | .notrack => "--jump NOTRACK"
  | .rejectRst => "--jump REJECT --reject-with tcp-reset"
  | .setMarkMasked m => s!"--jump MARK --set-mark {hex m}/{hex m}"

def Rule.render (chain : String) (r : Rule) : String :=
  let parts := ["-A", chain] ++
    (match r.comment with | some c => [s!"-m comment --comment \"{c}\""] | none => []) ++
    r.moreComments.map (fun c => s!"-m comment --comment \"{c}\"") ++
    r.crits.map Crit.render ++ [r.action.render]
  " ".intercalate parts

def renderChain (name : String) (rs : List Rule) : String :=
  if rs.isEmpty then name ++ " <empty>" else " ;; ".intercalate (rs.map (Rule.render name))


/-! ## nftables text (what `nftRenderer.Render` puts in `knftables.Rule.Rule`, IPv4) -/

/-- the transport protocol name used by port matches (`nftMatch.transportProto`). -/
def transportOf (crits : List Crit) : String :=
  match crits.findSome? (fun c => match c with
    | .protoName n _ => some n
    | .protoNum 6 => some "tcp"
    | .protoNum 17 => some "udp"
    | .protoNum 132 => some "sctp"
    | _ => none) with
  | some n => n
  | none => "?"

def nftIface (pat : String) : String :=
  if pat.endsWith "+" then (pat.dropEnd 1).toString ++ "*" else pat

def Crit.renderNft (tp : String) : Crit → String
  | .protoName n _ => s!"meta l4proto {n}"
  | .protoNum n => s!"meta l4proto {n}"
  | .dports d => s!"{tp} dport " ++ "{ " ++ toString d ++ " }"
  | .sports d => s!"{tp} sport " ++ "{ " ++ toString d ++ " }"
  | .srcNet t _ _ => s!"ip saddr {t}"
  | .dstNet t _ _ => s!"ip daddr {t}"
  | .inIf pat => s!"iifname {nftIface pat}"
  | .outIf pat => s!"oifname {nftIface pat}"
  | .markSet m => s!"meta mark & {hex m} == {hex m}"
  | .markClear m => s!"meta mark & {hex m} == 0"
  | .ctEstablished => "ct state related,established"
  | .ctInvalid => "ct state invalid"
  | .srcSet s => s!"ip saddr @{s}"
  | .dstLocal => "fib daddr type local"
  | .dport1 d => s!"{tp} dport {d}"
  | .dstSet s => s!"ip daddr @{s}"
  | .srcLocal => "fib saddr type local"
  | .rpfFailed => "fib saddr . mark . iif oif 0"
  | .notCtDNAT => "ct status != dnat"
  | .markNotSet m => s!"meta mark & {hex m} != {hex m}"
  | .ctEstRel => "ct state established,related"
  | .icmp6Type t => s!"icmpv6 type {t}"

def Action.renderNft : Action → String
  | .accept => "counter accept"
  | .drop => "counter drop"
  | .ret => "counter return"
  | .jump c => s!"counter jump {c}"
  | .goto c => s!"counter goto {c}"
  | .setMark m => s!"counter meta mark set mark or {hex m}"
  | .clearMark m => s!"counter meta mark set mark & {hex (0xffffffff - m)}"
  | .notrack => "counter notrack"
  | .rejectRst => "counter reject with tcp reset"
  | .setMarkMasked m => s!"counter meta mark set mark & {hex (0xffffffff - m)} ^ {hex m}"

def Rule.renderNft (chain : String) (r : Rule) : String :=
  let tp := transportOf r.crits
  chain ++ ": " ++ " ".intercalate (r.crits.map (Crit.renderNft tp) ++ [r.action.renderNft]) ++
    (match r.comment with | some c => " #" ++ " ".intercalate (c :: r.moreComments) | none => "")

def renderChainNft (name : String) (rs : List Rule) : String :=
  if rs.isEmpty then name ++ " <empty>" else " ;; ".intercalate (rs.map (Rule.renderNft name))

end CalicoVerif.C40
