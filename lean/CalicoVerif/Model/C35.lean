/-
C35 — model of felix/markbits/mark_bits.go (MarkBitsManager).

Go `uint32` values are `Nat`s below 2^32; `int` arguments are `Int`.  Every
loop `for shift := range uint(32)` is modelled over the ascending list of SET
bit positions of the mask (`positions`): iterations on unset bits are no-ops in
all four loops of the Go code, and `MapNumberToMark`'s early exit
(`number > 0`) only skips iterations that would not change `mark`.
Core Lean only (linked into the driver executable).
-/
namespace CalicoVerif.C35

/-- Width of a Go uint32. -/
abbrev W : Nat := 32

/-- Ascending positions of the bits of `mask` below `w`. -/
def positionsBelow (mask : Nat) : Nat → List Nat
  | 0 => []
  | w + 1 => positionsBelow mask w ++ (if mask.testBit w then [w] else [])

def positions (mask : Nat) : List Nat := positionsBelow mask W

/-- `MarkBitsManager` state. `numFreeBits` is what `NewMarkBitsManager` counts
and `NextSingleBitMark` decrements. -/
structure Mgr where
  mask : Nat
  numBitsAllocated : Nat
  numFreeBits : Nat
deriving Repr, DecidableEq

def Mgr.new (mask : Nat) : Mgr :=
  { mask := mask % 2 ^ W, numBitsAllocated := 0, numFreeBits := (positions (mask % 2 ^ W)).length }

/-- `nthMark(n)`: the n-th (0-based) set bit of the mask as a single-bit mark. -/
def nthMark (mask : Nat) (n : Nat) : Option Nat :=
  (positions mask)[n]?.map (fun p => 2 ^ p)

/-- `NextSingleBitMark`. -/
def Mgr.nextSingle (m : Mgr) : Mgr × Option Nat :=
  match nthMark m.mask m.numBitsAllocated with
  | none => (m, none)
  | some mark =>
    ({ m with numFreeBits := m.numFreeBits - 1, numBitsAllocated := m.numBitsAllocated + 1 }, some mark)

/-- `NextBlockBitsMark(size)`: returns (mark, number of bits allocated). -/
def Mgr.nextBlock (m : Mgr) : Nat → Nat → Nat → Mgr × Nat × Nat
  | 0, mark, allocated => (m, mark, allocated)
  | size + 1, mark, allocated =>
    match m.nextSingle with
    | (_, none) => (m, mark, allocated)
    | (m', some bit) => m'.nextBlock size (mark ||| bit) (allocated + 1)

/-- `NextBlockBitsMark(size)` with a Go `int` size: `for allocated := range size`
runs zero times for a negative size and the function then returns
`(0, size)` — the (negative) requested size itself as the "allocated" count. -/
def Mgr.nextBlockInt (m : Mgr) (size : Int) : Mgr × Nat × Int :=
  if size < 0 then (m, 0, size)
  else ((m.nextBlock size.toNat 0 0).1, (m.nextBlock size.toNat 0 0).2.1, ((m.nextBlock size.toNat 0 0).2.2 : Int))

/-- Loop body of `MapNumberToMark` over the set-bit positions: `i` is
`numBitsFound`, state is `(number, mark)`. -/
def numToMarkLoop : List Nat → Nat → Nat → Nat → Nat × Nat
  | [], _, number, mark => (number, mark)
  | p :: ps, i, number, mark =>
    let value := number &&& (2 ^ i)
    if value > 0 then numToMarkLoop ps (i + 1) (number - value) (mark ||| 2 ^ p)
    else numToMarkLoop ps (i + 1) number mark

/-- `MapNumberToMark(n)`; `n` is a Go `int`, converted by `uint32(n)`. -/
def mapNumberToMark (mask : Nat) (n : Int) : Option Nat :=
  let number := (n % (2 ^ W : Int)).toNat
  let (rest, mark) := numToMarkLoop (positions mask) 0 number 0
  if rest > 0 then none else some mark

/-- Loop body of `MapMarkToNumber`. -/
def markToNumLoop (mark : Nat) : List Nat → Nat → Nat → Nat
  | [], _, number => number
  | p :: ps, i, number =>
    if mark.testBit p then markToNumLoop mark ps (i + 1) (number + 2 ^ i)
    else markToNumLoop mark ps (i + 1) number

/-- `MapMarkToNumber(mark)`. -/
def mapMarkToNumber (mask : Nat) (mark : Nat) : Option Nat :=
  if mark &&& mask ≠ mark then none
  else some (markToNumLoop mark (positions mask) 0 0)

/-- `CurrentFreeNumberOfMark`. -/
def Mgr.currentFreeNumber (m : Mgr) : Nat :=
  if m.numFreeBits > 0 then 2 ^ m.numFreeBits else 0


/-! ### Allocation sequences (what the property theorems quantify over)

`NextSingleBitMark` and `NextBlockBitsMark(size)` are the only two operations
that hand out bits; an allocation history is a list of them. -/

/-- Number of mask bits, as counted by `NewMarkBitsManager`. -/
def popcount (mask : Nat) : Nat := (positions mask).length

/-- OR of the single-bit marks `2^p` for the listed positions. -/
def orBits : List Nat → Nat
  | [] => 0
  | p :: ps => 2 ^ p ||| orBits ps

inductive AllocOp where
  | single
  | block (size : Nat)
deriving Repr, DecidableEq

/-- What an allocation call returned. -/
inductive Event where
  | single (r : Option Nat)
  | block (size mark n : Nat)
deriving Repr, DecidableEq

def Mgr.step (m : Mgr) : AllocOp → Mgr × Event
  | .single => (m.nextSingle.1, .single m.nextSingle.2)
  | .block k => ((m.nextBlock k 0 0).1, .block k (m.nextBlock k 0 0).2.1 (m.nextBlock k 0 0).2.2)

def Mgr.run (m : Mgr) : List AllocOp → Mgr × List Event
  | [] => (m, [])
  | op :: ops => (((m.step op).1.run ops).1, (m.step op).2 :: ((m.step op).1.run ops).2)

/-- The bits an event handed out (0 when it handed out nothing). -/
def Event.mark : Event → Nat
  | .single (some b) => b
  | .single none => 0
  | .block _ mark _ => mark

/-- How many bits an event reports as allocated. -/
def Event.count : Event → Nat
  | .single (some _) => 1
  | .single none => 0
  | .block _ _ n => n

end CalicoVerif.C35
